#!/bin/sh
# multiseed.sh <seeds...> : every quick check under several seeds on the tree under test (false-alarm hunt)
cd "$(dirname "$0")/.." || exit 2
bad=0
make setup > .work_setup.log 2>&1 || { echo setup failed; tail -20 .work_setup.log; exit 2; }
for seed in "$@"; do
  for i in ${MS_PROPS:-01 02 03 04 05 06 07 08 09 10 11 12 13 14 15 16 17 18 19 20}; do
    s=$(date +%s)
    VERIF_SEED=$seed ./check C$i --tier quick > .work/ms_C${i}_$seed.log 2>&1; rc=$?
    echo "seed=$seed C$i rc=$rc $(( $(date +%s)-s ))s $(grep -c VIOLATION .work/ms_C${i}_$seed.log)"
    [ $rc -ne 0 ] && { bad=1; grep -E 'VIOLATION|KNOWN' .work/ms_C${i}_$seed.log; cp .work/ms_C${i}_$seed.log ms_fail_C${i}_$seed.log; }
  done
done
exit $bad
