#!/usr/bin/env python3
"""Splices docs/STATUS.md into DESIGN.md between the STATUS markers."""
import re, os
V = os.path.dirname(os.path.dirname(os.path.abspath(__file__)))
d = open(os.path.join(V, "DESIGN.md")).read()
st = open(os.path.join(V, "docs", "STATUS.md")).read()
block = "<!-- STATUS-BEGIN -->\n" + st.rstrip() + "\n<!-- STATUS-END -->"
if "@@STATUS@@" in d:
    d = d.replace("@@STATUS@@", block)
else:
    d = re.sub(r"<!-- STATUS-BEGIN -->.*?<!-- STATUS-END -->", lambda m: block, d, flags=re.S)
open(os.path.join(V, "DESIGN.md"), "w").write(d)
