#!/bin/sh
# thorough_all.sh : every thorough check once (long); prints one line per property
cd "$(dirname "$0")/.." || exit 2
bad=0
make setup > .work_setup.log 2>&1 || { echo setup failed; tail -20 .work_setup.log; exit 2; }
for i in 01 02 03 04 05 06 07 08 09 10 11 12 13 14 15 16 17 18 19 20; do
  s=$(date +%s)
  ./check C$i --tier thorough > .work/th_C$i.log 2>&1; rc=$?
  echo "C$i rc=$rc $(( $(date +%s)-s ))s $(tail -1 .work/th_C$i.log)"
  [ $rc -ne 0 ] && { bad=1; grep -E 'VIOLATION|KNOWN' .work/th_C$i.log; cp .work/th_C$i.log th_fail_C$i.log; }
done
exit $bad
