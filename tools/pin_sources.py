#!/usr/bin/env python3
"""pin_sources.py [--check] [repo]

Records (or, with --check, compares) the sha256 of every tracked non-test source file of the tree the
models were last validated against.  The check driver uses the table to see which modelled sources
differ in the tree under test; a property whose sources changed gets a deeper correspondence run
(the tie between model and code has to be re-established for a changed source text).  A difference
is never an alarm by itself."""
import hashlib, json, os, subprocess, sys

VERIF = os.path.dirname(os.path.dirname(os.path.abspath(__file__)))
PIN = os.path.join(VERIF, "pinned_sources.json")
EXTS = (".go", ".js", ".yaml", ".yml", ".json", ".mod", ".sum")


def table(repo):
    files = subprocess.run(["git", "-C", repo, "ls-files"], stdout=subprocess.PIPE, text=True).stdout.split("\n")
    out = {}
    for f in files:
        if not f or not f.endswith(EXTS) or f.endswith("_test.go"):
            continue
        p = os.path.join(repo, f)
        if os.path.isfile(p):
            out[f] = hashlib.sha256(open(p, "rb").read()).hexdigest()
    return out


def changed(repo):
    """files of the tree under test that differ from the pinned table (modified, added, removed)"""
    if not os.path.exists(PIN):
        return None
    pin = json.load(open(PIN))["files"]
    cur = table(repo)
    # untracked new source files count as well
    extra = subprocess.run(["git", "-C", repo, "ls-files", "--others", "--exclude-standard"],
                           stdout=subprocess.PIPE, text=True).stdout.split("\n")
    for f in extra:
        if f and f.endswith(".go") and not f.endswith("_test.go") and os.path.isfile(os.path.join(repo, f)):
            cur[f] = "untracked"
    return sorted(f for f in set(pin) | set(cur) if pin.get(f) != cur.get(f))


if __name__ == "__main__":
    args = [a for a in sys.argv[1:] if not a.startswith("--")]
    repo = args[0] if args else "/repo"
    if "--check" in sys.argv:
        ch = changed(repo)
        print("\n".join(ch) if ch else "pinned sources match %s" % repo)
        sys.exit(1 if ch else 0)
    head = subprocess.run(["git", "-C", repo, "rev-parse", "HEAD"], stdout=subprocess.PIPE, text=True).stdout.strip()
    json.dump(dict(commit=head, files=table(repo)), open(PIN, "w"), indent=0, sort_keys=True)
    print("pinned", len(table(repo)), "files at", head)
