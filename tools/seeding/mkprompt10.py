import json,sys,glob,os,subprocess
pid=sys.argv[1]
titles=[]
for d in sorted(glob.glob('/verif/seeded/%s-*'%pid)+glob.glob('/tmp/seed9/%s-r9?'%pid)):
    try: titles.append(json.load(open(d+'/meta.json'))['title'])
    except Exception: pass
wt='/tmp/wt10/%s'%pid
out='/tmp/seed10/%s'%pid
base=subprocess.run(['python3','/verif/tools/seeding/mkprompt.py',pid],stdout=subprocess.PIPE,text=True).stdout
base=base.replace('/tmp/wt/%s'%pid, wt).replace('/tmp/seed5/%s-r5X'%pid, out+'-r10X').replace('/tmp/seed5/%s'%pid, out).replace('-r5X','-r10X')
a_class = ("AN ERROR PATH OR CLEANUP CHANGE: what the code does AFTER something failed or was cut short - a partial result left behind or "
  "committed, a rollback that misses one of several updates, a resource/goroutine/timer/watcher not released or released twice, an error "
  "that is swallowed, replaced by a less specific one, reported for the wrong item, or turned into success, a retry that is not idempotent, "
  "a deferred statement that now runs in the wrong order. It must leave every fault-free execution exactly as it was")
b_class = ("A LIFECYCLE / ORDERING CHANGE: the order of two steps that are individually correct (check-then-act, publish-then-initialise, "
  "unlock-then-update, notify-then-store, close-then-drain, cancel-then-wait, start-before-register), or what happens to work that is in "
  "flight when something is stopped, restarted, replaced or removed. Sequential, undisturbed use must be unaffected; the demonstration must "
  "force the disturbing event deterministically")
extra=f"""

ADDITIONAL GUIDANCE FOR THIS ROUND.
Change a must be of this kind - {a_class}.
Change b must be of this kind - {b_class}.
Earlier rounds of this experiment already produced the following changes for this property; yours must be DIFFERENT in mechanism and location (do not re-do these):
""" + "\n".join(" - "+t for t in titles) + "\nBoth changes must still be realistic: something a reviewer could accept, not sabotage; and the property as stated must really be broken (show it)."
print(base+extra)
