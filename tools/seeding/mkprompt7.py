import json,sys,glob,os
pid=sys.argv[1]
for l in open('/verif/properties.jsonl'):
    p=json.loads(l)
    if p['id']==pid: break
titles=[]
for d in sorted(glob.glob('/verif/seeded/%s-*'%pid)+glob.glob('/tmp/seed6/%s-r6?'%pid)):
    try: titles.append(json.load(open(d+'/meta.json'))['title'])
    except Exception: pass
wt='/tmp/wt7/%s'%pid
out='/tmp/seed7/%s'%pid
base=open('/verif/tools/seeding/mkprompt.py').read()
import subprocess
base=subprocess.run(['python3','/verif/tools/seeding/mkprompt.py',pid],stdout=subprocess.PIPE,text=True).stdout
base=base.replace('/tmp/wt/%s'%pid, wt).replace('/tmp/seed5/%s-r5X'%pid, out+'-r7X').replace('/tmp/seed5/%s'%pid, out).replace('-r5X','-r7X')
conc = pid in ('C03','C10','C11','C12','C14','C16','C17')
a_class = "TWO COOPERATING SITES: two (or three) small edits in different functions or files, each of which looks like a harmless refactoring/cleanup on its own and would pass review alone, but which together break the property"
if conc:
    b_class = "A PARTICULAR INTERLEAVING OR FAULT POINT: the breakage shows only when two goroutines / requests overlap at one specific point, or when a failure (an error return, a cancelled context, a failed write) strikes at one specific moment of a multi-step operation; sequential, fault-free use is unaffected. The demonstration must force that interleaving or fault deterministically (channels, hooks via exported fields, a blocking native action, closing a resource) rather than hoping for luck"
else:
    b_class = "A MULTI-STEP HISTORY: the breakage shows only after a sequence of at least THREE operations/messages/calls in a particular order (state carried from earlier steps matters: something cached, accumulated, left behind, half-updated); any single call on fresh inputs behaves correctly"
extra=f"""

ADDITIONAL GUIDANCE FOR THIS ROUND.
Change a must be of this kind — {a_class}.
Change b must be of this kind — {b_class}.
Earlier rounds of this experiment already produced the following changes for this property; yours must be DIFFERENT in mechanism and location (do not re-do these):
""" + "\n".join(" - "+t for t in titles) + "\nLook beyond the obvious functions: helper methods, host glue, loaders, (de)serialisation, defaults, rarely used exported API that the property still covers."
print(base+extra)
