import json,os,subprocess,sys
H={
 # round 8
 'C01-r8a':"missed at first; caught since the match generators use scalars that print like values of another type ('1' vs 1, 'true' vs true) and type twins as near misses",
 'C08-r8b':"missed at first; caught since the sio corpus has a burst of 1300 emissions in one ProcessMsg (model fuel 3000)",
 'C11-r8b':"missed at first; caught since jstimeout has endless scripts without a loop statement or the word function (recursion through shorthand methods, arrows, accessors)",
 'C12-r8a':"missed at first; caught since the builder's pattern values and a compiled revision's patterns are overwritten in place after Compile (compiled patterns are the specification's own)",
 'C15-r8a':"missed at first (a source that is only a name was outside the model); caught since Model/SioCrew.v has `resolves`, the recorder model the mode RNamed, and the generator name-only sources (theorem C15_unresolvable_source_inert)",
 'C15-r8b':"NOT CAUGHT: GetChanged keeps a CRC-32 of the last report instead of its text; needs two consecutive reports of one machine whose texts collide under CRC-32 (the demonstration searched for such a pair)",
 'C16-r8b':"missed at first (the fault injector closed the bolt handle directly); caught since the store also goes down through Storage.Close",
 'C17-r8a':"missed at first (requests made by a firing's handler were issued under the driver's context); caught since they travel under the context the handler was given, as Service.Process does",
 'C19-r8a':"the corpus got lines of 5000, 6000 and 20000 bytes before this change was tried (lines longer than 4 KiB were not generated before)",
 'C14-r8b':"caught at once through the model comparison; a failing input since the sio corpus has a burst of 1300 emissions",
 # round 9
 'C01-r9a':"missed at first; caught since the match corpus has wide arrays (65, 70 members) with the wanted element behind the 64th position",
 'C02-r9a':"missed at first; caught since the match corpus has wide arrays with a planted embedding at position n-2",
 'C02-r9b':"NOT CAUGHT, outside the property's domain: needs a pattern AND a message whose array members are Go ints (not JSON numbers); the unchanged matcher already treats such members differently from float64s (duplicate results), so they are no part of the model's value domain",
 'C03-r9a':"missed at first; caught since the match corpus (mode c03) has an array variable against 600 alternatives, evaluated six times",
 'C03-r9b':"missed at first; caught since C03 also evaluates values as a YAML decoder hands them over (maps keyed by interface{} with keys that print alike) and demands the same outcome every time",
 'C04-r9a':"missed at first (every long text was one token for the comparison); caught since a long thrown text that lost part of itself is another value",
 'C04-r9b':"missed at first; caught since every fifth generated specification uses the json pattern syntax, its patterns given as JSON text or as native values with ints",
 'C05-r9a':"missed at first; caught since the walk corpus has 700-message batches over 1400 steps (and a limit striking mid-batch)",
 'C05-r9b':"missed at first; caught since specifications without interpreted code are also walked under a context that is over already",
 'C06-r9a':"missed at first; caught since generated states carry a nested history of failures (lastBindings two levels deep)",
 'C06-r9b':"missed at first; caught since C06 also runs the jsiso cases (scripts writing into bindings JSON cannot encode) with the oracle 'the caller's bindings are what they were'",
 'C07-r9a':"missed at first; caught since the walk corpus has a pattern matching in 300 ways under two declining guards",
 'C07-r9b':"missed at first; caught since the total component decodes specification documents with gopkg.in/yaml.v2 and keys YAML does not read as strings (1, on, ~, 2.5)",
 'C08-r9a':"missed at first (the emitted lists agreed: the model said 'completed, 4100 messages'); caught since the walk corpus has an action handing over 4100 messages and the C08 oracles demand that a stride recording an action failure reports no message",
 'C08-r9b':"missed at first; caught since scripts return values that are no plain object (ArrayBuffer, Proxy, Promise)",
 'C09-r9b':"missed at first; caught since the persist component checks that emitted messages are canonical data too",
 'C10-r9a':"missed at first; caught since in jsiso another host compiles the same source under the same interpreter name with an extended interpreter first, and probes read extended-only members",
 'C11-r9a':"missed at first; caught since jstimeout has a program whose termination depends on the bindings, run after a hundred quick runs of the same compiled program",
 'C12-r9a':"missed at first; caught since specshare has a crowd of a hundred machines inside (slow) interpreted actions of one specification at once",
 'C12-r9b':"missed at first; caught since specswap probes the first installation into a Specter that holds no specification, under concurrent readers",
 'C13-r9a':"reported at first only by a false alarm of the check itself (the look-alike scalar '<nil>' in the plain JSON-text correspondence; corrected) and missed without it; caught since the mcrew operation sequences, with a specification file of 1.3 MB read through Service.GetSpec, also run for C13",
 'C13-r9b':"reported at first only by the same false alarm and missed without it; caught since the compile component has sio loaders by file:// URL with a JSON and a YAML body",
 'C15-r9b':"missed at first; caught since crew snapshots demand canonical Go types of every machine's bindings, also in the crew booted from the store",
 'C17-r9b':"NOT CAUGHT: needs a host that renames sio.TimersMachine (a package variable no host in the repository changes)",
 'C18-r9a':"missed at first; caught since c18 states sometimes carry 6-11 permanent bindings",
 'C18-r9b':"missed at first; caught since generated action sources sometimes carry a binds declaration",
 'C19-r9a':"missed at first; caught since the expect corpus has steps with 70 outputs",
 'C19-r9b':"missed at first; caught since the expect corpus has a process that ends cleanly (head -n k) while expectations are open",
 'C20-r9a':"missed at first; caught since the tools corpus has a specification with 521 branches",
 # round 10
 'C03-r10a':"NOT CAUGHT, outside the property's domain: needs a message whose own data looks like a malformed pattern (a key beginning with '?') or a json.Number; C01-C03 quantify over messages and bound values in which no string begins with '?'",
 'C03-r10b':"NOT CAUGHT: the change adds a new feature (Modes: [\"exclusive\"] reorders the shared branch list); no generated specification uses that mode",
 'C04-r10b':"missed at first; caught since every sixth generated specification goes through a failed forced recompilation after the successful one (strengthened after reading the description, before the first test with the new code; the earlier code missed it)",
 'C06-r10a':"missed at first (diagnostic texts were one token for the repeat comparison too); caught since two identical calls must give identical diagnostic texts",
 'C06-r10b':"missed at first (a field added to Walked is invisible to probes that name fields); caught since results are scanned by reflection for the caller's *State and bindings map",
 'C07-r10b':"missed at first; caught since the host empties its interpreter registry after compiling",
 'C09-r10b':"NOT CAUGHT: Stdio.Stop writes the state file before waiting for the output goroutine; needs a Result in flight at Stop (a writer that holds a line while Stop is called)",
 'C10-r10a':"missed at first; caught since jsiso hands over a source that does not compile after a good one, three times (nothing of an earlier program runs in its place)",
 'C10-r10b':"missed at first; caught since jsiso runs overlapping executions whose returned object has a getter that reads the environment object during export",
 'C11-r10a':"missed at first; caught since jstimeout has the shapes throw-tostring-loop / getter-throw-tostring-loop - adding them exposed the genuine defect D58 in the unchanged code (repaired, e791252); the change was re-made on top of the repair",
 'C12-r10a':"missed at first (no generated specification named its own error node); caught since some do (Spec.ErrorNode = 'oops')",
 'C13-r10a':"missed at first; caught since the compile component has a loader whose first compilation fails at a broken pattern text, which is then corrected in the same value",
 'C13-r10b':"missed at first; caught since the mcrew operation sequences end with a probe that edits an %inline'd file while the service runs",
 'C14-r10a':"missed at first (mcrewroute crews had no store); caught since every fifth crew has a store that is down while the message and its offspring are processed",
 'C15-r10a':"missed at first; caught since the probe at the end of every sio history has one uncompilable specification among seven good updates and demands that the crew reports exactly what it did",
 'C15-r10b':"missed at first; caught since the sio timer scenarios (C17's) also run for C15",
 'C18-r10b':"NOT CAUGHT: FuncAction.Exec gathers the permanent bindings from the caller's map after the action returned; shows only when the owner of the state changes its map while the call is in flight",
 'C20-r10a':"missed at first; caught since uncompiled tools specifications sometimes carry a mistyped branching type",
 'C08-r10a':"caught at once; re-made on top of the repair D58 afterwards and caught again",
 # round 11 (an interaction of two features)
 'C17-r11a':"missed at first; caught since the sio timer scenarios have rejected makeTimer requests (unparsable delay) under the id of a pending timer, in the main goroutine, inside handlers and before restarts: the snapshot after the request is compared with the model's pending set",
 'C12-r11a':"missed at first; caught (race detector report as the replay, no-failing-input-found) since the specswap host also prepares a revision that keeps its sources - Spec.Copy shares the guards' *ActionSource with the version in use - and compiles it from source under another interpreter installed for the same name, while walkers run the version in use",
 'C02-r11a':"reported at first through the model comparison only (no-failing-input-found: the C02 oracle used the plain embedding relation); caught with a failing input since the oracle also applies C02_match_complete_optional (c02_pre_opt / embeds_opt) and the generator plants assignments around an optional variable beside structured elements",
}
for d in sys.argv[1:]:
    n=os.path.basename(d.rstrip('/'))
    r='/tmp/seed5/result_%s.json'%n
    if not os.path.exists(r): print('no result',n); continue
    res=json.load(open(r))
    rt='/tmp/seed5/retest_%s.json'%n
    if (not res.get('detected_by') or n in ('C13-r9a','C13-r9b','C02-r11a')) and os.path.exists(rt):
        try:
            r2=json.load(open(rt))
            if r2.get('detected_by'):
                res['detected_by']=r2['detected_by']; res['checks']=r2['checks']
        except Exception as e: print('bad retest',n,e)
    tmp='/tmp/seed5/merged_%s.json'%n
    json.dump(res,open(tmp,'w'))
    cmd=['python3','/verif/tools/keepseed.py',d,tmp]+([H[n]] if n in H else [])
    print(subprocess.run(cmd,stdout=subprocess.PIPE,text=True).stdout.strip())
