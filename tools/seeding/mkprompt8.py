import json,sys,glob,os,subprocess
pid=sys.argv[1]
titles=[]
for d in sorted(glob.glob('/verif/seeded/%s-*'%pid)+glob.glob('/tmp/seed7/%s-r7?'%pid)):
    try: titles.append(json.load(open(d+'/meta.json'))['title'])
    except Exception: pass
base=subprocess.run(['python3','/verif/tools/seeding/mkprompt.py',pid],stdout=subprocess.PIPE,text=True).stdout
base=base.replace('/tmp/wt/%s'%pid, '/tmp/wt8/%s'%pid).replace('/tmp/seed5/%s-r5X'%pid, '/tmp/seed8/%s-r8X'%pid).replace('/tmp/seed5/%s'%pid, '/tmp/seed8/%s'%pid).replace('-r5X','-r8X')
extra="\n\nEarlier rounds of this experiment already produced the following changes for this property; yours must be DIFFERENT in mechanism (do not re-do these):\n"+"\n".join(" - "+t for t in titles)
print(base+extra)
