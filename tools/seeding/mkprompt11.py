import json,sys,glob,os,subprocess
pid=sys.argv[1]
titles=[]
for d in sorted(glob.glob('/verif/seeded/%s-*'%pid)):
    try: titles.append(json.load(open(d+'/meta.json'))['title'])
    except Exception: pass
wt='/tmp/wt11/%s'%pid
out='/tmp/seed11/%s'%pid
base=subprocess.run(['python3','/verif/tools/seeding/mkprompt.py',pid],stdout=subprocess.PIPE,text=True).stdout
base=base.replace('/tmp/wt/%s'%pid, wt).replace('/tmp/seed5/%s-r5X'%pid, out+'-r11X').replace('/tmp/seed5/%s'%pid, out).replace('-r5X','-r11X')
a_class = ("AN INTERACTION BETWEEN TWO FEATURES that are each handled correctly alone: the change touches the place where two documented features "
  "meet (for instance an optional pattern variable inside an array, an inequality variable together with a permanent binding, a guard on a branch "
  "of the error node, a timer created by a machine that is then re-specified, an expectation with both a guard and an inverted flag, a rendering "
  "option combined with a node that has no branches) and is wrong only when both are used together in one input")
extra=f"""

ADDITIONAL GUIDANCE FOR THIS ROUND.
Deliver ONE change only (directory suffix -r11a; no change b). You have about 12 minutes of wall time: pick something small, confirm it, write the files, stop.
The change must be of this kind - {a_class}.
Earlier rounds of this experiment already produced the following changes for this property; yours must be DIFFERENT in mechanism and location (do not re-do these):
""" + "\n".join(" - "+t for t in titles) + "\nThe change must still be realistic: something a reviewer could accept, not sabotage; and the property as stated must really be broken (show it)."
print(base+extra)
