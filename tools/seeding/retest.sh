#!/bin/sh
# retest.sh <mutant dirs...>: skip-confirm seedtest from /verif, one-line summaries
rsync -a --delete --exclude .git /verif/ /tmp/vs3/
for d in "$@"; do
  python3 /tmp/vs3/tools/seedtest.py $d --skip-confirm > /tmp/seed5/retest_$(basename $d).json 2>/dev/null
  python3 - $d <<'PY'
import json,sys,os
n=os.path.basename(sys.argv[1])
try:
    r=json.load(open('/tmp/seed5/retest_%s.json'%n))
    print(n, r.get('detected_by'), [ (c['tail'],[l[:140] for l in c['lines'] if 'KNOWN' not in l]) for p,c in r['checks'].items()])
except Exception as e: print(n,'ERROR',e)
PY
done
