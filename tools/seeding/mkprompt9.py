import json,sys,glob,os,subprocess
pid=sys.argv[1]
titles=[]
for d in sorted(glob.glob('/verif/seeded/%s-*'%pid)+glob.glob('/tmp/seed8/%s-r8?'%pid)):
    try: titles.append(json.load(open(d+'/meta.json'))['title'])
    except Exception: pass
wt='/tmp/wt9/%s'%pid
out='/tmp/seed9/%s'%pid
base=subprocess.run(['python3','/verif/tools/seeding/mkprompt.py',pid],stdout=subprocess.PIPE,text=True).stdout
base=base.replace('/tmp/wt/%s'%pid, wt).replace('/tmp/seed5/%s-r5X'%pid, out+'-r9X').replace('/tmp/seed5/%s'%pid, out).replace('-r5X','-r9X')
a_class = ("A WELL-MEANT OPTIMISATION OR RESOURCE GUARD: the kind of change a maintainer makes for speed, memory or robustness - "
  "a cache or memo keyed by something that is not quite the identity of the thing cached, a fast path for the 'common case' with an unsound test for it, "
  "reuse/pooling of a buffer, map or object that a caller may still hold, batching/chunking of work that was atomic, lazy initialisation, "
  "a limit on a queue/size/depth/count that silently truncates, drops or stops instead of reporting, an early exit that skips a needed step. "
  "It must manifest only at a boundary (a size, count, length, depth, repetition or collision) that ordinary small inputs do not reach")
b_class = ("A CHANGE IN DEFAULTS, CONFIGURATION OR CONVERSION GLUE: how an option, a zero value, a nil versus empty value, a missing field, a type produced by one decoder "
  "rather than another (YAML vs JSON, int vs float64, []string vs []interface{}, map[interface{}]interface{}), an error that is wrapped/translated/swallowed, "
  "or a context/deadline/ctl value is defaulted, propagated or converted on the way into or out of the code the property covers; ordinary inputs built the usual way are unaffected")
extra=f"""

ADDITIONAL GUIDANCE FOR THIS ROUND.
Change a must be of this kind - {a_class}.
Change b must be of this kind - {b_class}.
Earlier rounds of this experiment already produced the following changes for this property; yours must be DIFFERENT in mechanism and location (do not re-do these):
""" + "\n".join(" - "+t for t in titles) + "\nBoth changes must still be realistic: something a reviewer could accept, not sabotage; and the property as stated must really be broken (show it)."
print(base+extra)
