#!/bin/sh
# runq.sh <mutant dirs...>: refresh the seed-test copy of /verif and run seedtest on each mutant serially
rsync -a --delete --exclude .git /verif/ ${VS:-/tmp/vs}/
for d in "$@"; do
  name=$(basename $d)
  python3 ${VS:-/tmp/vs}/tools/seedtest.py $d > /tmp/seed5/result_$name.json 2>/tmp/seed5/result_$name.err
  python3 - "$name" <<'PY'
import json,sys
n=sys.argv[1]
try:
    r=json.load(open('/tmp/seed5/result_%s.json'%n))
    print(n, 'confirmed=',r.get('confirmed'), 'clean',r.get('demo_clean_rc'),'suite',r.get('suite_ok'),'mut',r.get('demo_mutant_rc'), 'detected=',r.get('detected_by'), {p:(c['tail'],c['lines']) for p,c in r['checks'].items()})
except Exception as e:
    print(n,'ERROR',e)
PY
done
