import json,os,subprocess,glob
H={
 'C04-r5a':"missed at first (the step was order-dependent, hence not compared); caught since every compiled guard is wrapped in a logger and glog_ok / replay_agrees check the calls the implementation made",
 'C07-r5b':"missed at first (every endless script was stopped by a deadline); caught since step/walk contexts also end by cancellation without a deadline (hang watchdog)",
 'C10-r5b':"missed at first (props were nil or non-empty); caught since generators hand over empty non-nil props and scripts assign to top-level props members",
 'C11-r5a':"missed at first; caught since jstimeout cancels contexts that also carry a far deadline",
 'C11-r5b':"missed at first; caught since jsroute has an endless guard on the error-handling branch (variant errbranches-guard)",
 'C13-r5a':"missed at first; caught since the compile component renders Go-native inline pattern types (int, []string, map[string]string) under patternSyntax json",
 'C13-r5b':"missed at first; caught since hosts that lack the interpreter are compiled after the same sources compiled for hosts that know it",
 'C14-r5b':"missed at first; caught since mcrewroute builds its crews by add/remove histories",
 'C19-r5a':"reported at first only through the model/implementation comparison (no-failing-input-found, after a long search); now a failing input: the oracle demands a JSON line for every step (session_sound_nv_b)",
 'C18-r5b':"reported at first as no-failing-input-found (the constant translator could not read isPermanent any more); now a failing input: the bare sigil '!' is in the permanent-key vocabulary",
 'C03-r6a':"missed at first; caught since the match component generates patterns that are invalid at one key and merely non-matching at another",
 'C05-r6a':"missed at first (the harness derived final state and emissions from the strides); caught since Walked.To / From / DoEmitted are observed and used for the split comparison",
 'C06-r6a':"missed at first; caught since states carry the numeric bounds of the inequality variables of their node's patterns",
 'C06-r6b':"missed at first; caught since some C06 runs turn Exp_PermanentBindings off",
 'C07-r6b':"missed at first; caught since the total component decodes a revision of the document into the compiled Spec value and compiles again (with and without force)",
 'C08-r6a':"missed at first; caught since actions emit a part of the bindings and then change it in place (emitb; poke)",
 'C08-r6b':"missed at first; caught since every other sio crew runs under a step limit of 2 (walks end Limited right after the action)",
 'C09-r6a':"missed at first; caught since throwing actions produce long non-ASCII diagnostics and the persist component checks that every string of a reached state is valid UTF-8 (and every number writable)",
 'C10-r6a':"missed at first; caught since every jsiso case also executes a script against bindings JSON cannot write (NaN, Inf) and checks the caller's objects",
 'C12-r6b':"missed at first; caught since the swap writers also prepare revisions the way a host does (Spec.Copy, edit, Compile) while the installed version serves",
 'C14-r6a':"missed at first; caught since every other submitted message with an all-string routing list is handed over as []string",
 'C14-r6b':"missed at first; caught (through the model comparison) since mcrewroute crews sometimes contain a machine whose specification cannot be loaded",
 'C16-r6b':"missed at first (the window is too small for a non-linearisable history to show); caught since the quick tier runs the concurrent clients under the race detector",
}

H.update({
 'C18-r6a':"missed at first (no concurrency in C18's runs); caught since C18 (and C10) also run the shared-spec component with walkers that each carry their own permanent bindings",
 'C19-r6a':"missed at first; caught since passed sessions are run a second time (an output met in an earlier run is not met again)",
 'C01-r7b':"missed at first; caught since the judged evaluation of every match case works on storage recycled from the previous case (same backing arrays and map objects, other contents)",
 'C04-r7b':"missed at first; caught since every fourth specification of the engine components is compiled with the no-op interpreters first (a tool's dry run)",
 'C08-r7a':"missed at first; caught since the walk cases carry the agreement of Walked.To/From/DoEmitted with the strides and the C08 oracle uses it",
 'C08-r7b':"missed at first; caught since scripts re-emit the very same object after changing it",
 'C09-r7a':"missed at first; caught since C09 also runs the sio crew histories with idle Stdio sessions between the folds",
 'C09-r7b':"missed at first; caught since C09 also runs the mcrew operation sequences (memory vs bolt store after every operation)",
 'C10-r7a':"missed at first; caught since every jsiso case also executes a script without any assignment operator that changes what it reaches through built-in methods",
 'C10-r7b':"missed at first; caught since C10 also runs the shared-spec component with per-walker permanent bindings",
 'C11-r7b':"missed at first; caught since jstimeout runs late joiners: an endless script started under a context that has ended while an earlier execution under the same context is still held in a native call",
 'C12-r7a':"missed at first; caught since the swap writers also compile a copy with an added action node without force and the compiled copy must not report an uncompiled action",
 'C13-r7a':"missed at first; caught since the compile component hands sio a Go-typed source whose inline specification went through a no-op dry run",
 'C13-r7b':"missed at first; caught since the compile component compiles a text-pattern specification unsuccessfully first (no interpreters) and then successfully on the same value",
 'C16-r7a':"missed at first; caught since mcrewseq has machines whose next state loses a binding",
 'C16-r7b':"missed at first; caught since add/rem operations are also issued under an already cancelled context",
 'C17-r7b':"missed at first; caught since the mcrew timers run has two requesters make the same id at the same moment (exactly one acceptance)",
 'C20-r7b':"missed at first; caught since one MermaidOpts value is shared by consecutive renderings",
 'C03-r7b':"NOT CAUGHT: the change adds a new feature (Modes: [\"strict\"] flips DefaultMatcher's switches while a guard runs); no generated specification uses that mode",
 'C05-r7b':"NOT CAUGHT: a per-Spec cache of action-less bindings nodes at which an earlier machine was stuck; needs a later machine to arrive there with bindings that match, as the last message of its batch",
 'C12-r7b':"NOT CAUGHT: the change adds a new feature (Modes: [\"exclusive\"]) with a hint stored in the shared specification; no generated specification uses that mode",
 'C16-r6a':"NOT CAUGHT: needs more than 64 machines changed by one operation and a failure inside a later slice of the split write",
})

import sys
for d in sys.argv[1:]:
    n=os.path.basename(d.rstrip('/'))
    r='/tmp/seed5/result_%s.json'%n
    if not os.path.exists(r): print('no result',n); continue
    cmd=['python3','/verif/tools/keepseed.py',d,r]+([H[n]] if n in H else [])
    print(subprocess.run(cmd,stdout=subprocess.PIPE,text=True).stdout.strip())
