import json,os,subprocess,glob
H={
 'C04-r5a':"missed at first (the step was order-dependent, hence not compared); caught since every compiled guard is wrapped in a logger and glog_ok / replay_agrees check the calls the implementation made",
 'C07-r5b':"missed at first (every endless script was stopped by a deadline); caught since step/walk contexts also end by cancellation without a deadline (hang watchdog)",
 'C10-r5b':"missed at first (props were nil or non-empty); caught since generators hand over empty non-nil props and scripts assign to top-level props members",
 'C11-r5a':"missed at first; caught since jstimeout cancels contexts that also carry a far deadline",
 'C11-r5b':"missed at first; caught since jsroute has an endless guard on the error-handling branch (variant errbranches-guard)",
 'C13-r5a':"missed at first; caught since the compile component renders Go-native inline pattern types (int, []string, map[string]string) under patternSyntax json",
 'C13-r5b':"missed at first; caught since hosts that lack the interpreter are compiled after the same sources compiled for hosts that know it",
 'C14-r5b':"missed at first; caught since mcrewroute builds its crews by add/remove histories",
 'C19-r5a':"reported at first only through the model/implementation comparison (no-failing-input-found, after a long search); now a failing input: the oracle demands a JSON line for every step (session_sound_nv_b)",
 'C18-r5b':"reported at first as no-failing-input-found (the constant translator could not read isPermanent any more); now a failing input: the bare sigil '!' is in the permanent-key vocabulary",
 'C03-r6a':"missed at first; caught since the match component generates patterns that are invalid at one key and merely non-matching at another",
 'C05-r6a':"missed at first (the harness derived final state and emissions from the strides); caught since Walked.To / From / DoEmitted are observed and used for the split comparison",
 'C06-r6a':"missed at first; caught since states carry the numeric bounds of the inequality variables of their node's patterns",
 'C06-r6b':"missed at first; caught since some C06 runs turn Exp_PermanentBindings off",
 'C07-r6b':"missed at first; caught since the total component decodes a revision of the document into the compiled Spec value and compiles again (with and without force)",
 'C08-r6a':"missed at first; caught since actions emit a part of the bindings and then change it in place (emitb; poke)",
 'C08-r6b':"missed at first; caught since every other sio crew runs under a step limit of 2 (walks end Limited right after the action)",
 'C09-r6a':"missed at first; caught since throwing actions produce long non-ASCII diagnostics and the persist component checks that every string of a reached state is valid UTF-8 (and every number writable)",
 'C10-r6a':"missed at first; caught since every jsiso case also executes a script against bindings JSON cannot write (NaN, Inf) and checks the caller's objects",
 'C12-r6b':"missed at first; caught since the swap writers also prepare revisions the way a host does (Spec.Copy, edit, Compile) while the installed version serves",
 'C14-r6a':"missed at first; caught since every other submitted message with an all-string routing list is handed over as []string",
 'C14-r6b':"missed at first; caught (through the model comparison) since mcrewroute crews sometimes contain a machine whose specification cannot be loaded",
 'C16-r6b':"missed at first (the window is too small for a non-linearisable history to show); caught since the quick tier runs the concurrent clients under the race detector",
}
import sys
for d in sys.argv[1:]:
    n=os.path.basename(d.rstrip('/'))
    r='/tmp/seed5/result_%s.json'%n
    if not os.path.exists(r): print('no result',n); continue
    cmd=['python3','/verif/tools/keepseed.py',d,r]+([H[n]] if n in H else [])
    print(subprocess.run(cmd,stdout=subprocess.PIPE,text=True).stdout.strip())
