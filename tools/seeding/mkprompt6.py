import json,sys,glob,os
pid=sys.argv[1]; focus=sys.argv[2] if len(sys.argv)>2 else ''
for l in open('/verif/properties.jsonl'):
    p=json.loads(l)
    if p['id']==pid: break
titles=[]
for d in sorted(glob.glob('/verif/seeded/%s-*'%pid)+glob.glob('/tmp/seed5/%s-r5?'%pid)):
    try: titles.append(json.load(open(d+'/meta.json'))['title'])
    except Exception: pass
wt='/tmp/wt6/%s'%pid
out='/tmp/seed6/%s'%pid
base=open('/tmp/seed5/prompt_%s.txt'%pid).read()
base=base.replace('/tmp/wt/%s'%pid, wt).replace('/tmp/seed5/%s-r5X'%pid, out+'-r6X').replace('/tmp/seed5/%s'%pid, out).replace('-r5X','-r6X')
extra="\n\nADDITIONAL GUIDANCE FOR THIS ROUND. Earlier rounds of this experiment already produced the following changes for this property; yours must be DIFFERENT in mechanism and preferably in location (do not re-do these):\n"+"\n".join(" - "+t for t in titles)
if focus:
    extra+="\nPreferred hunting ground this round (not exclusive): "+focus+". Think about the less obvious code paths: glue code, loaders, persistence, helper methods, boundary conditions, unusual but legal inputs, sequences of three or more operations."
print(base+extra)
