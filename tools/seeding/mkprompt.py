import json,sys
pid=sys.argv[1]
for l in open('/verif/properties.jsonl'):
    p=json.loads(l)
    if p['id']==pid: break
wt='/tmp/wt/%s'%pid
out='/tmp/seed5/%s'%pid
print(f"""You are helping test a verification effort for the open-source Go project Comcast/sheens (message-processing state machines). Your job: write TWO independent, realistic code changes (mutations) to the project, each of which BREAKS the semantic property stated below, while the project still compiles and its whole existing test suite still passes. Each change must come with a demonstration (a Go test or small program) that FAILS with the change applied and PASSES on the unmodified tree.

Your private scratch git worktree of the repository is at {wt} (detached HEAD of the project). Work ONLY there. Do not look at or touch /repo or /verif (off limits; looking there would spoil the experiment). Before every go command run: export GOFLAGS=-mod=mod GOPROXY=off GOSUMDB=off GOTOOLCHAIN=local   (the sandbox has no network; env resets per shell call).

THE PROPERTY ({pid}): {p['title']}
Statement: {p['statement']}
Scope of quantification: {p['quantifier']['text']}
Code areas involved: {', '.join(p['anchors']['files'])}

Requirements for each change:
1. It is the kind of change a developer could plausibly make (a refactoring, an optimisation, a fast path, a caching layer, a reordered statement, a changed boundary condition, a removed copy, a lock narrowed, error handling 'simplified' ...), not an obvious sabotage; keep it small (typically 3-40 lines in the non-test Go sources).
2. It must need something SPECIFIC to manifest: a particular interleaving, a fault at a particular point, a multi-step sequence of operations, an unusual input shape, or two cooperating sites that each look fine alone. Ordinary use and the existing tests must NOT expose it.
3. With the change applied, `go build ./... && go test -vet=off -count=1 -timeout 20m ./...` run in the worktree root must pass completely (run it and check!).
4. The two changes must use different mechanisms and preferably different functions/files among the code areas involved.
5. Do not modify any existing test file or test data. Do not add build tags. Do not change go.mod.

Deliverables: for each change X in {{a, b}} create directory {out}-r5X/ containing
  - patch.diff : output of `git diff` in the worktree for the change to non-test sources only (must apply with `git apply` to a clean checkout of the same HEAD)
  - the demonstration: one file named demo_test.go (a Go test meant to be copied into one package directory of the repo as zz_demo_test.go; give it the right `package` clause; test function names must start with TestDemo) 
  - demo.txt : the exact shell commands, one per line, relative to the repo root, that copy and run the demonstration, e.g.
        cp demo_test.go match/zz_demo_test.go
        go test -vet=off -count=1 -run TestDemo ./match
    (only `cp` and `go test` lines; the last command must exit non-zero with the change and zero without it; always pass -timeout to go test if a hang is possible)
  - meta.json : {{"property": "{pid}", "title": "<one line>", "what_breaks": "<how the property fails>", "needs_to_manifest": "<the specific trigger>", "files_changed": [...], "author_ran": ["<commands you ran and their outcome>"]}}
The demonstration must be deterministic (or very nearly: >95% failing with the change, never failing without it).

Procedure: make change a in the worktree, run build + full test suite, write and run the demo (fails), save `git diff` of the non-test sources to patch.diff, then `git stash -u` or `git checkout -- . && git clean -fd` to get back to the clean tree, verify the demo PASSES on the clean tree; then do change b the same way. Leave the worktree clean at the end (git status empty). Finally report, for each change, a 3-line summary (what, trigger, commands run with results). If after honest effort you cannot find a second viable change, deliver one and say so.""")
