#!/usr/bin/env python3
"""addfindings.py <file.json> id=commit ... : merge a builder's known_findings_add.json into known_findings.json"""
import json, sys
k = json.load(open('/verif/known_findings.json'))
add = json.load(open(sys.argv[1]))
commits = dict(a.split('=') for a in sys.argv[2:])
have = {(f['property'], f['id']) for f in k['findings']}
for f in add.get('findings', add if isinstance(add, list) else []):
    if (f['property'], f['id']) in have:
        continue
    if f.get('status') == 'fixed':
        f['commit'] = commits.get(f['id'], f.get('commit'))
    k['findings'].append(f)
open('/verif/known_findings.json', 'w').write('{\n "findings": [\n' + ',\n'.join('  ' + json.dumps(f) for f in k['findings']) + '\n ]\n}\n')
print(len(k['findings']), 'findings')
