#!/usr/bin/env python3
"""Regenerates /verif/MANIFEST.json from checklib/props.py (claimed checks) and
checklib/manifest_texts.py (level texts, not_applicable)."""
import json, os, sys
VERIF = os.path.dirname(os.path.dirname(os.path.abspath(__file__)))
sys.path.insert(0, VERIF)
from checklib.props import PROPS
from checklib.manifest_texts import TEXTS, NOT_APPLICABLE, HOOK_COMMITS

BASELINE = json.load(open("/root/.vp/BASELINE.json"))["cmd"] if os.path.exists("/root/.vp/BASELINE.json") else ""
ids = [l and json.loads(l)["id"] for l in open(os.path.join(VERIF, "properties.jsonl")) if l.strip()]
checks = []
for pid in ids:
    if pid not in PROPS or pid not in TEXTS:
        continue
    t = TEXTS[pid]
    checks.append({
        "property_id": pid,
        "quick_cmd": "./check %s --tier quick" % pid,
        "thorough_cmd": "./check %s --tier thorough" % pid,
        "evidence_file": "evidence/%s.json" % pid,
        "replay_cmd_template": "./check %s --replay {path}" % pid,
        "engine": "coq-model",
        "level_claimed": {"category": "proof", "text": t["text"], "design_ref": t.get("design_ref", "DESIGN.md section 5 " + pid)},
        "level_note": t["note"],
        "technique": t.get("technique", "Coq (Rocq 8.16.1) theorems about an executable Gallina model + differential correspondence check of that model against the Go code on every run"),
    })
claimed = [c["property_id"] for c in checks]
na = [dict(property_id=p, reason=r) for p, r in NOT_APPLICABLE.items() if p not in claimed]
for pid in ids:
    if pid not in claimed and pid not in NOT_APPLICABLE:
        na.append(dict(property_id=pid, reason="not yet claimed: the model and correspondence for this property are under construction (see DESIGN.md status table)"))
man = {
    "version": 1,
    "setup_cmd": "make -C /verif setup",
    "hooks": {
        "guard": "verif",
        "enable": "no hook is compiled into /repo: package-internal access (cmd/mcrew, sio internals) uses `go test -tags verif -overlay` with add-only test files kept under /verif/harness/overlay",
        "baseline_off_cmd": BASELINE,
        "source_commits": HOOK_COMMITS,
        "add_only": True,
    },
    "engines": [
        {"name": "coq-model", "path": "coq", "serves_properties": claimed, "kind_free_text": "Coq 8.16.1 models (Model/), specifications (Spec/), proofs (Proofs/), property theorems (Properties/), oracles and correspondence functions (Corr/)"},
        {"name": "go-harness", "path": "harness", "serves_properties": claimed, "kind_free_text": "Go correspondence harness built against /repo's working tree on every check; writes cases_*.v evaluated by coqc with vm_compute"},
    ],
    "checks": checks,
    "not_applicable": na,
    "notes": "All checks: ./check <id> --tier quick|thorough. Known findings: known_findings.json. Seeded changes used to test the checks: seeded/.",
}
json.dump(man, open(os.path.join(VERIF, "MANIFEST.json"), "w"), indent=1)
print("claimed:", " ".join(claimed)); print("not claimed:", " ".join(x["property_id"] for x in na))
