#!/usr/bin/env python3
"""seedtest.py <mutant-dir> [--props C01,C02] [--tier quick] [--skip-confirm]

Confirms a seeded change (patch.diff + demonstration + demo.txt) in a scratch
worktree of /repo - compiles, existing suite passes, demonstration fails with
the patch and passes without - and then runs the registered checks against that
worktree (VERIF_REPO), never touching /repo.  Prints one JSON line with the
outcome; the worktree is removed afterwards."""
import argparse, json, os, re, shutil, subprocess, sys, time

VERIF = os.path.dirname(os.path.dirname(os.path.abspath(__file__)))
ENV = dict(os.environ, GOFLAGS="-mod=mod", GOPROXY="off", GOSUMDB="off", GOTOOLCHAIN="local")


def sh(cmd, cwd, timeout=2400, env=None):
    p = subprocess.run(cmd, cwd=cwd, shell=True, env=env or ENV, timeout=timeout,
                       stdout=subprocess.PIPE, stderr=subprocess.STDOUT, text=True)
    return p.returncode, p.stdout


def demo_cmds(mdir):
    txt = open(os.path.join(mdir, "demo.txt")).read()
    cmds = []
    for line in txt.splitlines():
        l = line.strip().strip("`")
        if l.startswith("$ "):
            l = l[2:]
        if re.match(r"^(cp |go test|go run|cd |mkdir )", l) and "export " not in l:
            l = l.replace("<repo>/", "").replace("cd <repo> && ", "").replace("cd <repo>; ", "")
            if l.strip() in ("cd <repo>", ""):
                continue
            cmds.append(l)
    return cmds


def main():
    ap = argparse.ArgumentParser()
    ap.add_argument("mdir")
    ap.add_argument("--props")
    ap.add_argument("--tier", default="quick")
    ap.add_argument("--skip-confirm", action="store_true")
    ap.add_argument("--keep", action="store_true")
    a = ap.parse_args()
    mdir = os.path.abspath(a.mdir)
    meta = json.load(open(os.path.join(mdir, "meta.json")))
    props = a.props.split(",") if a.props else [meta["property"]]
    wt = "/tmp/seedtest-%d" % os.getpid()
    res = dict(mutant=mdir, property=meta["property"], title=meta.get("title"))
    sh("git -C /repo worktree add --detach %s HEAD" % wt, "/")
    try:
        files = [f for f in os.listdir(mdir) if f not in ("patch.diff", "meta.json", "demo.txt") and not f.endswith(".diff")]
        cmds = demo_cmds(mdir)
        res["demo_cmds"] = cmds

        if not any(c.startswith("cp ") for c in cmds):
            # no copy command given: place each *_test.go into the package the go test command names
            pk = None
            for c in cmds:
                m = re.search(r"\s(\./[\w./-]+)\s*$", c)
                if m:
                    pk = m.group(1)
            if pk:
                cmds = ["cp %s %s/zz_%s" % (f, pk, f) for f in files if f.endswith("_test.go")] + cmds
                res["demo_cmds"] = cmds

        def run_demo():
            for f in files:
                src = os.path.join(mdir, f)
                if os.path.isdir(src):
                    shutil.copytree(src, os.path.join(wt, f), dirs_exist_ok=True)
                else:
                    shutil.copy(src, os.path.join(wt, f))
            rc, out = sh(" && ".join(cmds), wt, timeout=1200)
            sh("git clean -fdq", wt)
            return rc, out[-1500:]

        if not a.skip_confirm:
            rc, out = run_demo()
            res["demo_clean_rc"] = rc
            if rc != 0:
                res["demo_clean_out"] = out
        rc, out = sh("git apply %s" % os.path.join(mdir, "patch.diff"), wt)
        if rc != 0:
            # the patch was written against an earlier HEAD of /repo (before later fix: commits): merge it
            rc, out = sh("git apply --3way %s && git reset -q" % os.path.join(mdir, "patch.diff"), wt)
            res["applied_3way"] = True
        res["apply_rc"] = rc
        if rc != 0:
            res["apply_out"] = out
        if not a.skip_confirm:
            rc, out = sh("go build ./... && go test -vet=off -count=1 -timeout 20m ./... 2>&1 | tail -15", wt)
            res["suite_rc"] = rc
            res["suite_ok"] = rc == 0 and "FAIL" not in out
            if not res["suite_ok"]:
                res["suite_out"] = out[-1500:]
            rc, out = run_demo()
            res["demo_mutant_rc"] = rc
            res["confirmed"] = (res.get("demo_clean_rc") == 0 and rc != 0 and res["suite_ok"] and res["apply_rc"] == 0)
        res["checks"] = {}
        for p in props:
            t0 = time.time()
            rc, out = sh("./check %s --tier %s" % (p, a.tier), VERIF, env=dict(os.environ, VERIF_REPO=wt), timeout=7200)
            lines = [l for l in out.splitlines() if l.startswith(("VIOLATION", "KNOWN-FINDING"))]
            res["checks"][p] = dict(rc=rc, lines=lines, tail=out.strip().splitlines()[-1:] , wall=round(time.time() - t0, 1))
            for l in lines:
                m = re.search(r"replay=(\S+)", l)
                if m and os.path.exists(m.group(1)):
                    res["checks"][p]["replay_head"] = open(m.group(1)).read()[:600]
        res["detected_by"] = [p for p, r in res["checks"].items() if r["rc"] != 0]
    finally:
        if not a.keep:
            sh("git -C /repo worktree remove --force %s" % wt, "/")
            sh("git -C /repo worktree prune", "/")
    print(json.dumps(res, indent=1))


if __name__ == "__main__":
    main()
