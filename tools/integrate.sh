#!/bin/bash
# integrate.sh <builder-name>: copy a builder's new files into /verif (never overwriting shared files)
set -e
N=$1; B=/tmp/bld/$N
SRC=$B/verif
while read -r f; do
  [ -z "$f" ] && continue
  case "$f" in
    coq/_CoqProject) continue;;
  esac
  if [ -f "$B/OUT/files/$f" ]; then s="$B/OUT/files/$f"; else s="$SRC/$f"; fi
  if [ ! -f "$s" ]; then echo "MISSING $f"; continue; fi
  if [ -f "/verif/$f" ] && ! cmp -s "$s" "/verif/$f"; then
     case "$f" in
       checklib/props_*|checklib/texts_*|coq/Properties/*|harness/overlay/*) ;;
       *) if git -C /verif ls-files --error-unmatch "$f" >/dev/null 2>&1; then echo "CONFLICT (exists, differs): $f"; continue; fi;;
     esac
  fi
  mkdir -p "$(dirname /verif/$f)"; cp "$s" "/verif/$f"; echo "copied $f"
done < <(sed 's/[[:space:]].*$//' $B/OUT/FILES.txt | grep -E '^(coq|harness|checklib|corpus|tools)/' )
# _CoqProject: append lines present in the builder's copy but not in ours
comm -13 <(sort /verif/coq/_CoqProject) <(sort $SRC/coq/_CoqProject) | while read -r l; do echo "$l" >> /verif/coq/_CoqProject; echo "coqproject += $l"; done
