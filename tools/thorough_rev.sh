#!/bin/sh
# thorough_rev.sh : the thorough checks in reverse order (to share the work with a thorough_all.sh run that started from the front); prints one line per property
cd "$(dirname "$0")/.." || exit 2
bad=0
make setup > .work_setup.log 2>&1 || { echo setup failed; tail -20 .work_setup.log; exit 2; }
for i in ${THOROUGH_ORDER:-20 19 18 17 16 15 14 13 12 11 10 09 08 07}; do
  s=$(date +%s)
  ./check C$i --tier thorough > .work/th_C$i.log 2>&1; rc=$?
  echo "C$i rc=$rc $(( $(date +%s)-s ))s $(tail -1 .work/th_C$i.log)"
  [ $rc -ne 0 ] && { bad=1; grep -E 'VIOLATION|KNOWN' .work/th_C$i.log; cp .work/th_C$i.log th_fail_C$i.log; }
done
exit $bad
