#!/usr/bin/env python3
"""keepseed.py <mutant-dir> <seedtest-result.json> [history text]

Files a confirmed seeded change under seeded/<name>/ (patch, demonstration, demo.txt, meta.json with the
confirmation and what the checks said)."""
import json, os, shutil, sys
V = os.path.dirname(os.path.dirname(os.path.abspath(__file__)))
src, res = sys.argv[1].rstrip("/"), json.load(open(sys.argv[2]))
hist = sys.argv[3] if len(sys.argv) > 3 else None
name = os.path.basename(src)
if not res.get("confirmed"):
    print("NOT CONFIRMED", name); sys.exit(1)
dst = os.path.join(V, "seeded", name)
os.makedirs(dst, exist_ok=True)
for f in os.listdir(src):
    if f.endswith((".log", ".oldbase")):
        continue
    shutil.copy(os.path.join(src, f), os.path.join(dst, f))
meta = json.load(open(os.path.join(dst, "meta.json")))
meta["confirmed"] = dict(how="tools/seedtest.py in a scratch worktree of /repo: demonstration passes on the clean tree, patch applies, "
                         "go build ./... && go test -vet=off -count=1 ./... passes with the patch, demonstration fails with the patch",
                         demo_clean_rc=res.get("demo_clean_rc"), suite_ok=res.get("suite_ok"), demo_mutant_rc=res.get("demo_mutant_rc"))
det = res.get("detected_by") or []
meta["detected_by_quick_check"] = bool(det)
c = res["checks"].get(meta["property"], {})
meta["check_result"] = "./check %s --tier quick (VERIF_REPO=<scratch worktree with the patch>): rc=%s; %s" % (
    meta["property"], c.get("rc"), "; ".join(l[:160] for l in c.get("lines", []) if l.startswith("VIOLATION")) or "no VIOLATION line")
if hist:
    meta["history"] = hist
json.dump(meta, open(os.path.join(dst, "meta.json"), "w"), indent=1)
print("kept", name, "detected" if det else "MISSED")
