"""Texts for MANIFEST.json, per claimed property."""
HOOK_COMMITS = []
NOT_APPLICABLE = {}
MATCH_NOTE = ("Trusted: Coq 8.16.1 kernel (vm_compute used for cases files and Examples, no native_compute); no axioms "
              "(Print Assumptions: closed under the global context). The model Model/Match.v is hand-written; it is tied to "
              "match/match.go by the correspondence run of every check (outcome class and multiset of binding sets, Go vs the "
              "same Gallina definition the theorems are about) and by Gen/Consts.v regenerated from the source. Go map "
              "semantics, encoding/json and float64 (restricted to quarters) are assumed.")
TEXTS = {
    "C01": dict(
        text="Soundness of the model of match.Match is proved for all patterns, messages, bindings, recursion fuels and map "
             "iteration orders (C01_match_sound: given bindings kept, only pattern variables bound, instantiated pattern fits the "
             "message; C01_fuel_enough: the fuel is no restriction). The same c01_ok oracle is evaluated on what the Go code "
             "returns for every generated case, and model and Go are compared case by case.",
        note=MATCH_NOTE),
    "C02": dict(
        text="Completeness of the model of match.Match proved for every supported pattern, assignment and message of C02's "
             "quantifier (C02_match_complete), for patterns with optional variables (C02_match_complete_optional: an unassigned "
             "optional variable is an embedding exactly where the matcher allows absence) and with inequality variables bounded in "
             "the given bindings, also inside arrays and repeated (C02_match_complete_inequality: the result is the bounds plus the "
             "assignment); exactness for linear plain patterns, no error on the supported fragment whatever the kinds of variables, "
             "harmlessness of extra keys/elements at any depth; the naive statements for optional variables are refuted with "
             "witnesses; planted-assignment oracle on the Go results (plain and optional-variable plantings; proved sound: what the completeness "
             "theorems guarantee passes it, C02_oracle_sound / C02_optional_oracle_sound) plus model/Go comparison.",
        note=MATCH_NOTE + " The converse (every result is an embedding) is proved for linear plain patterns only; a repeated optional "
             "variable bound at one occurrence and absent at another is returned but is not an embedding in the strict sense (witness in "
             "Proofs/MatchCompleteOpt.v)."),
    "C03": dict(
        text="Order independence of the model proved for every pair of iteration-order oracles and every re-ordering of the "
             "entries of pattern, message and bound values at any depth (C03_order_independent, C03_construction_order_independent). "
             "Purity is proved on a heap-level model of match.go (Model/MatchHeap.v: maps at addresses, writes in place and copies "
             "exactly where the Go code has them): it erases to the pure model (C03_heap_erasure), no map that existed before the call "
             "is ever written or returned (C03_caller_bindings_never_written), the returned maps are pairwise distinct and allocated "
             "by this call (C03_results_are_distinct_fresh_maps, C03_results_can_be_changed_independently), nothing is written after "
             "it was returned (C03_no_write_after_return). The heap model's prediction is compared with the identity and mutation "
             "probes on Go's maps in every run; shuffled reconstructions, deep snapshots, 16 goroutines under the race detector.",
        note=MATCH_NOTE + " The heap model is hand-written after match.go (each write/copy annotated with its Go line); values below "
             "the top level of a bindings map are immutable in the model (Go shares them with the message: outside the statement "
             "about the returned maps). Partial: data-race freedom of concurrent Match is observed (race detector), not proved."),
}

# groups built separately: checklib/texts_<group>.py defines TEXTS / NOT_APPLICABLE / HOOK_COMMITS
import glob as _glob, importlib as _importlib, os as _os
for _f in sorted(_glob.glob(_os.path.join(_os.path.dirname(__file__), "texts_*.py"))):
    _m = _importlib.import_module("checklib." + _os.path.basename(_f)[:-3])
    TEXTS.update(getattr(_m, "TEXTS", {}))
    NOT_APPLICABLE.update(getattr(_m, "NOT_APPLICABLE", {}))
    HOOK_COMMITS.extend(getattr(_m, "HOOK_COMMITS", []))

# texts contributed to another group's property: TEXTS_EXTRA = {"Cxx": dict(text=..., note=...)}
for _f in sorted(_glob.glob(_os.path.join(_os.path.dirname(__file__), "texts_*.py"))):
    _m = _importlib.import_module("checklib." + _os.path.basename(_f)[:-3])
    for _pid, _t in getattr(_m, "TEXTS_EXTRA", {}).items():
        if _pid in TEXTS:
            TEXTS[_pid] = dict(TEXTS[_pid], text=TEXTS[_pid]["text"] + " " + _t.get("text", ""),
                               note=TEXTS[_pid]["note"] + " " + _t.get("note", ""))
