"""Texts for MANIFEST.json, per claimed property."""
HOOK_COMMITS = []
NOT_APPLICABLE = {}
MATCH_NOTE = ("Trusted: Coq 8.16.1 kernel (vm_compute used for cases files and Examples, no native_compute); no axioms "
              "(Print Assumptions: closed under the global context). The model Model/Match.v is hand-written; it is tied to "
              "match/match.go by the correspondence run of every check (outcome class and multiset of binding sets, Go vs the "
              "same Gallina definition the theorems are about) and by Gen/Consts.v regenerated from the source. Go map "
              "semantics, encoding/json and float64 (restricted to quarters) are assumed.")
TEXTS = {
    "C01": dict(
        text="Soundness of the model of match.Match is proved for all patterns, messages, bindings, recursion fuels and map "
             "iteration orders (C01_match_sound: given bindings kept, only pattern variables bound, instantiated pattern fits the "
             "message; C01_fuel_enough: the fuel is no restriction). The same c01_ok oracle is evaluated on what the Go code "
             "returns for every generated case, and model and Go are compared case by case.",
        note=MATCH_NOTE),
    "C02": dict(
        text="Completeness of the model of match.Match proved for every supported pattern, assignment and message of C02's "
             "quantifier (C02_match_complete), exactness for linear plain patterns, no-error on the supported fragment, and "
             "harmlessness of extra keys/elements at any depth; planted-assignment oracle on the Go results plus model/Go comparison.",
        note=MATCH_NOTE + " The statement for optional and inequality variables is not proved (only exercised by the correspondence)."),
    "C03": dict(
        text="Order independence of the model proved for every pair of iteration-order oracles and every re-ordering of the "
             "entries of pattern, message and bound values at any depth (C03_order_independent, C03_construction_order_independent). "
             "Purity (inputs untouched, results independent, concurrent use) is observed on the Go code: shuffled reconstructions, "
             "deep snapshots, map-identity probes, mutation of results, 16 goroutines under the race detector.",
        note=MATCH_NOTE + " Partial: aliasing and data-race freedom are properties of the Go runtime state that a Gallina function "
             "cannot exhibit; they are checked by the harness probes, not proved."),
}

# groups built separately: checklib/texts_<group>.py defines TEXTS / NOT_APPLICABLE / HOOK_COMMITS
import glob as _glob, importlib as _importlib, os as _os
for _f in sorted(_glob.glob(_os.path.join(_os.path.dirname(__file__), "texts_*.py"))):
    _m = _importlib.import_module("checklib." + _os.path.basename(_f)[:-3])
    TEXTS.update(getattr(_m, "TEXTS", {}))
    NOT_APPLICABLE.update(getattr(_m, "NOT_APPLICABLE", {}))
    HOOK_COMMITS.extend(getattr(_m, "HOOK_COMMITS", []))

# texts contributed to another group's property: TEXTS_EXTRA = {"Cxx": dict(text=..., note=...)}
for _f in sorted(_glob.glob(_os.path.join(_os.path.dirname(__file__), "texts_*.py"))):
    _m = _importlib.import_module("checklib." + _os.path.basename(_f)[:-3])
    for _pid, _t in getattr(_m, "TEXTS_EXTRA", {}).items():
        if _pid in TEXTS:
            TEXTS[_pid] = dict(TEXTS[_pid], text=TEXTS[_pid]["text"] + " " + _t.get("text", ""),
                               note=TEXTS[_pid]["note"] + " " + _t.get("note", ""))
