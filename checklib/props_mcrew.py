"""C16 (mcrew: memory advances only with a successful write; requests are
serialised) and the cmd/mcrew + cmd/mdb half of C14 (routing).

cmd/mcrew and cmd/mdb are `package main`: the Go side of these runs is a
`go test -overlay` run inside the tree under test (add-only test files kept
under harness/overlay/, /repo is never edited).  The runner below builds the
overlay file, runs the test with the scenario parameters in the environment and
leaves the same cases_*.v / .jsonl / stats_*.json files a vharness component
would.

PROPS      = {"C16": ...}
EXTRA_RUNS = {"C14": [run, run]}   runs (mcrewroute, mdbroute) for the C14 check to absorb;
                                   their theorems are in coq/Properties/C14_mcrew.v
With VERIF_MCREW_STANDALONE=1 the C14 runs are also available on their own as
`./check C14_mcrew` (needs known_findings entries with property "C14_mcrew")."""
import json, os, subprocess, time

VERIF = os.path.dirname(os.path.dirname(os.path.abspath(__file__)))

OVERLAY_FILES = {
    "mcrew": [("zz_verif_util_test.go", "common/zz_verif_util_test.go"),
              ("zz_verif_mcrew_test.go", "mcrew/zz_verif_mcrew_test.go")],
    "mdb": [("zz_verif_util_test.go", "common/zz_verif_util_test.go"),
            ("zz_verif_mdb_test.go", "mdb/zz_verif_mdb_test.go")],
}


def overlay_runner(pkg, test):
    """runner(run, tier, seed, outdir, log, opts, n) for a test function of an overlaid package main."""
    def runner(run, tier, seed, outdir, log, opts, n):
        repo = os.environ.get("VERIF_REPO", "/repo")
        os.makedirs(outdir, exist_ok=True)
        overlay = {"Replace": {os.path.join(repo, "cmd", pkg, dst): os.path.join(VERIF, "harness", "overlay", src)
                               for dst, src in OVERLAY_FILES[pkg]}}
        opath = os.path.join(outdir, "overlay.json")
        json.dump(overlay, open(opath, "w"))
        opts = dict(opts)
        if opts.get("replay"):
            opts["replay"] = os.path.abspath(opts["replay"])   # the test runs in <repo>/cmd/<pkg>
        race = str(opts.pop("race", "0")) == "1"
        env = dict(os.environ, GOFLAGS="-mod=mod", GOPROXY="off", GOSUMDB="off", GOTOOLCHAIN="local",
                   VERIF_SEED=str(seed), VERIF_N=str(n), VERIF_OUT=outdir, VERIF_SHARD=str(run.get("shard", 100)),
                   VERIF_OPTS=",".join("%s=%s" % kv for kv in opts.items()))
        tmo = run.get("timeout", {}).get(tier, 900)
        cmd = ["timeout", str(tmo + 60), "go", "test", "-vet=off", "-tags", "verif", "-overlay", opath,
               "-run", "^%s$" % test, "-count=1", "-timeout", "%ds" % tmo] + (["-race"] if race else []) + ["./cmd/" + pkg]
        t0 = time.time()
        try:
            p = subprocess.run(cmd, cwd=repo, env=env, stdout=subprocess.PIPE, stderr=subprocess.STDOUT, text=True,
                               timeout=tmo + 120)
            rc, out = p.returncode, p.stdout
        except subprocess.TimeoutExpired as e:
            rc, out = 124, (e.stdout or b"").decode("utf8", "replace") if isinstance(e.stdout, bytes) else (e.stdout or "")
        log.append("overlay test %s/%s n=%d race=%s rc=%d %.1fs %s" % (pkg, test, n, race, rc, time.time() - t0,
                                                                        out.strip()[-200:].replace("\n", " | ")))
        spath = os.path.join(outdir, "stats_%s.json" % run["component"])
        if rc != 0 or not os.path.exists(spath):
            # a data race reported by the race detector fails the test binary: it is a finding about
            # the atomicity assignment, reported like a broken correspondence
            return None, out
        return json.load(open(spath)), out
    return runner


MCREW_TRUSTED = [
    "models Model/MCrew.v, Model/Conc.v are hand-written; tied to cmd/mcrew/service.go, storage.go (and cmd/mdb/mdb.go) by the "
    "correspondence runs: overlay tests inside the package (go test -overlay, add-only files under harness/overlay)",
    "which Go regions are atomic steps is read off the Lock/Unlock pairs by hand (Process: c.Lock to return; AddMachine, "
    "RemMachine after the D15 repair: c.Lock to return; GetCrewOp: Crew.Copy under RLock); tested by the concurrent run "
    "(linearisation search, -race in the thorough tier), not proved",
    "bbolt: one Update transaction is all-or-nothing and fails iff the database is closed (assumed; the fault injector closes "
    "and re-opens the bolt file); durability across a crash is outside the property. That WriteState puts a whole batch, "
    "whatever its size, into one such transaction and fails before it when one record cannot be marshalled is not assumed: "
    "it is what the volume histories observe (130 / 200 machines, one end state holding a NaN)",
    "a float64 NaN (a value encoding/json refuses) is represented in the model and in the case terms by the marker string "
    "\"<NaN>\" (Model/MCrew.v nan_marker; the harness submits a real NaN and never the marker as a genuine string)",
    "the four machine specifications exist twice (Gallina terms in Model/MCrew.v, YAML + ECMAScript text in "
    "harness/overlay/common); their agreement is checked by the same runs (Process results are compared field by field)",
    "goja, encoding/json, yaml; error texts are never compared",
]

PROPS = {
    "C16": dict(
        level="proof",
        rule="mcrewseq: operation sequences add / rem / process / get over 1-4 machines (specifications rec, flip, deaf, a missing "
             "one, one that does not compile, and nan: no action, keeps the message's \"poison\", which is a NaN in some messages, so "
             "that one end state of a batch cannot be serialised while the store is up; add with bindings that cannot be "
             "serialised), the store taken down and up (bolt file closed / "
             "re-opened) from position i to j - random windows and sprinkled faults in the quick tier, every i <= j of 6-operation "
             "sequences in the thorough tier - hand-written corpus (D15 witnesses, the service tests' scenario, two volume histories: "
             "200 / 130 machines plus one nan machine, a poisoned broadcast repeated 5 / 4 times - the write must fail as a whole "
             "for every machine -, then without the nan machine) first; after every "
             "operation the crew in memory (GetCrewOp) and the stored records (Storage.GetCrew) are read back. Compared with the "
             "model: response class and Walked From/To/emitted per machine, memory, store. Oracle on the Go observations: memory = "
             "store after every operation, a failed operation changed nothing, responses accepted by the specification automaton. "
             "non-trivial = a sequence in which at least one write failed. "
             "mcrewconc: 8 clients (one of them the fault injector, acting under the crew lock) x 5 operations on one service; the "
             "history (logical call/return stamps, request, response) plus final memory and store; model-based and "
             "specification-based linearisation search (Wing-Gong with memoisation) in Coq. one case = one history; non-trivial = "
             "at least two calls overlapped.",
        trusted=MCREW_TRUSTED,
        assumptions=["emitted messages are addressed to a machine that never exists in these runs, so that their asynchronous "
                     "re-submission (go s.Process) cannot change the crew behind the observer's back",
                     "a write that fails still lets Process re-submit the emitted messages (observed, outside C16's text)"],
        runs=[
            dict(component="mcrewseq", runner=overlay_runner("mcrew", "TestVerifMcrewSeq"),
                 require="Corr.MCrewCorr", require_vo="Corr/MCrewCorr.vo",
                 n=dict(quick=260, thorough=2600), shard=40, opts_thorough=dict(windows=1),
                 evals=dict(M="c16_seq_mismatches", V="c16_seq_violations", NT="c16_seq_nontrivial"), counts=("NT",),
                 search_rounds=2),
            dict(component="mcrewconc", runner=overlay_runner("mcrew", "TestVerifMcrewConc"),
                 require="Corr.MCrewCorr", require_vo="Corr/MCrewCorr.vo",
                 n=dict(quick=96, thorough=480), shard=6, opts=dict(clients=8, ops=5), opts_thorough=dict(race=1, ops=6),
                 evals=dict(M="c16_conc_mismatches", V="c16_conc_violations", NT="c16_conc_nontrivial"), counts=("NT",),
                 search_rounds=2),
            # the same concurrent clients with the race detector on, also in the quick tier (a lock narrowed around a copy or a
            # write shows as a data race long before it shows as a non-linearisable history)
            dict(component="mcrewconc", runner=overlay_runner("mcrew", "TestVerifMcrewConc"),
                 require="Corr.MCrewCorr", require_vo="Corr/MCrewCorr.vo",
                 n=dict(quick=30, thorough=60), shard=6, opts=dict(clients=8, ops=5, race=1), esc=2,
                 evals=dict(M="c16_conc_mismatches", V="c16_conc_violations", NT="c16_conc_nontrivial"), counts=("NT",),
                 search_rounds=1),
        ],
    ),
}

ROUTE_RULE = ("crews of 0-5 recorder machines (ids m0..m3 and the awkward ones: \"timers\", \"http\", \"*\", \"\"), one submitted "
              "message tree (each recorder appends the message id to its log and emits the members of \"fwd\"), targets from the "
              "property's list: absent, existing / unknown id, \"*\", lists with unknown, repeated and non-string members, reserved "
              "names, an object, a number. Observed after the service came to rest: every machine's log, the keys of the map Process "
              "returned for the root, every message Process was called with (Processing channel), every message reported "
              "(Emitted channel). Oracle: the counting statement (each occurrence exactly once to each addressed machine, to no "
              "other; each emitted message reported once and processed once). non-trivial = something was fed back and something "
              "was delivered.")

EXTRA_RUNS = {
    "C14": [
        dict(component="mcrewroute", runner=overlay_runner("mcrew", "TestVerifMcrewRoute"),
             require="Corr.MCrewCorr", require_vo="Corr/MCrewCorr.vo",
             n=dict(quick=300, thorough=3000), shard=100,
             evals=dict(M="c14m_mismatches", V="c14m_violations", NT="c14m_nontrivial",
                        K_mcrew_to_not_a_machine_id="K_mcrew_to_not_a_machine_id"), counts=("NT",), search_rounds=2),
        dict(component="mdbroute", runner=overlay_runner("mdb", "TestVerifMdbRoute"),
             require="Corr.MCrewCorr", require_vo="Corr/MCrewCorr.vo",
             n=dict(quick=200, thorough=2000), shard=100,
             evals=dict(M="c14m_mismatches", V="c14m_violations", NT="c14m_nontrivial",
                        K_mcrew_to_not_a_machine_id="K_mcrew_to_not_a_machine_id"), counts=("NT",), search_rounds=2),
    ],
}
EXTRA_RULES = {"C14": ROUTE_RULE}
EXTRA_TRUSTED = {"C14": MCREW_TRUSTED}

if os.environ.get("VERIF_MCREW_STANDALONE") == "1":
    PROPS["C14_mcrew"] = dict(level="proof", rule=ROUTE_RULE, trusted=MCREW_TRUSTED,
                              assumptions=["all machines of a routing case run the recorder specification"],
                              runs=EXTRA_RUNS["C14"])

EXTRA_PROPERTY_FILES = {"C14": ["C14_mcrew"]}
EXTRA_TRUSTED = {"C14": MCREW_TRUSTED}
