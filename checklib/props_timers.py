"""C17 (timers): per-property configuration and the runner that drives the overlay tests.

The Go side cannot be a vharness component: cmd/mcrew is `package main` and sio's timers
have unexported parts.  The runner
  1. lets `vharness timers_<impl>` write the scenarios (corpus first, then generated from the seed),
  2. runs `go test -vet=off -tags verif -overlay ... -run TestVerifTimers ./<pkg>` inside the tree under
     test (add-only zz_verif_timers*_test.go files from harness/overlay; the tree is never edited),
  3. lets `vharness timers_<impl>` render the observation lines as cases_*.v / .jsonl / stats.
"""
import json, os, re, subprocess, time

VERIF = os.path.dirname(os.path.dirname(os.path.abspath(__file__)))
WORK = os.path.join(VERIF, ".work")
PKGDIR = {"mcrew": "cmd/mcrew", "sio": "sio"}
PKGNAME = {"mcrew": "main", "sio": "sio"}
OVERLAY = {"mcrew": "mcrew_timers", "sio": "sio_timers"}


def _sh(cmd, cwd, env, timeout):
    t0 = time.time()
    try:
        p = subprocess.run(cmd, cwd=cwd, env=env, timeout=timeout, stdout=subprocess.PIPE,
                           stderr=subprocess.STDOUT, text=True)
        return p.returncode, p.stdout, time.time() - t0
    except subprocess.TimeoutExpired as e:
        out = e.stdout if isinstance(e.stdout, str) else (e.stdout or b"").decode("utf8", "replace")
        return 124, out + "\n[timeout after %ss]" % timeout, time.time() - t0


def timers_runner(impl):
    def runner(run, tier, seed, outdir, log, opts, n):
        repo = os.environ.get("VERIF_REPO", "/repo")
        env = dict(os.environ, GOFLAGS="-mod=mod", GOPROXY="off", GOSUMDB="off", GOTOOLCHAIN="local")
        comp = run["component"]
        os.makedirs(os.path.join(outdir, "gen"), exist_ok=True)
        vh = os.path.join(WORK, "vharness")
        scn = os.path.join(outdir, "scenarios.json")
        obs = os.path.join(outdir, "obs.jsonl")
        gopts = dict(phase="gen", file=scn, reps=opts.get("reps", 8), enum=opts.get("enum", 0))
        if opts.get("replay"):
            gopts["replay"] = opts["replay"]
        rc, out, dt = _sh([vh, comp, "-seed", str(seed), "-n", str(n), "-out", os.path.join(outdir, "gen"),
                           "-opt", ",".join("%s=%s" % kv for kv in gopts.items())], VERIF, env, 120)
        if rc != 0:
            return None, "scenario generation failed:\n" + out
        # overlay: add-only test files inside the package under test
        ovdir = os.path.join(outdir, "overlay")
        os.makedirs(ovdir, exist_ok=True)
        common = open(os.path.join(VERIF, "harness", "overlay", "timers",
                                   "zz_verif_timers_common_test.go.in")).read()
        common_path = os.path.join(ovdir, "zz_verif_timers_common_test.go")
        open(common_path, "w").write(common.replace("package PKG", "package " + PKGNAME[impl], 1))
        pkg = os.path.join(repo, PKGDIR[impl])
        overlay = {"Replace": {
            os.path.join(pkg, "zz_verif_timers_common_test.go"): common_path,
            os.path.join(pkg, "zz_verif_timers_test.go"):
                os.path.join(VERIF, "harness", "overlay", OVERLAY[impl], "zz_verif_timers_test.go"),
        }}
        ovjson = os.path.join(ovdir, "overlay.json")
        json.dump(overlay, open(ovjson, "w"))
        race = bool(run.get("race_" + tier))
        cmd = ["go", "test", "-vet=off", "-tags", "verif", "-overlay", ovjson, "-count=1",
               "-run", "TestVerifTimers$", "-timeout", "900s"] + (["-race"] if race else []) + ["./" + PKGDIR[impl]]
        env2 = dict(env, VERIF_TIMERS_IN=scn, VERIF_TIMERS_OUT=obs, VERIF_TIMERS_PAR=str(run.get("par", 6)))
        if race:
            env2["GORACE"] = "halt_on_error=0"
        rc, out, dt = _sh(cmd, repo, env2, 1200)
        log.append("go test %s%s rc=%d %.1fs" % (PKGDIR[impl], " -race" if race else "", rc, dt))
        if not os.path.exists(obs) or os.path.getsize(obs) == 0:
            return None, "overlay test produced no observations (rc=%d):\n%s" % (rc, out[-3000:])
        races = len(re.findall(r"WARNING: DATA RACE", out))
        if race:
            first = ""
            m = re.search(r"WARNING: DATA RACE.*?={10,}", out, flags=re.S)
            if m:
                first = m.group(0)[:2500]
            with open(obs, "a") as f:
                f.write(json.dumps(dict(n=-1, kind="race-detector-summary", impl=impl, glue=False, ops=[], events=[],
                                        hang=False, end=0, grace=0, slow=False, rerun=False, races=races,
                                        race_report=first)) + "\n")
        elif rc != 0:
            return None, "overlay test failed (rc=%d):\n%s" % (rc, out[-3000:])
        rc2, out2, dt2 = _sh([vh, comp, "-seed", str(seed), "-n", "0", "-out", outdir, "-shard", str(run.get("shard", 60)),
                              "-opt", "phase=render,obs=" + obs], VERIF, env, 300)
        if rc2 != 0:
            return None, "rendering failed:\n" + out2
        stats = json.load(open(os.path.join(outdir, "stats_%s.json" % comp)))
        stats.setdefault("notes", [])
        stats["notes"] = (stats.get("notes") or []) + ["go test rc=%d race=%s data-race reports=%d" % (rc, race, races)]
        return stats, out + out2
    return runner


TIMERS_TRUSTED = [
    "model Model/Timers.v is hand-written (atomic steps read off the lock structure of cmd/mcrew/timers.go and sio/timers.go, "
    "sio/crew.go); tied to the code by the correspondence run: every observed log must be a weak trace of the model",
    "time.Timer, select (any ready case may be taken), sync.Mutex, the Go scheduler: modelled as interleavings, not verified; "
    "context cancellation and Timers.Shutdown are not modelled",
    "overlay tests harness/overlay/{timers,mcrew_timers,sio_timers} (scenario interpreter, log order by the harness' own mutex / "
    "the crew loop), harness/timers.go (generator, renderer), checklib/props_timers.py, Corr/TimersCorr.v (subset construction)",
    "the race detector (both tiers) reports only the races of the schedules that happened",
]


def timers_run(impl, n):
    return dict(component="timers_" + impl, runner=timers_runner(impl), require="Corr.TimersCorr",
                require_vo="Corr/TimersCorr.vo", n=dict(quick=n[0], thorough=n[1]), shard=60,
                race_quick=True, race_thorough=True, par=6, search_rounds=1,
                opts_quick=dict(reps=12), opts_thorough=dict(reps=60, enum=3),
                evals=dict(M="c17_mismatches", V="c17_violations", NT="c17_nontrivial"), counts=("NT",))


PROPS = {
    "C17": dict(
        level="proof", trusted=TIMERS_TRUSTED,
        rule="scenarios for both implementations (cmd/mcrew Timers via Add/Rem and via Service.toTimers; sio Timers through a "
             "running crew loop and the timers machine): the witnesses of D16/D17/D24 and the existing tests first, then generated "
             "sequences of 1-6 add/rem requests over ids {x,y} with delays {15 ms, 5 s}, each request placed in the main goroutine "
             "or inside the handler of an earlier timer's message, with waits (until quiet / until exactly the due time) and, for "
             "sio, restarts from the persisted crew state in between; thorough tier: additionally every sequence of at most 3 "
             "requests with every placement (main / handler of the latest short timer). Observed: result of every request, every hand-over of a timer "
             "message with its time, the ids reported as pending after every request and at the end. distinct = distinct (impl, "
             "operation list); non-trivial = a message was handed over and a request was made after it (from the handler or later).",
        assumptions=["the order of the log is the order in which requests took effect (requests are serialised by the harness' "
                     "mutex for mcrew and by the crew loop for sio)",
                     "a timer more than 1 s overdue when the scenario ends (after a wait of up to 12 s) counts as lost"],
        runs=[timers_run("mcrew", (170, 4000)), timers_run("sio", (150, 3000))],
    ),
}
