from checklib.props import ENGINE_TRUSTED, STEP_RULE
PROPS = {
    "C09": dict(
        level="proof", trusted=ENGINE_TRUSTED + ["encoding/json (Marshal/Unmarshal of core.State) is exercised, not modelled beyond 'yields the canonical representation'"],
        rule=STEP_RULE + "Histories of 1-5 messages processed one Walk per message (limit 10). Run A keeps the state in memory; run B_k "
             "marshals the state to JSON and unmarshals it before message k, for every k, and B_all at every boundary. Compared per "
             "message: node, canonical bindings, emitted messages, stop reason, outcome. Also: every value of every state of run A has "
             "a canonical Go type (nil, bool, float64, string, []interface{}, map[string]interface{}). Model vs Go: final state of run A. "
             "distinct = distinct (spec, state, messages); non-trivial = the machine moved and the spec has actions.",
        assumptions=["histories in which a guard saw several candidates with different verdicts are not compared (documented as arbitrary)"],
        runs=[dict(component="persist", require="Corr.PersistCorr", require_vo="Corr/PersistCorr.vo",
                   n=dict(quick=1500, thorough=48000), shard=100, opts=dict(mode="c09"),
                   evals=dict(M="c09_mismatches", V="c09_violations", NT="c09_nontrivial"), counts=("NT",))],
    ),
}
