"""MANIFEST texts for the mcrew group (C16; the cmd/mcrew + cmd/mdb half of C14 is
offered to the C14 builder as TEXTS_EXTRA)."""
MCREW_NOTE = ("Trusted: Coq 8.16.1 kernel (vm_compute in cases files, Examples and the two refutation lemmas; no "
              "native_compute); no axioms (Print Assumptions: closed under the global context). Models Model/MCrew.v and "
              "Model/Conc.v are hand-written and tied to cmd/mcrew/service.go + storage.go by overlay tests run inside the package "
              "on every check (go test -overlay; /repo is not edited). Modelled, not verified: which regions of the Go code are "
              "atomic (read off the Lock/Unlock pairs: Process, and after the D15 repair AddMachine and RemMachine, are one step "
              "each), bbolt's all-or-nothing Update that fails iff the file is closed (that a batch of 130 / 200 records with one "
              "unserialisable record is refused as a whole is observed by the volume histories), the Go scheduler (any interleaving of atomic "
              "steps), goja/encoding/json/yaml. Partial: that the lock regions are what the model says, and that there is no data "
              "race, is observed (8 concurrent clients plus a fault injector, linearisation search against the model and against "
              "the specification automaton, race detector in the thorough tier), not proved.")
TEXTS = {
    "C16": dict(
        text="For every behaviour of the machines, every set of clients and every interleaving of their add / remove / process / "
             "read requests with the store going down and up at arbitrary points, the model of the mcrew service keeps memory "
             "equal to the store in every reachable state (C16_mem_eq_store); a request that reports failure changes nothing and "
             "nothing changes while the store is down (C16_failed_op_is_noop, C16_store_down_is_noop); memory changes only with a "
             "successful write that stores exactly the new memory (C16_advance_needs_write); a batch of any size is written "
             "entirely or not at all: one end state that cannot be serialised leaves memory and store untouched for every walked "
             "machine although the store is up, and a Process call without error wrote the whole batch "
             "(C16_batch_all_or_nothing, C16_batch_written_whole); every interleaving equals the "
             "sequential execution of a merge of the clients' programmes and its responses are accepted by the specification "
             "automaton written from the property text - every reported walk starts from the machine's current state, no update "
             "is lost (C16_serialisable, C16_responses_chain). The pre-repair two-step AddMachine is refuted (C16_refuted_prefix: "
             "late write overwrites a processed state; C16_refuted_prefix_store_down). On every run the Go service is driven "
             "through hundreds of operation sequences with the bolt file closed and re-opened between operations, memory and store "
             "read back after each, and through concurrent histories checked for linearisability in Coq; model vs Go and the "
             "property oracle on the Go observations.",
        note=MCREW_NOTE),
}
TEXTS_EXTRA = {
    "C14": dict(
        text="mcrew/mdb half: in the model of Service.Process with asynchronous re-submission of emitted messages, under every "
             "schedule of the pending Process calls, each processed message is presented exactly once to each machine the "
             "container's routing rule selects and to no other (C14_mcrew_exactly_once); the rule is the documented one unless "
             "the target is a list or \"*\" (C14_mcrew_rule_is_addressed; the full statement is refuted: "
             "C14_mcrew_list_target_refuted, C14_mcrew_star_refuted, C14_mcrew_full_refuted = known finding D12); every emitted "
             "message is reported once and processed once (C14_mcrew_feedback). Recorder machines in the real Service and Host are "
             "driven with generated message trees and the counting statement is evaluated on their logs.",
        note=MCREW_NOTE),
}
