"""Runs shared across properties (loaded last: the file name sorts after the groups)."""
from checklib.props_sio import sio_run
# C08: "... and as seen through a crew's reported emissions": the sio crew run compares Result.Emitted, message by
# message, with the batches the addressed recorder machines owe (model) and checks it against Go's own processing order
EXTRA_RUNS = {"C08": [sio_run("c14", "c14_mismatches", "c14_violations", "c14_nontrivial", (300, 6000))]}

# C18 / C10: "one compiled source may be executed by many goroutines at once with the same results as alone" and the
# permanent bindings each machine is given back are its own: the shared-spec run with walkers that each carry their own
# permanent bindings over specifications whose actions and guards delete and replace them (race-detector build)
from checklib.props_jsrt import race_runner
_share_perm = dict(component="specshare", require="Corr.SpecCorr", require_vo="Corr/SpecCorr.vo", race=True, runner=race_runner,
                   n=dict(quick=40, thorough=300), shard=20, search_rounds=1, timeout=dict(quick=240, thorough=1500),
                   opts=dict(procs="16+2", perm="1"), opts_thorough=dict(procs="1+2+4+16"),
                   evals=dict(M="share_mismatches", V="c12_share_violations", NT="c12_share_nontrivial"), counts=("NT",))
EXTRA_RUNS["C18"] = [_share_perm]
EXTRA_RUNS["C10"] = [dict(_share_perm)]

# C09: "hosts persist State as JSON" (sio/stdio.go, cmd/mcrew/storage.go are among its anchors): the crew histories with
# the real Stdio as store (restart at every boundary, idle sessions in between) and the mcrew operation sequences
# (memory vs bolt store after every operation) also run for C09
from checklib.props_mcrew import PROPS as _MC
EXTRA_RUNS["C09"] = [sio_run("c15", "c15_mismatches", "c15_violations", "c15_nontrivial", (200, 4000)),
                     dict([r for r in _MC["C16"]["runs"] if r["component"] == "mcrewseq"][0], n=dict(quick=160, thorough=1600))]

# C06: "a step never modifies the state it was given" at the interpreter boundary: the jsiso cases (scripts that assign,
# delete and call mutating methods on every part of the bindings they see, executions that fail, bindings JSON cannot
# write) with the oracle "the caller's bindings are what they were"
EXTRA_RUNS["C06"] = [dict(component="jsiso", require="Corr.JsCorr", require_vo="Corr/JsCorr.vo",
                          n=dict(quick=200, thorough=3000), shard=125, timeout=dict(quick=240, thorough=1200),
                          evals=dict(M="iso_mismatches", V="c06_js_violations"))]

# C13: "hosts load YAML or JSON and compile" (cmd/mcrew/service.go is among its anchors): the mcrew operation sequences,
# whose machines get their specifications through Service.GetSpec from files (one of them 1.3 MB long), also run for C13
EXTRA_RUNS["C13"] = [dict([r for r in _MC["C16"]["runs"] if r["component"] == "mcrewseq"][0], n=dict(quick=80, thorough=800))]

# C15: "a crew restarted from the persisted state behaves like the original" includes its timers: the sio timer scenarios
# (requests from the main goroutine and from handlers, restarts from the persisted crew state in between) also run for C15
from checklib.props_timers import timers_run as _timers_run
EXTRA_RUNS["C15"] = [_timers_run("sio", (80, 1500))]
