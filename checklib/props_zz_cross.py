"""Runs shared across properties (loaded last: the file name sorts after the groups)."""
from checklib.props_sio import sio_run
# C08: "... and as seen through a crew's reported emissions": the sio crew run compares Result.Emitted, message by
# message, with the batches the addressed recorder machines owe (model) and checks it against Go's own processing order
EXTRA_RUNS = {"C08": [sio_run("c14", "c14_mismatches", "c14_violations", "c14_nontrivial", (300, 6000))]}
