"""C13 (builder `compile`): a specification's behaviour is independent of its representation; compiling is
idempotent.  Components `compile` and `jsontext` of harness/compile.go; model Model/Compile.v + Model/JsonText.v;
correspondence and oracle Corr/CompileCorr.v."""

COMPILE_TRUSTED = [
    "models Model/Compile.v (core/spec.go DefaultPatternParser, ParsePatterns, Compile after the D9 repair; core/util.go "
    "Canonicalize; core/actions.go ActionSource.Compile) and Model/JsonText.v (encoding/json on the pattern-text fragment) "
    "are hand-written; tied to the code by the correspondence run: Spec.Compile on every decoded variant (outcome class), "
    "Spec.Walk of the compiled value (full strides), json.Marshal / json.Unmarshal against print / parse",
    "the document decoders (encoding/json, github.com/jsccast/yaml, gopkg.in/yaml.v2 into core.Spec; sio.ResolveSpecSource) "
    "are not modelled: the harness checks on every run that each decoded Spec value equals the abstract document outside "
    "patterns and syntax, and hands the decoded patterns to the model",
    "Model/Step.v, Model/Action.v, Model/Match.v (shared with C01-C08) for the walks; goja for the rendered programs",
    "Gen/Consts.v regenerated from the tree under test (DefaultBranchType, DefaultErrorNodeName)",
    "Go harness (harness/compile.go: generators, renderings, recover), check driver, Corr/CompileCorr.v",
    "numbers restricted to multiples of 1/4; strings printable ASCII without quote and backslash (no escapes in pattern texts)",
]

PROPS = {
    "C13": dict(
        level="proof",
        rule="compile: hand-written corpus first (the two D9 witnesses - the bare variable \"?x\" and the string \"1\" / \"true\" / "
             "\"null\" written as JSON text -, bare literals of every scalar shape, strings that are texts of objects and arrays, "
             "README-style object and array patterns, guards with action-error settings), then generated specifications (the "
             "generator of the step/walk components: 1-5 nodes, both branching types and the default, patterns from the match "
             "generator plus bare strings / variables / numbers / booleans, guards and actions from the action language as "
             "ECMAScript source under several interpreter names, boot/toob sources, every error setting); 14% carry one defect "
             "(unknown interpreter in an action / guard / boot, unknown branching type, uncompilable source, null branch, null "
             "node), 6% use an unknown pattern syntax.  Each is rendered 13-14 ways: Go structures (syntax none / empty, all "
             "patterns as text, mixed, force off), JSON document (inline / text), jsccast-YAML (inline, text, flow style mixed), "
             "yaml.v2 (text; inline when no pattern contains a map), sio.ResolveSpecSource; texts with and without optional "
             "spaces and with shuffled keys.  Every variant: Compile, walk 2 message sequences, Compile again (force off, on) and "
             "walk, json.Marshal/Unmarshal + Compile and walk, yaml.Marshal/Unmarshal + Compile and walk, one Step per node. "
             "distinct = distinct (document, runs); non-trivial = at least two variants compiled, one of them with a pattern "
             "written as JSON text, and the reference walk moved.  jsontext: texts handed to json.Unmarshal (printed values with "
             "optional spaces, 30% corrupted) and values handed to json.Marshal; non-trivial = an array or object was decoded.",
        trusted=COMPILE_TRUSTED,
        assumptions=["a walk in which a guard saw several candidates is not compared between variants (documented as arbitrary)",
                     "interpreter names are taken from those every host knows (ecmascript, ecmascript-5.1, goja) or from none",
                     "no custom Spec.PatternParser (DefaultPatternParser only)"],
        runs=[
            dict(component="compile", require="Corr.CompileCorr", require_vo="Corr/CompileCorr.vo",
                 n=dict(quick=480, thorough=4800), shard=30,
                 evals=dict(M="compile_mismatches", V="c13_violations", NT="c13_nontrivial", RJ="c13_rejections",
                            FC="c13_fine_class_disagreements"),
                 counts=("NT", "RJ", "FC")),
            dict(component="jsontext", require="Corr.CompileCorr", require_vo="Corr/CompileCorr.vo",
                 n=dict(quick=900, thorough=16000), shard=450, opts_thorough=dict(enum="4"),
                 evals=dict(M="jsontext_mismatches", V="jsontext_violations", NT="jsontext_nontrivial"),
                 counts=("NT",)),
        ],
    ),
}
