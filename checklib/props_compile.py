"""C13 (builder `compile`): a specification's behaviour is independent of its representation; compiling is
idempotent.  Components `compile` and `jsontext` of harness/compile.go; model Model/Compile.v + Model/JsonText.v;
correspondence and oracle Corr/CompileCorr.v.  Component `jsonesc` of harness/jsonesc.go: the text model with string
escapes Model/JsonTextEsc.v; correspondence and oracle Corr/JsonEscCorr.v."""

COMPILE_TRUSTED = [
    "models Model/Compile.v (core/spec.go DefaultPatternParser, ParsePatterns, Compile after the D9 repair; core/util.go "
    "Canonicalize; core/actions.go ActionSource.Compile) and Model/JsonText.v (encoding/json on the pattern-text fragment) "
    "are hand-written; tied to the code by the correspondence run: Spec.Compile on every decoded variant (outcome class), "
    "Spec.Walk of the compiled value (full strides), json.Marshal / json.Unmarshal against print / parse",
    "the document decoders (encoding/json, github.com/jsccast/yaml, gopkg.in/yaml.v2 into core.Spec; sio.ResolveSpecSource) "
    "are not modelled: the harness checks on every run that each decoded Spec value equals the abstract document outside "
    "patterns and syntax, and hands the decoded patterns to the model",
    "Model/Step.v, Model/Action.v, Model/Match.v (shared with C01-C08) for the walks; goja for the rendered programs",
    "Gen/Consts.v regenerated from the tree under test (DefaultBranchType, DefaultErrorNodeName)",
    "Go harness (harness/compile.go: generators, renderings, recover), check driver, Corr/CompileCorr.v",
    "numbers restricted to multiples of 1/4; strings printable ASCII without quote and backslash (no escapes in pattern texts)",
    "Model/JsonTextEsc.v (hand-written; json.Marshal / json.Unmarshal of go1.22 and later on strings with escapes) is exact "
    "on bytes 0..127; \\u escapes of 0x80 and above, bytes that are not UTF-8 and U+2028 / U+2029 are outside it and are "
    "not handed to it; it is tied to encoding/json by the component jsonesc (harness/jsonesc.go, Corr/JsonEscCorr.v) and "
    "is not yet used by Model/Compile.v or Model/StateText.v, which still rest on Model/JsonText.v",
]

PROPS = {
    "C13": dict(
        level="proof",
        rule="compile: hand-written corpus first (the two D9 witnesses - the bare variable \"?x\" and the string \"1\" / \"true\" / "
             "\"null\" written as JSON text -, bare literals of every scalar shape, strings that are texts of objects and arrays, "
             "README-style object and array patterns, guards with action-error settings), then generated specifications (the "
             "generator of the step/walk components: 1-5 nodes, both branching types and the default, patterns from the match "
             "generator plus bare strings / variables / numbers / booleans, guards and actions from the action language as "
             "ECMAScript source under several interpreter names, boot/toob sources, every error setting); 14% carry one defect "
             "(unknown interpreter in an action / guard / boot, unknown branching type, uncompilable source, null branch, null "
             "node), 6% use an unknown pattern syntax.  Each is rendered 13-14 ways: Go structures (syntax none / empty, all "
             "patterns as text, mixed, force off), JSON document (inline / text), jsccast-YAML (inline, text, flow style mixed), "
             "yaml.v2 (text; inline when no pattern contains a map), sio.ResolveSpecSource; texts with and without optional "
             "spaces and with shuffled keys.  Every variant: Compile, walk 2 message sequences, Compile again (force off, on) and "
             "walk, json.Marshal/Unmarshal + Compile and walk, yaml.Marshal/Unmarshal + Compile and walk, one Step per node. "
             "distinct = distinct (document, runs); non-trivial = at least two variants compiled, one of them with a pattern "
             "written as JSON text, and the reference walk moved.  jsontext: texts handed to json.Unmarshal (printed values with "
             "optional spaces, 30% corrupted) and values handed to json.Marshal; non-trivial = an array or object was decoded.  "
             "jsonesc (Model/JsonTextEsc.v, the text model with string escapes): a hand-written corpus of escapes the decoder "
             "accepts and refuses; exhaustively every byte 0..127 through json.Marshal (alone, between letters, as a key) and "
             "through json.Unmarshal (as \\u00XX in both cases, after a backslash, raw between quotes); generated values and "
             "texts whose strings and keys mix quotes, backslashes, control characters, '<' '>' '&', DEL, '/' and a share of "
             "well-formed non-ASCII UTF-8, each character written in any of the ways the decoder accepts, 25% corrupted; "
             "non-trivial = an escape was decoded or written; BP = cases the model without escapes gets wrong.",
        trusted=COMPILE_TRUSTED,
        assumptions=["a walk in which a guard saw several candidates is not compared between variants (documented as arbitrary)",
                     "interpreter names are taken from those every host knows (ecmascript, ecmascript-5.1, goja) or from none",
                     "no custom Spec.PatternParser (DefaultPatternParser only)"],
        runs=[
            dict(component="compile", require="Corr.CompileCorr", require_vo="Corr/CompileCorr.vo",
                 n=dict(quick=480, thorough=4800), shard=30,
                 evals=dict(M="compile_mismatches", V="c13_violations", NT="c13_nontrivial", RJ="c13_rejections",
                            FC="c13_fine_class_disagreements"),
                 counts=("NT", "RJ", "FC")),
            dict(component="jsontext", require="Corr.CompileCorr", require_vo="Corr/CompileCorr.vo",
                 n=dict(quick=900, thorough=16000), shard=450, opts_thorough=dict(enum="4"),
                 evals=dict(M="jsontext_mismatches", V="jsontext_violations", NT="jsontext_nontrivial"),
                 counts=("NT",)),
            dict(component="jsonesc", require="Corr.JsonEscCorr", require_vo="Corr/JsonEscCorr.vo",
                 n=dict(quick=1500, thorough=16000), shard=500,
                 evals=dict(M="jsonesc_mismatches", V="jsonesc_violations", NT="jsonesc_nontrivial",
                            BP="jsonesc_beyond_plain"),
                 counts=("NT", "BP")),
        ],
    ),
}
