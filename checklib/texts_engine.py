"""MANIFEST texts for the engine properties (Spec.Step / Spec.Walk)."""
ENGINE_NOTE = ("Trusted: Coq 8.16.1 kernel (vm_compute in cases files and Examples; no native_compute); no axioms (Print "
               "Assumptions: closed under the global context). Models Model/Step.v (FuncAction.Exec, Branch.try, Branches.consider, "
               "Spec.Step, Spec.Walk) and Model/Action.v (the action language, as ECMAScript and as native closures) are "
               "hand-written; they are tied to core/step.go, core/actions.go and interpreters/ecmascript by the correspondence run "
               "of every check (Go vs the same Gallina definitions on generated specs, states, messages, controls) and by "
               "Gen/Consts.v regenerated from the source. goja, encoding/json, Go maps are assumed; traces are not modelled; error "
               "texts are normalised to one token.")
TEXTS = {
    "C04": dict(
        text="The documented transition rule is written as relations (Spec/StepRule.v) and proved equivalent to the model of "
             "Spec.Step for every specification, state, pending message and action/guard behaviour (C04_step_follows_rule, "
             "C04_rule_determines_step, ordered branches, guard protocol, consumption). The correspondence run compares the model "
             "with Spec.Step (To, consumed message, error class) on every generated case, so a deviation of the code from the rule "
             "is reported with the failing (spec, state, message). Which of several acceptable candidates of one guarded branch is "
             "chosen depends on the order in which Go's matcher lists them; the model's account of all those behaviours is an "
             "instrumented step parameterised by a candidate order that also returns the guard calls it makes (Spec/GuardLog.v: "
             "C04_step_logged_erases, C04_unambiguous_step_order_free). Every compiled guard of the generated specifications is wrapped "
             "in a logger, and each step is replayed in the model under the order the implementation used (Corr/StepCorr.v "
             "replay_agrees: same calls, same verdicts, same result) - no step is skipped; the protocol oracle glog_ok is proved sound "
             "for every order and shown to reject what the plain comparison cannot see (C04_guard_log_oracle_sound, "
             "C04_guard_log_oracle_discriminates).",
        note=ENGINE_NOTE + " A step whose guard calls could not be recorded (it hung or panicked) is judged by the plain comparison only."),
    "C05": dict(
        text="All clauses of walk accounting are proved for the model of Spec.Walk, for every specification (cyclic ones included), "
             "action behaviour, breakpoint predicate, limit, state and non-null message list: ordered exactly-once consumption, step "
             "bound, truthful remainder at limit/breakpoint, quiescence and no discard at a consuming node on Done, state chain, and "
             "equality of final state and emissions for every split into consecutive batches (C05_split, C05_any_split, by induction "
             "over the walk). The same clauses are evaluated as an oracle on the Walked the Go code returns, and model and Go are compared "
             "stride by stride.",
        note=ENGINE_NOTE),
    "C06": dict(
        text="Proved about an ownership-tracked re-statement of Spec.Step and of Spec.Walk's loop body (Model/Own.v: every top-level "
             "bindings map tagged Caller or Fresh, every in-place write of the Go code logged): erasing the tags gives exactly the "
             "model step/walk_stride (C06_tracked_*_is_the_model); for every action/guard behaviour - failing, rejecting, error with or "
             "without a partial result, native actions that hand back the map they were given or delete and overwrite bindings in it in place "
             "(FuncAction.Exec runs the action on a copy: repair D54; no hypothesis about the action is left) - no logged write, the "
             "action's own included, changes the contents of the caller's map and every state of the returned stride holds a fresh map "
             "(C06_*_leaves_caller_intact, C06_action_may_mutate_its_argument, C06_exec_returns_a_fresh_map); the wiring before the "
             "repair is refuted with a witness (C06_old_wiring_refuted). On the Go side native actions of the generated specifications "
             "work in place on the given map, "
             "every Step and Walk is run twice with deep snapshots of state, messages, branch patterns, control and props, map-identity "
             "probes between the input and every returned State.Bs, and result comparison.",
        note=ENGINE_NOTE + " Partial: the provenance tags are assigned by hand from the Copy()/Extend() calls in core/step.go and "
             "core/actions.go; Go aliasing itself is observed by the harness probes (which test that assignment), not proved. Sharing "
             "below the top-level map is outside the property."),
    "C07": dict(
        text="Proved for the model: every step error inside a walk becomes a transition to the error node whose bindings carry the error, "
             "the node and the bindings at that point; an action failure is routed by the error settings; an action node that follows no "
             "branch goes to the error node; a walk always returns with a proper stop reason within its bound. Totality of the Go code "
             "(no panic, no hang, also without a control and with absent bindings / permanent keys / failing actions and guards) is tied to "
             "the total model by the correspondence run under recover() and a watchdog.",
        note=ENGINE_NOTE + " Partial: a Go panic is a property of the runtime that the total Gallina model cannot exhibit; absence of "
             "panics is observed on generated inputs, the surfaced-error shape is proved. Compile totality is exercised by C13's run."),
    "C08": dict(
        text="Proved: a script of the action language that fails (throw, timeout, non-bindings result, unserialisable emission) after any "
             "number of emissions returns no Execution and contributes no emission; a completing script reports its emissions in order; "
             "a stride reports exactly its node action's emissions (guards contribute nothing); an idle stride is silent. Emitted lists of "
             "Go strides and walks are compared with the model case by case.",
        note=ENGINE_NOTE),
    "C18": dict(
        text="Proved for the model of FuncAction.Exec (through which every action and guard runs), for every wrapped behaviour: each "
             "permanent binding present beforehand is present with its previous value in the returned bindings; a failing action keeps "
             "the state's bindings under the error bindings; a rejecting guard has no effect; what an accepting guard hands on keeps the permanent bindings of the candidate it was run on; and over a history - any chain of completing executions, each given what the previous one returned - a permanent binding of the first state is present with its first value at the end (C18_history_keeps, by induction on the chain). The oracle checks the same on the states "
             "the Go code produces for generated deleting/overwriting/replacing actions and guards.",
        note=ENGINE_NOTE + " The sigil and the default of the switch are generated from the source and computed with in the proofs."),
}
