"""Per-property configuration for C10, C11, C12 (builder jsrt): ECMAScript isolation, timeouts, shared specs."""
import json as _json, os as _os, re as _re, subprocess as _subprocess, time as _time

_VERIF = _os.path.dirname(_os.path.dirname(_os.path.abspath(__file__)))


def race_runner(run, tier, seed, outdir, log, opts, n):
    """Run a component in the binary built with -race.  A report of the race detector (or a crash of the runtime such
    as 'concurrent map writes') is a violation: the component is reported as failed with the first report as detail
    (the driver turns that into VIOLATION ... with the report in the replay file)."""
    exe = _os.path.join(_VERIF, ".work", "vharness-race")
    cmd = [exe, run["component"], "-seed", str(seed), "-n", str(n), "-out", outdir, "-shard", str(run.get("shard", 700)),
           "-opt", ",".join("%s=%s" % kv for kv in opts.items())]
    env = dict(_os.environ, GORACE="halt_on_error=0 exitcode=66 history_size=2")
    t0 = _time.time()
    try:
        p = _subprocess.run(cmd, cwd=_VERIF, env=env, timeout=run.get("timeout", {}).get(tier, 1500),
                            stdout=_subprocess.PIPE, stderr=_subprocess.STDOUT, text=True)
        rc, out = p.returncode, p.stdout
    except _subprocess.TimeoutExpired as e:
        o = e.stdout if isinstance(e.stdout, str) else (e.stdout or b"").decode("utf8", "replace")
        rc, out = 124, o + "\n[timeout]"
    log.append("race harness %s n=%d rc=%d %.1fs %s" % (run["component"], n, rc, _time.time() - t0, out.strip()[-200:]))
    i = out.find("WARNING: DATA RACE")
    j = out.find("fatal error:")
    if i >= 0 or j >= 0 or rc != 0:
        k = i if i >= 0 else (j if j >= 0 else max(0, len(out) - 2400))
        races = _re.findall(r"Found (\d+) data race", out)
        summary = "race detector / runtime report while running %s (exit code %d%s):\n%s" % (
            run["component"], rc, ", %s data race(s)" % races[-1] if races else "", out[k:k + 2500])
        return None, summary[-2950:]
    stats = _json.load(open(_os.path.join(outdir, "stats_%s.json" % run["component"])))
    return stats, out


JS_TRUSTED = [
    "models Model/JsRuntime.v (Interpreter.Exec as far as isolation is concerned), Model/ConcJs.v (interleaving semantics; "
    "the context/watcher/flag/cancel protocol), Model/Specter.v (Spec.Walk's loop as atomic steps; UpdatableSpec as a "
    "register) are hand-written; tied to interpreters/ecmascript/ecmascript.go, core/specter.go, core/step.go by the "
    "correspondence runs",
    "goja: evaluation of the rendered programs, Interrupt honoured at every interpreted instruction, no process-global "
    "mutable state (exercised by the concurrent drivers, not modelled)",
    "Go harness (generators, renderers of the script language as ECMAScript, snapshots), check driver, Corr/*.v",
    "the Go memory model and scheduler are abstracted to interleavings of hand-assigned atomic steps",
]

PROPS = {
    "C10": dict(
        level="proof", trusted=JS_TRUSTED,
        rule="component jsiso: a case = 1-3 polluting scripts, a probe script, the caller's bindings and props (nil, empty, "
             "nested maps and arrays). Scripts are programs of the language of Model/JsRuntime.v rendered as ECMAScript: "
             "assign/delete at any depth below _.bindings and _.props, replace/add/delete members of _ (ctx, props, bindings, "
             "out, extra), define globals, patch Object/Array/String.prototype, emit, and read all of these back. The probe "
             "runs alone on fresh copies, then after the polluters over the same caller objects (seq) or beside them on 16 "
             "goroutines x 3 repetitions (par; one compiled program shared by several goroutines, several programs at once, "
             "three routes: Interpreter.Exec with the compiled program, compiling on the fly, the core.Action from "
             "ActionSource.Compile). After every execution the caller's bindings and props are snapshotted. Compared with the "
             "model: every result and every snapshot. Oracle (Go vs Go): caller intact after every execution, probe result = "
             "result alone. distinct = distinct (scripts, caller data, mode); non-trivial = some polluter has a polluting "
             "operation and the probe reads. Hand-written corpus first (pooled-runtime witness, D22, env replacement, nil "
             "bindings/props).",
        assumptions=["assigned values are JSON literals (a script creates no new aliases between its views)",
                     "parallel executions each get their own copy of the caller's data (sharing a props map between "
                     "goroutines is a data race in the host, not in the interpreter)"],
        runs=[dict(component="jsiso", require="Corr.JsCorr", require_vo="Corr/JsCorr.vo",
                   n=dict(quick=500, thorough=6000), shard=125, timeout=dict(quick=240, thorough=1200),
                   evals=dict(M="iso_mismatches", V="c10_violations", K_props_nested_write="K_props_nested_write",
                              NT="c10_nontrivial"),
                   counts=("NT",)),
              dict(component="jsiso", require="Corr.JsCorr", require_vo="Corr/JsCorr.vo", race=True, runner=race_runner,
                   n=dict(quick=60, thorough=1500), shard=125, opts=dict(paronly="1"), timeout=dict(quick=240, thorough=1500),
                   evals=dict(M="iso_mismatches", V="c10_violations", K_props_nested_write="K_props_nested_write"))],
    ),
    "C11": dict(
        level="proof", trusted=JS_TRUSTED + [
            "wall-clock promptness, goja's interrupt granularity and a single long built-in call are outside the model: "
            "promptness is measured (deadline + 3 s slack), not proved (partial)"],
        rule="component jstimeout: batches of 1-64 simultaneous executions of one script (11 endless shapes: for(;;), bounded "
             "array growth, mutual and deep recursion in a loop, property/array/string churn, try/catch and try/finally around "
             "loops, unbounded recursion; 3 finite shapes) through Interpreter.Exec (compiled / compiling on the fly) and the "
             "core.Action of ActionSource.Compile, under contexts that are already over, end after 1/5/20/100/300 ms (deadline, "
             "or cancel() from another goroutine) or never end (finite scripts). Observed per batch: class of every result "
             "(Interrupted / done / other / hang), every execution back within deadline + 3 s, runtime.NumGoroutine() after the "
             "batch and a settle loop (counted before the contexts are released) vs before. Model: every class must be one the "
             "transition system can produce (exploration), no goroutine left. Oracle: endless => all Interrupted, prompt, no "
             "leak; finite => done (or Interrupted if the context ends). Component jsroute: Spec.Walk over specifications whose "
             "action or guard loops (error node / error branches / neither / guard / second node / missing error node) under a "
             "25 ms deadline, vs the same specification with a throw (Go vs Go) and vs the model's walk. distinct = distinct "
             "(shape, deadline, cancel mode, concurrency, route) resp. (spec, state, messages, limit); non-trivial: every case.",
        assumptions=["scripts spend their time in interpreted code (no single long built-in call)",
                     "true unbounded recursion is run with deadlines <= 20 ms and <= 4 at once only (memory)"],
        runs=[dict(component="jstimeout", require="Corr.TimeoutCorr", require_vo="Corr/TimeoutCorr.vo",
                   n=dict(quick=110, thorough=600), shard=700, search_rounds=1, timeout=dict(quick=300, thorough=1500),
                   evals=dict(M="timeout_mismatches", V="c11_violations", NT="c11_nontrivial"), counts=("NT",)),
              dict(component="jsroute", require="Corr.TimeoutCorr", require_vo="Corr/TimeoutCorr.vo",
                   n=dict(quick=150, thorough=1500), shard=100, search_rounds=1, timeout=dict(quick=240, thorough=1200),
                   evals=dict(M="route_mismatches", V="c11_route_violations"))],
    ),
    "C12": dict(
        level="proof", trusted=JS_TRUSTED + [
            "data-race freedom of the Go code is observed by the race detector on the schedules that happen (the drivers run in "
            "the -race build; a report makes the binary exit non-zero = VIOLATION with the report as replay), not proved (partial)"],
        rule="component specshare: one generated compiled *core.Spec (1-4 nodes, native and ECMAScript actions and guards, "
             "succeeding and failing: throw, null, non-object, unserialisable emission; error node / error branches), 8 "
             "goroutines with distinct states, messages and limits walking it at once, 3 walks each, after each made the same "
             "walk alone; compared: every concurrent walk vs the walk alone (Go vs Go), vs the model's walk, deep snapshot of "
             "the specification before/after. Component specswap: two versions (same node names; B routes a<i> to n<i+2> "
             "instead of n<i+1>; every action - ECMAScript, native, guarded - tags bindings and emissions with its version; "
             "optional failing action) behind one core.UpdatableSpec, 2 writer goroutines swapping continuously, 6 walkers x 4 "
             "processing calls (spec := u.Spec(); spec.Walk) each: every result must equal the walk under A or the walk under B "
             "(Go vs Go, and vs the model's two walks). Both in the -race binary; thorough repeats with GOMAXPROCS 1, 2, 4, 16. "
             "distinct = distinct (spec, walkers); non-trivial = a walk of at least two strides resp. walks under A and B differ.",
        assumptions=["machine states are distinct objects (one goroutine per state)",
                     "a step whose guard saw several candidates is not compared (documented as arbitrary)"],
        runs=[dict(component="specshare", require="Corr.SpecCorr", require_vo="Corr/SpecCorr.vo", race=True, runner=race_runner,
                   n=dict(quick=100, thorough=600), shard=20, search_rounds=1, timeout=dict(quick=240, thorough=1500),
                   opts=dict(procs="16+2"), opts_thorough=dict(procs="1+2+4+16"),
                   evals=dict(M="share_mismatches", V="c12_share_violations", NT="c12_share_nontrivial"), counts=("NT",)),
              # a crowd: a hundred machines inside slow interpreted actions of one specification at once (no race detector:
              # the point is how many executions overlap in time)
              dict(component="specshare", require="Corr.SpecCorr", require_vo="Corr/SpecCorr.vo",
                   n=dict(quick=4, thorough=12), shard=20, search_rounds=1, timeout=dict(quick=240, thorough=1500),
                   opts=dict(procs="16", crowd="1"),
                   evals=dict(M="share_mismatches", V="c12_share_violations")),
              dict(component="specswap", require="Corr.SpecCorr", require_vo="Corr/SpecCorr.vo", race=True, runner=race_runner,
                   n=dict(quick=80, thorough=500), shard=20, search_rounds=1, timeout=dict(quick=240, thorough=1500),
                   opts=dict(procs="16+2"), opts_thorough=dict(procs="1+2+4+16"),
                   evals=dict(M="swap_mismatches", V="c12_swap_violations", NT="c12_swap_nontrivial"), counts=("NT",))],
    ),
}
