"""MANIFEST texts for C13 (builder `compile`)."""
TEXTS = {
    "C13": dict(
        text="For the model of Spec.Compile (core/spec.go after the D9 repair) it is proved, for all specifications, interpreters "
             "and force flags, that patterns written as JSON text under patternSyntax json - any selection of them, every JSON "
             "shape including bare strings and bare variables - compile to the very same Spec value as the inline form "
             "(C13_text_inline, resting on C13_parse_print: the text parser inverts the printer on the whole fragment), hence to "
             "machines with equal walks on every message sequence; that compiling a compiled value again changes nothing "
             "(C13_idempotent, _forced, _loaded); that the serialised form of a compiled value compiles back to it (C13_reload); "
             "that unknown pattern syntaxes (when a pattern exists), unknown interpreters and unknown branching types make "
             "Compile fail, and that a value that did compile never makes Step report 'not compiled' / 'uncompiled action' and "
             "carries only known branching types (C13_reject_*, C13_no_late_errors, C13_types_known).  On every run the real "
             "Spec.Compile is applied to 13-14 renderings of each generated specification (Go structures, JSON, two YAML "
             "libraries, sio.ResolveSpecSource; inline / text / mixed patterns), compiled again and after a JSON and a YAML "
             "round trip, and walked; all variants are compared pairwise in Go and with the model's compile outcome and walk, and "
             "the property oracle c13_ok is evaluated on what Go returned.  The pre-repair definition is kept and refuted "
             "(C13_refuted_prefix, C13_prefix_witnesses).",
        note="Trusted: Coq 8.16.1 kernel (vm_compute in cases files and Examples, no native_compute); no axioms (Print "
             "Assumptions: closed under the global context).  Hand-written models tied to the code by the correspondence run "
             "only.  Not modelled, validated by the harness on every run: the JSON and YAML document decoders and encoders "
             "(the model starts from the decoded Spec value and ends at the serialised one as a projection), goja.  "
             "Model/JsonText.v covers pattern texts without string escapes, with numbers that are multiples of 1/4 and without "
             "exponents; a custom Spec.PatternParser is outside the model.  gopkg.in/yaml.v2 (sio URL sources) cannot represent "
             "an inline map pattern (compile-time error, measured, not a finding)."),
}
