"""MANIFEST texts for the timers group (C17)."""
TEXTS = {
    "C17": dict(
        text="Both timer implementations (cmd/mcrew/timers.go; sio/timers.go with sio/crew.go, sio/timersspec.go) are modelled as "
             "line-level transition systems in which requests may occur in every state, also while a timer's handler runs. Proved "
             "for ALL interleavings of requester and goroutine steps (inductive invariant + forward simulation onto an abstract "
             "timer service written from the property text): a message is handed over at most once per accepted timer, never "
             "before its due time, never for a timer that a cancel (or sio's replacing add) removed; the implementation's map "
             "equals the set of accepted, not fired, not cancelled timers, so an id is free from the moment its timer fires, a "
             "timer re-created under it by the firing handler is in the map and a cancel finds it; a due pending timer can always "
             "take its next step; an sio restart re-arms exactly the pending timers. The pre-repair code (D16, D17) is refuted by "
             "evaluated schedules. Every check runs generated scenarios (requests before, inside the handler of, at the due time "
             "of, and after a firing; restarts) against the real Go code and requires each observed log (request results, "
             "hand-overs with times, ids reported as pending) to be a weak trace of the model (M) and of the abstract service, "
             "with hand-over times >= request time + delay and no due timer left at the end (V); the thorough tier runs under the "
             "race detector and counts its reports.",
        note="Trusted: Coq 8.16.1 kernel (vm_compute in cases files and witnesses, no native_compute), no axioms. Modelled, not "
             "verified: Go's scheduler, time.Timer, select (any ready case), sync.Mutex, the assignment of atomic steps to lock "
             "regions (hand-made; the race-detector run and the trace-inclusion check test it); context cancellation and "
             "Timers.Shutdown are not modelled; real-time bounds are not proved (a timer >1 s overdue after a wait of up to 12 s is "
             "reported as lost). Partial: 'timer activity never corrupts crew state' is proved only as far as the model goes (timer "
             "goroutines touch nothing but their own map entry under the lock); freedom from data races in the Go code is observed "
             "(race detector on the schedules that happen), not proved. The subset construction of the oracle is proved sound "
             "(accepted => weak trace), not complete."),
}
