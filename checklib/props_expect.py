"""C19 (tools/expect): configuration of the check driver."""

EXPECT_TRUSTED = [
    "model Model/Expect.v is hand-written; tied to tools/expect/expect.go (Session.Run) by the correspondence run: the real "
    "Session.Run drives `cat` as its subprocess, so the harness decides through the session's inputs which lines the reader "
    "of every step sees; pass/fail is compared with expect_run on the same session and stream",
    "pattern matching inside the model is Model/Match.v (tied to match/match.go by the C01-C03 checks); guards come from a "
    "small language (none / accept / empty object / null / undefined / key present / key equals scalar / throw) rendered as "
    "ECMAScript and run by the real interpreter (goja trusted), half of them precompiled as Output.Guard",
    "OS pipes, process handling, bufio line reading, encoding/json, time.Timer are assumed; the race between the step timer and "
    "a line arriving at the last moment, the writer's errors and the subprocess's exit status are not modelled (partial)",
    "Go harness (generator, parallel runner, second run of every timeout with a 3x longer timeout, hang watchdog), check "
    "driver, Corr/ExpectCorr.v; Gen/Consts.v regenerated from the tree under test",
]

PROPS = {
    "C19": dict(
        level="proof", trusted=EXPECT_TRUSTED,
        rule="sessions of 1-3 IO steps, 0-3 expected and 0-2 inverted outputs per step (patterns: constants, variables, repeated "
             "variables, property variables, variables inside arrays, the general and the malformed pattern generator), guards of "
             "every kind, ParsePatterns on/off, Timeout / DefaultTimeout / mixed; streams built from witnesses of the expected "
             "outputs and then: complete, one omitted, one omitted and another repeated (stand-in), a forbidden message inserted, "
             "a witness moved to the next step (too late) or to the previous one (left over), everything emitted during step 1, "
             "random messages, non-JSON noise lines. Thorough tier also enumerates a small scope exhaustively (one step, three patterns each absent/expected/forbidden, every stream of at most three lines over two messages and noise; two steps with one output each). Fixed corpus first: the D18, D19 and D30 witnesses, the repository's example "
             "session, leftover/too-late/inverted/guard-error/match-error cases. Compared: pass/fail (hang = mismatch). Oracle on "
             "the implementation's verdict: a pass must be explained by a causal segmentation of the stream (session_sound_b, "
             "proved equivalent to C19_sound's conclusion) and no expected message may be missing at the end of its step; a run "
             "that does not return is a violation. distinct = distinct (session, stream); non-trivial = at least one expected "
             "output whose pattern matches at least one emitted line.",
        assumptions=["Output.Bindingss is empty before the run; every step has a positive timeout; a guard sees the first binding "
                     "set only, so value-dependent guards are generated only for patterns with at most one binding set per line"],
        runs=[dict(component="expect", require="Corr.ExpectCorr", require_vo="Corr/ExpectCorr.vo",
                   n=dict(quick=420, thorough=4000), shard=150,
                   opts=dict(timeout_ms=700), opts_thorough=dict(timeout_ms=1000, enum=1),
                   timeout=dict(quick=600, thorough=1800), search_rounds=2,
                   evals=dict(M="ec_mismatches", V="c19_violations", NT="c19_nontrivial",
                              NA="c19_never_arrives", NS="c19_stand_in"),
                   counts=("NT", "NA", "NS"))],
    ),
}
