"""C20 (tools group): tools.Analyze / tools.Dot / tools.Mermaid."""

TOOLS_TRUSTED = [
    "model Model/Tools.v is hand-written (analyze, dot, mermaid at the level of node/edge statements); tied to "
    "tools/analysis.go, tools/dot.go, tools/mermaid.go by the correspondence run (Analyze/Dot/Mermaid called on real "
    "*core.Spec values, compiled and uncompiled, under recover())",
    "the node graph handed to the model is read off the real spec by the harness (exported fields of core.Spec/Node/Branch)",
    "the harness parsers for Graphviz and Mermaid text: statement heads by the lexical rules of the DOT language "
    "(identifier / numeral / quoted string, keywords), Mermaid node and edge lines; attribute lists and labels are skipped, "
    "not interpreted (label text, colours, shapes are not part of the check)",
    "Mermaid ids are resolved by the Gallina function mer_items (the one C20_mermaid_items is about), not by the harness",
    "Gen/Consts.v (target sigil '@') regenerated from /repo by harness/cmd/genconsts",
    "branch patterns are JSON data (their rendering into a label cannot fail); encoding/json, yaml marshalling assumed",
    "Go map iteration order = any order of the node list (C20_analysis_order_independent, C20_render_order_independent)",
    "text level: Model/ToolsText.v (dot_id, mermaid_text, mermaid_nid, dot_html / dot_label_name) is hand-written after dotID / mermaidText / the n%d ids / dotHTML; "
    "tied to the Go code by the run 'toolstext': the identifier, the Mermaid label text and the text inside label=<...> are cut out of the output of tools.Dot / "
    "tools.Mermaid on one-node and one-branch specs by taking a calibrated frame away from both ends (harness/toolstext.go; no "
    "parser of the harness reads the text that is compared); names that are not printable ASCII reach Coq as lists of bytes (sb)",
    "strings.NewReplacer with one-byte old strings replaces byte by byte (strings/replace.go, byteStringReplacer); the reading rules "
    "of Graphviz' scanner used in C20_dot_id_graphviz_reading and C20_dot_label_stays_inside_refuted are transcribed from "
    "lib/cgraph/scan.l by hand (Graphviz is not part of the build)",
]

PROPS = {
    "C20": dict(
        level="proof",
        rule="specifications as Go values: corpus first (witnesses of D20 native action, D21 missing/@variable/empty target, D31 "
             "names that are not Graphviz identifiers, D32 quote in a name, D33 null node, adversarial label contents, every "
             "specs/*.yaml and cmd/spectool/*.yaml that compiles, each compiled and uncompiled), then generated graphs: 0-12 nodes, "
             "names from identifiers and from strings with spaces, quotes, arrows, brackets, DOT keywords and numerals, 0-3 branches "
             "per node to existing, missing, @variable and empty targets, native / source (several interpreter names, non-string "
             "sources) / no action, native and source guards, patterns from the match generator and hand-made hostile ones, docs, "
             "null nodes, with and without Compile (noop interpreters), random from/to highlighting and MermaidOpts. "
             "thorough adds the exhaustive small scope (nodes among {start,a}, <=2 branches over 5 targets, every action kind). "
             "distinct = distinct projected node graphs; non-trivial = the graph has a target that is not a node, a native action, "
             "a null node or an unreachable node other than start. "
             "Text level (run toolstext): node names of any bytes - a corpus of about 125 (quotes, runs of backslashes, names that look like "
             "escapes or like statements, '#', entity codes, angle brackets, '&', newlines, tabs, NUL, UTF-8, invalid UTF-8, the empty "
             "name), every name over the bytes {backslash, quote, '#', ';', 'a'} up to length 3 (thorough: 5) and over "
             "{'&', '<', '>', ';', 'a'} up to length 3 (thorough: 4), generated names (fragments, only-escaped bytes, random bytes), "
             "each as a node name, as a branch target that is not a node and (1..40 bytes) as a doc string; for each the Graphviz identifier, the Mermaid label text and the text inside the "
             "HTML-like Graphviz label (dotHTML, repair D55) are cut out; 121 Mermaid ids. "
             "non-trivial = the name holds a quote, a backslash or '#' (label cases: '&', '<' or '>'). LB (label texts that do not "
             "end where Dot ends them) is 0 since D55.",
        trusted=TOOLS_TRUSTED,
        assumptions=["statement level (run tools): node names and targets are printable ASCII (other specs are skipped and counted); "
                     "text level (run toolstext): any bytes",
                     "a specification is in scope when Spec.Compile accepts it (with interpreters that accept every source)"],
        runs=[dict(component="tools", require="Corr.ToolsCorr", require_vo="Corr/ToolsCorr.vo",
                   n=dict(quick=1500, thorough=6000), shard=400, opts_thorough=dict(enum="1"),
                   evals=dict(M="c20_mismatches", V="c20_violations", NT="c20_nontrivial",
                              VA="c20_an_violations", VD="c20_dot_violations", VM="c20_mer_violations"),
                   counts=("NT",)),
              dict(component="toolstext", require="Corr.ToolsTextCorr", require_vo="Corr/ToolsTextCorr.vo",
                   n=dict(quick=600, thorough=6000), shard=500, opts_thorough=dict(enum="5"),
                   evals=dict(M="toolstext_mismatches", V="toolstext_violations", NT="toolstext_nontrivial",
                              VD="toolstext_dot_violations", VM="toolstext_mer_violations", VN="toolstext_nid_violations",
                              VL="toolstext_label_violations", LB="toolstext_label_breaks"),
                   counts=("NT", "LB"))],
    ),
}
