"""Search the Coq development for vernacular that would make a theorem mean
less than it says (comments are stripped first, nesting-aware)."""
import os, re, sys

FORBIDDEN = re.compile(r"\b(Admitted|admit|Axiom|Axioms|Parameter|Parameters|Conjecture|Hypothesis|Hypotheses|"
                       r"bypass_check|Admit\s+Obligations)\b|Unset\s+Guard|Unset\s+Positivity|Unset\s+Universe|"
                       r"type-in-type|impredicative-set|native_compute")


def strip_comments(text):
    out, depth, i, n = [], 0, 0, len(text)
    in_str = False
    while i < n:
        c = text[i]
        if depth == 0 and c == '"':
            in_str = not in_str
            out.append(c)
            i += 1
            continue
        if not in_str and text.startswith("(*", i):
            depth += 1
            i += 2
            continue
        if not in_str and depth > 0 and text.startswith("*)", i):
            depth -= 1
            i += 2
            continue
        if depth == 0:
            out.append(c)
        elif c == "\n":
            out.append(c)
        i += 1
    return "".join(out)


def in_section(code_before):
    """True when the position is inside an open Section (Variable/Hypothesis are fine there)."""
    opens = len(re.findall(r"^\s*Section\s+\w+", code_before, flags=re.M))
    closes = len(re.findall(r"^\s*End\s+\w+", code_before, flags=re.M))
    modules = len(re.findall(r"^\s*Module\s+(?:Type\s+)?\w+", code_before, flags=re.M))
    return opens - (closes - modules) > 0


def scan(root):
    bad = []
    for d, _, files in os.walk(root):
        for fn in sorted(files):
            if not fn.endswith(".v"):
                continue
            path = os.path.join(d, fn)
            code = strip_comments(open(path, errors="replace").read())
            for m in FORBIDDEN.finditer(code):
                word = m.group(0)
                before = code[:m.start()]
                if word.startswith(("Hypothes", "Variable")) and in_section(before):
                    continue
                if word.startswith("Hypothes") and in_section(before):
                    continue
                line = before.count("\n") + 1
                bad.append("%s:%d: %s" % (path, line, word))
            # Variable(s) outside a section declare axioms too
            for m in re.finditer(r"^\s*(Variable|Variables|Context)\b", code, flags=re.M):
                if not in_section(code[:m.start()]):
                    bad.append("%s:%d: %s outside a section" % (path, code[:m.start()].count("\n") + 1, m.group(1)))
    return bad


if __name__ == "__main__":
    bad = scan(sys.argv[1] if len(sys.argv) > 1 else os.path.join(os.path.dirname(os.path.dirname(os.path.abspath(__file__))), "coq"))
    for b in bad:
        print(b)
    sys.exit(1 if bad else 0)
