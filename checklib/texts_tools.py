"""MANIFEST texts for the tools group (C20)."""
TEXTS = {
    "C20": dict(
        text="Proved for every node graph (any names, null nodes, native and source actions, targets that are not nodes): the "
             "model of tools.Analyze reports exactly the graph's counts and, as duplicate-free sorted lists, exactly the sets "
             "'missing target', 'terminal node', 'orphan', 'node with an empty target', 'branch target variable', 'interpreter "
             "used' defined from the graph alone (C20_analysis_faithful / _in_words), independently of the map iteration order; "
             "the models of tools.Dot and tools.Mermaid never dereference nil (C20_total) and write one node statement per spec "
             "node plus one placeholder per target that is not a node, and one edge statement per branch, Mermaid's generated ids "
             "being declared once and resolving to the same items as Graphviz's (C20_dot_nodes/_edges/_placeholders, "
             "C20_mermaid_items, C20_renderers_agree). Every check rebuilds the Go code, runs Analyze/Dot/Mermaid on the corpus and "
             "on generated compiled and uncompiled specs under recover(), parses the statements back out of both texts, and has "
             "coqc compare them with the same Gallina definitions (M) and with the graph specification (V).",
        note="Trusted: Coq 8.16.1 kernel (vm_compute in cases files and Examples; no native_compute); no axioms. The model "
             "Model/Tools.v is hand-written and follows the code after the proposed repairs D20, D21, D31, D32, D33; it is tied to "
             "the Go code only by the correspondence run. The harness's DOT/Mermaid statement parsers and the projection of "
             "*core.Spec to the graph are trusted. Not verified: label contents, colours and shapes (Dot does not HTML-escape "
             "names, docs and patterns inside labels: a pattern such as {\"n\":\"?<n\"} gives a label Graphviz may reject - outside "
             "the node/edge structure the property is about); the Errors field of the analysis; spec-html.go. Names outside "
             "printable ASCII are not exercised."),
}
