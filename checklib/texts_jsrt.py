"""MANIFEST texts for C10, C11, C12 (builder jsrt)."""
JS_NOTE = ("Trusted: Coq 8.16.1 kernel (vm_compute in cases files, witnesses and Examples; no native_compute); no axioms (Print "
           "Assumptions: closed under the global context). The models are hand-written and tied to the Go code only by the "
           "correspondence run of every check; goja (evaluation of the rendered programs, interrupt granularity, absence of "
           "process-global state), encoding/json, the Go scheduler and memory model are assumed. ")
TEXTS = {
    "C10": dict(
        text="Model/JsRuntime.v makes explicit everything a script can touch (globals, built-in prototypes, members of the "
             "environment object, and which parts of its views of bindings/props are the caller's own objects) and parametrises "
             "Interpreter.Exec by a policy. For the code's policy (new runtime and env per execution, bindings deep-copied, props "
             "copied one level) it is proved for ALL scripts, caller data, histories and interleavings: the result does not depend "
             "on any earlier executions (C10_history_free, for every policy that does not take runtime state from the world), the "
             "caller's bindings are never changed, the top level of props is never changed, a script without a nested props write "
             "changes nothing, sequences over shared caller objects return what each returns alone, and any interleaving of any "
             "number of executions cut into atomic steps equals each alone (C10_concurrent_eq_alone). Pooled-runtime, shared-env, "
             "shallow/no-copy policies are refuted by evaluated witnesses. Every check renders generated polluter/probe programs "
             "as ECMAScript, runs them through Interpreter.Exec and the compiled core.Action in sequence and on 16 goroutines "
             "(also under -race), snapshots the caller's data after every execution, compares everything with the model and "
             "evaluates the property (caller intact, probe = probe alone) on the Go results.",
        note=JS_NOTE + "Partial: the full statement for props is FALSE of the code (D22: nested members of props are shared; "
             "C10_props_refuted) and is reported as KNOWN-FINDING with the signature 'a script assigns or deletes below a member of "
             "props, bindings intact, model agrees'; C10_deep_props_would_hold states what a deep copy would give. That goja keeps no "
             "process-global mutable state is exercised by the concurrent driver, not modelled. Assigned values are JSON literals "
             "(scripts that alias their own views are outside the language)."),
    "C11": dict(
        text="Model/ConcJs.v is the transition system of the timeout protocol of Interpreter.Exec (caller's context, derived "
             "context, watcher goroutine, the runtime's interrupt flag, interpreted script, cancel()). Proved over ALL "
             "interleavings: after the flag is set at most one more unit of script runs; once the context has ended the watcher's "
             "step stays enabled until taken; every schedule that gives watcher, script and returning call one turn each after the "
             "end of the context - with anything in between - reports Interrupted for an endless script (no fairness axiom); an "
             "endless script can return nothing else; nothing is reported interrupted while the context lives; after Exec returns "
             "the watcher has ended or its exit is enabled (no goroutine waits for something that may never come); the timeout is "
             "routed by step/walk of every specification exactly like a throw. The variants without cancel(), watching only the "
             "caller's context, without watcher, without Interrupt are each refuted. Since the repair of D50/D51/D53 the export of "
             "the result and the text of a thrown value - interpreted code too: getters, toString - form a second phase before "
             "cancel() and under the trap: Model/ConcJsExport.v extends the system conservatively (C11_export_conservative) and "
             "proves the same guarantees for both phases (C11_export_phase_interrupted, _result, _no_crash, _no_leak, ...), and "
             "that the earlier order (post phase after cancel(), outside the trap) never interrupts the post phase and panics on "
             "the stale flag (C11_export_after_cancel_refuted, C11_export_after_cancel_panics). Every check runs 16 script shapes under "
             "expired/1/5/20/100/300 ms/never-ending contexts (deadline and explicit cancel), 1-64 at once, classifies every result, "
             "measures return within deadline + 3 s and runtime.NumGoroutine before/after, and walks specifications with looping "
             "actions/guards against their throwing twins and the model.",
        note=JS_NOTE + "Partial (named): wall-clock promptness, goja's checking of the flag at every interpreted instruction and a single "
             "long built-in call are outside the model: promptness is measured with generous slack, not proved. Timers: Exec starts "
             "none itself (the caller's context owns its timer); only goroutines are counted. True unbounded recursion is exercised "
             "with deadlines <= 20 ms only (memory). A third level of interpreted code (the toString of an object thrown BY a getter or "
             "toString, run by fmt inside the trap) is interrupted in time but reported as an ordinary error whose text mentions the "
             "timeout, not as Interrupted: noted, not modelled."),
    "C12": dict(
        text="Model/Specter.v cuts Spec.Walk's loop (the same walk_loop C04-C08 are about; C12_small_step_is_walk) into atomic "
             "steps. Proved for ALL schedules and any number of walkers: threads whose steps hand the shared state back unchanged "
             "get exactly what they get alone (generic, C12_read_only_independent), hence every machine walked against one "
             "specification beside any others gets Spec.Walk's result and the specification is unchanged (C12_parallel_eq_alone); "
             "against an UpdatableSpec modelled as an atomic register every finished processing call (load ; walk) equals the walk "
             "under ONE version that the register held (C12_swap_atomic); re-reading the version during the walk is refuted by a "
             "mixture witness, a lazily written shared cache by another. Every check walks generated compiled specs (native and "
             "ECMAScript actions/guards, failing and succeeding) from 8 goroutines at once and swaps two distinguishable versions "
             "under 6 walkers continuously, in the -race build, comparing every result with the walk alone, with the model, and "
             "(swap) with 'walk under A or walk under B'.",
        note=JS_NOTE + "Partial (named): data-race freedom of the Go code is observed by the race detector on the schedules that "
             "happen (a report = VIOLATION with the report as replay), not proved; that Step/Walk only read the *core.Spec is a "
             "modelling decision (the spec is an argument of walk and not part of its result) which the snapshot comparison and "
             "the race detector test."),
}
