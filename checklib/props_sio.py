"""Per-property configuration for the sio crew host: C14 (routing, sio part) and C15 (persistence and restart)."""

SIO_TRUSTED = [
    "model Model/SioCrew.v is hand-written; it is tied to sio/crew.go, sio/captainspec.go, sio/stdio.go (the consumer's fold) and "
    "sio/siostd/main.go (the boot loop) by the correspondence run: histories of operations on a real sio.Crew built through the "
    "exported API (NewCrew, ProcessMsg, SetMachine, DeleteMachine, Machines), a real sio.Stdio folding Result.Changed into its "
    "state file, Stdio.Read + SetMachine as in siostd to boot the second crew",
    "machines are recorders (Model/SioRecorder.v): the harness renders each configuration as a sheens specification with one "
    "ECMAScript action; that the rendering behaves like rreact is validated only by the correspondence run (core.Spec.Walk, goja)",
    "Go map iteration order is an order oracle in the proofs (any permutation); the executable instance uses the identity and "
    "comparisons are made on canonical forms (batches and recorder logs as multisets unless the history is a single-recipient chain)",
    "the ids of the service machines (sio.TimersMachine, sio.CaptainMachine) are read from the package at run time and compared "
    "with the model's constants in every case",
    "what the service machines accept in node \"start\" is hand-written in the model (tm_shape; the captain takes every message) and "
    "proved equal to the branch patterns of Crew.NewTimersSpec / Crew.NewCaptainSpec as Gen/SioSpecs.v holds them, regenerated from "
    "the tree under test by harness/cmd/genconsts (go/ast, encoding/json) on every check, through the matcher model Model/Match.v "
    "(C14_sio_timers_shape_is_source_patterns, C14_sio_captain_start_accepts_all)",
    "Go harness (generator, watchdog, recover, snapshots through encoding/json), check driver, Corr/SioCorr.v",
    "not modelled: timers firing (the timers machine only as a routing target), specification sources that fail to compile, "
    "operations on the service machines, messages of Go types that JSON cannot carry ([]string targets, function-valued messages)",
]

SIO_RULE = ("histories on one sio.Crew: a fixed corpus first (witnesses of D11, D13, D14, D41, D42, routing as in doc/by-example.md, "
            "suppression, delete/re-create, the captain named together with a machine it changes, updates that name the service "
            "machines, a burst of 1300 emissions, a specification replaced by a source that is only a name and back), then generated histories: crews of "
            "0-6 recorder machines (ids a b c d, the empty id, '*', unknown ids; modes forward / reverse / mute / idle / deaf; machines "
            "without specification; with probability 0.065 a specification source that is only a name, {name: N0 | N1}, which "
            "sio.ResolveSpecSource resolves to nothing: the machine loses its specification, the report and the store carry the source "
            "as given), messages whose 'then' lists are emitted and fed back (trees of depth <= 3), every routing target of "
            "the property (absent, id, '*', lists with unknown / repeated / non-string members, other JSON types, timers, captain, the "
            "captain together with machines), messages that are no objects, decoy operations not addressed to the captain, timer "
            "requests with and without the timers target; captain operations create / replace state / replace specification / both / "
            "delete / update+delete of one id / specification-less machines / empty operations, direct SetMachine / DeleteMachine calls, "
            "delete and re-create inside one ProcessMsg. After every message step the real Stdio consumer folds Result.Changed into its "
            "state file, a second crew is booted from that file and runs the rest of the history. ")

def sio_run(mode, M, V, NT, n):
    return dict(component="sio", require="Corr.SioCorr", require_vo="Corr/SioCorr.vo",
                n=dict(quick=n[0], thorough=n[1]), shard=40, opts=dict(mode=mode),
                evals=dict(M=M, V=V, NT=NT, M2="sio_mismatches", FULL="sio_full_mismatch_count"), counts=("NT", "FULL"),
                timeout=dict(quick=600, thorough=3000))

PROPS = {
    "C14": dict(
        level="proof", trusted=SIO_TRUSTED,
        rule=SIO_RULE + "C14 compares Result.Emitted, the probes of the two service machines and (in steps without crew operation) "
             "every machine's state; the oracle c14_ok recomputes from Go's own Emitted the processing order (submitted message, then "
             "every batch in order) and requires every recorder's log to have grown by exactly the digests of the processed messages "
             "addressed to it, in that order, the service machines to have seen only what names them, and Emitted to be, message by "
             "message, exactly the batches the addressed recorders owe. distinct = distinct histories; non-trivial = at least one "
             "emission was fed back to the crew.",
        assumptions=["sio host only (the mcrew host of C14 is a separate run)",
                     "a 'to' of a JSON type other than string or list is read as no target (what the code does; not in the property's list)",
                     "the exactly-once theorem excludes a message that names the captain together with other machines (the crew may change "
                     "between two recipients); C14_at_most_once_only_named covers it"],
        runs=[sio_run("c14", "c14_mismatches", "c14_violations", "c14_nontrivial", (400, 8000))],
    ),
    "C15": dict(
        level="proof", trusted=SIO_TRUSTED,
        rule=SIO_RULE + "C15 compares the reports (which machines, deleted, specification source, bindings), machines, store and booted "
             "crew; the oracle c15_ok requires after every message step store == Crew.Machines (ids, specification sources - a stored "
             "source that resolves to nothing stands for a machine without specification, and no live machine carries such a source -, nodes, "
             "bindings; exact), the booted crew's machines == Crew.Machines, and the booted crew's Emitted at every later step and its "
             "machines at the end to equal the original's (exactly for single-recipient chains, as multisets of batches / logs "
             "otherwise: the order in which machines see a message within a round is unspecified). distinct = distinct histories; "
             "non-trivial = a machine that existed was deleted or re-specified by an operation and a second crew was booted.",
        assumptions=["operations never name the service machines; specification sources compile (a source with neither inline "
                     "nor url resolves to nothing without error: modelled, [resolves])",
                     "a message to the captain that is no operation is outside the property's histories (the captain keeps it and "
                     "stays inert; this is not reported, so a restart heals it): the restart comparison is skipped from there on",
                     "restart equivalence is proved for one schedule (order oracle) shared by both crews; across schedules it is "
                     "observed on histories whose outcome does not depend on the order within a round"],
        runs=[sio_run("c15", "c15_mismatches", "c15_violations", "c15_nontrivial", (400, 8000))],
    ),
}
