from checklib.texts_engine import ENGINE_NOTE
TEXTS = {
    "C09": dict(
        text="Proved about a model of Go representations of JSON data (Model/Repr.v: float64/int64 numbers, plain/typed maps): a JSON round "
             "trip is the identity exactly on canonical values, always yields a canonical value for the same datum and is idempotent; the "
             "bindings an ECMAScript action returns (any JSON-representable result) and the bindings saved at the error node are stored "
             "canonically and survive persisting; before the D7/D8 repairs they did not (refutation witnesses kept). On the Go side every "
             "generated history is run in memory and with the state marshalled/unmarshalled before message k for every k (and at all "
             "boundaries): node, bindings, emissions and stop reason must agree step by step, and every value of every reached state "
             "must have a canonical Go type; the model's final state is compared with the in-memory run.",
        note=ENGINE_NOTE + " Partial: that all values entering a Go state are canonical is an invariant checked on the implementation "
             "(type walk of every reached state), the Coq development proves why that invariant makes persisting unobservable and that "
             "the two places where non-JSON-typed values could enter (script results, lastBindings) canonicalise."),
}
