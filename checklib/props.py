"""Per-property configuration of the check driver: which harness components
run, which Gallina functions are evaluated on their cases (M = mismatches
between model and implementation, V = property violations on the
implementation's output, K_<signature> = known-finding signatures), and the
texts that go into the evidence."""

MATCH_TRUSTED = [
    "model Model/Match.v is hand-written; tied to match/match.go by the correspondence run "
    "(outcome class and multiset of binding sets on generated, corpus and planted cases)",
    "Gen/Consts.v regenerated from /repo by harness/cmd/genconsts (go/ast)",
    "Go harness (generators, recover, snapshots), check driver, Corr/MatchCorr.v",
    "numbers restricted to multiples of 1/4 (exact float64); strings printable ASCII",
]

PROPS = {
    "C01": dict(
        level="proof",
        rule="(pattern, message, bindings) triples: match_test.json rows and DESIGN section 4 witnesses first, then "
             "generated instance / corrupted-instance / planted / unrelated / malformed streams; each run 6 times "
             "with maps rebuilt in shuffled insertion order. distinct = distinct canonical (pattern,message,bindings); "
             "non-trivial = Match returned at least one binding set and the pattern contains a variable.",
        trusted=MATCH_TRUSTED,
        assumptions=["Go map iteration order is modelled as list order after the D10 repair (sorted pattern keys)"],
        runs=[dict(component="match", require="Corr.MatchCorr", require_vo="Corr/MatchCorr.vo",
                   n=dict(quick=2400, thorough=120000), shard=700,
                   evals=dict(M="mc_mismatches", V="c01_violations", NT="c01_nontrivial"),
                   counts=("NT",))],
    ),
    "C02": dict(
        level="proof",
        rule="same component as C01; the planted stream builds the message from the instantiated pattern plus extra "
             "properties and elements; non-trivial = the case meets C02's side conditions (decided in Coq by c02_pre and "
             "embeds) with a non-empty planted assignment; harness counts distinct cases with a non-empty planted assignment. "
             "Component matchenum: the exhaustive small scope (patterns of <= 3 nodes, messages of <= 4 nodes, alphabet {a,b}, variables "
             "{?x,?y}, arrays/objects of <= 2 members, property variables): for every pair, every assignment of message sub-terms and "
             "property names to the pattern's variables that meets C02's side conditions and embeds the pattern must be among Go's results.",
        trusted=MATCH_TRUSTED,
        assumptions=["arrays are sets; repeated variables take scalar values (C02's quantifier)"],
        runs=[dict(component="match", require="Corr.MatchCorr", require_vo="Corr/MatchCorr.vo",
                   n=dict(quick=2400, thorough=120000), shard=700, opts=dict(mode="c02"),
                   evals=dict(M="mc_mismatches", V="c02_violations", NT="c02_nontrivial", NL="c02_linear_count", NO="c02_opt_count"),
                   counts=("NT", "NL", "NO")),
              # the small scope the property names: every pattern of <= 3 nodes x every message of <= 4 nodes over the
              # alphabet {a, b}, variables {?x, ?y}: exhaustive in the thorough tier (95,040 pairs), every 32nd pair in quick;
              # oracle: every assignment of message parts to the variables that embeds the pattern is returned
              dict(component="matchenum", require="Corr.MatchCorr", require_vo="Corr/MatchCorr.vo",
                   n=dict(quick=3000, thorough=0), shard=700, opts=dict(mode="c02"),
                   evals=dict(M="mc_mismatches", V="c02_enum_violations", NT="c02_enum_nontrivial"), counts=("NT",))],
    ),
    "C03": dict(
        level="proof",
        rule="match component in mode c03: every case is evaluated 6 times with all maps rebuilt in shuffled insertion order "
             "(Go also randomises iteration per range), canonical multisets and outcome classes compared, deep snapshots of "
             "pattern/message/bindings before and after, returned maps checked for identity against each other and the inputs "
             "and mutated; matchconc: one shared (pattern, message, bindings) matched by 16 goroutines x 4, binary built with "
             "-race. non-trivial = a pattern or message with a map/array of at least two entries and a result or an error.",
        trusted=MATCH_TRUSTED + ["the Go memory model is not modelled: data-race freedom of concurrent Match is observed "
                                 "(race detector on the schedules that happen), not proved (partial)"],
        assumptions=["an order oracle is a deterministic function of the list it permutes"],
        runs=[dict(component="match", require="Corr.MatchCorr", require_vo="Corr/MatchCorr.vo",
                   n=dict(quick=2400, thorough=120000), shard=700, opts=dict(mode="c03"),
                   # M2: the heap model's prediction (results pairwise distinct fresh maps, given map intact; proved constant)
                   # against the identity / mutation probes on Go's maps
                   extra_require=("Corr.MatchHeapCorr",),
                   evals=dict(M="mc_mismatches", M2="heap_alias_mismatches", V="c03_violations", NH="heap_alias_nontrivial"),
                   counts=("NH",)),
              dict(component="matchconc", require="Corr.MatchCorr", require_vo="Corr/MatchCorr.vo", race=True,
                   n=dict(quick=150, thorough=3000), shard=700,
                   evals=dict(M="mc_mismatches", V="c03_violations"))],
    ),
}

ENGINE_TRUSTED = [
    "models Model/Step.v, Model/Action.v are hand-written; tied to core/step.go, core/actions.go and "
    "interpreters/ecmascript by the correspondence run (Spec.Step / Spec.Walk on generated compiled specs whose actions "
    "and guards come from the action language, rendered as ECMAScript source and as native Go closures)",
    "Gen/Consts.v regenerated from /repo by harness/cmd/genconsts (go/ast)",
    "Go harness (generators, recover, watchdog, snapshots, map-identity probes), check driver, Corr/StepCorr.v",
    "goja (evaluation of the rendered programs), encoding/json; error texts normalised to one token; traces not modelled",
]

def step_run(mode, M, V, NT=None, n=(1800, 40000), extra=None):
    evals = dict(M=M, V=V)
    counts = ()
    if NT:
        evals["NT"] = NT
        counts = ("NT",)
    if extra:
        evals.update(extra)
        counts = counts + tuple(k for k in extra if k in ("RA", "GM"))
    # (one Go process generates and runs the cases: the thorough budget is sized for a loaded machine)
    return dict(component="step", require="Corr.StepCorr", require_vo="Corr/StepCorr.vo",
                n=dict(quick=n[0], thorough=n[1]), shard=150, opts=dict(mode=mode), evals=evals, counts=counts,
                timeout=dict(quick=1500, thorough=10800))

def walk_run(mode, M, V, NT=None, n=(480, 12000), extra=None):
    evals = dict(M=M, V=V)
    counts = ()
    if NT:
        evals["NT"] = NT
        counts = ("NT",)
    if extra:
        evals.update(extra)
    return dict(component="walk", require="Corr.StepCorr", require_vo="Corr/StepCorr.vo",
                n=dict(quick=n[0], thorough=n[1]), shard=40, opts=dict(mode=mode), evals=evals, counts=counts,
                timeout=dict(quick=1500, thorough=10800))

STEP_RULE = ("generated compiled specifications (1-4 nodes, 0-3 branches each, both branching types incl. the invalid "
             "action+message combination, patterns from the match generator, guards and actions from the action language as "
             "ECMAScript and as native closures, @var and unknown targets, every combination of error settings), states "
             "(known/unknown node, nil/empty/non-empty bindings, permanent keys), pending message or none, control nil or given. ")

PROPS.update({
    "C04": dict(
        level="proof", trusted=ENGINE_TRUSTED,
        rule=STEP_RULE + "Compared per step: To (node, bindings), consumed message, error class. distinct = distinct (spec, state, "
             "pending); non-trivial = the step moved or returned an error. Component stepenum: every configuration of the current node "
             "(4 actions x 2 branching types x every list of <= 2 branches out of 3 patterns x 4 guards x 2 targets) x 3 error settings x "
             "3 states x 3 pending messages - one step depends on nothing else of a specification - exhaustively in the thorough tier.",
        assumptions=["a step whose guard saw several candidates is not compared (documented as arbitrary)"],
        runs=[step_run("c04", "c04_violations", "c04_violations", "c04_nontrivial",
                       extra=dict(RA="replay_ambiguous", GM="glog_multi")),
              # the exhaustive family of one-step behaviours over a small vocabulary (129,816 cases; quick: every 44th)
              dict(step_run("c04", "c04_violations", "c04_violations", "c04_nontrivial", n=(3000, 0)), component="stepenum")],
    ),
    "C05": dict(
        level="proof", trusted=ENGINE_TRUSTED,
        rule=STEP_RULE + "Walks over 0-4 messages, limits 0-12 and the default control, breakpoints (at node / binding present), "
             "every split point of every Done walk re-run as two walks. Compared: per stride (From.node, To.node, consumed), "
             "Remaining, stop reason; oracle c05_ok (ordered once-only consumption, step bound, truthful remainder, quiescence "
             "and nothing dropped at a consuming node, state chain, split agreement) on the implementation's Walked. "
             "non-trivial = at least two strides.",
        assumptions=["messages are non-null (a null message is no message)"],
        runs=[walk_run("c05", "c05_mismatches", "c05_violations", "c05_nontrivial")],
    ),
    "C06": dict(
        level="proof", trusted=ENGINE_TRUSTED + ["provenance is not modelled: the model is a pure function; aliasing is observed on "
                                                 "the implementation (deep snapshots, map identity), not proved (partial)"],
        rule=STEP_RULE + "Every Step and Walk call made twice; deep snapshots of state, messages, branch patterns, control and props "
             "before/after; reflect-based identity of every returned State.Bs map against the input map; native actions that hand "
             "back the map they were given. non-trivial = a failing action, a step error, or a move through an action node.",
        assumptions=["sharing below the top-level bindings map is outside the property"],
        runs=[step_run("c06", "no_mismatches", "c06_step_violations"),
              walk_run("c06", "no_mismatches", "c06_walk_violations")],
    ),
    "C07": dict(
        level="proof", trusted=ENGINE_TRUSTED,
        rule=STEP_RULE + "Step and Walk under recover() and a watchdog, control nil in 30% of the calls, actions and guards that throw, "
             "time out (25 ms deadline), return null / a number, emit an unserialisable value, native actions failing with and "
             "without a partial Execution, states with nil bindings and permanent keys, unknown nodes, uncompiled specs. "
             "Compared: crash/hang/normal, error class, and wherever the model ends a stride at an error-carrying state the "
             "implementation's state. non-trivial = a failing action, an error, or nil bindings. Component total: specification "
             "documents (JSON and YAML text, mutated: null nodes/branching/branches, wrong types, unknown interpreters and targets) "
             "loaded, compiled and walked from every node; free-form scripts against the whole environment object of the extended "
             "interpreter (_.out/_.match/_.cronNext with junk arguments, throws, unbounded recursion, redefined members) as actions "
             "and guards: returned normally, failures surfaced.",
        assumptions=[],
        runs=[step_run("c07", "c07_step_mismatches", "c07_step_violations"),
              walk_run("c07", "c07_walk_mismatches", "c07_walk_violations", "c07_nontrivial"),
              dict(component="total", require="Corr.TotalCorr", require_vo="Corr/TotalCorr.vo",
                   n=dict(quick=400, thorough=20000), shard=2000, opts=dict(mode="c07"),
                   evals=dict(M="total_no_mismatches", V="total_violations"))],
    ),
    "C08": dict(
        level="proof", trusted=ENGINE_TRUSTED,
        rule=STEP_RULE + "Action programs emit^i ; mutate^j ; terminate, the terminator failing by throw, timeout, non-object return or "
             "unserialisable emission. Compared: emitted lists only, per stride. non-trivial = the node's action emits.",
        assumptions=[],
        runs=[step_run("c08", "c08_step_violations", "c08_step_violations"),
              walk_run("c08", "c08_walk_violations", "c08_walk_violations", "c08_nontrivial"),
              dict(component="funcexec", require="Corr.FuncExecCorr", require_vo="Corr/FuncExecCorr.vo",
                   n=dict(quick=1500, thorough=60000), shard=500, opts=dict(mode="c08"),
                   evals=dict(M="fexec_mismatches", V="fexec_c08_violations"))],
    ),
    "C18": dict(
        level="proof", trusted=ENGINE_TRUSTED,
        rule=STEP_RULE + "States carry permanent bindings (cfg!, ver!); actions and guards delete, overwrite, delete all, return a fresh "
             "object, null, or fail. Oracle on the implementation's before/after: every permanent binding present before is "
             "present with its value in the produced state (unless the action returned null). non-trivial = a state with a "
             "permanent binding moved through an action node or a guarded branch.",
        assumptions=["an action that returns null (no bindings at all) is outside the property's 'returns bindings'"],
        runs=[step_run("c18", "no_mismatches", "c18_violations", "c18_nontrivial"),
              dict(walk_run("c18", "no_mismatches", "c18_walk_violations", "c18_walk_nontrivial", n=(240, 12000)),
                   opts=dict(mode="c18", cycles="1")),
              dict(component="funcexec", require="Corr.FuncExecCorr", require_vo="Corr/FuncExecCorr.vo",
                   n=dict(quick=1500, thorough=60000), shard=500, opts=dict(mode="c18"),
                   evals=dict(M="fexec_mismatches", V="fexec_c18_violations", NT="fexec_c18_nontrivial"), counts=("NT",))],
    ),
})

# property groups built separately: checklib/props_<group>.py defines PROPS (same shape)
import glob as _glob, importlib as _importlib, os as _os
for _f in sorted(_glob.glob(_os.path.join(_os.path.dirname(__file__), "props_*.py"))):
    _m = _importlib.import_module("checklib." + _os.path.basename(_f)[:-3])
    PROPS.update(getattr(_m, "PROPS", {}))

# runs and theorem files contributed to a property by another group: props_<group>.py may define
# EXTRA_RUNS = {"Cxx": [run, ...]} and EXTRA_PROPERTY_FILES = {"Cxx": ["Cxx_other", ...]}
for _f in sorted(_glob.glob(_os.path.join(_os.path.dirname(__file__), "props_*.py"))):
    _m = _importlib.import_module("checklib." + _os.path.basename(_f)[:-3])
    for _pid, _runs in getattr(_m, "EXTRA_RUNS", {}).items():
        if _pid in PROPS:
            PROPS[_pid]["runs"] = list(PROPS[_pid]["runs"]) + [r for r in _runs if r not in PROPS[_pid]["runs"]]
    for _pid, _files in getattr(_m, "EXTRA_PROPERTY_FILES", {}).items():
        if _pid in PROPS:
            PROPS[_pid]["extra_property_files"] = list(PROPS[_pid].get("extra_property_files", [])) + list(_files)
    for _pid, _t in getattr(_m, "EXTRA_TRUSTED", {}).items():
        if _pid in PROPS:
            PROPS[_pid]["trusted"] = list(PROPS[_pid].get("trusted", [])) + list(_t)
