"""Per-property configuration of the check driver: which harness components
run, which Gallina functions are evaluated on their cases (M = mismatches
between model and implementation, V = property violations on the
implementation's output, K_<signature> = known-finding signatures), and the
texts that go into the evidence."""

MATCH_TRUSTED = [
    "model Model/Match.v is hand-written; tied to match/match.go by the correspondence run "
    "(outcome class and multiset of binding sets on generated, corpus and planted cases)",
    "Gen/Consts.v regenerated from /repo by harness/cmd/genconsts (go/ast)",
    "Go harness (generators, recover, snapshots), check driver, Corr/MatchCorr.v",
    "numbers restricted to multiples of 1/4 (exact float64); strings printable ASCII",
]

PROPS = {
    "C01": dict(
        level="proof",
        rule="(pattern, message, bindings) triples: match_test.json rows and DESIGN section 4 witnesses first, then "
             "generated instance / corrupted-instance / planted / unrelated / malformed streams; each run 6 times "
             "with maps rebuilt in shuffled insertion order. distinct = distinct canonical (pattern,message,bindings); "
             "non-trivial = Match returned at least one binding set and the pattern contains a variable.",
        trusted=MATCH_TRUSTED,
        assumptions=["Go map iteration order is modelled as list order after the D10 repair (sorted pattern keys)"],
        runs=[dict(component="match", require="Corr.MatchCorr", require_vo="Corr/MatchCorr.vo",
                   n=dict(quick=900, thorough=24000), shard=700,
                   evals=dict(M="mc_mismatches", V="c01_violations", NT="c01_nontrivial"),
                   counts=("NT",))],
    ),
    "C02": dict(
        level="proof",
        rule="same component as C01; the planted stream builds the message from the instantiated pattern plus extra "
             "properties and elements; non-trivial = the case meets C02's side conditions (decided in Coq by c02_pre and "
             "embeds) with a non-empty planted assignment; harness counts distinct cases with a non-empty planted assignment.",
        trusted=MATCH_TRUSTED,
        assumptions=["arrays are sets; repeated variables take scalar values (C02's quantifier)"],
        runs=[dict(component="match", require="Corr.MatchCorr", require_vo="Corr/MatchCorr.vo",
                   n=dict(quick=900, thorough=24000), shard=700, opts=dict(mode="c02"),
                   evals=dict(M="mc_mismatches", V="c02_violations", NT="c02_nontrivial", NL="c02_linear_count"),
                   counts=("NT", "NL"))],
    ),
    "C03": dict(
        level="proof",
        rule="match component in mode c03: every case is evaluated 6 times with all maps rebuilt in shuffled insertion order "
             "(Go also randomises iteration per range), canonical multisets and outcome classes compared, deep snapshots of "
             "pattern/message/bindings before and after, returned maps checked for identity against each other and the inputs "
             "and mutated; matchconc: one shared (pattern, message, bindings) matched by 16 goroutines x 4, binary built with "
             "-race. non-trivial = a pattern or message with a map/array of at least two entries and a result or an error.",
        trusted=MATCH_TRUSTED + ["the Go memory model is not modelled: data-race freedom of concurrent Match is observed "
                                 "(race detector on the schedules that happen), not proved (partial)"],
        assumptions=["an order oracle is a deterministic function of the list it permutes"],
        runs=[dict(component="match", require="Corr.MatchCorr", require_vo="Corr/MatchCorr.vo",
                   n=dict(quick=900, thorough=24000), shard=700, opts=dict(mode="c03"),
                   evals=dict(M="mc_mismatches", V="c03_violations")),
              dict(component="matchconc", require="Corr.MatchCorr", require_vo="Corr/MatchCorr.vo", race=True,
                   n=dict(quick=150, thorough=3000), shard=700,
                   evals=dict(M="mc_mismatches", V="c03_violations"))],
    ),
}
