"""MANIFEST texts for the sio crew host properties."""
SIO_NOTE = ("Trusted: Coq 8.16.1 kernel (vm_compute in cases files and Examples, no native_compute); no axioms (Print Assumptions: "
            "closed under the global context). Model/SioCrew.v is hand-written and generic in the machines (specification sources, "
            "reaction function, order oracle); it is tied to sio/crew.go, captainspec.go, stdio.go and siostd/main.go by the "
            "correspondence run of every check (exported API only, a real Stdio consumer and its state file, recorder machines "
            "rendered as real specifications with ECMAScript actions). Go maps, encoding/json, goja and core.Spec.Walk are assumed; "
            "timers firing, specification sources that do not compile and operations on the service machines are not modelled.")
TEXTS = {
    "C14": dict(
        text="For the model of sio.Crew.ProcessMsg it is proved, for every crew, message, reaction of the machines and map order: every "
             "processed message is presented exactly once to each machine it is addressed to and to no other (C14_exactly_once, "
             "C14_at_most_once_only_named), the processed messages are the submitted one followed by every emission, each once, breadth "
             "first, batches in emission order (C14_feedback), and Result.Emitted holds every emission exactly once in non-empty batches "
             "that are the recipients' reactions (C14_reported_once). The model's hand-written predicates for what the two service machines "
             "accept in node start equal the branch patterns read from sio/timersspec.go and sio/captainspec.go on every check, under the "
             "matcher model, for every bindings map that binds none of the patterns' variables (C14_sio_timers_shape_is_source_patterns, "
             "C14_sio_timers_start_never_errs, C14_sio_captain_start_accepts_all, C14_sio_service_start_nodes_take_messages). On every run the same definitions are evaluated against the Go "
             "crew on generated histories, and the counting oracle is evaluated on what Go returned (logs kept by recorder machines, "
             "Result.Emitted, probes for captain and timers).",
        note=SIO_NOTE + " This check covers the sio host; the mcrew host is a separate run of C14. Partial: a message naming the "
             "captain together with other machines is covered only by the at-most-once/only-named theorem."),
    "C15": dict(
        text="Proved for every history of messages, captain operations and direct calls: the store obtained by folding every "
             "Result.Changed in order equals the live crew after every message (C15_store_tracks_crew, by an invariant that also "
             "justifies suppression against the previous report), a crew booted from the store has the same machines (C15_boot_equiv), "
             "the same store keeps tracking it and it produces the same outputs on every later history (C15_restart_unobservable - since "
             "the repair of D56 without any hypothesis on the captain: C15_captain_never_inert is an invariant of every reachable crew; "
             "for crews that are not reachable the hypothesis is necessary, C15_any_crew_needs_captain). All of it holds for every "
             "predicate saying which sources resolve to a specification; a source that resolves to nothing leaves the machine without "
             "specification while report and store carry the source as given, and the booted crew has the same inert machine "
             "(C15_unresolvable_source_inert). On "
             "every run the real Stdio consumer folds the real reports into its state file, a second crew is booted from the file at "
             "every message boundary and runs the rest of the history; store, booted crew and outputs are compared with the live crew.",
        note=SIO_NOTE + " Partial: restart equivalence is proved under one shared schedule; across schedules (Go's random map order) it "
             "is observed on histories that commute. Crew operations whose specification does not compile are exercised by a probe at the end "
             "of every history (D57), not modelled."),
}
