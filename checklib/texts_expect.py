"""MANIFEST texts for C19 (tools/expect)."""
TEXTS = {
    "C19": dict(
        text="For the model of tools/expect's Session.Run it is proved, for every session (any number of steps, expected and "
             "inverted outputs, guards) and every stream of emitted lines including noise: a pass implies a segmentation of the "
             "stream, one run of consecutive lines per step and only lines emitted by the end of that step, in which every expected "
             "output is matched by some line accepted by its guard and no line is accepted by an inverted output (C19_sound), each segment ending exactly where its step completes (C19_segments_end_at_completion); an "
             "expected message that has not arrived by the end of its step fails the run whatever else arrives or is repeated "
             "(C19_timeout_fails, C19_no_stand_in); the boolean oracle used on the implementation decides exactly that conclusion "
             "(C19_oracle_decides_soundness); a partial converse (C19_pass_when_met); and the pre-repair code is refuted on the "
             "D18/D19/D30 witnesses (C19_refuted_prefix). On every run the real Session.Run is driven with `cat` on hundreds of "
             "generated sessions and streams; pass/fail is compared with the model and the oracle is evaluated on Go's verdict.",
        note="Trusted: Coq 8.16.1 kernel (vm_compute in cases files and Examples, no native_compute), no axioms. The model is "
             "hand-written and tied to expect.go only by the correspondence run; it uses Model/Match.v for patterns and an abstract "
             "guard language rendered as ECMAScript (goja trusted). Partial / not modelled: the race between the step timer and a "
             "late line, pipe buffering, writer errors, the subprocess's exit status, steps without a timeout, outputs that already "
             "carry Bindingss. The repairs D18, D19, D30 are assumed applied; without them the check reports a VIOLATION."),
}
