package main

// Component "expect" (C19): drives the real tools/expect Session.Run with
// `cat` as the subprocess.  cat echoes its input, so the lines the reader of
// step k can see are exactly: what earlier steps left unread, then the
// inputs of step k -- the harness controls the emitted stream through the
// session's inputs.  Sessions run in parallel (each has its own subprocess);
// dir is "" so that Run never changes the working directory.
//
// Timing: the only timing-dependent outcome is "the step's timer fired
// before a line that was already written came back through cat".  Lines come
// back within milliseconds and the timeout is hundreds of milliseconds; on
// top of that every run that failed after about one timeout period or more
// is repeated with a three times longer timeout and the later verdict is the
// one recorded; if that second pass overturned any verdict (a starved
// machine), what still looks like a timeout runs a third time with ten times
// the timeout.  A run that has not returned long after its timeout is
// recorded as a hang; a session that brings its (worker) process down as a
// crash.  Only pass / fail / hang / crash is compared, never the error text
// (the text is kept in the JSON line for the reader of a replay file).

import (
	"context"
	"encoding/json"
	"fmt"
	"io"
	"log"
	"os"
	"os/exec"
	"sort"
	"strconv"
	"strings"
	"sync"
	"time"

	"github.com/Comcast/sheens/core"
	stdinterp "github.com/Comcast/sheens/interpreters"
	"github.com/Comcast/sheens/match"
	"github.com/Comcast/sheens/tools/expect"
)

func init() { components["expect"] = expectComponent }

type eGuard struct {
	Kind        string      `json:"kind"` // none accept empty reject undef has is throw
	K           string      `json:"k,omitempty"`
	V           interface{} `json:"v,omitempty"`
	Precompiled bool        `json:"precompiled,omitempty"` // given as Output.Guard instead of GuardSource
}

type eOutput struct {
	Pattern  interface{} `json:"pattern"`
	Guard    eGuard      `json:"guard"`
	Inverted bool        `json:"inverted,omitempty"`
}

type eLine struct {
	Text  string `json:"text"`
	Noise bool   `json:"noise,omitempty"`
}

type eStep struct {
	Outputs []eOutput `json:"outputs"`
	Lines   []eLine   `json:"lines"` // the IO's inputs = what cat emits during this step
	// Unsent: inputs of this step that the process never echoes: it has ended (cleanly, status 0) after the Lines of all
	// steps so far (the process is `head -n <that many>` instead of cat); for the model the stream simply ends there
	Unsent []eLine `json:"never_echoed,omitempty"`
}

type expectCase struct {
	Kind          string  `json:"kind"`
	Steps         []eStep `json:"steps"`
	ParsePatterns bool    `json:"parse_patterns"`
	TimeoutMode   string  `json:"timeout_mode"` // default | io | mixed
	Verdict       string  `json:"verdict"`      // pass | fail | hang | crash
	Err           string  `json:"error,omitempty"`
	ElapsedMs     int64   `json:"elapsed_ms"`
	Retried       bool    `json:"retried,omitempty"`
	FirstVerdict  string  `json:"first_verdict,omitempty"`
	// Rerun: the same Session value is run a second time.  First holds the lines of the first run (which passed: every
	// expected output then carries the bindings of its match); Steps holds the lines of the second run, whose verdict
	// is the case's.  An output that was met in an earlier run is not met again by this run's stream: in the Coq
	// rendering it is an output nothing matches.
	Rerun bool    `json:"rerun,omitempty"`
	First []eStep `json:"first_run,omitempty"`
}

const eDeadPattern = "<met in an earlier run>"

// JS renders the guard as ECMAScript (the interpreter wraps it in a function).
func (gd eGuard) JS() string {
	switch gd.Kind {
	case "accept":
		return "return _.bindings;"
	case "empty":
		return "return {};"
	case "reject":
		return "return null;"
	case "undef":
		return "var b = _.bindings;"
	case "has":
		return fmt.Sprintf("return (_.bindings[%s] !== undefined) ? _.bindings : null;", jsText(gd.K))
	case "is":
		return fmt.Sprintf("return (_.bindings[%s] === %s) ? _.bindings : null;", jsText(gd.K), jsText(gd.V))
	case "throw":
		return "throw \"boom\";"
	}
	panic("no source for guard kind " + gd.Kind)
}

func (gd eGuard) coq() (string, bool) {
	switch gd.Kind {
	case "none":
		return "GNone", true
	case "accept":
		return "GAccept", true
	case "empty":
		return "GEmpty", true
	case "reject":
		return "GReject", true
	case "undef":
		return "GUndef", true
	case "has":
		return "(GHas " + coqString(gd.K) + ")", true
	case "is":
		v, ok := coqJSON(gd.V)
		return "(GIs " + coqString(gd.K) + " " + v + ")", ok
	case "throw":
		return "GThrow", true
	}
	return "", false
}

func (c *expectCase) coq() (string, bool) {
	steps := make([]string, 0, len(c.Steps))
	chunks := make([]string, 0, len(c.Steps))
	for _, st := range c.Steps {
		outs := make([]string, 0, len(st.Outputs))
		for _, o := range st.Outputs {
			p, ok1 := coqJSON(o.Pattern)
			gd, ok2 := o.Guard.coq()
			if !(ok1 && ok2) {
				return "", false
			}
			if c.Rerun && !o.Inverted {
				p, _ = coqJSON(eDeadPattern)
				gd, _ = eGuard{Kind: "none"}.coq()
			}
			outs = append(outs, fmt.Sprintf("(out %s %s %s)", p, gd, coqBool(o.Inverted)))
		}
		steps = append(steps, coqList(outs))
		ls := make([]string, 0, len(st.Lines))
		for _, l := range st.Lines {
			if l.Noise {
				ls = append(ls, "noise")
				continue
			}
			var m interface{}
			if err := json.Unmarshal([]byte(l.Text), &m); err != nil {
				return "", false
			}
			t, ok := coqJSON(m)
			if !ok {
				return "", false
			}
			ls = append(ls, "(jl "+t+")")
		}
		chunks = append(chunks, coqList(ls))
	}
	var v string
	switch c.Verdict {
	case "pass":
		v = "GoPass"
	case "fail":
		v = "GoFail"
	case "crash":
		v = "GoCrash"
	default:
		v = "GoHang"
	}
	return fmt.Sprintf("(mk_ecase %s %s %s)", coqList(steps), coqList(chunks), v), true
}

// session builds a fresh expect.Session (Run writes into it) from the case.
func (c *expectCase) session(T time.Duration) (*expect.Session, error) {
	interps := stdinterp.Standard()
	s := &expect.Session{ParsePatterns: c.ParsePatterns, Interpreters: interps}
	if c.TimeoutMode != "io" {
		s.DefaultTimeout = T
	}
	for i, st := range c.Steps {
		iop := expect.IO{Inputs: []interface{}{}}
		if c.TimeoutMode == "io" || (c.TimeoutMode == "mixed" && i%2 == 0) {
			iop.Timeout = T
		}
		for _, l := range st.Lines {
			iop.Inputs = append(iop.Inputs, l.Text)
		}
		for _, l := range st.Unsent {
			iop.Inputs = append(iop.Inputs, l.Text)
		}
		for _, o := range st.Outputs {
			out := expect.Output{Inverted: o.Inverted}
			if c.ParsePatterns {
				out.Pattern = jsText(o.Pattern)
			} else {
				out.Pattern = deepCopy(o.Pattern, nil)
			}
			if o.Guard.Kind != "none" {
				src := &core.ActionSource{Interpreter: "ecmascript", Source: o.Guard.JS()}
				if o.Guard.Precompiled {
					a, err := src.Compile(context.Background(), interps)
					if err != nil {
						return nil, err
					}
					out.Guard = a
				} else {
					out.GuardSource = src
				}
			}
			iop.OutputSet = append(iop.OutputSet, out)
		}
		s.IOs = append(s.IOs, iop)
	}
	return s, nil
}

// headCount: -1 = the process is cat; otherwise the process ends after echoing this many lines
func (c *expectCase) headCount() int {
	k, cut := 0, false
	for _, st := range c.Steps {
		k += len(st.Lines)
		cut = cut || len(st.Unsent) > 0
	}
	if !cut {
		return -1
	}
	return k
}

// runExpect runs the session once with step timeout T.
func (c *expectCase) runExpect(T time.Duration) (verdict, errText string, elapsed time.Duration) {
	s, err := c.session(T)
	if c.Rerun && err == nil {
		first := *c
		first.Steps, first.Rerun = c.First, false
		s, err = first.session(T)
		if err == nil {
			ctx1, cancel1 := context.WithTimeout(context.Background(), 8*T+4*time.Second)
			func() {
				defer func() {
					if r := recover(); r != nil {
						err = fmt.Errorf("panic in the first run: %v", r)
					}
				}()
				err = s.Run(ctx1, "", "cat")
			}()
			cancel1()
			if err != nil {
				return "fail", "harness: the first run did not pass: " + err.Error(), 0
			}
			for i := range s.IOs {
				s.IOs[i].Inputs = []interface{}{}
				for _, l := range c.Steps[i].Lines {
					s.IOs[i].Inputs = append(s.IOs[i].Inputs, l.Text)
				}
			}
		}
	}
	if err != nil {
		return "fail", "harness: " + err.Error(), 0
	}
	// a run that is still going this long after a step's timeout hangs
	hang := 8*T + 4*time.Second
	ctx, cancel := context.WithTimeout(context.Background(), hang)
	defer cancel()
	t0 := time.Now()
	done := make(chan error, 1)
	go func() {
		defer func() {
			if r := recover(); r != nil {
				done <- fmt.Errorf("panic: %v", r)
			}
		}()
		if k := c.headCount(); k >= 0 {
			done <- s.Run(ctx, "", "head", "-n", fmt.Sprint(k))
			return
		}
		done <- s.Run(ctx, "", "cat")
	}()
	select {
	case err = <-done:
	case <-time.After(hang + 5*time.Second):
		return "hang", "Run did not return even after its context was cancelled", time.Since(t0)
	}
	elapsed = time.Since(t0)
	if ctx.Err() != nil {
		return "hang", fmt.Sprintf("still running %v after start (step timeout %v): %v", elapsed, T, err), elapsed
	}
	if err != nil {
		return "fail", err.Error(), elapsed
	}
	return "pass", "", elapsed
}

// ---- generation -----------------------------------------------------------

var (
	eKeys = []string{"a", "b", "c", "d"}
	eVars = []string{"?x", "?y", "?z"}
)

// ePattern: an output pattern with the variables it can bind.
func (g *G) ePattern() (p interface{}, ctx *pctx) {
	ctx = newPctx()
	ctx.noPreIneq = true
	v := func() string {
		s := g.pick(eVars)
		ctx.vars[s] = true
		return s
	}
	switch k := g.intn(100); {
	case k < 14:
		return map[string]interface{}{g.pick(eKeys): g.scalar()}, ctx
	case k < 34:
		return map[string]interface{}{g.pick(eKeys): v()}, ctx
	case k < 46:
		k1 := g.pick(eKeys)
		k2 := g.pick(eKeys)
		return map[string]interface{}{k1: g.scalar(), k2: v()}, ctx
	case k < 54:
		return map[string]interface{}{g.pick(eKeys): map[string]interface{}{g.pick(eKeys): v()}}, ctx
	case k < 60:
		// the same variable twice: both values must agree
		x := v()
		return map[string]interface{}{"a": x, "b": x}, ctx
	case k < 68:
		// a property variable (D30: no key matches => an empty, non-nil result)
		kv := g.pick(propKeyVars)
		ctx.vars[kv] = true
		if g.chance(0.5) {
			return map[string]interface{}{kv: g.scalar()}, ctx
		}
		return map[string]interface{}{kv: v()}, ctx
	case k < 76:
		// a variable inside an array: several binding sets
		if g.chance(0.5) {
			return map[string]interface{}{g.pick(eKeys): []interface{}{v()}}, ctx
		}
		return []interface{}{g.scalar(), v()}, ctx
	case k < 80:
		if g.chance(0.5) {
			return v(), ctx
		}
		return g.scalar(), ctx
	case k < 94:
		return g.pattern(2, ctx), ctx
	default:
		// outside the supported fragment: match.Match may return an error
		ctx.malformed = true
		return g.pattern(2, ctx), ctx
	}
}

func (g *G) eRandomMessage() interface{} {
	if g.chance(0.7) {
		m := map[string]interface{}{}
		for n := 1 + g.intn(2); n > 0; n-- {
			m[g.pick(eKeys)] = g.value(1)
		}
		return m
	}
	return g.value(2)
}

var noiseLines = []string{"# noise", "", "{\"a\":", "ready>", "[1,", "tacos tacos"}

func jsonLine(m interface{}) eLine { return eLine{Text: jsText(m)} }

func scalarJSON(x interface{}) bool {
	switch x.(type) {
	case float64, string, bool:
		return true
	}
	return false
}

// eGuardFor picks a guard for a pattern whose witness was built with sigma.
func (g *G) eGuardFor(ctx *pctx, sigma map[string]interface{}, wantAccept bool) eGuard {
	names := make([]string, 0, len(ctx.vars))
	for v := range ctx.vars {
		if v != "?" {
			names = append(names, v)
		}
	}
	sort.Strings(names)
	gd := eGuard{Kind: "none"}
	switch k := g.intn(100); {
	case k < 40:
		return gd
	case k < 52:
		if wantAccept {
			gd.Kind = "accept"
		} else {
			gd.Kind = "reject"
		}
	case k < 60:
		if wantAccept {
			gd.Kind = "empty"
		} else {
			gd.Kind = "undef"
		}
	case k < 76:
		gd.Kind = "has"
		if wantAccept && len(names) > 0 {
			gd.K = names[g.intn(len(names))]
		} else if wantAccept {
			gd.Kind = "accept"
		} else {
			gd.K = "?nope"
		}
	case k < 97:
		gd.Kind = "is"
		var cands []string
		for _, v := range names {
			if x, have := sigma[v]; have && scalarJSON(x) {
				cands = append(cands, v)
			}
		}
		if len(cands) == 0 {
			if wantAccept {
				gd.Kind = "accept"
			} else {
				gd.Kind, gd.K, gd.V = "is", "?nope", 1.0
			}
			break
		}
		gd.K = cands[g.intn(len(cands))]
		gd.V = sigma[gd.K]
		if !wantAccept {
			switch v := gd.V.(type) {
			case float64:
				gd.V = v + 0.25
			case string:
				gd.V = v + "x"
			case bool:
				gd.V = !v
			}
		}
	default:
		gd.Kind = "throw"
	}
	gd.Precompiled = gd.Kind != "none" && g.chance(0.4)
	return gd
}

type planted struct {
	step    int
	witness eLine // a line built to meet the output
	forInv  bool
}

func (g *G) genExpectCase() *expectCase {
	c := &expectCase{ParsePatterns: g.chance(0.5)}
	c.TimeoutMode = g.pick([]string{"default", "io", "mixed"})
	nsteps := 1 + g.intn(3)
	if g.chance(0.35) {
		nsteps = 1
	}
	var plants []planted
	for si := 0; si < nsteps; si++ {
		st := eStep{}
		nexp := g.intn(4)
		if si == 0 && nexp == 0 && g.chance(0.7) {
			nexp = 1
		}
		ninv := 0
		if g.chance(0.4) {
			ninv = 1 + g.intn(2)
		}
		for i := 0; i < nexp+ninv; i++ {
			p, ctx := g.ePattern()
			sigma := map[string]interface{}{}
			w := g.instantiate(p, sigma, ctx, g.chance(0.5))
			inv := i >= nexp
			accept := g.chance(0.8)
			if inv {
				accept = g.chance(0.6)
			}
			o := eOutput{Pattern: p, Inverted: inv, Guard: g.eGuardFor(ctx, sigma, accept)}
			st.Outputs = append(st.Outputs, o)
			plants = append(plants, planted{step: si, witness: jsonLine(w), forInv: inv})
		}
		g.r.Shuffle(len(st.Outputs), func(i, j int) { st.Outputs[i], st.Outputs[j] = st.Outputs[j], st.Outputs[i] })
		c.Steps = append(c.Steps, st)
	}
	// the stream: start from the witnesses of the expected outputs, per step
	chunks := make([][]eLine, nsteps)
	var exp []planted
	for _, pl := range plants {
		if !pl.forInv {
			exp = append(exp, pl)
		}
	}
	kinds := []string{"met", "met", "omit", "standin", "standin", "forbidden", "late", "early", "frontload", "random", "noisy"}
	c.Kind = g.pick(kinds)
	drop, dup := -1, -1
	if len(exp) > 0 {
		switch c.Kind {
		case "omit":
			drop = g.intn(len(exp))
		case "standin":
			drop = g.intn(len(exp))
			if len(exp) > 1 {
				dup = (drop + 1 + g.intn(len(exp)-1)) % len(exp)
			}
		}
	}
	for i, pl := range exp {
		if i == drop {
			continue
		}
		step := pl.step
		switch c.Kind {
		case "late":
			if g.chance(0.4) && step+1 < nsteps {
				step++
			}
		case "early":
			if g.chance(0.5) && step > 0 {
				step--
			}
		case "frontload":
			step = 0
		}
		chunks[step] = append(chunks[step], pl.witness)
		if i == dup {
			for n := 1 + g.intn(2); n > 0; n-- {
				chunks[step] = append(chunks[step], pl.witness)
			}
		}
	}
	if c.Kind == "standin" && dup < 0 && len(exp) > 0 {
		// a single expectation dropped: repeat some unrelated message instead
		m := jsonLine(g.eRandomMessage())
		chunks[exp[0].step] = append(chunks[exp[0].step], m, m)
	}
	for _, pl := range plants {
		if pl.forInv && (c.Kind == "forbidden" && g.chance(0.8) || g.chance(0.06)) {
			step := pl.step
			if g.chance(0.25) {
				step = g.intn(nsteps)
			}
			chunks[step] = append(chunks[step], pl.witness)
		}
	}
	for si := range chunks {
		extra := g.intn(2)
		if c.Kind == "random" || c.Kind == "noisy" {
			extra = 1 + g.intn(3)
		}
		for ; extra > 0; extra-- {
			if c.Kind == "noisy" || g.chance(0.3) {
				chunks[si] = append(chunks[si], eLine{Text: g.pick(noiseLines), Noise: true})
			} else {
				chunks[si] = append(chunks[si], jsonLine(g.eRandomMessage()))
			}
		}
		ch := chunks[si]
		g.r.Shuffle(len(ch), func(i, j int) { ch[i], ch[j] = ch[j], ch[i] })
		if ch == nil {
			ch = []eLine{}
		}
		c.Steps[si].Lines = ch
	}
	c.normalizeGuards()
	return c
}

// normalizeGuards: a guard sees only the first binding set, whose position
// depends on Go's map iteration order; wherever a pattern yields several
// binding sets on some line of the stream, a value-dependent guard is
// replaced by a value-independent one.
func (c *expectCase) normalizeGuards() {
	var msgs []interface{}
	for _, st := range c.Steps {
		for _, l := range st.Lines {
			if l.Noise {
				continue
			}
			var m interface{}
			if json.Unmarshal([]byte(l.Text), &m) == nil {
				msgs = append(msgs, m)
			}
		}
	}
	for si := range c.Steps {
		for oi := range c.Steps[si].Outputs {
			o := &c.Steps[si].Outputs[oi]
			if o.Guard.Kind != "has" && o.Guard.Kind != "is" {
				continue
			}
			for _, m := range msgs {
				if n, _ := matchCount(o.Pattern, m); n > 1 {
					o.Guard = eGuard{Kind: "accept", Precompiled: o.Guard.Precompiled}
					break
				}
			}
		}
	}
}

func matchCount(p, m interface{}) (n int, failed bool) {
	defer func() {
		if r := recover(); r != nil {
			n, failed = 0, true
		}
	}()
	bss, err := match.Match(deepCopy(p, nil), deepCopy(m, nil), match.NewBindings())
	if err != nil {
		return 0, true
	}
	return len(bss), false
}

// nontrivial: at least one expected output and at least one JSON line that
// the pattern of some expected output matches.
func (c *expectCase) nontrivial() bool {
	for _, st := range c.Steps {
		for _, o := range st.Outputs {
			if o.Inverted {
				continue
			}
			for _, st2 := range c.Steps {
				for _, l := range st2.Lines {
					if l.Noise {
						continue
					}
					var m interface{}
					if json.Unmarshal([]byte(l.Text), &m) != nil {
						continue
					}
					if n, _ := matchCount(o.Pattern, m); n > 0 {
						return true
					}
				}
			}
		}
	}
	return false
}

func (c *expectCase) key() string {
	cp := *c
	cp.Verdict, cp.Err, cp.ElapsedMs, cp.Retried, cp.FirstVerdict, cp.Kind = "", "", 0, false, "", ""
	return canon(cp)
}

// ---- corpus ----------------------------------------------------------------

func eLit(kind string, parse bool, steps ...eStep) *expectCase {
	return &expectCase{Kind: kind, ParsePatterns: parse, TimeoutMode: "default", Steps: steps}
}

func eStepLit(outs []eOutput, lines ...string) eStep {
	st := eStep{Outputs: outs, Lines: []eLine{}}
	for _, l := range lines {
		var m interface{}
		st.Lines = append(st.Lines, eLine{Text: l, Noise: json.Unmarshal([]byte(l), &m) != nil})
	}
	return st
}

func eOut(pattern string, gd eGuard, inverted bool) eOutput {
	var p interface{}
	must(json.Unmarshal([]byte(pattern), &p))
	return eOutput{Pattern: p, Guard: gd, Inverted: inverted}
}

func expectCorpus() []*expectCase {
	none := eGuard{Kind: "none"}
	return []*expectCase{
		// D18: a repeated message must not stand in for a missing one
		eLit("corpus-D18", true, eStepLit([]eOutput{eOut(`{"a":1}`, none, false), eOut(`{"b":1}`, none, false)},
			`{"a":1}`, `{"a":1}`)),
		eLit("corpus-D18", false, eStepLit([]eOutput{eOut(`{"a":"?x"}`, none, false), eOut(`{"b":"?y"}`, none, false), eOut(`{"c":1}`, none, false)},
			`{"a":1}`, `{"b":2}`, `{"a":1}`, `{"b":2}`, `{"a":1}`)),
		// D19: a rejecting guard is no match
		eLit("corpus-D19", true, eStepLit([]eOutput{eOut(`{"a":"?x"}`, eGuard{Kind: "reject"}, false)}, `{"a":1}`)),
		eLit("corpus-D19", true, eStepLit([]eOutput{eOut(`{"a":"?x"}`, eGuard{Kind: "undef", Precompiled: true}, false)}, `{"a":1}`)),
		eLit("corpus-D19", true, eStepLit([]eOutput{eOut(`{"a":"?x"}`, eGuard{Kind: "is", K: "?x", V: 2.0}, false)}, `{"a":1}`, `{"a":1}`)),
		// D30: an empty (non-nil) match result is no match
		eLit("corpus-D30", true, eStepLit([]eOutput{eOut(`{"?k":1}`, none, false)}, `{"a":2}`)),
		eLit("corpus-D30", false, eStepLit([]eOutput{eOut(`{"?k":1}`, eGuard{Kind: "accept"}, false)}, `{"a":2}`)),
		eLit("corpus-D30", true, eStepLit([]eOutput{eOut(`{"a":1}`, none, false), eOut(`{"?k":"?v"}`, none, true)}, `{}`, `{"a":1}`)),
		// the repository's example session (specs/tests/double.test.yaml), output side
		eLit("corpus-double", true, eStepLit([]eOutput{eOut(`{"doubled":2}`, none, false),
			eOut(`{"doubled":"?n"}`, eGuard{Kind: "is", K: "?n", V: 2.0}, false)}, `{"doubled":2}`)),
		// plain cases
		eLit("corpus-ok", true, eStepLit([]eOutput{eOut(`{"a":1}`, none, false), eOut(`{"b":1}`, none, false)},
			`{"a":1}`, `noise`, `{"b":1}`)),
		eLit("corpus-empty-stream", true, eStepLit([]eOutput{})),
		eLit("corpus-no-expectation", true, eStepLit([]eOutput{}, `1`)),
		eLit("corpus-leftover", false,
			eStepLit([]eOutput{eOut(`{"a":1}`, none, false)}, `{"a":1}`, `{"b":1}`),
			eStepLit([]eOutput{eOut(`{"b":1}`, none, false)})),
		eLit("corpus-too-late", true,
			eStepLit([]eOutput{eOut(`{"b":1}`, none, false)}, `{"a":1}`),
			eStepLit([]eOutput{}, `{"b":1}`)),
		eLit("corpus-inverted", true, eStepLit([]eOutput{eOut(`{"a":1}`, none, false), eOut(`{"x":"?v"}`, none, true)},
			`{"x":1}`, `{"a":1}`)),
		eLit("corpus-inverted-after", true, eStepLit([]eOutput{eOut(`{"a":1}`, none, false), eOut(`{"x":"?v"}`, none, true)},
			`{"a":1}`, `{"x":1}`)),
		eLit("corpus-inverted-rejected", true, eStepLit([]eOutput{eOut(`{"a":1}`, none, false), eOut(`{"x":"?v"}`, eGuard{Kind: "reject"}, true)},
			`{"x":1}`, `{"a":1}`)),
		eLit("corpus-guard-throws", true, eStepLit([]eOutput{eOut(`{"a":"?x"}`, eGuard{Kind: "throw"}, false)}, `{"a":1}`)),
		eLit("corpus-match-error", true, eStepLit([]eOutput{eOut(`{"?x":1,"?y":2}`, none, false)}, `{"a":1}`)),
		// lines longer than a reader's buffer (4 KiB, 64 KiB) are lines like any other
		eLit("corpus-long-line-forbidden", true, eStepLit([]eOutput{eOut(`{"a":1}`, none, false), eOut(`{"x":"?v"}`, none, true)},
			`{"x":1,"pad":"`+strings.Repeat("p", 5000)+`"}`, `{"a":1}`)),
		eLit("corpus-long-line-expected", true, eStepLit([]eOutput{eOut(`{"a":1}`, none, false)},
			`{"a":1,"pad":"`+strings.Repeat("q", 20000)+`"}`)),
		eLit("corpus-long-line-noise", false, eStepLit([]eOutput{eOut(`{"a":1}`, none, false)},
			strings.Repeat("noise ", 1000), `{"a":1}`)),
		// the process ends cleanly while expectations are open: its silence is no answer
		func() *expectCase {
			c := eLit("corpus-process-ended", true, eStepLit([]eOutput{eOut(`{"a":1}`, none, false)}, `{"b":1}`))
			c.Steps[0].Unsent = []eLine{jsonLine(map[string]interface{}{"a": 1.0})}
			return c
		}(),
		func() *expectCase {
			c := eLit("corpus-process-ended", false, eStepLit([]eOutput{eOut(`{"a":1}`, none, false)}, `{"a":1}`),
				eStepLit([]eOutput{eOut(`{"b":1}`, none, false)}))
			c.Steps[1].Unsent = []eLine{jsonLine(map[string]interface{}{"b": 1.0})}
			return c
		}(),
		func() *expectCase {
			c := eLit("corpus-process-ended", true, eStepLit([]eOutput{eOut(`{"a":1}`, none, false)}, `{"a":1}`),
				eStepLit([]eOutput{eOut(`{"c":"?x"}`, none, false), eOut(`{"b":1}`, none, true)}))
			c.Steps[1].Unsent = []eLine{jsonLine(map[string]interface{}{"c": 2.0})}
			return c
		}(),
		// more outputs in one step than a word has bits: the last ones count like the first
		func() *expectCase {
			var outs []eOutput
			var lines []string
			for i := 0; i < 70; i++ {
				outs = append(outs, eOut(fmt.Sprintf(`{"n":%d}`, i), none, false))
				if i != 66 {
					lines = append(lines, fmt.Sprintf(`{"n":%d}`, i))
				}
			}
			return eLit("corpus-many-outputs", true, eStepLit(outs, lines...))
		}(),
		func() *expectCase {
			var outs []eOutput
			var lines []string
			for i := 0; i < 70; i++ {
				outs = append(outs, eOut(fmt.Sprintf(`{"n":%d}`, i), none, i == 68))
				lines = append(lines, fmt.Sprintf(`{"n":%d}`, i))
			}
			return eLit("corpus-many-outputs", false, eStepLit(outs, lines...))
		}(),
		eLit("corpus-one-line-two-outputs", true, eStepLit([]eOutput{eOut(`{"a":1}`, none, false), eOut(`{"a":"?x"}`, none, false)}, `{"a":1}`)),
	}
}

// expectSmallScope enumerates every one-step session whose output set takes
// each of three patterns as absent / expected / forbidden, against every
// stream of at most three lines over {a-message, b-message, noise}; and every
// two-step session with one output per step against streams of at most one
// line per step plus one line emitted early.  (Validation of the model and a
// search for failing inputs; the theorems are what covers all sessions.)
func expectSmallScope() []*expectCase {
	none := eGuard{Kind: "none"}
	pats := []string{`{"a":1}`, `{"b":1}`, `{"a":"?x"}`}
	alphabet := []string{`{"a":1}`, `{"b":1}`, `# noise`}
	var streams [][]string
	var build func(prefix []string, left int)
	build = func(prefix []string, left int) {
		streams = append(streams, append([]string{}, prefix...))
		if left == 0 {
			return
		}
		for _, l := range alphabet {
			build(append(prefix, l), left-1)
		}
	}
	build(nil, 3)
	var acc []*expectCase
	for code := 0; code < 27; code++ {
		var outs []eOutput
		for i, c := 0, code; i < 3; i, c = i+1, c/3 {
			switch c % 3 {
			case 1:
				outs = append(outs, eOut(pats[i], none, false))
			case 2:
				outs = append(outs, eOut(pats[i], none, true))
			}
		}
		for _, st := range streams {
			acc = append(acc, eLit("enum-1step", code%2 == 0, eStepLit(outs, st...)))
		}
	}
	one := []eOutput{eOut(pats[0], none, false), eOut(pats[1], none, false), eOut(pats[0], none, true)}
	short := [][]string{{}, {alphabet[0]}, {alphabet[1]}, {alphabet[0], alphabet[1]}, {alphabet[1], alphabet[0]}, {alphabet[0], alphabet[0]}}
	for _, o1 := range one {
		for _, o2 := range one {
			for _, c1 := range short {
				for _, c2 := range short[:3] {
					acc = append(acc, eLit("enum-2step", true,
						eStepLit([]eOutput{o1}, c1...), eStepLit([]eOutput{o2}, c2...)))
				}
			}
		}
	}
	return acc
}

func loadExpectReplay(path string) []*expectCase {
	js, err := os.ReadFile(path)
	must(err)
	var wrapper struct {
		Cases []*expectCase `json:"cases"`
	}
	must(json.Unmarshal(js, &wrapper))
	for _, c := range wrapper.Cases {
		c.Verdict, c.Err, c.Retried, c.FirstVerdict = "", "", false, ""
		c.Kind = "replay"
		for i := range c.Steps {
			if c.Steps[i].Lines == nil {
				c.Steps[i].Lines = []eLine{}
			}
		}
	}
	return wrapper.Cases
}

// ---- the component -----------------------------------------------------------

func expectComponent(g *G, n int, opts map[string]string) *Out {
	log.SetOutput(io.Discard) // Run logs every ignored line
	o := newOut("Corr.ExpectCorr", "ecase")
	T := 700 * time.Millisecond
	if ms, err := strconv.Atoi(opts["timeout_ms"]); err == nil && ms > 0 {
		T = time.Duration(ms) * time.Millisecond
	}
	par := 96
	if p, err := strconv.Atoi(opts["par"]); err == nil && p > 0 {
		par = p
	}
	var cases []*expectCase
	if opts["worker"] != "" {
		// worker mode (see runInWorkers): cases come from the file
	} else if path := opts["replay"]; path != "" {
		cases = loadExpectReplay(path)
	} else {
		if opts["nocorpus"] == "" {
			cases = append(cases, expectCorpus()...)
		}
		if opts["enum"] != "" {
			cases = append(cases, expectSmallScope()...)
		}
		for i := 0; i < n; i++ {
			cases = append(cases, g.genExpectCase())
		}
	}
	if opts["worker"] != "" {
		expectWorker(opts["worker"], opts["results"], T, par)
		os.Exit(0)
	}
	runInWorkers(cases, opts, T, par, o)
	if opts["replay"] == "" {
		// second runs of Session values whose first run passed (a handful: each costs a timeout)
		var reruns []*expectCase
		for _, c := range cases {
			if len(reruns) >= 6 {
				break
			}
			if c.Verdict != "pass" || c.Rerun || len(c.Steps) == 0 {
				continue
			}
			expected := false
			for _, st := range c.Steps {
				for _, out := range st.Outputs {
					if !out.Inverted {
						expected = true
					}
				}
			}
			if !expected {
				continue
			}
			r := &expectCase{Kind: "rerun", ParsePatterns: c.ParsePatterns, TimeoutMode: c.TimeoutMode, Rerun: true, First: c.Steps}
			for _, st := range c.Steps {
				r.Steps = append(r.Steps, eStep{Outputs: st.Outputs,
					Lines: []eLine{{Text: "not json", Noise: true}, jsonLine(map[string]interface{}{"unrelated": float64(len(reruns))})}})
			}
			reruns = append(reruns, r)
		}
		if len(reruns) > 0 {
			runInWorkers(reruns, opts, T, par, o)
			cases = append(cases, reruns...)
		}
	}
	for _, c := range cases {
		term, ok := c.coq()
		if !ok {
			o.count("skipped-unrepresentable")
			continue
		}
		o.count("kind:" + strings.SplitN(c.Kind, "-", 2)[0])
		o.count("verdict:" + c.Verdict)
		o.count(fmt.Sprintf("steps:%d", len(c.Steps)))
		if c.Retried {
			o.count("timeout-confirmed-by-second-run")
			if c.FirstVerdict != c.Verdict {
				o.count("second-run-differs")
			}
		}
		if c.Verdict == "fail" {
			switch {
			case c.Retried:
				o.count("fail:timeout")
			case strings.HasPrefix(c.Err, "undesired"):
				o.count("fail:undesired")
			default:
				o.count("fail:error")
			}
		}
		nl, nn := 0, 0
		for _, st := range c.Steps {
			for _, l := range st.Lines {
				if l.Noise {
					nn++
				} else {
					nl++
				}
			}
			for _, out := range st.Outputs {
				o.count("guard:" + out.Guard.Kind)
				if out.Inverted {
					o.count("outputs:inverted")
				} else {
					o.count("outputs:expected")
				}
			}
		}
		o.count(fmt.Sprintf("json-lines:%d", min(nl, 8)))
		if nn > 0 {
			o.count("with-noise")
		}
		if c.ParsePatterns {
			o.count("parse-patterns")
		}
		o.add(term, c.key(), c.nontrivial(), c)
	}
	o.Notes = append(o.Notes, fmt.Sprintf("step timeout %v (second run %v), %d sessions at a time, subprocess cat", T, 3*T, par))
	return o
}

func min(a, b int) int {
	if a < b {
		return a
	}
	return b
}

// ---- running the sessions in worker processes --------------------------------
//
// A panic in one of Run's own goroutines cannot be recovered by the caller: it
// ends the process.  So that such a session becomes a recorded outcome
// ("crash") instead of a harness failure, sessions run in a worker process
// (this binary again, option worker=<cases file>) that appends one result
// line per finished session; sessions without a result after a worker died
// are run again one per process to find out which of them crash.

type eResult struct {
	I            int    `json:"i"`
	Verdict      string `json:"verdict"`
	Err          string `json:"error,omitempty"`
	ElapsedMs    int64  `json:"elapsed_ms"`
	Retried      bool   `json:"retried,omitempty"`
	FirstVerdict string `json:"first_verdict,omitempty"`
}

type eWork struct {
	I    int         `json:"i"`
	Case *expectCase `json:"case"`
}

func expectWorker(inPath, outPath string, T time.Duration, par int) {
	var work []eWork
	loadJSON(inPath, &work)
	f, err := os.OpenFile(outPath, os.O_CREATE|os.O_WRONLY|os.O_APPEND, 0644)
	must(err)
	var mu sync.Mutex
	report := func(r eResult) {
		js, _ := json.Marshal(r)
		mu.Lock()
		f.Write(append(js, '\n'))
		mu.Unlock()
	}
	pending := map[int]eResult{} // the latest verdict of a session that (still) looks like a timeout
	timedOut := func(r eResult, T time.Duration) bool {
		return r.Verdict == "fail" && time.Duration(r.ElapsedMs)*time.Millisecond >= T*9/10
	}
	// pass runs the given sessions with step timeout T; a verdict that is
	// not a (possible) timeout is final and reported at once
	pass := func(todo []int, T time.Duration, par int, first map[int]string, last bool) (again []int) {
		sem := make(chan struct{}, par)
		var wg sync.WaitGroup
		var amu sync.Mutex
		for _, k := range todo {
			wg.Add(1)
			sem <- struct{}{}
			go func(k int) {
				defer wg.Done()
				defer func() { <-sem }()
				w := work[k]
				v, e, el := w.Case.runExpect(T)
				r := eResult{I: w.I, Verdict: v, Err: e, ElapsedMs: el.Milliseconds()}
				amu.Lock()
				if fv, have := first[k]; have {
					r.Retried, r.FirstVerdict = true, fv
				}
				amu.Unlock()
				if timedOut(r, T) && !last {
					amu.Lock()
					again = append(again, k)
					pending[k] = r
					if _, have := first[k]; !have {
						first[k] = v
					}
					amu.Unlock()
					return
				}
				report(r)
			}(k)
		}
		wg.Wait()
		sort.Ints(again)
		return again
	}
	all := make([]int, len(work))
	for k := range work {
		all[k] = k
	}
	first := map[int]string{}
	// 1: everything.  2: every run that failed after about one timeout period
	// or more, again with three times the timeout; the later verdict counts.
	// 3: only if pass 2 overturned some verdict of pass 1 (the machine is so
	// busy that lines written in time came back late): what still looks
	// like a timeout once more, ten times the timeout, fewer at a time.
	t1 := pass(all, T, par, first, false)
	n1 := len(t1)
	slow := false
	t2 := pass(t1, 3*T, par, first, false)
	if len(t2) < n1 {
		slow = true
	}
	if slow {
		pass(t2, 10*T, (par+2)/3, first, true)
	} else {
		// final as they are: report the verdicts of pass 2
		for _, k := range t2 {
			report(pending[k])
		}
	}
	f.Close()
}

func runInWorkers(cases []*expectCase, opts map[string]string, T time.Duration, par int, o *Out) {
	dir, err := os.MkdirTemp("", "vharness-expect-")
	must(err)
	defer os.RemoveAll(dir)
	var mu sync.Mutex
	done := map[int]bool{}
	// spawn runs the given cases in one worker process and collects results
	spawn := func(tag string, idx []int, par int) (died bool, output string) {
		work := make([]eWork, 0, len(idx))
		for _, i := range idx {
			work = append(work, eWork{I: i, Case: cases[i]})
		}
		in := fmt.Sprintf("%s/in_%s.json", dir, tag)
		out := fmt.Sprintf("%s/out_%s.jsonl", dir, tag)
		js, err := json.Marshal(work)
		must(err)
		must(os.WriteFile(in, js, 0644))
		cmd := exec.Command(os.Args[0], "expect", "-out", dir, "-opt",
			fmt.Sprintf("worker=%s,results=%s,timeout_ms=%d,par=%d", in, out, T.Milliseconds(), par))
		raw, runErr := cmd.CombinedOutput()
		if data, err := os.ReadFile(out); err == nil {
			mu.Lock()
			for _, ln := range strings.Split(string(data), "\n") {
				var r eResult
				if ln == "" || json.Unmarshal([]byte(ln), &r) != nil || r.I < 0 || r.I >= len(cases) {
					continue
				}
				c := cases[r.I]
				c.Verdict, c.Err, c.ElapsedMs, c.Retried, c.FirstVerdict = r.Verdict, r.Err, r.ElapsedMs, r.Retried, r.FirstVerdict
				done[r.I] = true
			}
			mu.Unlock()
		}
		tail := string(raw)
		if len(tail) > 600 {
			tail = tail[:600]
		}
		return runErr != nil, tail
	}
	undone := func() []int {
		mu.Lock()
		defer mu.Unlock()
		var todo []int
		for i := range cases {
			if !done[i] {
				todo = append(todo, i)
			}
		}
		return todo
	}
	// several groups of cases at a time, one worker process per group
	inGroups := func(tag string, todo []int, size, procs, par int, onDeath func(i int, output string)) {
		var wg sync.WaitGroup
		sem := make(chan struct{}, procs)
		for k := 0; k < len(todo); k += size {
			grp := todo[k:min(k+size, len(todo))]
			wg.Add(1)
			sem <- struct{}{}
			go func(k int, grp []int) {
				defer wg.Done()
				defer func() { <-sem }()
				died, output := spawn(fmt.Sprintf("%s%d", tag, k), grp, par)
				if onDeath != nil {
					for _, i := range grp {
						mu.Lock()
						d := done[i]
						mu.Unlock()
						if !d {
							if !died {
								output = "no result although the worker process ended normally: " + output
							}
							onDeath(i, output)
						}
					}
				}
			}(k, grp)
		}
		wg.Wait()
	}
	all := undone()
	if died, _ := spawn("all", all, par); died {
		// a session brought the worker down: what has no result yet runs
		// again in small groups, and the members of a group that dies again
		// run one per process: a process that dies then names the session
		o.count("worker-died")
		inGroups("g", undone(), 16, 8, 16, nil)
		inGroups("s", undone(), 1, 8, 1, func(i int, output string) {
			mu.Lock()
			cases[i].Verdict, cases[i].Err = "crash", "worker process died: "+output
			done[i] = true
			mu.Unlock()
		})
	}
	for _, i := range undone() {
		cases[i].Verdict, cases[i].Err = "crash", "no result from the worker process"
	}
}
