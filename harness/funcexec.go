package main

// Component "funcexec" (C18, C08): the wrapper through which the engine runs
// every action and guard - core.FuncAction.Exec for native closures, the
// compiled action of an ActionSource for ECMAScript - called directly, so that
// what it returns is observed even where Spec.Step ignores it (the bindings of
// an Execution that comes with an error).

import (
	"context"
	"fmt"
	"strings"
	"time"

	"github.com/Comcast/sheens/core"
	"github.com/Comcast/sheens/match"
)

func init() { components["funcexec"] = funcExecComponent }

type funcExecCase struct {
	Act *Act                   `json:"act"`
	Bs  map[string]interface{} `json:"bs"`
	Go  interface{}            `json:"go"`
}

func funcExecComponent(g *G, n int, opts map[string]string) *Out {
	g.mode = opts["mode"]
	o := newOut("Corr.FuncExecCorr", "fcase")
	var replay []*funcExecCase
	if path := opts["replay"]; path != "" {
		var w struct {
			Cases []*funcExecCase `json:"cases"`
		}
		loadJSON(path, &w)
		replay = w.Cases
		n = len(replay)
	}
	for i := 0; i < n; i++ {
		a := g.act(g.chance(0.4))
		for a.hasLoop() && !g.chance(0.1) {
			a = g.act(false)
		}
		st := g.astate(&ASpec{Nodes: map[string]*ANode{"start": {}}})
		if replay != nil {
			a, st = replay[i].Act, &AState{Node: "start", Bs: replay[i].Bs}
		}
		var action core.Action
		if a.Native {
			action = a.P.Native(a.ExeOnError)
		} else {
			src := &core.ActionSource{Interpreter: "ecmascript", Source: a.P.JS()}
			act, err := src.Compile(context.Background(), interpreters())
			if err != nil {
				o.count("compile-error")
				continue
			}
			action = act
		}
		var bs match.Bindings
		if st.Bs != nil {
			bs = match.Bindings(deepCopy(st.Bs, nil).(map[string]interface{}))
		}
		before := canon(map[string]interface{}(bs))
		var exe *core.Execution
		var err error
		outcome := guarded(func() {
			// a deadline only for an endless script (one execution: deterministic)
			ctx, cancel := context.WithTimeout(context.Background(), 20*time.Second)
			if a.hasLoop() {
				cancel()
				ctx, cancel = context.WithTimeout(context.Background(), 60*time.Millisecond)
			}
			defer cancel()
			exe, err = action.Exec(ctx, bs, nil)
		})
		intact := canon(map[string]interface{}(bs)) == before
		gor := "FPanic"
		obs := map[string]interface{}{"outcome": outcome, "err": err != nil, "intact": intact}
		if outcome == "ok" {
			ob := "None"
			var em []string
			okRepr := true
			if exe != nil {
				if exe.Bs != nil {
					s, ok := coqBindings(normText(canonCopy(map[string]interface{}(exe.Bs))).(map[string]interface{}))
					okRepr = okRepr && ok
					ob = "(Some " + s + ")"
					obs["bs"] = exe.Bs
				}
				if exe.Events != nil {
					for _, m := range exe.Events.Emitted {
						s, ok := coqJSON(m)
						okRepr = okRepr && ok
						em = append(em, s)
					}
					obs["emitted"] = exe.Events.Emitted
				}
			}
			if okRepr {
				gor = fmt.Sprintf("(FRet %s %s %s)", ob, coqList(em), coqBool(err != nil))
			} else {
				gor = "FUnrep"
			}
		}
		bsTerm, _ := coqOptBindings(st.Bs)
		actTerm := strings.TrimSuffix(strings.TrimPrefix(a.coq(), "(Some "), ")")
		term := fmt.Sprintf("(mk_fcase %s %s %s %s)", actTerm, bsTerm, gor, coqBool(intact))
		hasPerm := false
		for k := range st.Bs {
			if strings.HasSuffix(k, "!") {
				hasPerm = true
			}
		}
		o.count("outcome:" + strings.SplitN(outcome, ":", 2)[0])
		o.count("term:" + a.P.Term)
		if err != nil && exe != nil && exe.Bs != nil {
			o.count("error-with-bindings")
		}
		o.add(term, canon(a)+canon(st.Bs), hasPerm && exe != nil && exe.Bs != nil, &funcExecCase{Act: a, Bs: st.Bs, Go: obs})
	}
	return o
}
