package main

// Rendering of Go JSON values as Gallina terms (constructors abbreviated in
// coq/Corr/Base.v: jn, js, ja, jo, jnull, jt, jf), canonical forms and deep
// snapshots.

import (
	"encoding/json"
	"fmt"
	"math"
	"os"
	"sort"
	"strings"
)

// coqString renders a Go string as a Gallina string literal.  Generated
// strings are printable ASCII; a double quote is doubled (Coq's escape).
//
// String literals are what Coq elaborates slowest (about 75us per character),
// so every distinct string is defined once at the top of a cases file
// (Definition s<k> : string := "...") and referred to by name.
func coqString(s string) string {
	if id, have := internIDs[s]; have {
		return fmt.Sprintf("s%d", id)
	}
	for i := 0; i < len(s); i++ {
		if s[i] < 32 || s[i] > 126 {
			panic(fmt.Sprintf("non-printable string in generated case: %q", s))
		}
	}
	id := len(internList)
	internIDs[s] = id
	internList = append(internList, s)
	return fmt.Sprintf("s%d", id)
}

var (
	internIDs  = map[string]int{}
	internList []string
)

// internDefs renders the definitions of all interned strings.
func internDefs() string {
	var sb strings.Builder
	for id, s := range internList {
		sb.WriteString(fmt.Sprintf("Definition s%d : string := \"%s\".\n", id, strings.ReplaceAll(s, `"`, `""`)))
	}
	return sb.String()
}

func coqZ(z int64) string {
	if z < 0 {
		return fmt.Sprintf("(%d)", z)
	}
	return fmt.Sprintf("%d", z)
}

func coqBool(b bool) string {
	if b {
		return "true"
	}
	return "false"
}

// quarters converts a float64 that is an exact multiple of 1/4 into the
// integer the model uses for it.
func quarters(f float64) (int64, bool) {
	q := f * 4
	if q != math.Trunc(q) || math.Abs(q) > 1e15 {
		return 0, false
	}
	return int64(q), true
}

// coqJSON renders a canonical JSON value (nil, bool, float64, string,
// []interface{}, map[string]interface{}); ok=false when the value is not
// canonical (other Go types, non-quarter numbers).
func coqJSON(x interface{}) (string, bool) {
	var sb strings.Builder
	ok := writeCoqJSON(&sb, x)
	return sb.String(), ok
}

func mustCoqJSON(x interface{}) string {
	s, ok := coqJSON(x)
	if !ok {
		panic(fmt.Sprintf("value not representable in the model: %#v", x))
	}
	return s
}

func sortedKeys(m map[string]interface{}) []string {
	ks := make([]string, 0, len(m))
	for k := range m {
		ks = append(ks, k)
	}
	sort.Strings(ks)
	return ks
}

func writeCoqJSON(sb *strings.Builder, x interface{}) bool {
	switch v := x.(type) {
	case nil:
		sb.WriteString("jnull")
	case bool:
		if v {
			sb.WriteString("jt")
		} else {
			sb.WriteString("jf")
		}
	case float64:
		q, ok := quarters(v)
		if !ok {
			return false
		}
		sb.WriteString("(jn " + coqZ(q) + ")")
	case string:
		sb.WriteString("(js " + coqString(v) + ")")
	case []interface{}:
		sb.WriteString("(ja [")
		for i, y := range v {
			if i > 0 {
				sb.WriteString("; ")
			}
			if !writeCoqJSON(sb, y) {
				return false
			}
		}
		sb.WriteString("])")
	case map[string]interface{}:
		sb.WriteString("(jo ")
		if !writeCoqKVs(sb, v) {
			return false
		}
		sb.WriteString(")")
	default:
		return false
	}
	return true
}

func writeCoqKVs(sb *strings.Builder, m map[string]interface{}) bool {
	sb.WriteString("[")
	for i, k := range sortedKeys(m) {
		if i > 0 {
			sb.WriteString("; ")
		}
		sb.WriteString("(" + coqString(k) + ", ")
		if !writeCoqJSON(sb, m[k]) {
			return false
		}
		sb.WriteString(")")
	}
	sb.WriteString("]")
	return true
}

// coqBindings renders a bindings map as a key-sorted association list.
func coqBindings(m map[string]interface{}) (string, bool) {
	var sb strings.Builder
	ok := writeCoqKVs(&sb, m)
	return sb.String(), ok
}

func coqList(items []string) string {
	return "[" + strings.Join(items, "; ") + "]"
}

func coqOption(s string, some bool) string {
	if !some {
		return "None"
	}
	return "(Some " + s + ")"
}

// canon is the canonical text of a JSON value (encoding/json sorts keys).
func canon(x interface{}) string {
	js, err := json.Marshal(x)
	if err != nil {
		return fmt.Sprintf("!unmarshalable:%T", x)
	}
	return string(js)
}

// deepCopy rebuilds a canonical JSON value; maps are rebuilt inserting the
// keys in the order given by perm (nil = sorted) so that Go's map layout
// differs between constructions.
func deepCopy(x interface{}, g *G) interface{} {
	switch v := x.(type) {
	case []interface{}:
		acc := make([]interface{}, len(v))
		for i, y := range v {
			acc[i] = deepCopy(y, g)
		}
		return acc
	case map[string]interface{}:
		ks := sortedKeys(v)
		if g != nil {
			g.r.Shuffle(len(ks), func(i, j int) { ks[i], ks[j] = ks[j], ks[i] })
		}
		acc := make(map[string]interface{})
		for _, k := range ks {
			acc[k] = deepCopy(v[k], g)
		}
		return acc
	default:
		return x
	}
}

// Storage pools for values handed to the code under test: a host builds its next pattern or message in buffers and
// maps it used for the previous one.  The result of a call must not depend on what stood at those addresses before.
type recycler struct {
	arrays map[int][][]interface{}          // by length
	maps   map[int][]map[string]interface{} // by number of keys
}

func newRecycler() *recycler {
	return &recycler{arrays: map[int][][]interface{}{}, maps: map[int][]map[string]interface{}{}}
}

// give hands the storage of a value that is no longer used to the pool
func (r *recycler) give(x interface{}) {
	switch v := x.(type) {
	case []interface{}:
		for _, y := range v {
			r.give(y)
		}
		if len(v) > 0 && len(r.arrays[len(v)]) < 8 {
			r.arrays[len(v)] = append(r.arrays[len(v)], v)
		}
	case map[string]interface{}:
		n := len(v)
		for _, y := range v {
			r.give(y)
		}
		if n > 0 && len(r.maps[n]) < 8 {
			r.maps[n] = append(r.maps[n], v)
		}
	}
}

// build is deepCopy into recycled storage where some of the right size is at hand
func (r *recycler) build(x interface{}) interface{} {
	switch v := x.(type) {
	case []interface{}:
		elems := make([]interface{}, len(v))
		for i, y := range v {
			elems[i] = r.build(y)
		}
		if pool := r.arrays[len(v)]; len(pool) > 0 {
			buf := pool[len(pool)-1]
			r.arrays[len(v)] = pool[:len(pool)-1]
			copy(buf, elems)
			return buf
		}
		return elems
	case map[string]interface{}:
		vals := make(map[string]interface{}, len(v))
		for k, y := range v {
			vals[k] = r.build(y)
		}
		if pool := r.maps[len(v)]; len(pool) > 0 {
			m := pool[len(pool)-1]
			r.maps[len(v)] = pool[:len(pool)-1]
			for k := range m {
				delete(m, k)
			}
			for k, y := range vals {
				m[k] = y
			}
			return m
		}
		return vals
	default:
		return x
	}
}

func loadJSON(path string, into interface{}) {
	js, err := os.ReadFile(path)
	if err != nil {
		panic(err)
	}
	if err := json.Unmarshal(js, into); err != nil {
		panic(err)
	}
}
