package main

// The action language of coq/Model/Action.v, rendered as ECMAScript source
// and as native Go closures, with a generator.

import (
	"context"
	"encoding/json"
	"errors"
	"fmt"
	"strings"

	"github.com/Comcast/sheens/core"
	"github.com/Comcast/sheens/match"
)

type Op struct {
	Kind string      `json:"op"` // emit, emitb, set, copy, del, delall
	K    string      `json:"k,omitempty"`
	K2   string      `json:"k2,omitempty"`
	J    interface{} `json:"j,omitempty"`
}

type Prog struct {
	Ops  []Op                   `json:"ops"`
	Term string                 `json:"term"` // bindings, fresh, null, nonobject, throw, loop, emitbad, retbad, ifeq
	Kvs  map[string]interface{} `json:"kvs,omitempty"`
	// InPlace: the native rendering deletes and overwrites top-level bindings in the very map it was given (no private
	// copy first).  Same effects in the model: FuncAction.Exec hands an action its own copy (D54).
	InPlace bool `json:"in_place,omitempty"`
	// TouchProps: the ECMAScript rendering also assigns to a top-level member of _.props (no effect in the model:
	// the script gets its own top-level copy, so neither the caller's map nor a later execution sees it)
	TouchProps bool        `json:"touch_props,omitempty"`
	K          string      `json:"k,omitempty"` // ifeq: the binding compared
	J          interface{} `json:"j,omitempty"` // ifeq: the scalar it must equal
}

type Act struct {
	Native     bool  `json:"native"`
	ExeOnError bool  `json:"exe_on_error,omitempty"`
	P          *Prog `json:"prog"`
}

func jsText(x interface{}) string {
	js, err := json.Marshal(x)
	if err != nil {
		panic(err)
	}
	return string(js)
}

// JS renders the program as ECMAScript (the interpreter wraps it in a function).
func (p *Prog) JS() string {
	var sb strings.Builder
	sb.WriteString("var b = _.bindings;\n")
	emitted := map[string]string{}
	if p.TouchProps {
		sb.WriteString("if (_.props) { _.props.touched = (_.props.touched || 0) + 1; delete _.props.mid; }\n")
	}
	for _, op := range p.Ops {
		switch op.Kind {
		case "spin":
			// takes a while and has no effect (for crowds of executions that overlap in time)
			sb.WriteString("for (var zi = 0; zi < 600000; zi++) {}\n")
		case "emit":
			sb.WriteString("_.out(" + jsText(op.J) + ");\n")
		case "emitb":
			// a script that emits the same object again after changing it: every emission is what the object was then
			if w, again := emitted[op.K]; again {
				sb.WriteString(fmt.Sprintf("%s.got = (b[%s] === undefined) ? null : b[%s]; _.out(%s);\n", w, jsText(op.K), jsText(op.K), w))
			} else {
				w := fmt.Sprintf("w%d", len(emitted))
				emitted[op.K] = w
				sb.WriteString(fmt.Sprintf("var %s = {\"got\": (b[%s] === undefined) ? null : b[%s]}; _.out(%s);\n", w, jsText(op.K), jsText(op.K), w))
			}
		case "set":
			sb.WriteString(fmt.Sprintf("b[%s] = %s;\n", jsText(op.K), jsText(op.J)))
		case "copy":
			// a deep copy: the two bindings must not share structure (a later in-place change of one is not a change of the other)
			sb.WriteString(fmt.Sprintf("if (b[%s] !== undefined) { b[%s] = JSON.parse(JSON.stringify(b[%s])); }\n", jsText(op.K2), jsText(op.K), jsText(op.K2)))
		case "del":
			sb.WriteString(fmt.Sprintf("delete b[%s];\n", jsText(op.K)))
		case "delall":
			sb.WriteString("Object.keys(b).forEach(function(k) { delete b[k]; });\n")
		case "gcount":
			// state kept on a built-in: visible to a later execution only if runtimes are shared
			// (counted once per execution: the flag lives in the per-execution environment object)
			sb.WriteString(fmt.Sprintf("if (!_.vcDone) { Math.vc = (Math.vc || 0) + 1; _.vcDone = true; } b[%s] = Math.vc;\n", jsText(op.K)))
		case "poke":
			sb.WriteString(fmt.Sprintf("(function(v){ if (Array.isArray(v)) { if (v.length > 0 && v[0] !== null && typeof v[0] === 'object' && !Array.isArray(v[0])) { v[0].poked = 1; } else if (v.length > 0) { v[0] = 1; } } else if (v !== null && typeof v === 'object') { v.poked = 1; } })(b[%s]);\n", jsText(op.K)))
		}
	}
	switch p.Term {
	case "bindings":
		sb.WriteString("return _.bindings;\n")
	case "fresh":
		sb.WriteString("return " + jsText(p.Kvs) + ";\n")
	case "null":
		sb.WriteString("return null;\n")
	case "nonobject":
		// nothing but a plain object (or null) is a set of bindings: not a number, and not a value the runtime
		// exports as some Go object that would print as {}
		switch len(p.Ops) % 4 {
		case 0:
			sb.WriteString("return 42;\n")
		case 1:
			sb.WriteString("return new ArrayBuffer(8);\n")
		case 2:
			sb.WriteString("return new Proxy({}, {});\n")
		default:
			sb.WriteString("return Promise.resolve({});\n")
		}
	case "throw":
		if len(p.Ops)%3 == 1 {
			// a long diagnostic with text that is not ASCII (error texts are one token in the model)
			sb.WriteString(fmt.Sprintf("throw \"%s\" + new Array(400).join(\"\u00e9\u4e16\");\n", strings.Repeat("x", len(p.Ops))))
		} else {
			sb.WriteString("throw \"boom\";\n")
		}
	case "loop":
		switch len(p.Ops) % 3 {
		case 1:
			// never ends while the text of the thrown value is computed (its toString), after the body has returned
			sb.WriteString("return {get a() { throw {toString: function() { for(;;){} }}; }};\n")
		case 2:
			sb.WriteString("throw {toString: function() { for(;;){} }};\n")
		default:
			sb.WriteString("for(;;){}\n")
		}
	case "emitbad":
		if len(p.Ops)%3 == 2 {
			// an emitted value whose export runs script code that throws
			sb.WriteString("_.out({get a() { throw \"boom\"; }}); return _.bindings;\n")
		} else {
			sb.WriteString("_.out(function(){}); return _.bindings;\n")
		}
	case "ifeq":
		sb.WriteString(fmt.Sprintf("return (b[%s] === %s) ? _.bindings : null;\n", jsText(p.K), jsText(p.J)))
	case "retbad":
		switch len(p.Ops) % 4 {
		case 0:
			sb.WriteString("return {x: function(){}};\n")
		case 1:
			sb.WriteString("return {x: 0/0, y: 1};\n")
		case 2:
			// exporting the result runs a getter that throws (D50: crashed Exec)
			sb.WriteString("return {get a() { throw \"boom\"; }, y: 1};\n")
		default:
			sb.WriteString("return {y: {z: [1, {get a() { throw new Error(\"deep\"); }}]}};\n")
		}
	}
	return sb.String()
}

func canonCopy(x interface{}) interface{} {
	js, err := json.Marshal(x)
	if err != nil {
		panic(err)
	}
	var y interface{}
	if err := json.Unmarshal(js, &y); err != nil {
		panic(err)
	}
	return y
}

// Native renders the program as a Go closure with the same effects.
func (p *Prog) Native(exeOnError bool) core.Action {
	return &core.FuncAction{F: func(ctx context.Context, bs match.Bindings, props core.StepProps) (*core.Execution, error) {
		exe := core.NewExecution(nil)
		var b match.Bindings
		if bs != nil {
			b = match.Bindings(canonCopy(map[string]interface{}(bs)).(map[string]interface{}))
		}
		if p.readOnly() || p.InPlace {
			// a native action that does not change the bindings hands
			// back the very map it was given (as the engine's own nil
			// FuncAction does): the engine must not write into it
			b = bs
		}
		fail := func() (*core.Execution, error) {
			if exeOnError {
				exe.Bs = b
				return exe, errors.New("native boom")
			}
			return nil, errors.New("native boom")
		}
		for _, op := range p.Ops {
			if op.Kind == "emit" {
				exe.AddEmitted(canonCopy(op.J))
				continue
			}
			if b == nil {
				return fail()
			}
			switch op.Kind {
			case "emitb":
				v, have := b[op.K]
				if !have {
					v = nil
				}
				exe.AddEmitted(map[string]interface{}{"got": canonCopy(v)})
			case "set":
				b[op.K] = canonCopy(op.J)
			case "copy":
				if v, have := b[op.K2]; have {
					b[op.K] = canonCopy(v)
				}
			case "del":
				delete(b, op.K)
			case "delall":
				for k := range b {
					delete(b, k)
				}
			case "gcount":
				b[op.K] = 1.0
			case "poke":
				// b is a private deep copy: mutate the nested value in place
				switch v := b[op.K].(type) {
				case []interface{}:
					if len(v) > 0 {
						if m, ok := v[0].(map[string]interface{}); ok {
							m["poked"] = 1.0
							break
						}
					}
					if len(v) > 0 {
						v[0] = 1.0
					}
				case map[string]interface{}:
					v["poked"] = 1.0
				}
			}
		}
		switch p.Term {
		case "bindings":
			exe.Bs = b
			return exe, nil
		case "fresh":
			exe.Bs = match.Bindings(canonCopy(p.Kvs).(map[string]interface{}))
			return exe, nil
		case "null":
			exe.Bs = nil
			return exe, nil
		case "ifeq":
			if b == nil {
				return fail()
			}
			if v, have := b[p.K]; have && canon(v) == canon(p.J) {
				exe.Bs = b
			} else {
				exe.Bs = nil
			}
			return exe, nil
		default:
			return fail()
		}
	}}
}

// readOnly: the program neither sets nor deletes a binding
func (p *Prog) readOnly() bool {
	for _, op := range p.Ops {
		if op.Kind != "emit" && op.Kind != "emitb" {
			return false
		}
	}
	return true
}

func (p *Prog) coq() string {
	ops := make([]string, 0, len(p.Ops))
	for _, op := range p.Ops {
		switch op.Kind {
		case "emit":
			ops = append(ops, "AEmit "+mustCoqJSON(op.J))
		case "emitb":
			ops = append(ops, "AEmitBinding "+coqString(op.K))
		case "set":
			ops = append(ops, "ASet "+coqString(op.K)+" "+mustCoqJSON(op.J))
		case "copy":
			ops = append(ops, "ACopy "+coqString(op.K)+" "+coqString(op.K2))
		case "del":
			ops = append(ops, "ADel "+coqString(op.K))
		case "delall":
			ops = append(ops, "ADelAll")
		case "poke":
			ops = append(ops, "APoke "+coqString(op.K))
		case "gcount":
			ops = append(ops, "ACountGlobal "+coqString(op.K))
		}
	}
	var term string
	switch p.Term {
	case "bindings":
		term = "TRetBindings"
	case "fresh":
		s, _ := coqBindings(p.Kvs)
		term = "(TRetFresh " + s + ")"
	case "null":
		term = "TRetNull"
	case "nonobject":
		term = "TRetNonObject"
	case "throw":
		term = "TThrow"
	case "loop":
		term = "TLoop"
	case "emitbad":
		term = "TEmitBad"
	case "retbad":
		term = "TRetBad"
	case "ifeq":
		term = "(TRetIfEq " + coqString(p.K) + " " + mustCoqJSON(p.J) + ")"
	}
	return "(mk_prog " + coqList(ops) + " " + term + ")"
}

func (a *Act) coq() string {
	if a == nil {
		return "None"
	}
	if a.Native {
		return "(Some (Native " + a.P.coq() + " " + coqBool(a.ExeOnError) + "))"
	}
	return "(Some (Js " + a.P.coq() + "))"
}

func (a *Act) hasLoop() bool { return a != nil && a.P.Term == "loop" && !a.Native }

// keys actions read and write (shared with the bindings generator)
var bindKeys = []string{"a", "b", "c", "n", "cfg!", "ver!", "?x", "?y", "t"}

func (g *G) smallJSON() interface{} {
	if g.chance(0.6) {
		return g.scalar()
	}
	return g.value(2)
}

var permKeys = []string{"cfg!", "ver!", "p!", "!"} // "!": the bare sigil is a name that ends in it

// key: a binding name; in c18 mode mostly a permanent one
func (g *G) key() string {
	if g.mode == "c18" && g.chance(0.6) {
		return g.pick(permKeys)
	}
	return g.pick(bindKeys)
}

func (g *G) prog(guard bool) *Prog {
	p := &Prog{}
	nops := g.intn(4)
	if guard {
		nops = g.intn(2)
		if g.mode == "c18" {
			nops = g.intn(3)
		}
	}
	if g.mode == "c18" && g.chance(0.25) {
		// reach into a (permanent) binding and change it below the top level
		p.Ops = append(p.Ops, Op{Kind: "poke", K: g.pick(permKeys)})
	}
	if !guard && g.chance(0.1) {
		// emit (part of) the bindings, then change that part in place: what was emitted is what it was then
		k := g.key()
		p.Ops = append(p.Ops, Op{Kind: "emitb", K: k}, Op{Kind: "poke", K: k})
		if g.chance(0.5) {
			p.Ops = append(p.Ops, Op{Kind: "emitb", K: k})
		}
	}
	for i := 0; i < nops; i++ {
		switch k := g.intn(14); {
		case k == 13:
			p.Ops = append(p.Ops, Op{Kind: "gcount", K: g.pick(bindKeys)})
		case k == 12:
			p.Ops = append(p.Ops, Op{Kind: "poke", K: g.key()})
		case k < 4:
			p.Ops = append(p.Ops, Op{Kind: "emit", J: map[string]interface{}{"e": g.smallJSON(), "to": "nobody"}})
		case k < 5:
			p.Ops = append(p.Ops, Op{Kind: "emitb", K: g.key()})
		case k < 8:
			p.Ops = append(p.Ops, Op{Kind: "set", K: g.key(), J: g.smallJSON()})
		case k < 9:
			p.Ops = append(p.Ops, Op{Kind: "copy", K: g.key(), K2: g.key()})
		case k < 11:
			p.Ops = append(p.Ops, Op{Kind: "del", K: g.key()})
		default:
			p.Ops = append(p.Ops, Op{Kind: "delall"})
		}
	}
	k := g.intn(100)
	if guard && g.mode == "c18" {
		// accepting guards that delete, overwrite or replace
		switch {
		case k < 60:
			p.Term = "bindings"
		case k < 80:
			p.Term = "fresh"
		case k < 92:
			p.Term = "null"
		default:
			p.Term = "throw"
		}
	} else if guard {
		switch {
		case k < 25:
			// accepts some candidates and rejects others
			p.Term = "ifeq"
			p.K = g.pick(append(append([]string{}, plainVars...), bindKeys...))
			p.J = g.scalar()
		case k < 55:
			p.Term = "bindings"
		case k < 85:
			p.Term = "null"
		case k < 90:
			p.Term = "throw"
		case k < 95:
			p.Term = "nonobject"
		default:
			p.Term = "fresh"
		}
	} else {
		switch {
		case k < 55:
			p.Term = "bindings"
		case k < 65:
			p.Term = "fresh"
		case k < 73:
			p.Term = "null"
		case k < 79:
			p.Term = "nonobject"
		case k < 91:
			p.Term = "throw"
		case k < 93:
			p.Term = "loop"
		case k < 97:
			p.Term = "emitbad"
		default:
			p.Term = "retbad"
		}
	}
	if p.Term == "fresh" {
		p.Kvs = map[string]interface{}{}
		for n := g.intn(3); n > 0; n-- {
			p.Kvs[g.key()] = g.smallJSON()
		}
	}
	return p
}

func (g *G) act(guard bool) *Act {
	a := &Act{P: g.prog(guard)}
	if g.chance(0.3) {
		a.Native = true
		a.ExeOnError = g.chance(0.5)
		hasPoke := false
		for _, op := range a.P.Ops {
			if op.Kind == "poke" {
				hasPoke = true // below the top level a native action works on what it was given: outside C06/C18
			}
		}
		a.P.InPlace = !hasPoke && g.chance(0.4)
	} else if g.chance(0.15) {
		a.P.TouchProps = true
	}
	return a
}
