package main

// Component "sio" (C14, C15): histories of operations on a real sio.Crew.
//
// A history is a list of steps: a message handed to Crew.ProcessMsg (ordinary
// messages, captain messages that create / replace / delete machines) or a
// direct Crew.SetMachine / Crew.DeleteMachine call.  The machines are
// "recorders": real sheens specifications (ECMAScript actions) that append a
// digest of every message they see to the binding "log" and emit the members
// of the message's "then" list, stamped with their own id (coq/Model/
// SioRecorder.v is their semantics).  Emitted messages are finite sub-terms
// of the submitted message, so every ProcessMsg terminates; every call still
// runs under a watchdog.
//
// After every step the harness records Result.Emitted, Result.Changed, the
// crew's machines and the probes for the two service machines; after every
// message step it hands the Result to the real reference consumer (a
// sio.Stdio writing its state file), reads the state file back, boots a
// second crew from that file the way sio/siostd does, and runs the rest of
// the history on the second crew as well.
//
// A specification source is either inline (a recorder) or only a name,
// {"name": "N0"}: sio.ResolveSpecSource resolves a source with neither "inline"
// nor "url" to nothing, without an error, and SetMachine leaves the machine
// without specification (inert) while the report - and the consumer's store -
// carries the source as given (mode "named", RNamed in Model/SioRecorder.v;
// the model compares sources by label and mode, i.e. two name-only sources
// with different names differ, like their JSON texts).
//
// Only the exported API of package sio is used.

import (
	"context"
	"encoding/json"
	"fmt"
	"io"
	"log"
	"os"
	"path/filepath"
	"sort"
	"strings"
	"sync"
	"time"

	"github.com/Comcast/sheens/core"
	"github.com/Comcast/sheens/crew"
	"github.com/Comcast/sheens/sio"
)

func init() {
	components["sio"] = sioComponent
}

// ---------- recorder specifications ----------

var sioModes = []string{"fwd", "rev", "mute", "idle", "deaf"}

// sioNamed: the "mode" of a source that is only a name (no recorder: it resolves to no specification)
const sioNamed = "named"

var sioNames = []string{"N0", "N1"}

func coqSioMode(m string) string {
	switch m {
	case "fwd":
		return "RFwd"
	case "rev":
		return "RRev"
	case "mute":
		return "RMute"
	case "idle":
		return "RIdle"
	case "deaf":
		return "RDeaf"
	case sioNamed:
		return "RNamed"
	}
	panic("unknown recorder mode " + m)
}

// sioRecSpec renders the recorder with the given label and mode as a sheens
// specification (JSON form, compiled by the crew itself).
func sioRecSpec(label, mode string) map[string]interface{} {
	src := `
var b = _.bindings, m = b["?m"];
var isO = (m !== null && typeof m === "object" && !Array.isArray(m));
var tag = isO ? (("tag" in m) ? m.tag : null) : m;
var from = (isO && ("from" in m)) ? m.from : null;
var log = Array.isArray(b.log) ? b.log.slice() : [];
log.push([tag, from]);
var then = (isO && Array.isArray(m.then)) ? m.then.slice() : [];
var mode = "` + mode + `";
if (mode === "rev") { then.reverse(); }
if (mode !== "mute") {
  for (var i = 0; i < then.length; i++) {
    var e = then[i];
    if (e !== null && typeof e === "object" && !Array.isArray(e)) { e.from = _.props.mid; }
    _.out(e);
  }
}
delete b["?m"]; b.log = log; b.by = "` + label + `";
return b;`
	if mode == "idle" {
		src = `var b = _.bindings; delete b["?m"]; return b;`
	}
	action := map[string]interface{}{"interpreter": "ecmascript", "source": src}
	var pattern interface{} = "?m"
	if mode == "deaf" {
		pattern = map[string]interface{}{"never": "matches", "deaf": "?x"}
	}
	mb := func(target string) map[string]interface{} {
		return map[string]interface{}{"type": "message", "branches": []interface{}{
			map[string]interface{}{"pattern": pattern, "target": target}}}
	}
	bb := func(target string) map[string]interface{} {
		return map[string]interface{}{"branches": []interface{}{map[string]interface{}{"target": target}}}
	}
	after1, after2 := "flip", "start"
	if mode == "idle" {
		after1, after2 = "start", "flip"
	}
	return map[string]interface{}{
		"name": label, "doc": mode,
		"nodes": map[string]interface{}{
			"start": map[string]interface{}{"branching": mb("rec1")},
			"rec1":  map[string]interface{}{"action": action, "branching": bb(after1)},
			"flip":  map[string]interface{}{"branching": mb("rec2")},
			"rec2":  map[string]interface{}{"action": action, "branching": bb(after2)},
		},
	}
}

// sioExpand turns the model form of a message (inline specifications reduced
// to {"name": label, "doc": mode}) into the form handed to Go.
var sioTypedCount int

// sioGoTyped: a host written in Go hands ProcessMsg a routing list of type []string as readily as the []interface{} a
// JSON decoder makes; every other submitted message with an all-string list gets the Go-typed form
func sioGoTyped(x interface{}) interface{} {
	m, is := x.(map[string]interface{})
	if !is {
		return x
	}
	l, is := m["to"].([]interface{})
	if !is || len(l) == 0 {
		return x
	}
	ss := make([]string, 0, len(l))
	for _, y := range l {
		s, is := y.(string)
		if !is {
			return x
		}
		ss = append(ss, s)
	}
	sioTypedCount++
	if sioTypedCount%2 == 0 {
		return x
	}
	acc := make(map[string]interface{}, len(m))
	for k, v := range m {
		acc[k] = v
	}
	acc["to"] = ss
	return acc
}

func sioExpand(x interface{}) interface{} {
	switch v := x.(type) {
	case []interface{}:
		acc := make([]interface{}, len(v))
		for i, y := range v {
			acc[i] = sioExpand(y)
		}
		return acc
	case map[string]interface{}:
		acc := make(map[string]interface{}, len(v))
		for k, y := range v {
			if k == "inline" {
				if d, is := y.(map[string]interface{}); is {
					if _, full := d["nodes"]; !full {
						label, _ := d["name"].(string)
						mode, _ := d["doc"].(string)
						acc[k] = sioRecSpec(label, mode)
						continue
					}
				}
			}
			acc[k] = sioExpand(y)
		}
		return acc
	default:
		return x
	}
}

// sioCollapse is the inverse on what Go hands back (emitted messages).
func sioCollapse(x interface{}) interface{} {
	switch v := x.(type) {
	case []interface{}:
		acc := make([]interface{}, len(v))
		for i, y := range v {
			acc[i] = sioCollapse(y)
		}
		return acc
	case map[string]interface{}:
		acc := make(map[string]interface{}, len(v))
		for k, y := range v {
			if k == "inline" {
				if d, is := y.(map[string]interface{}); is {
					if _, full := d["nodes"]; full {
						acc[k] = map[string]interface{}{"name": d["name"], "doc": d["doc"]}
						continue
					}
				}
			}
			acc[k] = sioCollapse(y)
		}
		return acc
	default:
		return x
	}
}

// ---------- case inputs ----------

type sioCfg struct {
	Label string `json:"label"`
	Mode  string `json:"mode"`
}

type sioState struct {
	Node string                 `json:"node"`
	Bs   map[string]interface{} `json:"bs"`
}

type sioOp struct {
	Kind  string      `json:"kind"` // msg | set | del
	Msg   interface{} `json:"msg,omitempty"`
	Mid   string      `json:"mid,omitempty"`
	Spec  *sioCfg     `json:"spec,omitempty"`
	State *sioState   `json:"state,omitempty"`
}

type sioMach struct {
	Spec  *sioCfg   `json:"spec"`
	State *sioState `json:"state"`
}

type sioChg struct {
	Deleted bool      `json:"deleted"`
	State   *sioState `json:"state"`
	Spec    *sioCfg   `json:"spec"`
}

type sioStepObs struct {
	Emitted     [][]interface{}     `json:"emitted"`
	Changed     map[string]*sioChg  `json:"changed"`
	Timers      bool                `json:"timer_added"`
	Live        map[string]*sioMach `json:"live"`
	Wedged      bool                `json:"captain_wedged"`
	Store       map[string]*sioMach `json:"store"`
	Booted      bool                `json:"booted"`
	Boot        map[string]*sioMach `json:"boot,omitempty"`
	TwinEmitted [][][]interface{}   `json:"twin_emitted,omitempty"`
	TwinLive    map[string]*sioMach `json:"twin_live,omitempty"`
	Note        string              `json:"note,omitempty"`
}

type sioCase struct {
	Kind   string        `json:"kind"`
	Det    bool          `json:"det"`
	Ops    []*sioOp      `json:"ops"`
	Status string        `json:"status,omitempty"`
	Steps  []*sioStepObs `json:"go,omitempty"`
	Detail string        `json:"detail,omitempty"`
}

// ---------- running a history on the real code ----------

type sioCouplings struct {
	in  chan interface{}
	out chan *sio.Result
}

func (c *sioCouplings) Start(context.Context) error { return nil }
func (c *sioCouplings) IO(context.Context) (chan interface{}, chan *sio.Result, error) {
	return c.in, c.out, nil
}
func (c *sioCouplings) Read(context.Context) (map[string]*crew.Machine, error) { return nil, nil }
func (c *sioCouplings) Stop(context.Context) error                             { return nil }

const sioWatchdog = 90 * time.Second

var sioCrewCount int

// Every other crew runs its machines under a step limit of 2: a recorder (and each service machine) needs exactly two
// steps per message, so its walks stop at the limit, right after the action, instead of finding nothing more to do.
// What such a walk emitted and where it left the machine count all the same.
func sioNewCrew(ctx context.Context) (*sio.Crew, error) {
	sioCrewCount++
	ctl := core.DefaultControl
	if sioCrewCount%2 == 0 {
		ctl = &core.Control{Limit: 2}
	}
	return sio.NewCrew(ctx, &sio.CrewConf{Ctl: ctl},
		&sioCouplings{in: make(chan interface{}), out: make(chan *sio.Result)})
}

// sioGuarded runs f under recover() and the watchdog.
func sioGuarded(f func() error) (status string, detail string) {
	done := make(chan [2]string, 1)
	go func() {
		defer func() {
			if r := recover(); r != nil {
				done <- [2]string{"panic", fmt.Sprint(r)}
			}
		}()
		if err := f(); err != nil {
			done <- [2]string{"err", err.Error()}
			return
		}
		done <- [2]string{"ok", ""}
	}()
	select {
	case r := <-done:
		return r[0], r[1]
	case <-time.After(sioWatchdog):
		return "hang", "watchdog"
	}
}

func sioStateOf(st *core.State) *sioState {
	if st == nil {
		return nil
	}
	js, err := json.Marshal(st)
	if err != nil {
		return &sioState{Node: "!unmarshalable"}
	}
	var raw struct {
		Node string                 `json:"node"`
		Bs   map[string]interface{} `json:"bs"`
	}
	if err := json.Unmarshal(js, &raw); err != nil {
		return &sioState{Node: "!unparsable"}
	}
	if raw.Bs == nil {
		raw.Bs = map[string]interface{}{}
	}
	return &sioState{Node: raw.Node, Bs: raw.Bs}
}

func sioCfgOf(src *crew.SpecSource) *sioCfg {
	if src == nil {
		return nil
	}
	if src.Inline == nil {
		if src.URL == "" && src.Source == "" {
			// only a name: the source as given (it resolves to nothing)
			return &sioCfg{Label: src.Name, Mode: sioNamed}
		}
		return &sioCfg{Label: "!not-inline", Mode: "fwd"}
	}
	if src.Inline.Doc == sioNamed {
		return &sioCfg{Label: "!inline-named", Mode: "fwd"}
	}
	return &sioCfg{Label: src.Inline.Name, Mode: src.Inline.Doc}
}

func sioIsService(mid string) bool { return mid == sio.TimersMachine || mid == sio.CaptainMachine }

func sioSnapshot(c *sio.Crew) (map[string]*sioMach, bool) {
	live := map[string]*sioMach{}
	wedged := false
	for mid, m := range c.Machines {
		if mid == sio.CaptainMachine {
			if m.State != nil && len(m.State.Bs) > 0 {
				wedged = true
			}
			continue
		}
		if sioIsService(mid) {
			continue
		}
		live[mid] = &sioMach{Spec: sioCfgOf(m.SpecSource), State: sioStateOf(m.State)}
		if m.State != nil {
			// a state is plain JSON data in the Go types the matcher knows (also after it was read back from a store)
			if ok, why := canonicalType(map[string]interface{}(m.State.Bs)); !ok {
				live[mid].State = &sioState{Node: "!non-canonical bindings: " + why}
			}
		}
	}
	return live, wedged
}

// sioPendingTimers: the number of pending timers in the timers machine's
// state (the probe for "a timer request reached the timers machine"; every
// generated request has its own id and is due in an hour).
func sioPendingTimers(c *sio.Crew) int {
	m, have := c.Machines[sio.TimersMachine]
	if !have || m.State == nil {
		return -1
	}
	js, err := json.Marshal(m.State)
	if err != nil {
		return -2
	}
	var raw struct {
		Bs struct {
			Timers map[string]interface{} `json:"timers"`
		} `json:"bs"`
	}
	if err := json.Unmarshal(js, &raw); err != nil {
		return -3
	}
	return len(raw.Bs.Timers)
}

// sioApply performs one step on a crew.
func sioApply(ctx context.Context, c *sio.Crew, op *sioOp) (r *sio.Result, status, detail string) {
	status, detail = sioGuarded(func() error {
		switch op.Kind {
		case "msg":
			var err error
			r, err = c.ProcessMsg(ctx, sioGoTyped(sioExpand(op.Msg)))
			return err
		case "set":
			var src *crew.SpecSource
			if op.Spec != nil {
				// a specification source as it arrives in a crew operation: decoded from JSON
				js, _ := json.Marshal(sioExpand(sioSpecJSON(op.Spec)))
				src = &crew.SpecSource{}
				if err := json.Unmarshal(js, src); err != nil {
					return err
				}
			}
			var st *core.State
			if op.State != nil {
				st = &core.State{NodeName: op.State.Node, Bs: deepCopy(op.State.Bs, nil).(map[string]interface{})}
			}
			return c.SetMachine(ctx, op.Mid, src, st)
		case "del":
			return c.DeleteMachine(ctx, op.Mid)
		}
		return fmt.Errorf("unknown op kind %q", op.Kind)
	})
	return
}

// sioFold hands a Result to the reference consumer: a fresh sio.Stdio that
// reads the state file, folds Result.Changed into its state and writes the
// file again (the real code of sio/stdio.go), then reads the file back.
func sioFold(ctx context.Context, file string, r *sio.Result) (map[string]*sioMach, error) {
	s := sio.NewStdio(false)
	s.In = strings.NewReader("")
	s.Out = io.Discard
	s.StateOutputFilename = file
	s.WriteStatePerMsg = true
	if _, err := os.Stat(file); err == nil {
		s.StateInputFilename = file
	}
	_, out, err := s.IO(ctx)
	if err != nil {
		return nil, err
	}
	if _, err = s.Read(ctx); err != nil {
		return nil, err
	}
	out <- r
	out <- nil // the consumer goroutine returns; r has been folded and written
	sioFoldCount++
	if sioFoldCount%2 == 0 {
		// an idle session of the host in between: it loads the state file, processes nothing, and writes its state when it
		// stops (Stdio.Stop) - the file must still hold the crew
		if err := sioIdleSession(ctx, file); err != nil {
			return nil, err
		}
	}
	return sioReadStore(file)
}

var sioFoldCount int

func sioIdleSession(ctx context.Context, file string) error {
	s := sio.NewStdio(false)
	s.In = strings.NewReader("")
	s.Out = io.Discard
	s.StateInputFilename = file
	s.StateOutputFilename = file
	_, out, err := s.IO(ctx)
	if err != nil {
		return err
	}
	if _, err = s.Read(ctx); err != nil {
		return err
	}
	out <- nil
	return s.Stop(ctx)
}

func sioReadStore(file string) (map[string]*sioMach, error) {
	js, err := os.ReadFile(file)
	if err != nil {
		return nil, err
	}
	var ms map[string]*crew.Machine
	if err = json.Unmarshal(js, &ms); err != nil {
		return nil, err
	}
	store := map[string]*sioMach{}
	for mid, m := range ms {
		if sioIsService(mid) {
			continue
		}
		store[mid] = &sioMach{Spec: sioCfgOf(m.SpecSource), State: sioStateOf(m.State)}
	}
	return store, nil
}

// sioBoot: the boot path of sio/siostd/main.go on the state file.
func sioBoot(ctx context.Context, file string) (*sio.Crew, error) {
	c, err := sioNewCrew(ctx)
	if err != nil {
		return nil, err
	}
	s := sio.NewStdio(false)
	s.StateInputFilename = file
	ms, err := s.Read(ctx)
	if err != nil {
		return nil, err
	}
	for mid, m := range ms {
		if err := c.SetMachine(ctx, mid, m.SpecSource, m.State); err != nil {
			return nil, err
		}
	}
	return c, nil
}

func sioEmitted(r *sio.Result) [][]interface{} {
	acc := [][]interface{}{}
	if r == nil {
		return acc
	}
	for _, batch := range r.Emitted {
		b := make([]interface{}, len(batch))
		for i, m := range batch {
			var x interface{}
			js, err := json.Marshal(m)
			if err == nil {
				err = json.Unmarshal(js, &x)
			}
			if err != nil {
				x = "!unserialisable"
			}
			b[i] = sioCollapse(x)
		}
		acc = append(acc, b)
	}
	return acc
}

func sioRunHistory(h *sioCase, dir string, twins bool) {
	ctx, cancel := context.WithCancel(context.Background())
	defer cancel()
	h.Status, h.Steps, h.Detail = "ok", nil, ""
	c, err := sioNewCrew(ctx)
	if err != nil {
		h.Status, h.Detail = "err", err.Error()
		return
	}
	file := filepath.Join(dir, "state.json")
	os.Remove(file)
	store := map[string]*sioMach{}
	timers := sioPendingTimers(c)
	for k, op := range h.Ops {
		obs := &sioStepObs{Changed: map[string]*sioChg{}}
		r, status, detail := sioApply(ctx, c, op)
		if status != "ok" {
			h.Status, h.Detail = status, fmt.Sprintf("step %d: %s", k, detail)
			return
		}
		obs.Emitted = sioEmitted(r)
		if r != nil {
			for mid, ch := range r.Changed {
				if sioIsService(mid) {
					continue
				}
				obs.Changed[mid] = &sioChg{Deleted: ch.Deleted, State: sioStateOf(ch.State), Spec: sioCfgOf(ch.SpecSrc)}
			}
		}
		obs.Live, obs.Wedged = sioSnapshot(c)
		if nt := sioPendingTimers(c); nt != timers {
			obs.Timers, timers = true, nt
		}
		if op.Kind == "msg" {
			var ferr error
			status, detail = sioGuarded(func() error {
				store, ferr = sioFold(ctx, file, r)
				return ferr
			})
			if status != "ok" {
				h.Status, h.Detail = status, fmt.Sprintf("step %d (consumer): %s", k, detail)
				return
			}
			if twins {
				var twin *sio.Crew
				status, detail = sioGuarded(func() error {
					var err error
					twin, err = sioBoot(ctx, file)
					return err
				})
				if status != "ok" {
					h.Status, h.Detail = status, fmt.Sprintf("step %d (boot): %s", k, detail)
					return
				}
				obs.Booted = true
				obs.Boot, _ = sioSnapshot(twin)
				obs.TwinEmitted = [][][]interface{}{}
				for j := k + 1; j < len(h.Ops); j++ {
					r2, status, detail := sioApply(ctx, twin, h.Ops[j])
					if status != "ok" {
						h.Status, h.Detail = status, fmt.Sprintf("step %d on the crew booted after step %d: %s", j, k, detail)
						return
					}
					if h.Ops[j].Kind == "msg" {
						obs.TwinEmitted = append(obs.TwinEmitted, sioEmitted(r2))
					}
				}
				obs.TwinLive, _ = sioSnapshot(twin)
			}
		}
		obs.Store = store
		h.Steps = append(h.Steps, obs)
	}
	// at the end of every history: a crew operation whose specification cannot be compiled, for an existing machine and
	// for a new id, must leave no trace - neither in the crew nor in what the crew reports (D57: the change was recorded
	// before the specification was resolved)
	if status, detail := sioGuarded(func() error { return sioBrokenSpecProbe(ctx, c) }); status != "ok" {
		h.Status, h.Detail = status, "after the history: "+detail
	}
}

func sioBrokenSpecProbe(ctx context.Context, c *sio.Crew) error {
	before, _ := sioSnapshot(c)
	broken := map[string]interface{}{"inline": map[string]interface{}{"name": "broken", "nodes": map[string]interface{}{
		"start": map[string]interface{}{"action": map[string]interface{}{"interpreter": "ecmascript", "source": "return (((;"}}}}}
	ids := []string{"zz-new-machine"}
	for mid := range before {
		ids = append(ids, mid)
		break
	}
	for _, mid := range ids {
		r, err := c.ProcessMsg(ctx, map[string]interface{}{"to": "captain", "update": map[string]interface{}{
			mid: map[string]interface{}{"spec": broken, "state": map[string]interface{}{"node": "elsewhere", "bs": map[string]interface{}{"probe": true}}}}})
		if err != nil {
			return fmt.Errorf("ProcessMsg with an uncompilable specification for %q: %v", mid, err)
		}
		if r != nil {
			// (changes made earlier through the API and not yet reported may surface here; none may carry the probe)
			for id, ch := range r.Changed {
				js, _ := json.Marshal(ch)
				if strings.Contains(string(js), "elsewhere") || strings.Contains(string(js), "broken") {
					return fmt.Errorf("an operation that failed (uncompilable specification for %q) is reported as a change of %q: %s", mid, id, js)
				}
			}
		}
		after, _ := sioSnapshot(c)
		if canon(after) != canon(before) {
			return fmt.Errorf("an operation that failed (uncompilable specification for %q) changed the crew: %s -> %s", mid, canon(before), canon(after))
		}
	}
	// one operation with several good updates and a broken one among them: whichever updates the crew has applied when
	// it gives up (the order is the order of a Go map), the crew reports exactly what it did - a consumer that folds the
	// reported changes has the machines the crew has, no more and no fewer
	good := map[string]interface{}{"inline": map[string]interface{}{"name": "L9", "doc": "fwd"}}
	upd := map[string]interface{}{"zz-p-bad": map[string]interface{}{"spec": broken}}
	for i := 0; i < 7; i++ {
		upd[fmt.Sprintf("zz-p%d", i)] = map[string]interface{}{"spec": good}
	}
	r, err := c.ProcessMsg(ctx, map[string]interface{}{"to": "captain", "update": upd})
	if err != nil {
		return fmt.Errorf("ProcessMsg with one uncompilable specification among several updates: %v", err)
	}
	after, _ := sioSnapshot(c)
	for i := 0; i < 7; i++ {
		id := fmt.Sprintf("zz-p%d", i)
		_, live := after[id]
		reported := false
		if r != nil {
			if ch, have := r.Changed[id]; have && ch != nil && !ch.Deleted {
				reported = true
			}
		}
		if live != reported {
			return fmt.Errorf("an operation that failed half-way: machine %q is in the crew: %v, reported as created: %v", id, live, reported)
		}
	}
	if _, live := after["zz-p-bad"]; live {
		return fmt.Errorf("a machine with an uncompilable specification was created")
	}
	return nil
}

// ---------- Gallina rendering ----------

func coqSioCfg(c *sioCfg) string {
	if c == nil {
		return "None"
	}
	return "(Some (rc " + coqString(c.Label) + " " + coqSioMode(c.Mode) + "))"
}

func coqSioMs(s *sioState) (string, bool) {
	if s == nil {
		return "(gs " + coqString("!nil") + " [])", false
	}
	bs, ok := coqBindings(s.Bs)
	return "(gs " + coqString(s.Node) + " " + bs + ")", ok
}

func coqSioState(s *sioState) (string, bool) {
	if s == nil {
		return "None", true
	}
	ms, ok := coqSioMs(s)
	return "(Some " + ms + ")", ok
}

func coqSioMachs(ms map[string]*sioMach, entry bool) (string, bool) {
	ids := make([]string, 0, len(ms))
	for k := range ms {
		ids = append(ids, k)
	}
	sort.Strings(ids)
	items, ok := []string{}, true
	for _, id := range ids {
		m := ms[id]
		if entry {
			st, ok1 := coqSioState(m.State)
			ok = ok && ok1
			items = append(items, "("+coqString(id)+", ge "+st+" "+coqSioCfg(m.Spec)+")")
		} else {
			st, ok1 := coqSioMs(m.State)
			ok = ok && ok1
			items = append(items, "("+coqString(id)+", gm "+coqSioCfg(m.Spec)+" "+st+")")
		}
	}
	return coqList(items), ok
}

func coqSioBatches(bs [][]interface{}) (string, bool) {
	items, ok := []string{}, true
	for _, b := range bs {
		ms := []string{}
		for _, m := range b {
			s, ok1 := coqJSON(m)
			ok = ok && ok1
			ms = append(ms, s)
		}
		items = append(items, coqList(ms))
	}
	return coqList(items), ok
}

func coqSioOp(op *sioOp) (string, bool) {
	switch op.Kind {
	case "msg":
		s, ok := coqJSON(op.Msg)
		return "(om " + s + ")", ok
	case "set":
		st, ok := coqSioState(op.State)
		return "(os " + coqString(op.Mid) + " " + coqSioCfg(op.Spec) + " " + st + ")", ok
	case "del":
		return "(od " + coqString(op.Mid) + ")", true
	}
	return "(od " + coqString("!bad") + ")", false
}

func coqSioCase(h *sioCase) (string, bool) {
	ok := true
	steps := []string{}
	for k, obs := range h.Steps {
		op, ok1 := coqSioOp(h.Ops[k])
		em, ok2 := coqSioBatches(obs.Emitted)
		ids := make([]string, 0, len(obs.Changed))
		for id := range obs.Changed {
			ids = append(ids, id)
		}
		sort.Strings(ids)
		chs := []string{}
		for _, id := range ids {
			ch := obs.Changed[id]
			st, ok3 := coqSioState(ch.State)
			ok = ok && ok3
			chs = append(chs, "("+coqString(id)+", gc "+coqBool(ch.Deleted)+" "+st+" "+coqSioCfg(ch.Spec)+")")
		}
		live, ok4 := coqSioMachs(obs.Live, false)
		store, ok5 := coqSioMachs(obs.Store, true)
		boot, ok6 := coqSioMachs(obs.Boot, false)
		twl, ok7 := coqSioMachs(obs.TwinLive, false)
		tws := []string{}
		for _, e := range obs.TwinEmitted {
			s, ok8 := coqSioBatches(e)
			ok = ok && ok8
			tws = append(tws, s)
		}
		ok = ok && ok1 && ok2 && ok4 && ok5 && ok6 && ok7 && obs.Note == ""
		steps = append(steps, "mk_sstep "+op+" "+em+" "+coqList(chs)+" "+coqBool(obs.Timers)+" "+live+" "+
			coqBool(obs.Wedged)+" "+store+" "+coqBool(obs.Booted)+" "+boot+" "+coqList(tws)+" "+twl)
	}
	status := map[string]string{"ok": "GOk", "hang": "GHang", "panic": "GPanic", "err": "GErr"}[h.Status]
	if status == "" || !ok {
		status = "GErr"
	}
	return "mk_sio_case " + coqString(sio.TimersMachine) + " " + coqString(sio.CaptainMachine) + " " + coqBool(h.Det) +
		" " + status + " " + coqList(steps), ok
}

// ---------- generator ----------

type sioGen struct {
	g      *G
	tagN   int
	timerN int
	alive  map[string]*sioCfg // the generator's idea of the crew (nil = no specification)
}

var (
	sioIDs      = []string{"a", "b", "c", "", "*", "d"}
	sioUnknown  = []string{"nobody", "zz"}
	sioLabels   = []string{"L0", "L1", "L2", "L3"}
	sioStateBss = []string{`{}`, `{"k":1}`, `{"by":"L9","log":[["z",null]]}`, `{"k":"v","log":[]}`, `{"n":2.5,"o":{"p":[1,"q"]}}`}
)

func sioMustJSON(s string) interface{} {
	var x interface{}
	if err := json.Unmarshal([]byte(s), &x); err != nil {
		panic(err)
	}
	return x
}

func (sg *sioGen) tag() string {
	sg.tagN++
	return fmt.Sprintf("t%d", sg.tagN)
}

func (sg *sioGen) cfg() *sioCfg {
	mode := "fwd"
	switch x := sg.g.intn(20); {
	case x < 9:
		mode = "fwd"
	case x < 13:
		mode = "rev"
	case x < 16:
		mode = "mute"
	case x < 18:
		mode = "idle"
	default:
		mode = "deaf"
	}
	if sg.g.chance(0.065) {
		// a source that is only a name: it resolves to no specification
		return &sioCfg{Label: sg.g.pick(sioNames), Mode: sioNamed}
	}
	return &sioCfg{Label: sg.g.pick(sioLabels), Mode: mode}
}

func (sg *sioGen) aliveIDs() []string {
	ids := make([]string, 0, len(sg.alive))
	for k := range sg.alive {
		ids = append(ids, k)
	}
	sort.Strings(ids)
	return ids
}

func (sg *sioGen) someID() string {
	ids := sg.aliveIDs()
	if len(ids) > 0 && sg.g.chance(0.8) {
		return ids[sg.g.intn(len(ids))]
	}
	if sg.g.chance(0.5) {
		return sg.g.pick(sioIDs)
	}
	return sg.g.pick(sioUnknown)
}

func (sg *sioGen) freshID() (string, bool) {
	var free []string
	for _, id := range sioIDs {
		if _, have := sg.alive[id]; !have {
			free = append(free, id)
		}
	}
	if len(free) == 0 {
		return "", false
	}
	return free[sg.g.intn(len(free))], true
}

func (sg *sioGen) state() *sioState {
	node := []string{"start", "flip", "", "start"}[sg.g.intn(4)]
	return &sioState{Node: node, Bs: sioMustJSON(sg.g.pick(sioStateBss)).(map[string]interface{})}
}

func sioSpecJSON(c *sioCfg) interface{} {
	if c.Mode == sioNamed {
		return map[string]interface{}{"name": c.Label}
	}
	return map[string]interface{}{"inline": map[string]interface{}{"name": c.Label, "doc": c.Mode}}
}

func sioStateJSON(s *sioState) interface{} {
	m := map[string]interface{}{}
	if s.Node != "" {
		m["node"] = s.Node
	}
	m["bs"] = deepCopy(s.Bs, nil)
	return m
}

// machine member of a crew operation
func sioMachJSON(c *sioCfg, s *sioState) interface{} {
	m := map[string]interface{}{}
	if c != nil {
		m["spec"] = sioSpecJSON(c)
	}
	if s != nil {
		m["state"] = sioStateJSON(s)
	}
	return m
}

// target picks a routing target; chain = at most one ordinary recipient.
func (sg *sioGen) target(m map[string]interface{}, chain bool) {
	g := sg.g
	if chain {
		switch x := g.intn(10); {
		case x < 7:
			m["to"] = sg.someID()
		case x < 8:
			m["to"] = []interface{}{sg.someID()}
		case x < 9:
			id := sg.someID()
			m["to"] = []interface{}{id, 7.0, id}
		default:
			m["to"] = g.pick(sioUnknown)
		}
		if s, is := m["to"].(string); is && s == "*" {
			m["to"] = []interface{}{"*"}
		}
		return
	}
	switch x := g.intn(100); {
	case x < 24: // no target
	case x < 46:
		m["to"] = sg.someID()
	case x < 54:
		m["to"] = "*"
	case x < 78:
		n := g.intn(4)
		l := []interface{}{}
		for i := 0; i < n; i++ {
			switch y := g.intn(12); {
			case y < 7:
				l = append(l, sg.someID())
			case y < 8:
				l = append(l, g.pick(sioUnknown))
			case y < 9:
				l = append(l, 5.0)
			case y < 10:
				l = append(l, nil)
			case y < 11:
				l = append(l, map[string]interface{}{"id": "a"})
			default:
				if len(l) > 0 {
					l = append(l, l[g.intn(len(l))]) // repeated member
				} else {
					l = append(l, "*")
				}
			}
		}
		m["to"] = l
	case x < 84:
		m["to"] = g.pick(sioUnknown)
	case x < 88:
		m["to"] = []interface{}{2.0, true, nil, map[string]interface{}{"k": 1.0}}[g.intn(4)]
	case x < 92:
		m["to"] = sio.TimersMachine
	case x < 94:
		m["to"] = []interface{}{sio.TimersMachine, sg.someID()}
	default:
		m["to"] = sg.someID()
	}
}

func (sg *sioGen) msg(depth int, chain, top bool) interface{} {
	g := sg.g
	if !chain && g.chance(0.04) {
		return []interface{}{"s" + sg.tag(), 2.5, []interface{}{1.0, "x"}, true}[g.intn(4)]
	}
	m := map[string]interface{}{"tag": sg.tag()}
	sg.target(m, chain)
	if g.chance(0.15) {
		m["x"] = g.num()
	}
	if top && !chain && g.chance(0.10) {
		// a timer request: reaches the timers machine only when it names it
		sg.timerN++
		m["makeTimer"] = map[string]interface{}{"in": "1h", "msg": map[string]interface{}{"tag": "fired"},
			"id": fmt.Sprintf("T%d", sg.timerN)}
	}
	if !chain && g.chance(0.05) {
		// a decoy: shaped like a crew operation, not addressed to the captain
		m["delete"] = []interface{}{sg.someID()}
	}
	if depth > 0 && chain && g.chance(0.2) {
		// spawn, then greet: the machine emits the creation of a new machine followed by a message to
		// it; the recipient does not exist when the greeting is emitted, it does when its turn comes
		if id, ok := sg.freshID(); ok {
			create := map[string]interface{}{"to": sio.CaptainMachine,
				"update": map[string]interface{}{id: sioMachJSON(sg.cfg(), nil)}}
			greet := map[string]interface{}{"tag": sg.tag(), "to": id}
			m["then"] = []interface{}{create, greet}
			return m
		}
	}
	if depth > 0 {
		n := []int{0, 0, 1, 1, 2, 2, 3}[g.intn(7)]
		if n > 0 {
			kids := make([]interface{}, 0, n)
			for i := 0; i < n; i++ {
				if chain && g.chance(0.3) {
					kids = append(kids, sg.opMsg(false, false))
				} else {
					kids = append(kids, sg.msg(depth-1, chain, false))
				}
			}
			m["then"] = kids
		}
	}
	return m
}

// rounds estimates how many messages one ProcessMsg will process.
func sioRounds(x interface{}, nMach int) int {
	m, is := x.(map[string]interface{})
	if !is {
		return 1
	}
	kids, _ := m["then"].([]interface{})
	r := nMach
	switch t := m["to"].(type) {
	case string:
		if t != "*" {
			r = 1
		}
	case []interface{}:
		r = len(t)
	}
	total := 1
	for _, k := range kids {
		total += r * sioRounds(k, nMach)
		if total > 100000 {
			return total
		}
	}
	return total
}

// chain: every message in the tree has at most one ordinary recipient
func sioIsChain(x interface{}) bool {
	m, is := x.(map[string]interface{})
	if !is {
		return false
	}
	switch t := m["to"].(type) {
	case string:
		if t == "*" {
			return false
		}
	case []interface{}:
		seen := map[string]bool{}
		for _, y := range t {
			if s, is := y.(string); is && !sioIsService(s) {
				seen[s] = true
			}
		}
		if len(seen) > 1 {
			return false
		}
	default:
		return false
	}
	if kids, have := m["then"].([]interface{}); have {
		for _, k := range kids {
			if !sioIsChain(k) {
				return false
			}
		}
	}
	return true
}

// opMsg builds a captain message; track = update the generator's idea of the crew.
func (sg *sioGen) opMsg(track, mixed bool) interface{} {
	g := sg.g
	m := map[string]interface{}{"to": sio.CaptainMachine}
	upd := map[string]interface{}{}
	var del []interface{}
	alive := func(id string, c *sioCfg) {
		if track {
			sg.alive[id] = c
		}
	}
	dead := func(id string) {
		if track {
			delete(sg.alive, id)
		}
	}
	switch x := g.intn(100); {
	case x < 30: // create
		if id, ok := sg.freshID(); ok {
			c := sg.cfg()
			var st *sioState
			if g.chance(0.35) {
				st = sg.state()
			}
			upd[id] = sioMachJSON(c, st)
			alive(id, c)
			if g.chance(0.25) {
				if id2, ok := sg.freshID(); ok && id2 != id {
					c2 := sg.cfg()
					upd[id2] = sioMachJSON(c2, nil)
					alive(id2, c2)
				}
			}
		} else {
			id := sg.someID()
			upd[id] = sioMachJSON(nil, sg.state())
		}
	case x < 45: // replace the state
		upd[sg.someID()] = sioMachJSON(nil, sg.state())
	case x < 57: // replace the specification
		id := sg.someID()
		c := sg.cfg()
		upd[id] = sioMachJSON(c, nil)
		alive(id, c)
	case x < 63: // both
		id := sg.someID()
		c := sg.cfg()
		upd[id] = sioMachJSON(c, sg.state())
		alive(id, c)
	case x < 78: // delete
		id := sg.someID()
		del = append(del, id)
		dead(id)
		if g.chance(0.2) {
			id2 := sg.someID()
			del = append(del, id2)
			dead(id2)
		}
	case x < 84: // update and delete of one id in one operation
		id := sg.someID()
		upd[id] = sioMachJSON(sg.cfg(), sg.state())
		del = append(del, id)
		dead(id)
	case x < 89: // a machine without a specification
		if id, ok := sg.freshID(); ok {
			var st *sioState
			if g.chance(0.4) {
				st = sg.state()
			}
			upd[id] = sioMachJSON(nil, st)
			alive(id, nil)
		} else {
			upd[sg.someID()] = sioMachJSON(nil, nil)
		}
	case x < 93: // empty operations
		if g.chance(0.5) {
			m["update"] = map[string]interface{}{}
		} else {
			m["delete"] = []interface{}{}
		}
		return m
	case x < 96: // an update that says nothing
		upd[sg.someID()] = sioMachJSON(nil, nil)
	default: // create two, delete one
		if id, ok := sg.freshID(); ok {
			c := sg.cfg()
			upd[id] = sioMachJSON(c, nil)
			alive(id, c)
		}
		id := sg.someID()
		del = append(del, id)
		dead(id)
	}
	if g.chance(0.06) {
		// the operation also names a service machine, with a specification for it: the service machines keep their own
		upd[g.pick([]string{sio.TimersMachine, sio.CaptainMachine})] = sioMachJSON(sg.cfg(), nil)
	}
	if len(upd) > 0 {
		m["update"] = upd
	}
	if len(del) > 0 {
		m["delete"] = del
	}
	if len(upd) == 0 && len(del) == 0 {
		m["delete"] = []interface{}{}
	}
	if mixed {
		// the captain together with an ordinary machine, in list order
		id := sg.someID()
		if g.chance(0.5) {
			m["to"] = []interface{}{sio.CaptainMachine, id}
		} else {
			m["to"] = []interface{}{id, sio.CaptainMachine}
		}
		m["tag"] = sg.tag()
		if g.chance(0.5) {
			m["then"] = []interface{}{map[string]interface{}{"tag": sg.tag(), "to": sg.someID()}}
		}
	}
	return m
}

func (sg *sioGen) boundedMsg(chain bool) interface{} {
	for try := 0; try < 30; try++ {
		depth := 1 + sg.g.intn(3)
		m := sg.msg(depth, chain, true)
		if sioRounds(m, len(sg.alive)) <= 40 {
			return m
		}
	}
	return map[string]interface{}{"tag": sg.tag()}
}

func (sg *sioGen) history(mode string) *sioCase {
	g := sg.g
	sg.alive = map[string]*sioCfg{}
	sg.tagN, sg.timerN = 0, 0
	h := &sioCase{Kind: "generated-" + mode}
	chainOnly := g.chance(0.3)
	add := func(op *sioOp) { h.Ops = append(h.Ops, op) }
	direct := func() {
		// a direct API call
		if g.chance(0.6) {
			id, ok := sg.freshID()
			if !ok || g.chance(0.4) {
				id = sg.someID()
			}
			if sioIsService(id) {
				id = "a"
			}
			var c *sioCfg
			var st *sioState
			if g.chance(0.7) {
				c = sg.cfg()
			}
			if g.chance(0.5) {
				st = sg.state()
			}
			if c != nil {
				sg.alive[id] = c
			} else if _, have := sg.alive[id]; !have {
				sg.alive[id] = nil
			}
			add(&sioOp{Kind: "set", Mid: id, Spec: c, State: st})
		} else {
			id := sg.someID()
			if sioIsService(id) {
				id = "a"
			}
			delete(sg.alive, id)
			add(&sioOp{Kind: "del", Mid: id})
		}
	}
	if mode == "c14" {
		// a crew of 0-5 machines, then 1-4 messages
		k := g.intn(6)
		for len(sg.alive) < k {
			if g.chance(0.15) {
				direct()
				continue
			}
			id, _ := sg.freshID()
			c := sg.cfg()
			upd := map[string]interface{}{id: sioMachJSON(c, nil)}
			sg.alive[id] = c
			if g.chance(0.1) {
				upd[id] = sioMachJSON(nil, nil) // no specification
				sg.alive[id] = nil
			}
			add(&sioOp{Kind: "msg", Msg: map[string]interface{}{"to": sio.CaptainMachine, "update": upd}})
		}
		n := 1 + g.intn(4)
		for i := 0; i < n; i++ {
			switch x := g.intn(100); {
			case x < 80:
				add(&sioOp{Kind: "msg", Msg: sg.boundedMsg(chainOnly)})
			case x < 90:
				add(&sioOp{Kind: "msg", Msg: sg.opMsg(true, g.chance(0.5))})
			case x < 93:
				// something that is no operation: the captain keeps it
				add(&sioOp{Kind: "msg", Msg: map[string]interface{}{"to": sio.CaptainMachine, "tag": sg.tag()}})
			default:
				direct()
			}
		}
	} else {
		n := 2 + g.intn(11)
		for i := 0; i < n; i++ {
			switch x := g.intn(100); {
			case x < 12 && len(sg.alive) < 2:
				id, ok := sg.freshID()
				if !ok {
					id = "a"
				}
				c := sg.cfg()
				sg.alive[id] = c
				add(&sioOp{Kind: "msg", Msg: map[string]interface{}{"to": sio.CaptainMachine,
					"update": map[string]interface{}{id: sioMachJSON(c, nil)}}})
			case x < 45:
				add(&sioOp{Kind: "msg", Msg: sg.opMsg(true, !chainOnly && g.chance(0.15))})
			case x < 82:
				add(&sioOp{Kind: "msg", Msg: sg.boundedMsg(chainOnly || g.chance(0.3))})
			case x < 92:
				direct()
			case x < 94:
				add(&sioOp{Kind: "msg", Msg: map[string]interface{}{"to": sio.CaptainMachine, "tag": sg.tag()}})
			default:
				// delete and create again within one ProcessMsg (nested operations, a chain)
				id := sg.someID()
				via := sg.someID()
				c := sg.cfg()
				var cc *sioCfg
				if g.chance(0.6) {
					cc = c
				}
				var st *sioState
				if g.chance(0.5) {
					st = sg.state()
				}
				var to interface{} = via
				if via == "*" {
					to = []interface{}{via} // the machine with the id "*", not everybody
				}
				add(&sioOp{Kind: "msg", Msg: map[string]interface{}{"to": to, "tag": sg.tag(), "then": []interface{}{
					map[string]interface{}{"to": sio.CaptainMachine, "delete": []interface{}{id}},
					map[string]interface{}{"to": sio.CaptainMachine, "update": map[string]interface{}{id: sioMachJSON(cc, st)}},
				}}})
				// whether the operations run depends on via's mode; the generator's idea may be off
				if cc != nil {
					sg.alive[id] = cc
				}
			}
		}
	}
	h.Det = sioHistoryDet(h)
	return h
}

func sioHistoryDet(h *sioCase) bool {
	for _, op := range h.Ops {
		if op.Kind == "msg" && !sioIsChain(op.Msg) {
			return false
		}
	}
	return true
}

// ---------- corpus: hand-written histories that always run first ----------

func sioCorpus() []*sioCase {
	J := sioMustJSON
	create := func(id, label, mode string) *sioOp {
		return &sioOp{Kind: "msg", Msg: map[string]interface{}{"to": "captain",
			"update": map[string]interface{}{id: sioMachJSON(&sioCfg{label, mode}, nil)}}}
	}
	msg := func(s string) *sioOp { return &sioOp{Kind: "msg", Msg: J(s)} }
	cs := []*sioCase{
		{Kind: "D11: a repeated list member", Ops: []*sioOp{create("a", "L0", "fwd"), create("b", "L1", "fwd"),
			msg(`{"to":["a","a"],"tag":"d11","then":[{"to":"nobody","tag":"x"},{"to":"b","tag":"y"}]}`),
			msg(`{"to":["b","a","b","a"],"tag":"d11b","then":[{"tag":"z"}]}`)}},
		{Kind: "D41: list members that are no strings, and the machine with the empty id", Ops: []*sioOp{
			create("", "L0", "fwd"), create("a", "L1", "fwd"),
			msg(`{"to":[5],"tag":"five"}`), msg(`{"to":[null,"a",{"k":1}],"tag":"mixed"}`), msg(`{"to":[""],"tag":"empty"}`),
			msg(`{"to":"","tag":"e2"}`), msg(`{"to":5,"tag":"five5"}`)}},
		{Kind: "D13: the state of an existing machine is replaced", Ops: []*sioOp{create("a", "L0", "fwd"),
			msg(`{"to":"a","tag":"one"}`),
			msg(`{"to":"captain","update":{"a":{"state":{"node":"flip","bs":{"k":1}}}}}`),
			msg(`{"to":"a","tag":"two"}`)}},
		{Kind: "D14: delete and create again within one ProcessMsg", Ops: []*sioOp{create("a", "L0", "fwd"), create("b", "L1", "fwd"),
			msg(`{"to":"a","tag":"one"}`),
			msg(`{"to":"b","tag":"d14","then":[{"to":"captain","delete":["a"]},{"to":"captain","update":{"a":{"state":{"node":"flip","bs":{"z":2}}}}}]}`),
			msg(`{"to":"a","tag":"two"}`),
			msg(`{"to":"b","tag":"d14b","then":[{"to":"captain","delete":["a"]},{"to":"captain","update":{"a":{"spec":{"inline":{"name":"L2","doc":"rev"}}}}}]}`),
			msg(`{"to":"a","tag":"three","then":[{"to":"b","tag":"p"},{"to":"b","tag":"q"}]}`),
			msg(`{"to":"b","tag":"d14c","then":[{"to":"captain","delete":["a"]},{"to":"captain","update":{"a":{}}}]}`),
			msg(`{"to":"a","tag":"four"}`)}},
		{Kind: "D42: a machine without specification or state", Ops: []*sioOp{
			msg(`{"to":"captain","update":{"z":{}}}`), msg(`{"to":"z","tag":"toz"}`), create("z", "L0", "mute"), msg(`{"to":"z","tag":"toz2"}`)}},
		{Kind: "routing as in doc/by-example.md", Ops: []*sioOp{create("c", "L0", "fwd"), create("dc", "L1", "rev"), create("d", "L2", "mute"),
			msg(`{"tag":"double","x":2.5,"then":[{"tag":"doubled","to":"nobody"},{"tag":"again"}]}`),
			msg(`{"to":"d","tag":"only-d"}`), msg(`{"to":"*","tag":"star","then":[{"to":"c","tag":"back"}]}`),
			msg(`{"to":"timers","makeTimer":{"in":"1h","msg":{"tag":"fired"},"id":"T1"}}`),
			msg(`{"makeTimer":{"in":"1h","msg":{"tag":"fired"},"id":"T2"},"tag":"not-for-timers"}`),
			msg(`{"delete":["c"],"tag":"not-for-the-captain"}`),
			msg(`{"to":["timers","c"],"makeTimer":{"in":"1h","msg":1,"id":"T3"},"tag":"both"}`),
			msg(`"hello"`), msg(`{"to":"nobody","tag":"lost"}`)}},
		{Kind: "the captain keeps a message that is no operation", Ops: []*sioOp{create("a", "L0", "fwd"),
			msg(`{"to":"captain","tag":"nonop"}`), create("q", "L1", "fwd"), msg(`{"tag":"after"}`)}},
		{Kind: "suppression against the previous report", Ops: []*sioOp{create("a", "L0", "idle"),
			msg(`{"to":"captain","update":{"a":{"state":{"node":"flip","bs":{"k":1}}}}}`),
			msg(`{"to":"captain","update":{"a":{"state":{"node":"flip","bs":{"k":1}}}}}`),
			msg(`{"to":"a","tag":"idle-walk"}`),
			msg(`{"to":"captain","update":{"a":{"state":{"node":"flip","bs":{"k":1}},"spec":{"inline":{"name":"L3","doc":"fwd"}}}}}`),
			msg(`{"to":"a","tag":"now-logs"}`)}},
		{Kind: "delete, re-create, delete unknown, update and delete in one operation", Ops: []*sioOp{create("a", "L0", "fwd"),
			msg(`{"to":"a","tag":"one"}`), msg(`{"to":"captain","delete":["a","nobody"]}`), msg(`{"tag":"none"}`),
			create("a", "L1", "rev"), msg(`{"to":"a","tag":"two"}`),
			msg(`{"to":"captain","update":{"a":{"state":{"bs":{"k":1}}},"b":{"spec":{"inline":{"name":"L2","doc":"fwd"}}}},"delete":["a"]}`),
			msg(`{"tag":"three"}`),
			{Kind: "set", Mid: "e", Spec: &sioCfg{"L3", "fwd"}}, {Kind: "del", Mid: "b"}, msg(`{"tag":"four"}`)}},
		{Kind: "the captain and a machine it changes in one list", Ops: []*sioOp{create("a", "L0", "fwd"),
			msg(`{"to":["captain","a"],"delete":["a"],"tag":"gone-before"}`), create("a", "L0", "fwd"),
			msg(`{"to":["a","captain"],"delete":["a"],"tag":"seen-then-gone","then":[{"tag":"k","to":"a"}]}`)}},
	}
	cs = append(cs, &sioCase{Kind: "an update names the service machines (specification only)", Ops: []*sioOp{create("a", "L0", "fwd"), create("b", "L1", "rev"),
		msg(`{"to":"captain","update":{"timers":{"spec":{"inline":{"name":"L5","doc":"fwd"}}}}}`),
		msg(`{"tag":"unrouted","makeTimer":{"in":"1h","msg":{"tag":"fired"},"id":"T7"},"then":[{"tag":"t1"}]}`),
		msg(`{"to":"captain","update":{"captain":{"spec":{"inline":{"name":"L6","doc":"rev"}}},"b":{"state":{"node":"flip","bs":{"k":2}}}}}`),
		msg(`{"tag":"unrouted-op","delete":["a"],"update":{"c":{"spec":{"inline":{"name":"L7","doc":"fwd"}}}}}`),
		msg(`{"to":"*","tag":"star","delete":["b"]}`), msg(`{"to":"a","tag":"still-there"}`),
		msg(`{"to":"captain","delete":["a"]}`), msg(`{"tag":"after"}`)}})
	cs = append(cs, &sioCase{Kind: "timer requests: cancel an existing timer; requests that do not name the timers machine", Ops: []*sioOp{create("a", "L0", "fwd"),
		msg(`{"to":"timers","makeTimer":{"in":"1h","msg":{"tag":"fired"},"id":"T1"}}`),
		msg(`{"cancelTimer":"T1","tag":"not-for-timers"}`),
		msg(`{"to":"a","cancelTimer":"T1","tag":"for-a"}`),
		msg(`{"to":"timers","cancelTimer":"T1"}`),
		msg(`{"to":"timers","makeTimer":{"in":"1h","msg":{"tag":"again"},"id":"T1"},"cancelTimer":"T9"}`),
		msg(`{"to":["a","timers"],"cancelTimer":"T1","tag":"both"}`)}})
	// a burst: one walk emits 1300 messages for another machine, which all are delivered and reported
	burst := make([]interface{}, 1300)
	for i := range burst {
		burst[i] = map[string]interface{}{"to": "b", "tag": fmt.Sprintf("k%d", i)}
	}
	cs = append(cs, &sioCase{Kind: "a burst of 1300 emissions in one ProcessMsg", Ops: []*sioOp{create("a", "L0", "fwd"), create("b", "L1", "fwd"),
		{Kind: "msg", Msg: map[string]interface{}{"to": "a", "tag": "burst", "then": burst}}, msg(`{"to":"b","tag":"after"}`)}})
	// a source that is only a name resolves to nothing: the machine loses its specification (no message reaches it), the
	// report and the store carry the source as given, a crew booted from the store has the same inert machine; an inline
	// source brings the machine back (the witness of the seeded C15-r8a: the live machine kept its old specification)
	cs = append(cs, &sioCase{Kind: "a source that is only a name resolves to nothing", Ops: []*sioOp{create("a", "L0", "fwd"),
		msg(`{"to":"a","tag":"one","then":[{"to":"nobody","tag":"x"}]}`),
		msg(`{"to":"captain","update":{"a":{"spec":{"name":"N0"}}}}`),
		msg(`{"to":"a","tag":"two","then":[{"to":"nobody","tag":"y"}]}`),
		msg(`{"tag":"three","then":[{"to":"nobody","tag":"z"}]}`),
		msg(`{"to":"captain","update":{"a":{"spec":{"name":"N0"}}}}`),
		msg(`{"to":"captain","update":{"a":{"spec":{"name":"N1"},"state":{"node":"flip","bs":{"k":1}}}}}`),
		msg(`{"to":"a","tag":"four","then":[{"to":"nobody","tag":"w"}]}`),
		msg(`{"to":"captain","update":{"a":{"spec":{"inline":{"name":"L1","doc":"fwd"}}}}}`),
		msg(`{"to":"a","tag":"five","then":[{"to":"nobody","tag":"v"}]}`),
		msg(`{"to":"captain","update":{"b":{"spec":{"name":"N0"}}}}`),
		msg(`{"tag":"six","then":[{"to":"nobody","tag":"u"}]}`),
		{Kind: "set", Mid: "a", Spec: &sioCfg{"N1", sioNamed}}, msg(`{"to":"a","tag":"seven","then":[{"to":"nobody","tag":"t"}]}`),
		{Kind: "set", Mid: "b", Spec: &sioCfg{"L2", "rev"}, State: &sioState{Node: "flip", Bs: map[string]interface{}{}}},
		msg(`{"tag":"eight","then":[{"to":"nobody","tag":"s"},{"to":"nobody","tag":"r"}]}`)}})
	for _, c := range cs {
		c.Det = sioHistoryDet(c)
	}
	return cs
}

// ---------- component ----------

func sioNontrivial(h *sioCase, mode string) bool {
	if h.Status != "ok" {
		return false
	}
	if mode == "c15" {
		// a machine that existed was changed by an operation, and a second crew was booted
		booted, changedExisting := false, false
		prev := map[string]*sioMach{}
		for k, s := range h.Steps {
			booted = booted || s.Booted
			for mid, ch := range s.Changed {
				if _, had := prev[mid]; had && (ch.Deleted || ch.Spec != nil || h.Ops[k].Kind == "msg" && sioNamesCaptain(h.Ops[k].Msg)) {
					changedExisting = true
				}
			}
			prev = s.Live
		}
		return booted && changedExisting
	}
	// a message reached a recorder and an emission was fed back
	for k, s := range h.Steps {
		if h.Ops[k].Kind == "msg" && len(s.Emitted) > 0 {
			return true
		}
	}
	return false
}

func sioNamesCaptain(x interface{}) bool {
	m, is := x.(map[string]interface{})
	if !is {
		return false
	}
	switch t := m["to"].(type) {
	case string:
		return t == sio.CaptainMachine
	case []interface{}:
		for _, y := range t {
			if y == sio.CaptainMachine {
				return true
			}
		}
	}
	return false
}

func sioComponent(g *G, n int, opts map[string]string) *Out {
	log.SetOutput(io.Discard)
	o := newOut("Corr.SioCorr", "sio_case")
	mode := opts["mode"]
	if mode == "" {
		mode = "c14"
	}
	var hs []*sioCase
	if path := opts["replay"]; path != "" {
		var w struct {
			Cases []*sioCase `json:"cases"`
		}
		loadJSON(path, &w)
		for _, c := range w.Cases {
			c.Det = sioHistoryDet(c)
			hs = append(hs, c)
		}
	} else {
		hs = sioCorpus()
		sg := &sioGen{g: g}
		for len(hs) < n {
			hs = append(hs, sg.history(mode))
		}
	}
	root, err := os.MkdirTemp("", "vsio")
	must(err)
	defer os.RemoveAll(root)
	workers := 12
	var wg sync.WaitGroup
	jobs := make(chan int)
	for w := 0; w < workers; w++ {
		wg.Add(1)
		go func(w int) {
			defer wg.Done()
			dir := filepath.Join(root, fmt.Sprintf("w%d", w))
			must(os.MkdirAll(dir, 0755))
			for i := range jobs {
				sioRunHistory(hs[i], dir, true)
			}
		}(w)
	}
	for i := range hs {
		jobs <- i
	}
	close(jobs)
	wg.Wait()
	for _, h := range hs {
		term, ok := coqSioCase(h)
		if !ok && h.Status == "ok" {
			h.Status, h.Detail = "err", "an observed value is not representable in the model"
		}
		key := canon(h.Ops)
		nt := sioNontrivial(h, mode)
		o.count("status:" + h.Status)
		o.count(fmt.Sprintf("steps:%02d", len(h.Ops)))
		if h.Det {
			o.count("order:deterministic-chain")
		} else {
			o.count("order:fan-out")
		}
		o.count(fmt.Sprintf("machines-at-end:%d", func() int {
			if len(h.Steps) == 0 {
				return 0
			}
			return len(h.Steps[len(h.Steps)-1].Live)
		}()))
		for k, s := range h.Steps {
			if h.Ops[k].Kind != "msg" {
				o.count("op:direct-" + h.Ops[k].Kind)
				continue
			}
			o.count("target:" + sioTargetKind(h.Ops[k].Msg))
			nm := 0
			for _, b := range s.Emitted {
				nm += len(b)
			}
			switch {
			case nm == 0:
				o.count("fed-back:0")
			case nm <= 3:
				o.count("fed-back:1-3")
			case nm <= 10:
				o.count("fed-back:4-10")
			default:
				o.count("fed-back:11+")
			}
			for _, ch := range s.Changed {
				switch {
				case ch.Deleted && ch.State != nil:
					o.count("report:replaced")
				case ch.Deleted:
					o.count("report:deleted")
				case ch.Spec != nil && ch.Spec.Mode == sioNamed:
					o.count("report:spec-name-only")
				case ch.Spec != nil:
					o.count("report:spec")
				default:
					o.count("report:state")
				}
			}
		}
		o.add(term, key, nt, h)
	}
	// samples for the evidence: two corpus histories and the first generated ones
	o.Samples = nil
	for _, i := range []int{0, 3, 10, 11, 12} {
		if i < len(hs) {
			o.Samples = append(o.Samples, hs[i])
		}
	}
	if mode == "c15" {
		o.Notes = append(o.Notes, "non-trivial = a machine that existed was deleted or re-specified by an operation and a second crew was booted from the consumer's state file")
	} else {
		o.Notes = append(o.Notes, "non-trivial = at least one emission was fed back to the crew")
	}
	return o
}

func sioTargetKind(x interface{}) string {
	m, is := x.(map[string]interface{})
	if !is {
		return "message-not-an-object"
	}
	t, have := m["to"]
	if !have {
		return "none"
	}
	switch v := t.(type) {
	case string:
		switch {
		case v == "*":
			return "star"
		case v == sio.CaptainMachine:
			return "captain"
		case v == sio.TimersMachine:
			return "timers"
		case v == "":
			return "empty-id"
		}
		return "id"
	case []interface{}:
		seen, rep, nonstr, svc := map[string]bool{}, false, false, false
		for _, y := range v {
			s, is := y.(string)
			if !is {
				nonstr = true
				continue
			}
			if seen[s] {
				rep = true
			}
			seen[s] = true
			svc = svc || sioIsService(s)
		}
		k := "list"
		if rep {
			k += "+repeated"
		}
		if nonstr {
			k += "+non-string"
		}
		if svc {
			k += "+service"
		}
		return k
	}
	return "other-type"
}
