package main

// Component "jsiso" (C10): isolation of ECMAScript executions.
//
// A case is a set of polluting scripts, a probe script and the caller's
// bindings and props.  The probe is executed alone (fresh copies), then either
// after the polluters over the *same* caller objects (as the actions and guards
// of one walk share one props map) or beside them on 16 goroutines (one
// compiled program shared by several goroutines, several programs at once).
// After every execution the caller's bindings and props are snapshotted.
// The scripts are programs of the language of coq/Model/JsRuntime.v, rendered
// here as ECMAScript.

import (
	"context"
	"fmt"
	"math"
	"sort"
	"strconv"
	"strings"
	"sync"
	"sync/atomic"
	"time"

	"github.com/Comcast/sheens/core"
	"github.com/Comcast/sheens/interpreters/ecmascript"
	"github.com/Comcast/sheens/match"
)

func init() {
	components["jsiso"] = jsisoComponent
}

type JOp struct {
	Kind  string      `json:"op"` // assign, delete, setglobal, patchproto, emit, read, readglobal, readproto, readenv
	Path  []string    `json:"path,omitempty"`
	V     interface{} `json:"v,omitempty"`
	Name  string      `json:"name,omitempty"`  // global / prototype property / env member
	Proto string      `json:"proto,omitempty"` // Object, Array, String
	K     string      `json:"k,omitempty"`     // key of the reads object
}

type JScript struct {
	Ops  []JOp  `json:"ops"`
	Term string `json:"term"` // reads, bindings, throw
}

const jsPrelude = `var G = Function('return this')();
var R = {};
function own(o, k) { return Object.prototype.hasOwnProperty.call(o, k); }
function isobj(o) { return o !== null && typeof o === 'object'; }
function isidx(o, k) { return /^[0-9]$/.test(k) && (+k) < o.length; }
function walk(path, n) {
  var o = _;
  for (var i = 0; i < n; i++) {
    if (!isobj(o)) return undefined;
    var k = path[i];
    if (Array.isArray(o)) { if (!isidx(o, k)) return undefined; o = o[+k]; }
    else { if (!own(o, k)) return undefined; o = o[k]; }
  }
  return o;
}
function assign(path, v) {
  var o = walk(path, path.length - 1), k = path[path.length - 1];
  if (!isobj(o)) throw "nopath";
  if (Array.isArray(o)) { if (!isidx(o, k)) throw "nopath"; o[+k] = v; } else { o[k] = v; }
}
function del(path) {
  var o = walk(path, path.length - 1);
  if (!isobj(o) || Array.isArray(o)) throw "nopath";
  delete o[path[path.length - 1]];
}
function read(path) {
  var v = walk(path, path.length);
  if (v === undefined) return null;
  if (typeof v === 'function') return "<host>";
  if (isobj(v)) return JSON.parse(JSON.stringify(v));   // a copy: later assignments must not show in R
  return v;
}
function orNull(v) { return (v === undefined) ? null : v; }
`

func protoExpr(p string) (string, string) {
	switch p {
	case "Array":
		return "Array.prototype", "[]"
	case "String":
		return "String.prototype", "\"\""
	}
	return "Object.prototype", "({})"
}

// JS renders the script as ECMAScript source (the interpreter wraps it in a function).
func (s *JScript) JS() string {
	var sb strings.Builder
	sb.WriteString(jsPrelude)
	for _, op := range s.Ops {
		switch op.Kind {
		case "assign":
			sb.WriteString(fmt.Sprintf("assign(%s, %s);\n", jsText(op.Path), jsText(op.V)))
		case "delete":
			sb.WriteString(fmt.Sprintf("del(%s);\n", jsText(op.Path)))
		case "setglobal":
			sb.WriteString(fmt.Sprintf("G[%s] = %s;\n", jsText(op.Name), jsText(op.V)))
		case "patchproto":
			pe, _ := protoExpr(op.Proto)
			sb.WriteString(fmt.Sprintf("%s[%s] = %s;\n", pe, jsText(op.Name), jsText(op.V)))
		case "emit":
			sb.WriteString(fmt.Sprintf("_.out(%s);\n", jsText(op.V)))
		case "read":
			sb.WriteString(fmt.Sprintf("R[%s] = read(%s);\n", jsText(op.K), jsText(op.Path)))
		case "readglobal":
			sb.WriteString(fmt.Sprintf("R[%s] = orNull(G[%s]);\n", jsText(op.K), jsText(op.Name)))
		case "readproto":
			_, inst := protoExpr(op.Proto)
			sb.WriteString(fmt.Sprintf("R[%s] = orNull(%s[%s]);\n", jsText(op.K), inst, jsText(op.Name)))
		case "readenv":
			sb.WriteString(fmt.Sprintf("R[%s] = typeof _[%s];\n", jsText(op.K), jsText(op.Name)))
		}
	}
	switch s.Term {
	case "reads":
		sb.WriteString("return R;\n")
	case "bindings":
		sb.WriteString("return _.bindings;\n")
	default:
		sb.WriteString("throw \"boom\";\n")
	}
	return sb.String()
}

func coqStrList(xs []string) string {
	items := make([]string, len(xs))
	for i, x := range xs {
		items[i] = coqString(x)
	}
	return coqList(items)
}

func coqProto(p string) string {
	switch p {
	case "Array":
		return "PArray"
	case "String":
		return "PString"
	}
	return "PObject"
}

func (s *JScript) coq() string {
	ops := make([]string, 0, len(s.Ops))
	for _, op := range s.Ops {
		switch op.Kind {
		case "assign":
			ops = append(ops, "OAssign "+coqStrList(op.Path)+" "+mustCoqJSON(op.V))
		case "delete":
			ops = append(ops, "ODelete "+coqStrList(op.Path))
		case "setglobal":
			ops = append(ops, "OSetGlobal "+coqString(op.Name)+" "+mustCoqJSON(op.V))
		case "patchproto":
			ops = append(ops, "OPatchProto "+coqProto(op.Proto)+" "+coqString(op.Name)+" "+mustCoqJSON(op.V))
		case "emit":
			ops = append(ops, "OEmit "+mustCoqJSON(op.V))
		case "read":
			ops = append(ops, "ORead "+coqStrList(op.Path)+" "+coqString(op.K))
		case "readglobal":
			ops = append(ops, "OReadGlobal "+coqString(op.Name)+" "+coqString(op.K))
		case "readproto":
			ops = append(ops, "OReadProto "+coqProto(op.Proto)+" "+coqString(op.Name)+" "+coqString(op.K))
		case "readenv":
			ops = append(ops, "OReadEnv "+coqString(op.Name)+" "+coqString(op.K))
		}
	}
	term := "TThrowJ"
	switch s.Term {
	case "reads":
		term = "TReads"
	case "bindings":
		term = "TBindings"
	}
	return "(mk_script " + coqList(ops) + " " + term + ")"
}

func (s *JScript) polluting() bool {
	for _, op := range s.Ops {
		switch op.Kind {
		case "assign", "delete", "setglobal", "patchproto":
			return true
		}
	}
	return false
}

func (s *JScript) reading() bool {
	for _, op := range s.Ops {
		if strings.HasPrefix(op.Kind, "read") {
			return true
		}
	}
	return false
}

func (s *JScript) nestedPropsWrite() bool {
	for _, op := range s.Ops {
		if (op.Kind == "assign" || op.Kind == "delete") && len(op.Path) >= 3 && op.Path[0] == "props" {
			return true
		}
	}
	return false
}

// ---- generators ------------------------------------------------------------

var (
	isoGlobals = []string{"gx", "gy"}
	isoProtos  = []string{"pp", "qq"}
	isoExtras  = []string{"zz", "yy"}
	isoMembers = []string{"ctx", "props", "bindings", "out", "zz", "yy", "gensym", "match", "exit"} // the last three: extended only
	isoProtoTs = []string{"Object", "Array", "String"}
)

// pathInto picks a path below a JSON value: mostly existing keys and indexes,
// sometimes a new key at the end, sometimes a step through nothing.
func (g *G) pathInto(v interface{}, maxDepth int) []string {
	var path []string
	for d := 0; d < maxDepth; d++ {
		switch x := v.(type) {
		case map[string]interface{}:
			ks := sortedKeys(x)
			if len(ks) == 0 || g.chance(0.15) {
				path = append(path, g.pick(vocabKeys))
				if g.chance(0.85) {
					return path
				}
				v = nil
				continue
			}
			k := ks[g.intn(len(ks))]
			path = append(path, k)
			v = x[k]
		case []interface{}:
			if len(x) == 0 || g.chance(0.1) {
				path = append(path, strconv.Itoa(len(x)+g.intn(2)))
				return path
			}
			i := g.intn(len(x))
			path = append(path, strconv.Itoa(i))
			v = x[i]
		default:
			if d == 0 || g.chance(0.85) {
				return path
			}
			// a step through a scalar or through nothing: the script raises
			path = append(path, g.pick(vocabKeys))
			return path
		}
		if d > 0 && g.chance(0.35) {
			return path
		}
	}
	return path
}

func (g *G) isoValue() interface{} {
	if g.chance(0.6) {
		return g.scalar()
	}
	return g.value(2)
}

func (g *G) isoBindings() map[string]interface{} {
	if g.chance(0.06) {
		return nil
	}
	m := map[string]interface{}{}
	for n := g.intn(4); n > 0; n-- {
		m[g.pick(vocabKeys)] = g.value(3)
	}
	if g.chance(0.7) {
		m["a"] = map[string]interface{}{"deep": map[string]interface{}{"x": g.num(), "l": []interface{}{g.num(), map[string]interface{}{"y": g.pick(vocabStrs)}}}, "n": g.num()}
	}
	return m
}

func (g *G) isoProps() map[string]interface{} {
	if g.chance(0.1) {
		return nil
	}
	if g.chance(0.1) {
		// present but empty (what a host passes that has no properties to give): still the caller's own map
		return map[string]interface{}{}
	}
	m := map[string]interface{}{"mid": "m1"}
	if g.chance(0.85) {
		m["cfg"] = map[string]interface{}{"k": "v", "n": g.num(), "sub": map[string]interface{}{"x": g.pick(vocabStrs)}}
	}
	if g.chance(0.6) {
		m["list"] = []interface{}{g.num(), g.pick(vocabStrs), map[string]interface{}{"x": g.num()}}
	}
	for n := g.intn(2); n > 0; n-- {
		m[g.pick(vocabKeys)] = g.value(2)
	}
	return m
}

func (g *G) readKey(i int) string { return "r" + strconv.Itoa(i) }

// pollutingOp: one operation that tries to leave something behind
func (g *G) pollutingOp(bs, props map[string]interface{}) JOp {
	switch k := g.intn(20); {
	case k < 5: // deep in-place mutation of the bindings
		p := append([]string{"bindings"}, g.pathInto(bs, 4)...)
		if len(p) == 1 {
			p = append(p, g.pick(vocabKeys))
		}
		if g.chance(0.2) {
			return JOp{Kind: "delete", Path: p}
		}
		return JOp{Kind: "assign", Path: p, V: g.isoValue()}
	case k < 10: // props, top level and nested (D22)
		p := append([]string{"props"}, g.pathInto(props, 4)...)
		if len(p) == 1 {
			p = append(p, g.pick([]string{"mid", "cfg", "nn"}))
		}
		if g.chance(0.2) {
			return JOp{Kind: "delete", Path: p}
		}
		return JOp{Kind: "assign", Path: p, V: g.isoValue()}
	case k < 13:
		return JOp{Kind: "setglobal", Name: g.pick(isoGlobals), V: g.isoValue()}
	case k < 16:
		return JOp{Kind: "patchproto", Proto: g.pick(isoProtoTs), Name: g.pick(isoProtos), V: g.isoValue()}
	case k < 19: // replace or add a member of the environment object
		m := g.pick(isoMembers)
		if g.chance(0.15) {
			return JOp{Kind: "delete", Path: []string{m}}
		}
		return JOp{Kind: "assign", Path: []string{m}, V: g.isoValue()}
	default:
		return JOp{Kind: "emit", V: map[string]interface{}{"e": g.scalar(), "to": "nobody"}}
	}
}

// readingOp: one observation; written paths are re-read with high probability
func (g *G) readingOp(i int, bs, props map[string]interface{}, written [][]string) JOp {
	k := g.readKey(i)
	switch c := g.intn(20); {
	case c < 3:
		return JOp{Kind: "readglobal", Name: g.pick(isoGlobals), K: k}
	case c < 6:
		return JOp{Kind: "readproto", Proto: g.pick(isoProtoTs), Name: g.pick(isoProtos), K: k}
	case c < 9:
		return JOp{Kind: "readenv", Name: g.pick(isoMembers), K: k}
	case c < 14 && len(written) > 0:
		p := written[g.intn(len(written))]
		if p[0] == "ctx" || p[0] == "out" {
			return JOp{Kind: "readenv", Name: p[0], K: k}
		}
		if len(p) > 2 && g.chance(0.3) {
			p = p[:len(p)-1]
		}
		return JOp{Kind: "read", Path: append([]string{}, p...), K: k}
	case c < 17:
		p := append([]string{"bindings"}, g.pathInto(bs, 4)...)
		return JOp{Kind: "read", Path: p, K: k}
	default:
		p := append([]string{"props"}, g.pathInto(props, 4)...)
		return JOp{Kind: "read", Path: p, K: k}
	}
}

func writtenPaths(ss []*JScript) [][]string {
	var acc [][]string
	for _, s := range ss {
		for _, op := range s.Ops {
			if op.Kind == "assign" || op.Kind == "delete" {
				acc = append(acc, op.Path)
			}
		}
	}
	return acc
}

func (g *G) polluterScript(bs, props map[string]interface{}) *JScript {
	s := &JScript{}
	for n := 1 + g.intn(5); n > 0; n-- {
		if g.chance(0.85) {
			s.Ops = append(s.Ops, g.pollutingOp(bs, props))
		} else {
			s.Ops = append(s.Ops, g.readingOp(len(s.Ops), bs, props, writtenPaths([]*JScript{s})))
		}
	}
	switch k := g.intn(10); {
	case k < 6:
		s.Term = "bindings"
	case k < 9:
		s.Term = "reads"
	default:
		s.Term = "throw"
	}
	return s
}

func (g *G) probeScript(bs, props map[string]interface{}, polluters []*JScript) *JScript {
	s := &JScript{}
	written := writtenPaths(polluters)
	for n := 3 + g.intn(6); n > 0; n-- {
		if g.chance(0.08) {
			s.Ops = append(s.Ops, g.pollutingOp(bs, props))
		} else if g.chance(0.05) {
			s.Ops = append(s.Ops, JOp{Kind: "emit", V: map[string]interface{}{"probe": g.scalar(), "to": "nobody"}})
		} else {
			s.Ops = append(s.Ops, g.readingOp(len(s.Ops), bs, props, written))
		}
	}
	if g.chance(0.85) {
		s.Term = "reads"
	} else {
		s.Term = "bindings"
	}
	return s
}

// ---- execution ---------------------------------------------------------------

type isoObs struct {
	Res   *isoRes                `json:"res"`
	Bs    map[string]interface{} `json:"bs_after"`
	Props map[string]interface{} `json:"props_after"`
}

type isoRes struct {
	Class   string                 `json:"class"` // ok, fail, panic
	NilBs   bool                   `json:"nil_bs,omitempty"`
	Bs      map[string]interface{} `json:"bs,omitempty"`
	Emitted []interface{}          `json:"emitted,omitempty"`
}

func (r *isoRes) coq() string {
	switch r.Class {
	case "fail":
		return "(GRes RFail)"
	case "ok":
		bs := "None"
		if !r.NilBs {
			s, ok := coqBindings(r.Bs)
			if !ok {
				return "GUnrep"
			}
			bs = "(Some " + s + ")"
		}
		ems := make([]string, 0, len(r.Emitted))
		for _, e := range r.Emitted {
			s, ok := coqJSON(e)
			if !ok {
				return "GUnrep"
			}
			ems = append(ems, s)
		}
		return "(GRes (ROk " + bs + " " + coqList(ems) + "))"
	}
	return "GUnrep"
}

func coqSnapshot(m map[string]interface{}) string {
	s, ok := coqOptBindings(m)
	if !ok {
		return "(Some [(" + coqString("<unrepresentable>") + ", jnull)])"
	}
	return s
}

func (o *isoObs) coq() string {
	return "(mk_obs " + o.Res.coq() + " " + coqSnapshot(o.Bs) + " " + coqSnapshot(o.Props) + ")"
}

func (o *isoObs) key() string { return canon(o) }

// isoProgram: a script compiled once, executed through one of three routes
type isoProgram struct {
	src      string
	compiled interface{} // *goja.Program from Interpreter.Compile
	action   core.Action // from ActionSource.Compile
}

func isoCompile(s *JScript) (*isoProgram, error) {
	return isoCompileSource(s.JS())
}

var isoOtherHost = func() core.InterpretersMap {
	ext := ecmascript.NewInterpreter()
	ext.Extended = true
	return core.InterpretersMap{"ecmascript": ext}
}()

func isoCompileSource(src string) (*isoProgram, error) {
	p := &isoProgram{src: src}
	ctx := context.Background()
	c, err := sharedInterpreter.Compile(ctx, p.src)
	if err != nil {
		return nil, err
	}
	p.compiled = c
	// another host in this process has compiled the same source under the same interpreter name with a differently
	// equipped interpreter (interpreters.Standard registers the extended one as "goja", a debugging host may register
	// anything): what that host got is its own
	(&core.ActionSource{Interpreter: "ecmascript", Source: p.src}).Compile(ctx, isoOtherHost)
	as := &core.ActionSource{Interpreter: "ecmascript", Source: p.src}
	a, err := as.Compile(ctx, interpreters())
	if err != nil {
		return nil, err
	}
	p.action = a
	return p, nil
}

// exec runs the program once against the caller's own bs / props objects.
// route 0: Interpreter.Exec with the compiled program; 1: Interpreter.Exec
// compiling on the fly; 2: the core.Action made by ActionSource.Compile.
func (p *isoProgram) exec(route int, bs match.Bindings, props core.StepProps) (res *isoRes) {
	res = &isoRes{}
	defer func() {
		if r := recover(); r != nil {
			res = &isoRes{Class: "panic"}
		}
	}()
	ctx, cancel := context.WithTimeout(context.Background(), 20*time.Second)
	defer cancel()
	var exe *core.Execution
	var err error
	switch route {
	case 0:
		exe, err = sharedInterpreter.Exec(ctx, bs, props, p.src, p.compiled)
	case 1:
		exe, err = sharedInterpreter.Exec(ctx, bs, props, p.src, nil)
	default:
		exe, err = p.action.Exec(ctx, bs, props)
	}
	if err != nil {
		res.Class = "fail"
		return res
	}
	res.Class = "ok"
	if exe == nil || exe.Bs == nil {
		res.NilBs = true
	} else {
		res.Bs = map[string]interface{}(exe.Bs)
	}
	if exe != nil && exe.Events != nil {
		res.Emitted = append(res.Emitted, exe.Events.Emitted...)
	}
	return res
}

// isoBrokenStaysBroken: a source that does not compile fails every time it is handed over for execution, whatever was
// executed before it (nothing of an earlier program runs in its place)
func isoBrokenStaysBroken() bool {
	ctx, cancel := context.WithTimeout(context.Background(), 20*time.Second)
	defer cancel()
	ok := true
	func() {
		defer func() {
			if r := recover(); r != nil {
				ok = false
			}
		}()
		good := `_.out({"from": "good"}); return {"ran": "good"};`
		broken := `return (((;`
		if _, err := sharedInterpreter.Exec(ctx, match.Bindings{}, nil, good, nil); err != nil {
			ok = false
		}
		for i := 0; i < 3; i++ {
			exe, err := sharedInterpreter.Exec(ctx, match.Bindings{"n": float64(i)}, nil, broken, nil)
			if err == nil {
				ok = false
			}
			if exe != nil && (exe.Bs != nil || (exe.Events != nil && len(exe.Events.Emitted) > 0)) {
				ok = false // nothing ran: there is nothing to show for it
			}
		}
		// and the other way round: a good source after a broken one runs as itself
		exe, err := sharedInterpreter.Exec(ctx, match.Bindings{}, nil, `return {"ran": "second"};`, nil)
		if err != nil || exe == nil || exe.Bs["ran"] != "second" {
			ok = false
		}
	}()
	return ok
}

// isoGetterEnvOwn: the result of a script is exported after its body returned (getters of the returned object run then):
// the environment object `_` those getters see is still this execution's own, however many executions overlap
var isoGetterRuns int

func isoGetterEnvOwn() bool {
	isoGetterRuns++
	src := `var me = _.bindings.who; return {get who() { var t = 0; for (var i = 0; i < 60000; i++) { t += i; } return _.bindings.who; }, me: me};`
	compiled, err := sharedInterpreter.Compile(context.Background(), src)
	if err != nil {
		return true
	}
	var bad int32
	var wg sync.WaitGroup
	for g := 0; g < 12; g++ {
		wg.Add(1)
		go func(g int) {
			defer wg.Done()
			defer func() {
				if r := recover(); r != nil {
					atomic.StoreInt32(&bad, 1)
				}
			}()
			for rep := 0; rep < 4; rep++ {
				ctx, cancel := context.WithTimeout(context.Background(), 20*time.Second)
				who := fmt.Sprintf("g%d-%d", g, rep)
				exe, err := sharedInterpreter.Exec(ctx, match.Bindings{"who": who}, nil, src, compiled)
				cancel()
				if err != nil || exe == nil || exe.Bs["who"] != who || exe.Bs["me"] != who {
					atomic.StoreInt32(&bad, 1)
				}
			}
		}(g)
	}
	wg.Wait()
	return bad == 0
}

var isoNoAssignProg *isoProgram

// isoNoAssignIntact: the source contains no '=', '++', '--' or 'delete', yet it sorts, reverses, extends and redefines
// what it reaches through the environment; the caller's bindings and props must be what they were
func isoNoAssignIntact(route int) bool {
	if isoNoAssignProg == nil {
		p, err := isoCompileSource(`Object.assign(_.bindings, {top: "hacked"}); _.bindings.box.l.reverse(); _.bindings.box.l.push("more"); _.bindings.q.sort(); Object.defineProperty(_.bindings.box, "k", {value: "hacked", enumerable: true, writable: true, configurable: true}); Object.assign(_.props, {mid: "hacked"}); return _.bindings;`)
		if err != nil {
			return true
		}
		isoNoAssignProg = p
	}
	bs := map[string]interface{}{"top": "t", "q": []interface{}{3.0, 1.0, 2.0},
		"box": map[string]interface{}{"k": "x", "l": []interface{}{"y", "z"}}}
	props := map[string]interface{}{"mid": "m1"}
	isoNoAssignProg.exec(route, match.Bindings(bs), core.StepProps(props))
	box, _ := bs["box"].(map[string]interface{})
	q, _ := bs["q"].([]interface{})
	if box == nil || box["k"] != "x" || bs["top"] != "t" || props["mid"] != "m1" || len(q) != 3 || q[0] != 3.0 {
		return false
	}
	if l, _ := box["l"].([]interface{}); len(l) != 2 || l[0] != "y" {
		return false
	}
	return true
}

var isoUnwritableProg *isoProgram

// isoUnwritableIntact: a script that writes into every part of bindings which cannot go through JSON; the caller's
// bindings and props must be what they were (the execution itself may fail)
func isoUnwritableIntact(route int) bool {
	if isoUnwritableProg == nil {
		p, err := isoCompileSource(`var b = _.bindings; if (b) { if (b.box) { b.box.k = "hacked"; delete b.box.w; if (b.box.l) { b.box.l[0] = "hacked"; } } b.top = "hacked"; delete b.keep; } if (_.props) { _.props.mid = "hacked"; } return b;`)
		if err != nil {
			return true
		}
		isoUnwritableProg = p
	}
	mk := func() map[string]interface{} {
		return map[string]interface{}{"keep": 1.0, "top": "t",
			"box": map[string]interface{}{"k": "x", "v": math.NaN(), "w": []interface{}{1.0, math.Inf(1)}, "l": []interface{}{"y", math.Inf(-1)}}}
	}
	bs, props := mk(), map[string]interface{}{"mid": "m1"}
	isoUnwritableProg.exec(route, match.Bindings(bs), core.StepProps(props))
	box, _ := bs["box"].(map[string]interface{})
	if box == nil || box["k"] != "x" || box["w"] == nil || bs["top"] != "t" || bs["keep"] != 1.0 || props["mid"] != "m1" {
		return false
	}
	if l, _ := box["l"].([]interface{}); len(l) != 2 || l[0] != "y" {
		return false
	}
	return true
}

func isoCopy(m map[string]interface{}) map[string]interface{} {
	if m == nil {
		return nil
	}
	return canonCopy(m).(map[string]interface{})
}

// observe executes once and snapshots the caller's data afterwards
func (p *isoProgram) observe(route int, bs, props map[string]interface{}) *isoObs {
	res := p.exec(route, match.Bindings(bs), core.StepProps(props))
	// the result must not be aliased by the snapshots
	if res.Bs != nil {
		res.Bs = isoCopy(res.Bs)
	}
	return &isoObs{Res: res, Bs: isoCopy(bs), Props: isoCopy(props)}
}

type isoCase struct {
	Par       bool                   `json:"par"`
	Polluters []*JScript             `json:"polluters"`
	Probe     *JScript               `json:"probe"`
	Bs        map[string]interface{} `json:"bs"`
	Props     map[string]interface{} `json:"props"`
	Route     int                    `json:"route"`
	Go        interface{}            `json:"go,omitempty"`
}

const isoGoroutines = 16

var isoHung = false

func isoCorpus() []*isoCase {
	bs := map[string]interface{}{"a": map[string]interface{}{"deep": 0.0}}
	props := map[string]interface{}{"mid": "m1", "cfg": map[string]interface{}{"k": "v"}}
	polluter := &JScript{Term: "bindings", Ops: []JOp{
		{Kind: "setglobal", Name: "gx", V: 5.0},
		{Kind: "patchproto", Proto: "Object", Name: "pp", V: "patched"},
		{Kind: "assign", Path: []string{"zz"}, V: true},
		{Kind: "assign", Path: []string{"bindings", "a", "deep"}, V: 1.0}}}
	probe := &JScript{Term: "reads", Ops: []JOp{
		{Kind: "readglobal", Name: "gx", K: "r0"},
		{Kind: "readproto", Proto: "Object", Name: "pp", K: "r1"},
		{Kind: "readenv", Name: "zz", K: "r2"},
		{Kind: "read", Path: []string{"bindings", "a", "deep"}, K: "r3"},
		{Kind: "read", Path: []string{"props", "cfg", "k"}, K: "r4"},
		{Kind: "readenv", Name: "out", K: "r5"}}}
	d22 := &JScript{Term: "reads", Ops: []JOp{{Kind: "assign", Path: []string{"props", "cfg", "k"}, V: "hacked"}}}
	envBreaker := &JScript{Term: "bindings", Ops: []JOp{
		{Kind: "assign", Path: []string{"out"}, V: 5.0},
		{Kind: "assign", Path: []string{"ctx"}, V: nil},
		{Kind: "assign", Path: []string{"props"}, V: map[string]interface{}{"mid": "other"}},
		{Kind: "assign", Path: []string{"bindings"}, V: map[string]interface{}{"replaced": true}}}}
	emitter := &JScript{Term: "reads", Ops: []JOp{
		{Kind: "emit", V: map[string]interface{}{"to": "nobody", "n": 1.0}},
		{Kind: "readenv", Name: "out", K: "r0"}, {Kind: "readenv", Name: "ctx", K: "r1"},
		{Kind: "readenv", Name: "bindings", K: "r2"}, {Kind: "read", Path: []string{"props", "mid"}, K: "r3"}}}
	topProps := &JScript{Term: "reads", Ops: []JOp{
		{Kind: "assign", Path: []string{"props", "mid"}, V: "x"},
		{Kind: "assign", Path: []string{"props", "nn"}, V: 1.0},
		{Kind: "delete", Path: []string{"props", "cfg"}}}}
	thrower := &JScript{Term: "throw", Ops: []JOp{
		{Kind: "setglobal", Name: "gy", V: "left"}, {Kind: "assign", Path: []string{"bindings", "a", "deep"}, V: 2.0}}}
	var cs []*isoCase
	for _, par := range []bool{false, true} {
		for route := 0; route < 3; route++ {
			cs = append(cs,
				&isoCase{Par: par, Route: route, Polluters: []*JScript{polluter}, Probe: probe, Bs: bs, Props: props},
				&isoCase{Par: par, Route: route, Polluters: []*JScript{envBreaker, thrower}, Probe: emitter, Bs: bs, Props: props},
				&isoCase{Par: par, Route: route, Polluters: []*JScript{topProps}, Probe: probe, Bs: bs, Props: props},
				&isoCase{Par: par, Route: route, Polluters: []*JScript{polluter}, Probe: emitter, Bs: nil, Props: nil})
		}
		cs = append(cs, &isoCase{Par: par, Route: 0, Polluters: []*JScript{d22}, Probe: probe, Bs: bs, Props: props})
	}
	return cs
}

func jsisoComponent(g *G, n int, opts map[string]string) *Out {
	o := newOut("Corr.JsCorr", "iso_case")
	var todo []*isoCase
	if path := opts["replay"]; path != "" {
		var w struct {
			Cases []*isoCase `json:"cases"`
		}
		loadJSON(path, &w)
		todo = w.Cases
	} else {
		paronly := opts["paronly"] != ""
		for _, c := range isoCorpus() {
			if c.Par || !paronly {
				todo = append(todo, c)
			}
		}
		for len(todo) < n {
			c := &isoCase{Par: paronly || g.chance(0.4), Route: g.intn(3), Bs: g.isoBindings(), Props: g.isoProps()}
			for k := 1 + g.intn(3); k > 0; k-- {
				c.Polluters = append(c.Polluters, g.polluterScript(c.Bs, c.Props))
			}
			c.Probe = g.probeScript(c.Bs, c.Props, c.Polluters)
			todo = append(todo, c)
		}
	}
	for _, c := range todo {
		if isoHung {
			o.count("skipped-after-hang")
			continue
		}
		runIsoCase(o, c)
	}
	o.Notes = append(o.Notes, "non-trivial = some polluter has a polluting operation and the probe reads",
		fmt.Sprintf("parallel cases: %d goroutines, 3 repetitions each, every execution on its own copies", isoGoroutines))
	return o
}

func runIsoCase(o *Out, c *isoCase) {
	progs := make([]*isoProgram, 0, len(c.Polluters))
	for _, s := range c.Polluters {
		p, err := isoCompile(s)
		if err != nil {
			o.count("compile-error")
			return
		}
		progs = append(progs, p)
	}
	probe, err := isoCompile(c.Probe)
	if err != nil {
		o.count("compile-error")
		return
	}
	// the probe alone, on fresh copies
	alone := probe.observe(c.Route, isoCopy(c.Bs), isoCopy(c.Props))
	var polObs, probeObs []*isoObs
	stable := true
	if !isoNoAssignIntact(c.Route) {
		// a script without a single assignment operator that changes what it was given through built-in methods
		stable = false
		o.count("caller-changed-by-method-calls")
	}
	if c.Par && isoGetterRuns < 3 && !isoGetterEnvOwn() {
		stable = false
		o.count("getter-saw-another-executions-environment")
	}
	if !isoBrokenStaysBroken() {
		stable = false
		o.count("broken-source-ran")
	}
	if !isoUnwritableIntact(c.Route) {
		// bindings that hold a value JSON cannot write (NaN, Inf): whatever Exec makes of them (it fails), the script
		// must not have been handed the caller's own objects
		stable = false
		o.count("unwritable-bindings-changed")
	}
	if !c.Par {
		bs, props := isoCopy(c.Bs), isoCopy(c.Props) // the caller's objects, shared by the sequence
		for _, p := range progs {
			polObs = append(polObs, p.observe(c.Route, bs, props))
		}
		probeObs = append(probeObs, probe.observe(c.Route, bs, props))
	} else {
		type slot struct {
			script int // index into progs, -1 = probe
			obs    *isoObs
			stable bool
		}
		slots := make([]*slot, isoGoroutines)
		var wg sync.WaitGroup
		start := make(chan bool)
		for i := 0; i < isoGoroutines; i++ {
			sl := &slot{script: -1, stable: true}
			if i < isoGoroutines/2 {
				sl.script = i % len(progs)
			}
			slots[i] = sl
			wg.Add(1)
			go func(i int, sl *slot) {
				defer wg.Done()
				p := probe
				if sl.script >= 0 {
					p = progs[sl.script]
				}
				<-start
				for rep := 0; rep < 3; rep++ {
					ob := p.observe((c.Route+i+rep)%3, isoCopy(c.Bs), isoCopy(c.Props))
					if sl.obs == nil {
						sl.obs = ob
					} else if sl.obs.key() != ob.key() {
						sl.stable = false
					}
				}
			}(i, sl)
		}
		close(start)
		finished := make(chan bool)
		go func() { wg.Wait(); close(finished) }()
		select {
		case <-finished:
		case <-time.After(40 * time.Second):
			// executions that neither return nor fail (a runtime shared between goroutines can
			// do that): the case is reported as unstable with an unrepresentable probe result
			// and no further case is run
			isoHung = true
			o.count("hang")
			pols := make([]string, len(c.Polluters))
			for i, s := range c.Polluters {
				pols[i] = s.coq()
			}
			term := fmt.Sprintf("(mk_iso_case true %s %s %s %s %s [] [mk_obs GUnrep None None] false)", coqList(pols), c.Probe.coq(),
				coqSnapshot(c.Bs), coqSnapshot(c.Props), alone.Res.coq())
			c.Go = map[string]interface{}{"alone": alone.Res, "hang": true}
			o.add(term, canon(c.Polluters)+canon(c.Probe)+canon(c.Bs)+canon(c.Props)+"par", true, c)
			return
		}
		polObs = make([]*isoObs, len(progs))
		for _, sl := range slots {
			if !sl.stable {
				stable = false
			}
			if sl.script < 0 {
				probeObs = append(probeObs, sl.obs)
				continue
			}
			if polObs[sl.script] == nil {
				polObs[sl.script] = sl.obs
			} else if polObs[sl.script].key() != sl.obs.key() {
				stable = false
			}
		}
		for i := range polObs {
			if polObs[i] == nil { // more polluters than polluting goroutines cannot happen (<= 3 scripts)
				polObs[i] = progs[i].observe(c.Route, isoCopy(c.Bs), isoCopy(c.Props))
			}
		}
	}
	pols := make([]string, len(c.Polluters))
	for i, s := range c.Polluters {
		pols[i] = s.coq()
	}
	po := make([]string, len(polObs))
	for i, ob := range polObs {
		po[i] = ob.coq()
	}
	pr := make([]string, len(probeObs))
	for i, ob := range probeObs {
		pr[i] = ob.coq()
	}
	term := fmt.Sprintf("(mk_iso_case %s %s %s %s %s %s %s %s %s)", coqBool(c.Par), coqList(pols), c.Probe.coq(),
		coqSnapshot(c.Bs), coqSnapshot(c.Props), alone.Res.coq(), coqList(po), coqList(pr), coqBool(stable))
	// statistics
	mode := "seq"
	if c.Par {
		mode = "par"
	}
	o.count("mode:" + mode)
	o.count(fmt.Sprintf("route:%d", c.Route))
	o.count("probe:" + alone.Res.Class)
	kinds := map[string]bool{}
	nested := c.Probe.nestedPropsWrite()
	polluting := false
	for _, s := range c.Polluters {
		polluting = polluting || s.polluting()
		nested = nested || s.nestedPropsWrite()
		for _, op := range s.Ops {
			k := op.Kind
			if (k == "assign" || k == "delete") && len(op.Path) > 0 {
				switch {
				case len(op.Path) == 1:
					k = "env-member"
				case op.Path[0] == "bindings":
					k = fmt.Sprintf("bindings-depth%d", len(op.Path)-1)
				case op.Path[0] == "props" && len(op.Path) == 2:
					k = "props-top"
				case op.Path[0] == "props":
					k = "props-nested"
				}
			}
			kinds[k] = true
		}
	}
	ks := make([]string, 0, len(kinds))
	for k := range kinds {
		ks = append(ks, k)
	}
	sort.Strings(ks)
	for _, k := range ks {
		o.count("pollution:" + k)
	}
	if nested {
		o.count("nested-props-write")
	}
	if c.Bs == nil {
		o.count("nil-bindings")
	}
	if c.Props == nil {
		o.count("nil-props")
	}
	c.Go = map[string]interface{}{"alone": alone.Res, "polluters": polObs, "probe": probeObs, "stable": stable}
	key := canon(c.Polluters) + canon(c.Probe) + canon(c.Bs) + canon(c.Props) + mode
	o.add(term, key, polluting && c.Probe.reading(), c)
}
