package main

// Components "specshare" and "specswap" (C12).
//
// specshare: one compiled *core.Spec (generated: native and ECMAScript actions
// and guards, failing and succeeding), G goroutines with distinct states and
// messages walking it at once, three times each; every result is compared
// with the same walk made alone beforehand (Go vs Go) and with the model's
// walk; the specification is snapshotted before and after.
//
// specswap: two versions of a specification (same node names, different
// routing, every action tags bindings and emissions with its version) behind
// one core.UpdatableSpec; writers swap the versions continuously while G
// walkers do what the hosts do (spec := u.Spec(); spec.Walk(...)); every
// result must be the walk under version A or the walk under version B.
//
// Both are meant to run in the binary built with -race: a report of the race
// detector makes the binary exit non-zero, which the check driver reports
// with the report as replay.

import (
	"context"
	"fmt"
	"runtime"
	"strconv"
	"strings"
	"sync"
	"sync/atomic"
	"time"

	"github.com/Comcast/sheens/core"
	"github.com/Comcast/sheens/match"
)

func init() {
	components["specshare"] = specshareComponent
	components["specswap"] = specswapComponent
}

// procsList: GOMAXPROCS values to cycle through, one per case (option procs=1+2+4+16)
func procsList(opts map[string]string) []int {
	var ps []int
	for _, f := range strings.Split(opts["procs"], "+") {
		if p, err := strconv.Atoi(f); err == nil && p > 0 {
			ps = append(ps, p)
		}
	}
	return ps
}

func setProcs(ps []int, i int, o *Out) {
	if len(ps) == 0 {
		return
	}
	p := ps[i%len(ps)]
	runtime.GOMAXPROCS(p)
	o.count(fmt.Sprintf("gomaxprocs:%d", p))
}

type shWalk struct {
	State  *AState       `json:"state"`
	Msgs   []interface{} `json:"messages"`
	Limit  int           `json:"limit"`
	Alone  *walkObs      `json:"alone,omitempty"`
	Conc   *walkObs      `json:"concurrent,omitempty"`
	Stable bool          `json:"stable"`
	alone  *walkRun
	conc   *walkRun
}

type shCase struct {
	Spec   *ASpec    `json:"spec"`
	Walks  []*shWalk `json:"walks"`
	Intact bool      `json:"spec_intact"`
}

// jsrtWalk calls Spec.Walk under the given context (recover and a watchdog
// around it) and projects the result; it shares only the observation types
// with engine.go, no deadline policy.
func jsrtWalk(ctx context.Context, spec *core.Spec, st *core.State, msgs []interface{}, ctl *core.Control, props core.StepProps) *walkRun {
	r := &walkRun{Intact: true}
	done := make(chan bool, 1)
	var raw *core.Walked
	go func() {
		defer func() {
			if p := recover(); p != nil {
				r.Outcome = "panic"
				r.Err = fmt.Sprintf("%v", p)
			}
			done <- true
		}()
		w, err := spec.Walk(ctx, st, msgs, ctl, props)
		r.Outcome = "ok"
		if err != nil {
			r.Err = err.Error()
		}
		raw = w
	}()
	select {
	case <-done:
	case <-time.After(30 * time.Second):
		return &walkRun{Outcome: "hang"}
	}
	if raw != nil {
		wo := &walkObs{Stopped: raw.StoppedBecause.String()}
		for _, sd := range raw.Strides {
			wo.Strides = append(wo.Strides, obsStride(sd))
		}
		for _, m := range raw.Remaining {
			wo.Remaining = append(wo.Remaining, m)
		}
		r.W = wo
	}
	return r
}

// plainWalk: a walk that needs no deadline (no endless script in the specification)
func plainWalk(spec *core.Spec, st *core.State, msgs []interface{}, ctl *core.Control, props core.StepProps) *walkRun {
	ctx, cancel := context.WithTimeout(context.Background(), 60*time.Second)
	defer cancel()
	return jsrtWalk(ctx, spec, st, msgs, ctl, props)
}

func walkCoq(r *walkRun) string {
	s, ok := r.coq()
	if !ok {
		return "GWalkUnrep"
	}
	return s
}

func coqMsgs(msgs []interface{}) string {
	ms := make([]string, 0, len(msgs))
	for _, m := range msgs {
		ms = append(ms, mustCoqJSON(m))
	}
	return coqList(ms)
}

func (g *G) specNoLoop(opts map[string]string) *ASpec {
	for {
		as := g.aspec(opts)
		if !as.hasLoop() && !as.SkipCompile {
			return as
		}
	}
}

func specshareComponent(g *G, n int, opts map[string]string) *Out {
	procs := procsList(opts)
	o := newOut("Corr.SpecCorr", "shcase")
	goroutines := 8
	if v, err := strconv.Atoi(opts["goroutines"]); err == nil && v > 0 {
		goroutines = v
	}
	var todo []*shCase
	if path := opts["replay"]; path != "" {
		var w struct {
			Cases []*shCase `json:"cases"`
		}
		loadJSON(path, &w)
		todo = w.Cases
	} else {
		for len(todo) < n {
			// every other case: actions and guards that delete, overwrite and replace permanent bindings, each walker
			// with its own values for them (what one machine is given back must never be another machine's)
			saved := g.mode
			if len(todo)%2 == 1 || opts["perm"] != "" {
				g.mode = "c18"
			}
			c := &shCase{Spec: g.specNoLoop(opts)}
			walkers := goroutines
			if len(todo) == 1 && opts["crowd"] != "" {
				// a crowd: a hundred machines inside interpreted actions of one specification at the same time (every
				// interpreted action takes a while)
				walkers = 100
				for try := 0; try < 30 && c.Spec.allNative(); try++ {
					c.Spec = g.specNoLoop(opts)
				}
				for _, nd := range c.Spec.Nodes {
					if nd.Action != nil && !nd.Action.Native {
						nd.Action.P.Ops = append([]Op{{Kind: "spin"}}, nd.Action.P.Ops...)
					}
				}
			}
			for i := 0; i < walkers; i++ {
				w := &shWalk{State: g.astate(c.Spec), Limit: 1 + g.intn(10)}
				if walkers > goroutines {
					w.Limit = 2 // a crowd: every interpreted action takes tens of milliseconds
					for _, name := range sortedKeys(nodesAsMap(c.Spec)) {
						if nd := c.Spec.Nodes[name]; nd.Action != nil && !nd.Action.Native {
							w.State.Node = name // every machine of the crowd starts at an interpreted action
							break
						}
					}
				}
				if w.State.Bs != nil && g.mode == "c18" {
					w.State.Bs["cfg!"] = fmt.Sprintf("walker-%d", i)
					w.State.Bs["ver!"] = float64(i)
				}
				node := w.State.Node
				for k := g.intn(4); k > 0; k-- {
					w.Msgs = append(w.Msgs, g.messageFor(c.Spec, node))
					names := sortedKeys(nodesAsMap(c.Spec))
					node = names[g.intn(len(names))]
				}
				c.Walks = append(c.Walks, w)
			}
			g.mode = saved
			todo = append(todo, c)
		}
	}
	walksTotal := 0
	for ci, c := range todo {
		setProcs(procs, ci, o)
		spec, err := c.Spec.build()
		if err != nil {
			o.count("compile-error")
			continue
		}
		// the walks "alone" run on a second compilation of the same specification, so that the shared
		// object is cold (never walked, never matched) when the concurrent walks start: a lazily
		// initialised cache or any other first-use write happens under contention
		specAlone, err := c.Spec.build()
		if err != nil {
			o.count("compile-error")
			continue
		}
		before := snapshot(spec, nil, nil, nil, nil)
		props := make([]core.StepProps, len(c.Walks))
		for i, w := range c.Walks {
			if i%2 == 0 {
				props[i] = core.StepProps{"mid": fmt.Sprintf("m%d", i), "cfg": map[string]interface{}{"k": "v"}}
			}
			w.alone = plainWalk(specAlone, w.State.core(), deepCopy(w.Msgs, nil).([]interface{}), &core.Control{Limit: w.Limit}, props[i])
			w.Alone = w.alone.W
			w.Stable = true
		}
		var wg sync.WaitGroup
		start := make(chan bool)
		for i, w := range c.Walks {
			wg.Add(1)
			go func(i int, w *shWalk) {
				defer wg.Done()
				<-start
				for rep := 0; rep < 3; rep++ {
					r := plainWalk(spec, w.State.core(), deepCopy(w.Msgs, nil).([]interface{}), &core.Control{Limit: w.Limit}, props[i])
					if w.conc == nil {
						w.conc = r
					} else if w.conc.key() != r.key() {
						w.Stable = false
						if w.conc.key() == w.alone.key() {
							w.conc = r // keep the deviating one
						}
					}
				}
			}(i, w)
		}
		close(start)
		wg.Wait()
		c.Intact = snapshot(spec, nil, nil, nil, nil) == before
		ws := make([]string, len(c.Walks))
		nontrivial := false
		for i, w := range c.Walks {
			w.Conc = w.conc.W
			ws[i] = fmt.Sprintf("(mk_shwalk %s %s %d%%nat %s %s %s)", w.State.coq(), coqMsgs(w.Msgs), w.Limit,
				walkCoq(w.alone), walkCoq(w.conc), coqBool(w.Stable))
			walksTotal++
			if w.conc.W != nil {
				o.count("stopped:" + w.conc.W.Stopped)
				if len(w.conc.W.Strides) >= 2 {
					nontrivial = true
				}
				for _, sd := range w.conc.W.Strides {
					if sd.To != nil {
						if _, have := sd.To.Bs["error"]; have {
							o.count("walk-with-error-state")
							break
						}
					}
				}
			}
			o.count("outcome:" + w.conc.Outcome)
		}
		kinds := map[string]bool{}
		for _, nd := range c.Spec.Nodes {
			if nd.Action != nil {
				if nd.Action.Native {
					kinds["native-action"] = true
				} else {
					kinds["js-action"] = true
				}
				kinds["action-term:"+nd.Action.P.Term] = true
			}
			for _, b := range nd.Branches {
				if b.Guard != nil {
					if b.Guard.Native {
						kinds["native-guard"] = true
					} else {
						kinds["js-guard"] = true
					}
				}
			}
		}
		for k := range kinds {
			o.count("spec:" + k)
		}
		term := fmt.Sprintf("(mk_shcase %s %s %s)", c.Spec.coq(), coqList(ws), coqBool(c.Intact))
		o.add(term, canon(c.Spec)+canon(c.Walks), nontrivial, c)
	}
	o.Evals = walksTotal // one evaluation = one walker's concurrent walks compared with its walk alone and with the model
	o.Notes = append(o.Notes, fmt.Sprintf("%d walkers per specification, 3 concurrent walks each (%d concurrent walks), GOMAXPROCS cycling through %v (empty: default)",
		goroutines, walksTotal*3, procs),
		"non-trivial = some walker's walk has at least two strides")
	return o
}

// ---- UpdatableSpec --------------------------------------------------------------

type swWalk struct {
	State *AState       `json:"state"`
	Msgs  []interface{} `json:"messages"`
	Limit int           `json:"limit"`
	GoA   *walkObs      `json:"alone_a,omitempty"`
	GoB   *walkObs      `json:"alone_b,omitempty"`
	Conc  []*walkObs    `json:"concurrent,omitempty"`
	goA   *walkRun
	goB   *walkRun
	conc  []*walkRun
}

type swCase struct {
	A     *ASpec    `json:"version_a"`
	B     *ASpec    `json:"version_b"`
	Walks []*swWalk `json:"walks"`
	Swaps int64     `json:"swaps"`
}

// versioned builds two versions over the same node names: n<i> consumes a
// message and goes to the action node a<i>, whose action tags the bindings and
// an emission with the version and goes on - to n<i+1> in version A, to
// n<i+2> in version B.
func (g *G) versioned() (*ASpec, *ASpec) {
	L := 2 + g.intn(4)
	kinds := make([]int, L) // per action node: 0 js, 1 native, 2 js with a guard on the way in
	for i := range kinds {
		kinds[i] = g.intn(3)
	}
	failAt := -1
	if g.chance(0.3) {
		failAt = g.intn(L)
	}
	mk := func(tag string, skip int) *ASpec {
		s := &ASpec{Nodes: map[string]*ANode{}, ErrNode: "failed"}
		s.Nodes["failed"] = &ANode{}
		for i := 0; i <= L+1; i++ {
			s.Nodes[fmt.Sprintf("n%d", i)] = &ANode{}
		}
		for i := 0; i < L; i++ {
			br := &ABranch{HasPattern: true, Pattern: map[string]interface{}{"m": "?m"}, Target: fmt.Sprintf("a%d", i)}
			if kinds[i] == 2 {
				br.Guard = &Act{P: &Prog{Ops: []Op{{Kind: "set", K: "g", J: tag}}, Term: "bindings"}}
			}
			s.Nodes[fmt.Sprintf("n%d", i)] = &ANode{HasBranches: true, Type: "message", Branches: []*ABranch{br}}
			p := &Prog{Term: "bindings", Ops: []Op{
				{Kind: "set", K: "v", J: tag},
				{Kind: "emit", J: map[string]interface{}{"v": tag, "at": float64(i), "to": "nobody"}},
				{Kind: "del", K: "?m"}}}
			if i == failAt {
				p.Term = "throw"
			}
			next := i + skip
			if next > L+1 {
				next = L + 1
			}
			s.Nodes[fmt.Sprintf("a%d", i)] = &ANode{Action: &Act{P: p, Native: kinds[i] == 1}, HasBranches: true, Type: "bindings",
				Branches: []*ABranch{{Target: fmt.Sprintf("n%d", next)}}}
		}
		return s
	}
	return mk("A", 1), mk("B", 2)
}

// reviseCopy: Spec.Copy, then every branch of the copy gets another pattern, guard and target, every action another
// source, and the copy is compiled (force).  The result is thrown away.
func reviseCopy(spec *core.Spec) {
	cp := spec.Copy("revision")
	for _, n := range cp.Nodes {
		if n == nil {
			continue
		}
		if n.ActionSource != nil {
			n.ActionSource.Source = "return {\"revised\": true};"
			n.Action = nil
		}
		if n.Branches == nil {
			continue
		}
		for _, b := range n.Branches.Branches {
			if b == nil {
				continue
			}
			b.Pattern = map[string]interface{}{"revised": "?r"}
			b.GuardSource = &core.ActionSource{Interpreter: "ecmascript", Source: "return null;"}
			b.Guard = nil
			b.Target = "revised-" + b.Target
		}
	}
	cp.Compile(context.Background(), interpreters(), true)
	// ... a revision that keeps its sources (the copy's branches share their guards' *ActionSource with the version in
	// use: Branch.Copy is shallow) and is compiled from source for a host that maps the interpreter's name to another
	// interpreter, whose compiled form is of another kind: what the version in use runs stays what it was compiled to
	cp3 := spec.Copy("revision-3")
	cp3.Compile(context.Background(), core.InterpretersMap{"ecmascript": otherInterpreter{}, "": otherInterpreter{}}, true)
	// ... and the gentler way: a node with a new action is added to a copy and the copy compiled without force; a copy
	// that Compile accepts is a compiled specification (no step reports "uncompiled action" / "not compiled")
	cp2 := spec.Copy("revision-2")
	cp2.Nodes["zz-added"] = &core.Node{ActionSource: &core.ActionSource{Interpreter: "ecmascript", Source: "return _.bindings;"},
		Branches: &core.Branches{Branches: []*core.Branch{{Target: "zz-added-2"}}}}
	cp2.Nodes["zz-added-2"] = &core.Node{}
	err := cp2.Compile(context.Background(), interpreters(), false)
	if err == nil && c13LateErrors(cp2) {
		atomic.StoreInt32(&reviseLate, 1)
	}
	if err != nil {
		return
	}
	// the compiled revision is adjusted before it would be installed: its patterns are its own (Compile parses every
	// pattern into a fresh value), so the version in use keeps matching as it did
	for _, n := range cp2.Nodes {
		if n == nil || n.Branches == nil {
			continue
		}
		for _, b := range n.Branches.Branches {
			if b != nil {
				scribble(b.Pattern)
			}
		}
	}
}

// reviseLate: a revision that compiled reported an uncompiled action afterwards
var reviseLate int32

func specswapComponent(g *G, n int, opts map[string]string) *Out {
	procs := procsList(opts)
	o := newOut("Corr.SpecCorr", "swcase")
	walkers := 6
	if v, err := strconv.Atoi(opts["goroutines"]); err == nil && v > 0 {
		walkers = v
	}
	var todo []*swCase
	if path := opts["replay"]; path != "" {
		var w struct {
			Cases []*swCase `json:"cases"`
		}
		loadJSON(path, &w)
		todo = w.Cases
	} else {
		for len(todo) < n {
			a, b := g.versioned()
			c := &swCase{A: a, B: b}
			for i := 0; i < walkers; i++ {
				w := &swWalk{State: &AState{Node: "n0", Bs: map[string]interface{}{"id": float64(i)}}, Limit: 4 + g.intn(12)}
				if g.chance(0.2) {
					w.State.Node = "n1"
				}
				for k := 1 + g.intn(4); k > 0; k-- {
					w.Msgs = append(w.Msgs, map[string]interface{}{"m": g.num()})
				}
				c.Walks = append(c.Walks, w)
			}
			todo = append(todo, c)
		}
	}
	total, underA, underB, neither := 0, 0, 0, 0
	for ci, c := range todo {
		setProcs(procs, ci, o)
		specA, err := c.A.build()
		if err != nil {
			o.count("compile-error")
			continue
		}
		specB, err := c.B.build()
		if err != nil {
			o.count("compile-error")
			continue
		}
		for _, w := range c.Walks {
			w.goA = plainWalk(specA, w.State.core(), deepCopy(w.Msgs, nil).([]interface{}), &core.Control{Limit: w.Limit}, nil)
			w.goB = plainWalk(specB, w.State.core(), deepCopy(w.Msgs, nil).([]interface{}), &core.Control{Limit: w.Limit}, nil)
			w.GoA, w.GoB = w.goA.W, w.goB.W
		}
		// the first installation: a Specter that holds no specification yet is read by processing calls while the first
		// SetSpec arrives; once SetSpec has returned, every Spec() is that version
		firstLost := false
		for round := 0; round < 8 && !firstLost && ci < 12; round++ {
			u0 := core.NewUpdatableSpec(nil)
			if round%2 == 1 {
				u0 = &core.UpdatableSpec{}
			}
			quit := make(chan bool)
			var readers sync.WaitGroup
			for r := 0; r < 3; r++ {
				readers.Add(1)
				go func() {
					defer readers.Done()
					for {
						select {
						case <-quit:
							return
						default:
							u0.Spec()
							runtime.Gosched()
						}
					}
				}()
			}
			runtime.Gosched()
			u0.SetSpec(specA)
			for i := 0; i < 50; i++ {
				if u0.Spec() != specA {
					firstLost = true
				}
				runtime.Gosched()
			}
			close(quit)
			readers.Wait()
		}
		u := core.NewUpdatableSpec(specA)
		var stop int32
		var swaps int64
		var writers sync.WaitGroup
		for k := 0; k < 2; k++ {
			writers.Add(1)
			go func(k int) {
				defer writers.Done()
				for i := 0; atomic.LoadInt32(&stop) == 0; i++ {
					if i%8 == 3 {
						// how a host prepares a revision: copy the installed version, edit the copy, compile it - the
						// installed version keeps serving meanwhile and must not be touched by any of that
						reviseCopy(specA)
						reviseCopy(specB)
					}
					if (i+k)%2 == 0 {
						u.SetSpec(specB)
					} else {
						u.SetSpec(specA)
					}
					atomic.AddInt64(&swaps, 1)
					if i%4 == 0 {
						runtime.Gosched()
					}
				}
			}(k)
		}
		var wg sync.WaitGroup
		start := make(chan bool)
		for _, w := range c.Walks {
			wg.Add(1)
			go func(w *swWalk) {
				defer wg.Done()
				<-start
				for rep := 0; rep < 4; rep++ {
					// what the hosts do: one Spec() per processing call, then Walk on what it returned
					var specter core.Specter = u
					spec := specter.Spec()
					r := plainWalk(spec, w.State.core(), deepCopy(w.Msgs, nil).([]interface{}), &core.Control{Limit: w.Limit}, nil)
					w.conc = append(w.conc, r)
				}
			}(w)
		}
		close(start)
		wg.Wait()
		atomic.StoreInt32(&stop, 1)
		writers.Wait()
		if firstLost && len(c.Walks) > 0 {
			// reported as a processing call that saw neither version
			c.Walks[0].conc = append(c.Walks[0].conc, &walkRun{Outcome: "panic", Err: "the first SetSpec of a Specter that held no specification was lost: Spec() did not return the installed version afterwards"})
			o.count("first-installation-lost")
		}
		if atomic.SwapInt32(&reviseLate, 0) == 1 && len(c.Walks) > 0 {
			// reported as a processing call that saw neither version
			c.Walks[0].conc = append(c.Walks[0].conc, &walkRun{Outcome: "panic", Err: "a revision made from Spec.Copy compiled without error and then reported an uncompiled action"})
			o.count("revision-not-compiled")
		}
		c.Swaps = atomic.LoadInt64(&swaps)
		ws := make([]string, len(c.Walks))
		distinguishable := false
		for i, w := range c.Walks {
			cs := make([]string, len(w.conc))
			for j, r := range w.conc {
				cs[j] = walkCoq(r)
				w.Conc = append(w.Conc, r.W)
				total++
				switch r.key() {
				case w.goA.key():
					underA++
				case w.goB.key():
					underB++
				default:
					neither++
				}
			}
			if w.goA.key() != w.goB.key() {
				distinguishable = true
			}
			ws[i] = fmt.Sprintf("(mk_swwalk %s %s %d%%nat %s %s %s)", w.State.coq(), coqMsgs(w.Msgs), w.Limit,
				walkCoq(w.goA), walkCoq(w.goB), coqList(cs))
		}
		term := fmt.Sprintf("(mk_swcase %s %s %s)", c.A.coq(), c.B.coq(), coqList(ws))
		o.add(term, canon(c.A)+canon(c.B)+canon(c.Walks), distinguishable, c)
	}
	o.Evals = total // one evaluation = one processing call made during the swapping
	o.Hist["walks-under-A"] = underA
	o.Hist["walks-under-B"] = underB
	o.Hist["walks-under-neither"] = neither
	o.Notes = append(o.Notes, fmt.Sprintf("%d walkers x 4 processing calls per case against 2 swapping writers (%d calls), GOMAXPROCS cycling through %v (empty: default)",
		walkers, total, procs),
		"non-trivial = some walker's walks under the two versions differ")
	return o
}


// otherInterpreter: an interpreter another host might install under the same name; its compiled form is a string.
type otherInterpreter struct{}

func (otherInterpreter) Compile(ctx context.Context, code interface{}) (interface{}, error) {
	return fmt.Sprintf("other:%v", code), nil
}

func (otherInterpreter) Exec(ctx context.Context, bs match.Bindings, props core.StepProps, code interface{}, compiled interface{}) (*core.Execution, error) {
	return core.NewExecution(bs), nil
}
