module verifharness

go 1.20

require github.com/Comcast/sheens v0.0.0

replace github.com/Comcast/sheens => /repo
