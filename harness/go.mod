module verifharness

go 1.20

require (
	github.com/Comcast/sheens v0.0.0
	github.com/jsccast/yaml v0.0.0-20171213031114-31aa0bbd42f2
	gopkg.in/yaml.v2 v2.4.0
)

require (
	github.com/dlclark/regexp2 v1.7.0 // indirect
	github.com/dop251/goja v0.0.0-20240220182346-e401ed450204 // indirect
	github.com/go-sourcemap/sourcemap v2.1.3+incompatible // indirect
	github.com/google/pprof v0.0.0-20230207041349-798e818bf904 // indirect
	github.com/gorhill/cronexpr v0.0.0-20180427100037-88b0669f7d75 // indirect
	github.com/russross/blackfriday/v2 v2.1.0 // indirect
	golang.org/x/text v0.13.0 // indirect
)

replace github.com/Comcast/sheens => /repo
