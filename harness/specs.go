package main

// Abstract specifications: generator, rendering as core.Spec (compiled with
// the real ECMAScript interpreter) and as Gallina terms of Model/Step.v.

import (
	"context"
	"fmt"
	"sort"
	"strings"

	"github.com/Comcast/sheens/core"
	"github.com/Comcast/sheens/interpreters/ecmascript"
	"github.com/Comcast/sheens/interpreters/noop"
	"github.com/Comcast/sheens/match"
)

type ABranch struct {
	Pattern    interface{} `json:"pattern,omitempty"`
	HasPattern bool        `json:"has_pattern"`
	Guard      *Act        `json:"guard,omitempty"`
	Target     string      `json:"target"`
}

type ANode struct {
	Action      *Act       `json:"action,omitempty"`
	HasBranches bool       `json:"has_branching"`
	Type        string     `json:"type"` // "", "message", "bindings"
	Branches    []*ABranch `json:"branches"`
	Uncompiled  bool       `json:"uncompiled,omitempty"` // an ActionSource added after Compile
}

type ASpec struct {
	Nodes       map[string]*ANode `json:"nodes"`
	ErrBranches bool              `json:"actionErrorBranches"`
	ErrNode     string            `json:"actionErrorNode"`
	NoAutoError bool              `json:"noErrorNode,omitempty"`
	ErrNodeName string            `json:"errorNode,omitempty"` // Spec.ErrorNode (Compile adds a node of that name; "" = "error")
	SkipCompile bool              `json:"skip_compile,omitempty"`
}

var nodeNames = []string{"start", "a", "b", "c"}

// guardSafePattern: a pattern that yields at most one candidate (no variable
// inside an array, no property variable), so that guarded branches are
// deterministic in most generated specs.
func (g *G) guardSafePattern(depth int, c *pctx) interface{} {
	for i := 0; i < 20; i++ {
		p := g.pattern(depth, c)
		if !multiCandidate(p) {
			return p
		}
	}
	return map[string]interface{}{"a": "?x"}
}

func multiCandidate(p interface{}) bool {
	switch v := p.(type) {
	case []interface{}:
		for _, x := range v {
			if s, is := x.(string); is && strings.HasPrefix(s, "?") {
				return true
			}
			if multiCandidate(x) {
				return true
			}
		}
		// structured elements can match several message elements
		n := 0
		for _, x := range v {
			switch x.(type) {
			case map[string]interface{}, []interface{}:
				n++
			}
		}
		return n > 0
	case map[string]interface{}:
		for k, x := range v {
			if strings.HasPrefix(k, "?") || multiCandidate(x) {
				return true
			}
		}
	}
	return false
}

// cycleSpec: 2-3 action nodes in a ring of unconditional bindings branches, so
// that one walk executes every action (and guard) object several times with
// different bindings each time
func (g *G) cycleSpec() *ASpec {
	s := &ASpec{Nodes: map[string]*ANode{}}
	n := 2 + g.intn(2)
	names := nodeNames[:n]
	for i, name := range names {
		nd := &ANode{HasBranches: true, Type: "bindings"}
		if g.chance(0.85) {
			nd.Action = g.act(false)
			for nd.Action.P.Term == "loop" {
				nd.Action = g.act(false)
			}
		}
		b := &ABranch{Target: names[(i+1)%n]}
		if g.chance(0.4) {
			b.Guard = g.act(true)
		}
		nd.Branches = append(nd.Branches, b)
		if b.Guard != nil {
			nd.Branches = append(nd.Branches, &ABranch{Target: names[(i+1)%n]})
		}
		s.Nodes[name] = nd
	}
	s.ErrBranches = g.chance(0.3)
	return s
}

func (g *G) aspec(opts map[string]string) *ASpec {
	if g.mode == "c18" && opts["cycles"] == "1" && g.chance(0.7) {
		return g.cycleSpec()
	}
	s := &ASpec{Nodes: map[string]*ANode{}}
	n := 1 + g.intn(4)
	names := nodeNames[:n]
	if g.chance(0.15) {
		names = append(append([]string{}, names...), "error")
	}
	s.ErrBranches = g.chance(0.35)
	if g.chance(0.35) {
		s.ErrNode = g.pick(append(append([]string{}, names...), "onerr"))
	}
	s.NoAutoError = g.chance(0.05)
	if _, have := s.Nodes["oops"]; !have && g.chance(0.07) {
		// the specification names its own error node: Compile adds that one (Walk goes to "error" all the same, a node
		// such a specification need not have)
		s.ErrNodeName = "oops"
	}
	s.SkipCompile = g.chance(0.02)
	for _, name := range names {
		nd := &ANode{}
		if g.chance(0.45) {
			nd.Action = g.act(false)
		}
		if g.chance(0.9) {
			nd.HasBranches = true
			switch k := g.intn(10); {
			case k < 4:
				nd.Type = "message"
			case k < 8:
				nd.Type = "bindings"
			default:
				nd.Type = ""
			}
			if nd.Action != nil && nd.Type == "message" && !g.chance(0.08) {
				nd.Type = "bindings"
			}
			for nb := g.intn(4); nb > 0; nb-- {
				b := &ABranch{}
				if g.chance(0.75) {
					b.HasPattern = true
					ctx := newPctx()
					ctx.noPreIneq = true
					if nd.Type == "message" {
						b.Pattern = g.pattern(2, ctx)
					} else {
						b.Pattern = g.bindingsPattern(ctx)
					}
					if b.Pattern == nil {
						b.HasPattern = false
					}
				}
				if g.chance(0.25) {
					b.Guard = g.act(true)
					if b.HasPattern && multiCandidate(b.Pattern) && !g.chance(0.5) {
						ctx := newPctx()
						ctx.noPreIneq = true
						if nd.Type == "message" {
							b.Pattern = g.guardSafePattern(2, ctx)
						} else {
							b.Pattern = map[string]interface{}{g.pick(bindKeys): "?v"}
						}
					}
				}
				switch k := g.intn(20); {
				case k < 1:
					b.Target = "nowhere"
				case k < 4:
					// "@t": bound beforehand (the state may carry t); "@?x": bound by this
					// branch's own pattern or guard
					b.Target = "@" + g.pick([]string{"t", "a", "next", "?x", "?y", "?x"})
				default:
					b.Target = g.pick(names)
				}
				nd.Branches = append(nd.Branches, b)
			}
		}
		s.Nodes[name] = nd
	}
	return s
}

// bindingsPattern: a pattern meant to be matched against the bindings map
func (g *G) bindingsPattern(c *pctx) interface{} {
	m := map[string]interface{}{}
	for n := 1 + g.intn(2); n > 0; n-- {
		k := g.pick(append(append([]string{}, bindKeys...), "actionError", "error"))
		if strings.HasPrefix(k, "?") && len(m) > 0 {
			continue
		}
		switch g.intn(4) {
		case 0:
			m[k] = g.scalar()
		case 1:
			m[k] = g.pattern(1, c)
			if m[k] == nil {
				m[k] = "?v"
			}
		default:
			m[k] = g.pick([]string{"?v", "?w", "?"})
		}
		if k == "error" || k == "actionError" {
			// error texts are normalised to one token in the model: a variable bound to one
			// error text and re-matched against another would agree there and differ in Go
			if s, is := m[k].(string); !is || s != "?" {
				m[k] = "?"
			}
		}
		if strings.HasPrefix(k, "?") {
			break
		}
	}
	return m
}

var sharedInterpreter = ecmascript.NewInterpreter()

func interpreters() core.Interpreters {
	return core.InterpretersMap{"ecmascript": sharedInterpreter, "": sharedInterpreter}
}

// build renders the abstract spec as a core.Spec and compiles it.
var buildCount int

func (s *ASpec) build() (*core.Spec, error) {
	spec := &core.Spec{
		Name:                "gen",
		Nodes:               map[string]*core.Node{},
		ActionErrorBranches: s.ErrBranches,
		ActionErrorNode:     s.ErrNode,
		NoAutoErrorNode:     s.NoAutoError,
		ErrorNode:           s.ErrNodeName,
	}
	act := func(a *Act) (core.Action, *core.ActionSource) {
		if a == nil {
			return nil, nil
		}
		if a.Native {
			return a.P.Native(a.ExeOnError), nil
		}
		src := &core.ActionSource{Interpreter: "ecmascript", Source: a.P.JS()}
		if buildCount%3 == 2 {
			// a declaration of what the code binds (documentation for tools: it changes nothing about the execution)
			src.Binds = []match.Bindings{}
			if buildCount%2 == 0 {
				src.Binds = []match.Bindings{{"?x": "a value"}}
			}
		}
		return nil, src
	}
	var given []interface{}
	jsonSyntax, npat := !s.SkipCompile && buildCount%5 == 1, 0
	if jsonSyntax {
		spec.PatternSyntax = "json"
	}
	for name, nd := range s.Nodes {
		n := &core.Node{}
		n.Action, n.ActionSource = act(nd.Action)
		if nd.HasBranches {
			n.Branches = &core.Branches{Type: nd.Type}
			for _, b := range nd.Branches {
				br := &core.Branch{Target: b.Target}
				if b.HasPattern {
					br.Pattern = deepCopy(b.Pattern, nil)
					given = append(given, br.Pattern)
					if jsonSyntax {
						// the "json" pattern syntax: a pattern is JSON text, or (from a Go program / a YAML document)
						// a native value with whole numbers as ints - Compile makes plain JSON data of either
						npat++
						if _, isText := b.Pattern.(string); isText || npat%2 == 0 {
							// (a pattern that is a string can only be given as JSON text: a native string is read as text)
							br.Pattern = jsText(b.Pattern)
						} else {
							br.Pattern = nativeInts(br.Pattern)
						}
					}
				}
				br.Guard, br.GuardSource = act(b.Guard)
				n.Branches.Branches = append(n.Branches.Branches, br)
			}
		}
		spec.Nodes[name] = n
	}
	if s.SkipCompile {
		return spec, nil
	}
	buildCount++
	if buildCount%4 == 0 {
		// a tool's dry run with the no-op interpreters comes first (tools.ReadAndRenderSpecPage compiles that way);
		// the compilation for real must replace everything the dry run built
		noopInts := noop.NewInterpreters()
		noopInts.I.Silent = true
		spec.Compile(context.Background(), noopInts, true)
	}
	ints := interpreters().(core.InterpretersMap)
	if err := spec.Compile(context.Background(), ints, true); err != nil {
		return nil, err
	}
	// the host's registry of interpreters is the host's: it empties it after compiling (a compiled action holds what it
	// needs to run)
	for k := range ints {
		delete(ints, k)
	}
	// the pattern values handed to Compile stay the builder's: it goes on to use them for something else, and the
	// compiled specification is not affected
	for _, x := range given {
		scribble(x)
	}
	if buildCount%6 == 5 {
		// a later recompilation that fails (the host lost its interpreters): the compiled specification stays in use and
		// stays what it was
		spec.Compile(context.Background(), core.InterpretersMap{}, true)
	}
	for name, nd := range s.Nodes {
		if nd.Uncompiled {
			spec.Nodes[name].Action = nil
			spec.Nodes[name].ActionSource = &core.ActionSource{Interpreter: "ecmascript", Source: "return _.bindings;"}
		}
	}
	return spec, nil
}

// noLoops replaces every endless script by a throwing one.  A deadline set for a
// whole Walk also cuts the actions that run after an endless one, by an amount
// that depends on timing; only single steps (whose deadline concerns exactly the
// one looping action) keep endless scripts.  C11 has its own timing-tolerant runs.
func (s *ASpec) noLoops() {
	for _, nd := range s.Nodes {
		if nd.Action != nil && nd.Action.P.Term == "loop" {
			nd.Action.P.Term = "throw"
		}
		for _, b := range nd.Branches {
			if b.Guard != nil && b.Guard.P.Term == "loop" {
				b.Guard.P.Term = "throw"
			}
		}
	}
}

func (s *ASpec) hasLoop() bool {
	for _, nd := range s.Nodes {
		if nd.Action.hasLoop() {
			return true
		}
		for _, b := range nd.Branches {
			if b.Guard.hasLoop() {
				return true
			}
		}
	}
	return false
}

// coq renders the *compiled* specification for Model/Step.v: default
// branching type applied, error node added as Compile does.
func (s *ASpec) coq() string {
	names := make([]string, 0, len(s.Nodes)+1)
	for k := range s.Nodes {
		names = append(names, k)
	}
	errName := "error"
	if s.ErrNodeName != "" {
		errName = s.ErrNodeName
	}
	_, haveErr := s.Nodes[errName]
	if !haveErr && !s.NoAutoError && !s.SkipCompile {
		names = append(names, errName)
	}
	sort.Strings(names)
	nodes := make([]string, 0, len(names))
	for _, name := range names {
		nd, have := s.Nodes[name]
		if !have {
			nodes = append(nodes, fmt.Sprintf("(%s, mk_node None false None)", coqString(name)))
			continue
		}
		branching := "None"
		if nd.HasBranches {
			typ := nd.Type
			if typ == "" && !s.SkipCompile {
				typ = "bindings"
			}
			brs := make([]string, 0, len(nd.Branches))
			for _, b := range nd.Branches {
				pat := "None"
				if b.HasPattern && b.Pattern != nil {
					pat = "(Some " + mustCoqJSON(b.Pattern) + ")"
				}
				brs = append(brs, fmt.Sprintf("(mk_branch %s %s %s)", pat, b.Guard.coq(), coqString(b.Target)))
			}
			branching = fmt.Sprintf("(Some (mk_branching %s %s))", coqString(typ), coqList(brs))
		}
		action := nd.Action.coq()
		if nd.Uncompiled {
			action = "None"
		}
		nodes = append(nodes, fmt.Sprintf("(%s, mk_node %s %s %s)", coqString(name), action, coqBool(nd.Uncompiled), branching))
	}
	return fmt.Sprintf("(mk_spec %s %s %s %s)", coqList(nodes), coqBool(s.ErrBranches), coqString(s.ErrNode), coqBool(!s.SkipCompile))
}

// ---- states --------------------------------------------------------------

type AState struct {
	Node string                 `json:"node"`
	Bs   map[string]interface{} `json:"bs"` // nil = nil bindings
}

func (g *G) astate(s *ASpec) *AState {
	names := make([]string, 0, len(s.Nodes))
	for k := range s.Nodes {
		names = append(names, k)
	}
	sort.Strings(names)
	st := &AState{Node: names[g.intn(len(names))]}
	if g.chance(0.04) {
		st.Node = "ghost"
	}
	if g.chance(0.1) {
		st.Node = "error"
	}
	switch k := g.intn(20); {
	case k < 2:
		st.Bs = nil
	case k < 5:
		st.Bs = map[string]interface{}{}
	default:
		st.Bs = map[string]interface{}{}
		for n := 1 + g.intn(4); n > 0; n-- {
			st.Bs[g.pick(bindKeys)] = g.smallJSON()
		}
		if g.chance(0.15) {
			st.Bs["t"] = g.pick(names)
		}
		if g.chance(0.25) {
			// nested structure an action can reach into (in-place mutation below the top level)
			st.Bs[g.pick(bindKeys)] = []interface{}{map[string]interface{}{"q": g.num()}, g.scalar()}
		}
		if g.chance(0.08) {
			// a machine that failed twice already and was put back at a node with its bindings as they were: the
			// history of failures is nested two levels deep
			inner := map[string]interface{}{"error": "boom", "lastNode": g.pick(names), "lastBindings": map[string]interface{}{g.pick(bindKeys): g.smallJSON()}}
			for k, v := range st.Bs {
				inner[k] = deepCopy(v, nil)
			}
			st.Bs["lastBindings"], st.Bs["lastNode"], st.Bs["error"] = inner, g.pick(names), "boom"
		}
		g.bindThresholds(s, st)
		if nd := s.Nodes[st.Node]; nd != nil && nd.Action != nil {
			// a binding the node's action reaches into usually holds something to reach into
			for _, op := range nd.Action.P.Ops {
				if op.Kind == "poke" && g.chance(0.6) {
					if g.chance(0.5) {
						st.Bs[op.K] = map[string]interface{}{"q": g.num(), "r": []interface{}{g.scalar()}}
					} else {
						st.Bs[op.K] = []interface{}{map[string]interface{}{"q": g.num()}, g.scalar()}
					}
				}
			}
		}
		if g.mode == "c18" {
			for n := 1 + g.intn(2); n > 0; n-- {
				if g.chance(0.4) {
					st.Bs[g.pick(permKeys)] = []interface{}{map[string]interface{}{"q": g.num()}, g.scalar()}
				} else {
					st.Bs[g.pick(permKeys)] = g.smallJSON()
				}
			}
			if g.chance(0.1) {
				// a machine configured with many permanent bindings
				for k := 6 + g.intn(6); k > 0; k-- {
					st.Bs[fmt.Sprintf("p%d!", k)] = g.scalar()
				}
			}
		}
	}
	return st
}

func (st *AState) core() *core.State {
	var bs match.Bindings
	if st.Bs != nil {
		bs = match.Bindings(deepCopy(st.Bs, nil).(map[string]interface{}))
	}
	return &core.State{NodeName: st.Node, Bs: bs}
}

func coqOptBindings(m map[string]interface{}) (string, bool) {
	if m == nil {
		return "None", true
	}
	s, ok := coqBindings(m)
	return "(Some " + s + ")", ok
}

func (st *AState) coq() string {
	bs, ok := coqOptBindings(st.Bs)
	if !ok {
		panic("state not representable")
	}
	return fmt.Sprintf("(mk_state %s %s)", coqString(st.Node), bs)
}

// messageFor: a pending message likely to match one of the node's branches
// ineqVarsOf collects the inequality-shaped variables ("?<n", "?>=m", ...) that occur in a pattern
func ineqVarsOf(x interface{}, acc map[string]bool) {
	switch v := x.(type) {
	case string:
		if len(v) > 2 && v[0] == '?' && (v[1] == '<' || v[1] == '>' || v[1] == '!') {
			acc[v] = true
		}
	case []interface{}:
		for _, y := range v {
			ineqVarsOf(y, acc)
		}
	case map[string]interface{}:
		for k, y := range v {
			ineqVarsOf(k, acc)
			ineqVarsOf(y, acc)
		}
	}
}

// bindThresholds: a state at a node whose branch patterns use inequality variables usually carries their numeric
// bounds (that is what makes them inequalities); the counterpart stays free, so that the match binds it
func (g *G) bindThresholds(s *ASpec, st *AState) {
	nd := s.Nodes[st.Node]
	if nd == nil || st.Bs == nil {
		return
	}
	vars := map[string]bool{}
	for _, b := range nd.Branches {
		if b.HasPattern {
			ineqVarsOf(b.Pattern, vars)
		}
	}
	for _, v := range sortedKeys(boolsAsMap(vars)) {
		if g.chance(0.7) {
			st.Bs[v] = g.num()
		}
	}
}

func boolsAsMap(m map[string]bool) map[string]interface{} {
	acc := make(map[string]interface{}, len(m))
	for k := range m {
		acc[k] = true
	}
	return acc
}

func (g *G) messageFor(s *ASpec, node string, sts ...*AState) interface{} {
	nd := s.Nodes[node]
	if nd != nil && nd.HasBranches && len(nd.Branches) > 0 && g.chance(0.75) {
		b := nd.Branches[g.intn(len(nd.Branches))]
		if b.HasPattern {
			ctx := newPctx()
			for _, st := range sts {
				// numbers around the bounds the state carries
				for k, v := range st.Bs {
					if f, is := v.(float64); is && len(k) > 2 && k[0] == '?' && (k[1] == '<' || k[1] == '>' || k[1] == '!') {
						ctx.ineqBound[k] = f
					}
				}
			}
			m := g.instantiate(b.Pattern, map[string]interface{}{}, ctx, true)
			if g.chance(0.2) {
				m = g.corrupt(m)
			}
			if m != nil {
				return m
			}
		}
	}
	v := g.value(2)
	if v == nil {
		return map[string]interface{}{"a": 1.0}
	}
	return v
}

// normalise: engine- and interpreter-produced texts (anything with a space,
// except the literal the engine itself writes) become "<err>".
func normText(x interface{}) interface{} {
	switch v := x.(type) {
	case string:
		if v == "Action node followed no branch" {
			return v
		}
		if strings.Contains(v, " ") || len(v) > 24 {
			// a diagnostic carries the text the script threw in full (the long throw is 399 repetitions of two
			// non-ASCII characters): a text that lost part of it is another value
			if n := strings.Count(v, "\u00e9\u4e16"); n > 0 && n != 399 {
				return "<err-cut>"
			}
			return "<err>"
		}
		return v
	case []interface{}:
		acc := make([]interface{}, len(v))
		for i, y := range v {
			acc[i] = normText(y)
		}
		return acc
	case map[string]interface{}:
		acc := make(map[string]interface{}, len(v))
		for k, y := range v {
			acc[k] = normText(y)
		}
		return acc
	case match.Bindings:
		// not plain data: leave it so that the rendering reports it
		return v
	default:
		return x
	}
}

// scribble overwrites a JSON value in place: every map gets another member and loses the ones it had, every list
// another first element.
func scribble(x interface{}) {
	switch v := x.(type) {
	case map[string]interface{}:
		for k, y := range v {
			scribble(y)
			delete(v, k)
		}
		v["zz-scribbled"] = "?zz"
	case []interface{}:
		for i, y := range v {
			scribble(y)
			v[i] = "scribbled"
		}
	}
}

// nativeInts: a copy in which every whole number is an int
func nativeInts(x interface{}) interface{} {
	switch v := x.(type) {
	case map[string]interface{}:
		m := make(map[string]interface{}, len(v))
		for k, y := range v {
			m[k] = nativeInts(y)
		}
		return m
	case []interface{}:
		a := make([]interface{}, len(v))
		for i, y := range v {
			a[i] = nativeInts(y)
		}
		return a
	case float64:
		if v == float64(int(v)) && v > -1e9 && v < 1e9 {
			return int(v)
		}
	}
	return x
}
