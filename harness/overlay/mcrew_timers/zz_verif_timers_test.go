//go:build verif

package main

// C17 overlay test for cmd/mcrew: drives the real Timers (timers.go) through
// Add/Rem, or through Service.toTimers (timers_glue.go) when the scenario says
// so, with an emitter supplied by the harness.  The emitter runs in the
// timer's goroutine (as the service's emitter does): it logs the firing and
// issues the requests the scenario places inside this handler.

import (
	"context"
	"encoding/json"
	"fmt"
	"sync"
	"testing"
	"time"
)

type vtMcrew struct {
	r      *vtRun
	ts     *Timers
	svc    *Service
	ctx    context.Context
	cancel context.CancelFunc

	// h serialises the requests and the log entries that record them, so
	// that the order of the log is the order in which the requests took
	// effect.  It is never held while a timer goroutine does its own
	// bookkeeping.
	h sync.Mutex
}

func vtNewMcrew(r *vtRun) vtDriver {
	d := &vtMcrew{r: r}
	d.ctx, d.cancel = context.WithCancel(context.Background())
	emitter := func(ctx context.Context, msg interface{}) error {
		lbl := -1
		switch v := msg.(type) {
		case int:
			lbl = v
		case float64:
			lbl = int(v)
		}
		t := r.now()
		r.handler(1)
		defer r.handler(-1)
		d.h.Lock()
		r.log(vtEvent{K: "fire", T: t, T1: t, Lbl: lbl, In: -1}, false)
		d.h.Unlock()
		d.Issue(r.opsOf(lbl), lbl)
		return nil
	}
	d.ts = NewTimers(emitter)
	d.svc = &Service{timers: d.ts}
	return d
}

func (d *vtMcrew) snap() []int {
	js, err := json.Marshal(d.ts)
	if err != nil {
		return []int{98}
	}
	var m struct {
		Map map[string]interface{} `json:"map"`
	}
	if err = json.Unmarshal(js, &m); err != nil {
		return []int{97}
	}
	names := make([]string, 0, len(m.Map))
	for k := range m.Map {
		names = append(names, k)
	}
	return vtIds(names)
}

func (d *vtMcrew) Snap() []int {
	d.h.Lock()
	defer d.h.Unlock()
	return d.snap()
}

func (d *vtMcrew) Issue(idx []int, in int) {
	for _, i := range idx {
		op := d.r.scn.Ops[i]
		if op.A == "pause" {
			time.Sleep(vtPause)
			continue
		}
		d.h.Lock()
		t := d.r.now()
		var err error
		switch op.A {
		case "add":
			if d.r.scn.Glue {
				err = d.svc.toTimers(d.ctx, map[string]interface{}{
					"makeTimer": map[string]interface{}{
						"id":      vtIdName(op.Id),
						"in":      fmt.Sprintf("%dus", op.D),
						"message": i,
					}})
			} else {
				err = d.ts.Add(d.ctx, vtIdName(op.Id), i, time.Duration(op.D)*time.Microsecond)
			}
			d.r.log(vtEvent{K: "add", T: t, T1: d.r.now(), Id: op.Id, D: op.D, Lbl: i, Ok: err == nil, In: in}, false)
		case "rem":
			if d.r.scn.Glue {
				err = d.svc.toTimers(d.ctx, map[string]interface{}{"deleteTimer": vtIdName(op.Id)})
			} else {
				err = d.ts.Rem(d.ctx, vtIdName(op.Id))
			}
			d.r.log(vtEvent{K: "rem", T: t, T1: d.r.now(), Id: op.Id, Ok: err == nil, In: in}, false)
		}
		ids := d.snap()
		tsnap := d.r.now()
		d.r.log(vtEvent{K: "snap", T: tsnap, T1: tsnap, Ids: ids, In: in}, false)
		d.h.Unlock()
	}
}

func (d *vtMcrew) Boot() {}

func (d *vtMcrew) Stop() { d.cancel() }

func TestVerifTimers(t *testing.T) {
	vtMain(t, "mcrew", vtNewMcrew)
}
