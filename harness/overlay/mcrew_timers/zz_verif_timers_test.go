//go:build verif

package main

// C17 overlay test for cmd/mcrew: drives the real Timers (timers.go) through
// Add/Rem, or through Service.toTimers (timers_glue.go) when the scenario says
// so, with an emitter supplied by the harness.  The emitter runs in the
// timer's goroutine (as the service's emitter does): it logs the firing and
// issues the requests the scenario places inside this handler.

import (
	"context"
	"encoding/json"
	"fmt"
	"sync"
	"testing"
	"time"
)

type vtMcrew struct {
	r      *vtRun
	ts     *Timers
	svc    *Service
	ctx    context.Context
	cancel context.CancelFunc

	// h serialises the requests and the log entries that record them, so
	// that the order of the log is the order in which the requests took
	// effect.  It is never held while a timer goroutine does its own
	// bookkeeping.
	h sync.Mutex
}

func vtNewMcrew(r *vtRun) vtDriver {
	d := &vtMcrew{r: r}
	d.ctx, d.cancel = context.WithCancel(context.Background())
	emitter := func(ctx context.Context, msg interface{}) error {
		lbl := -1
		switch v := msg.(type) {
		case int:
			lbl = v
		case float64:
			lbl = int(v)
		}
		t := r.now()
		r.handler(1)
		defer r.handler(-1)
		d.h.Lock()
		r.log(vtEvent{K: "fire", T: t, T1: t, Lbl: lbl, In: -1}, false)
		d.h.Unlock()
		// requests made by the handler travel under the context the handler was given (Service.Process ->
		// toTimers -> Timers.Add does exactly that)
		d.issue(ctx, r.opsOf(lbl), lbl)
		return nil
	}
	d.ts = NewTimers(emitter)
	d.svc = &Service{timers: d.ts}
	return d
}

func (d *vtMcrew) snap() []int {
	js, err := json.Marshal(d.ts)
	if err != nil {
		return []int{98}
	}
	var m struct {
		Map map[string]interface{} `json:"map"`
	}
	if err = json.Unmarshal(js, &m); err != nil {
		return []int{97}
	}
	names := make([]string, 0, len(m.Map))
	for k := range m.Map {
		names = append(names, k)
	}
	return vtIds(names)
}

func (d *vtMcrew) Snap() []int {
	d.h.Lock()
	defer d.h.Unlock()
	return d.snap()
}

func (d *vtMcrew) Issue(idx []int, in int) { d.issue(d.ctx, idx, in) }

func (d *vtMcrew) issue(ctx context.Context, idx []int, in int) {
	for _, i := range idx {
		op := d.r.scn.Ops[i]
		if op.A == "pause" {
			time.Sleep(vtPause)
			continue
		}
		d.h.Lock()
		t := d.r.now()
		var err error
		switch op.A {
		case "add":
			if d.r.scn.Glue {
				err = d.svc.toTimers(ctx, map[string]interface{}{
					"makeTimer": map[string]interface{}{
						"id":      vtIdName(op.Id),
						"in":      fmt.Sprintf("%dus", op.D),
						"message": i,
					}})
			} else {
				err = d.ts.Add(ctx, vtIdName(op.Id), i, time.Duration(op.D)*time.Microsecond)
			}
			d.r.log(vtEvent{K: "add", T: t, T1: d.r.now(), Id: op.Id, D: op.D, Lbl: i, Ok: err == nil, In: in}, false)
		case "rem":
			if d.r.scn.Glue {
				err = d.svc.toTimers(ctx, map[string]interface{}{"deleteTimer": vtIdName(op.Id)})
			} else {
				err = d.ts.Rem(ctx, vtIdName(op.Id))
			}
			d.r.log(vtEvent{K: "rem", T: t, T1: d.r.now(), Id: op.Id, Ok: err == nil, In: in}, false)
		}
		ids := d.snap()
		tsnap := d.r.now()
		d.r.log(vtEvent{K: "snap", T: tsnap, T1: tsnap, Ids: ids, In: in}, false)
		d.h.Unlock()
	}
}

func (d *vtMcrew) Boot() {}

func (d *vtMcrew) Stop() { d.cancel() }

// Two requesters make a timer under the same id at the same moment (300 rounds, released together): the service accepts
// exactly one of them.  The outcome is reported as a two-request trace: the round in which both were accepted if there
// is one (the second acceptance of a pending id is no behaviour of the service), otherwise an ordinary round.
func init() {
	vtExtraResults = func(impl string) []*vtResult {
		ts := NewTimers(func(ctx context.Context, msg interface{}) error { return nil })
		ctx, cancel := context.WithCancel(context.Background())
		defer cancel()
		bothAccepted := false
		for round := 0; round < 300 && !bothAccepted; round++ {
			id := fmt.Sprintf("dup-%d", round)
			start := make(chan bool)
			res := make(chan error, 2)
			for k := 0; k < 2; k++ {
				go func(k int) {
					<-start
					res <- ts.Add(ctx, id, k, time.Hour)
				}(k)
			}
			close(start)
			e1, e2 := <-res, <-res
			if e1 == nil && e2 == nil {
				bothAccepted = true
			}
			ts.Rem(ctx, id)
		}
		ops := []vtOp{{W: -1, A: "add", Id: 0, D: 3600000000}, {W: -1, A: "add", Id: 0, D: 3600000000}}
		ev := []vtEvent{
			{K: "add", T: 10, T1: 20, Id: 0, D: 3600000000, Lbl: 0, Ok: true, In: -1},
			{K: "snap", T: 21, T1: 21, Ids: []int{0}, In: -1},
			{K: "add", T: 30, T1: 40, Id: 0, D: 3600000000, Lbl: 1, Ok: bothAccepted, In: -1},
			{K: "snap", T: 41, T1: 41, Ids: []int{0}, In: -1},
			{K: "snap", T: 50, T1: 50, Ids: []int{0}, In: -1},
		}
		return []*vtResult{{N: 1000000, Kind: "concurrent-duplicate-add", Impl: impl, Ops: ops, Events: ev, End: 60,
			Grace: int64(time.Second / time.Microsecond)}}
	}
}

func TestVerifTimers(t *testing.T) {
	vtMain(t, "mcrew", vtNewMcrew)
}
