//go:build verif

package main

// Overlay test for cmd/mdb (the mdb half of C14): Host.Route / Host.Process
// on recorder machines.  mdb does not re-submit emitted messages itself: its
// command loop appends them to a queue that the operator pops; the test pops
// the queue first-in first-out until it is empty, as `pop` does.
// Component mdbroute; same case type as cmd/mcrew's mcrewroute.

import (
	"context"
	"fmt"
	"io"
	"log"
	"os"
	"sort"
	"strings"
	"testing"

	"github.com/Comcast/sheens/core"
	"github.com/Comcast/sheens/crew"
	"github.com/Comcast/sheens/match"
)

var vMdbIds = []string{"m0", "m1", "m2", "m3", "timers", "*", "http", ""}

func vMdbTarget(g *vgen, ids []string) (interface{}, bool) {
	other := func() string {
		if g.chance(0.6) && len(ids) > 0 {
			return g.pick(ids)
		}
		return g.pick([]string{"nobody", "m9", "captain"})
	}
	switch x := g.intn(20); {
	case x < 5:
		return nil, false
	case x < 11:
		if len(ids) > 0 {
			return g.pick(ids), true
		}
		return "nobody", true
	case x < 12:
		return "nobody", true
	case x < 13:
		return "*", true
	case x < 16:
		n := g.intn(4)
		l := []interface{}{}
		for i := 0; i < n; i++ {
			switch g.intn(6) {
			case 0:
				l = append(l, 1.0)
			case 1:
				l = append(l, nil)
			default:
				l = append(l, other())
			}
		}
		return l, true
	case x < 18:
		return map[string]interface{}{"mid": other()}, true
	case x < 19:
		return 1.0, true
	}
	return g.pick([]string{"timers", "http", "ws"}), true // no reserved names in mdb: plain ids
}

func vMdbIdOf(msg interface{}) interface{} {
	if m, is := msg.(map[string]interface{}); is {
		if id, have := m["id"]; have {
			return id
		}
	}
	return "<noid>"
}

func runMdbRoute(t *testing.T, out *vout, specDir string, ids []string, root map[string]interface{}, kind string) {
	ids = append([]string{}, ids...)
	sort.Strings(ids)
	ctx := context.Background()
	h, err := NewHost(specDir, "")
	if err != nil {
		t.Fatal(err)
	}
	for _, id := range ids {
		src := &crew.SpecSource{Name: "rec.yaml"}
		spec, err := h.GetSpec(ctx, src)
		if err != nil {
			t.Fatal(err)
		}
		h.crew.Machines[id] = &crew.Machine{
			Id:         id,
			State:      &core.State{NodeName: "start", Bs: match.NewBindings()},
			SpecSource: src,
			Specter:    spec,
		}
	}
	var (
		walkedRoot          []string
		processed, reported []interface{}
		queue               = []interface{}{}
		first               = true
		panicked            = false
	)
	msg, _ := vCanon(root)
	queue = append(queue, msg)
	for len(queue) > 0 && len(processed) < 100000 {
		m := queue[0]
		queue = queue[1:]
		processed = append(processed, vMdbIdOf(m))
		func() {
			defer func() {
				if r := recover(); r != nil {
					panicked = true
				}
			}()
			walkeds, err := h.Process(ctx, m, nil)
			if err != nil {
				return
			}
			mids := make([]string, 0, len(walkeds))
			for mid := range walkeds {
				mids = append(mids, mid)
			}
			sort.Strings(mids)
			if first {
				walkedRoot = mids
			}
			// the command loop queues the emitted messages of every walked machine
			for _, mid := range mids {
				for _, stride := range walkeds[mid].Strides {
					for _, e := range stride.Emitted {
						queue = append(queue, e)
						reported = append(reported, vMdbIdOf(e))
					}
				}
			}
		}()
		first = false
	}
	logs := map[string][]interface{}{}
	deliveries := 0
	for id, m := range h.crew.Machines {
		if l, is := m.State.Bs["log"].([]interface{}); is {
			logs[id] = l
			deliveries += len(l)
		}
	}
	logItems := make([]string, 0, len(ids))
	for _, id := range ids {
		items := []string{}
		for _, x := range logs[id] {
			items = append(items, vJSON(x))
		}
		logItems = append(logItems, fmt.Sprintf("(%s, %s)", vString(id), vList(items)))
	}
	js := func(xs []interface{}) string {
		items := make([]string, len(xs))
		for i, x := range xs {
			items[i] = vJSON(x)
		}
		return vList(items)
	}
	if panicked {
		walkedRoot = []string{"<panic>"}
	}
	term := fmt.Sprintf("(mk_routecase true %s [] %s %s %s %s %s true false)", vStrings(ids), vJSON(root),
		vList(logItems), vStrings(walkedRoot), js(processed), js(reported))
	out.count("case:" + kind)
	out.count(fmt.Sprintf("machines:%d", len(ids)))
	out.count(fmt.Sprintf("processed:%02d+", len(processed)/4*4))
	out.add(term, vCanonText(ids)+vCanonText(root), len(processed) > 1 && deliveries > 0,
		map[string]interface{}{"ids": ids, "root": root, "logs": logs, "walked_root": walkedRoot,
			"processed": processed, "reported": reported})
}

func TestVerifMdbRoute(t *testing.T) {
	p := verifParams()
	if p.out == "" {
		t.Skip("VERIF_OUT not set")
	}
	w := log.Writer()
	log.SetOutput(io.Discard)
	defer log.SetOutput(w)
	specDir, err := os.MkdirTemp("", "verif-mdb-specs")
	if err != nil {
		t.Fatal(err)
	}
	defer os.RemoveAll(specDir)
	if err := vWriteSpecs(specDir, ".yaml"); err != nil {
		t.Fatal(err)
	}
	g := newVgen(p.seed)
	out := newVout("Corr.MCrewCorr", "routecase")
	out.Notes = append(out.Notes, "cmd/mdb Host; the test pops the queue of emitted messages first-in first-out; "+
		"non-trivial = at least one emitted message was processed and at least one machine received something")
	leaf := func(id string, to interface{}) map[string]interface{} {
		m := map[string]interface{}{"id": id, "fwd": []interface{}{}}
		if to != nil {
			m["to"] = to
		}
		return m
	}
	corpus := []struct {
		ids  []string
		root map[string]interface{}
	}{
		{[]string{"m0", "m1", "m2"}, leaf("a", nil)},
		{[]string{"m0", "m1", "m2"}, leaf("a", "m1")},
		{[]string{"m0", "m1", "m2"}, leaf("a", "nobody")},
		{[]string{"m0", "m1", "m2"}, leaf("a", []interface{}{"m0", "m1"})},
		{[]string{"m0", "m1", "m2"}, leaf("a", "*")},
		{[]string{"m0", "timers"}, leaf("a", "timers")},
		{[]string{"m0", "m1"}, map[string]interface{}{"id": "a", "to": "m0", "fwd": []interface{}{leaf("b", "m1"), leaf("c", nil)}}},
	}
	if rc := p.replayCases(); rc != nil {
		for _, c := range rc {
			var ids []string
			var root map[string]interface{}
			vReJSON(c["ids"], &ids)
			vReJSON(c["root"], &root)
			runMdbRoute(t, out, specDir, ids, root, "replay")
		}
		if err := out.write(p.out, "mdbroute", p.seed, p.shard); err != nil {
			t.Fatal(err)
		}
		return
	}
	for _, c := range corpus {
		runMdbRoute(t, out, specDir, c.ids, c.root, "corpus")
	}
	mg := &vmsgGen{g: g, prefix: "d"}
	for len(out.Cases) < p.n {
		pool := append([]string{}, vMdbIds...)
		g.shuffle(pool)
		ids := []string{}
		for _, id := range pool {
			if len(ids) >= 5 {
				break
			}
			if strings.HasPrefix(id, "m") || g.chance(0.25) {
				ids = append(ids, id)
			}
		}
		ids = ids[:g.intn(len(ids)+1)]
		sort.Strings(ids)
		root := mg.tree(1+g.intn(2), 2, func(int) (interface{}, bool) { return vMdbTarget(g, ids) })
		runMdbRoute(t, out, specDir, ids, root, "generated")
	}
	if err := out.write(p.out, "mdbroute", p.seed, p.shard); err != nil {
		t.Fatal(err)
	}
}
