//go:build verif

package main

// Shared by the overlay tests of cmd/mcrew and cmd/mdb (both `package main`;
// the check driver maps this one file into both directories with
// `go test -overlay`, /repo itself is never edited).
//
// Contents: the PRNG, Gallina printers (same conventions as
// harness/coq.go: jn/js/ja/jo/jnull/jt/jf, interned strings), the cases /
// jsonl / stats writer (same files as harness/main.go's Out.write), the three
// specifications of coq/Model/MCrew.v as YAML text, and the message
// generator.

import (
	"encoding/json"
	"fmt"
	"math"
	"math/rand"
	"os"
	"path/filepath"
	"sort"
	"strconv"
	"strings"
	"sync"
)

// ---- parameters (environment) ---------------------------------------------

type vparams struct {
	seed  int64
	n     int
	out   string
	shard int
	opts  map[string]string
}

func verifParams() *vparams {
	p := &vparams{seed: 1, n: 50, out: os.Getenv("VERIF_OUT"), shard: 100, opts: map[string]string{}}
	if s := os.Getenv("VERIF_SEED"); s != "" {
		p.seed, _ = strconv.ParseInt(s, 10, 64)
	}
	if s := os.Getenv("VERIF_N"); s != "" {
		p.n, _ = strconv.Atoi(s)
	}
	if s := os.Getenv("VERIF_SHARD"); s != "" {
		p.shard, _ = strconv.Atoi(s)
	}
	for _, kv := range strings.Split(os.Getenv("VERIF_OPTS"), ",") {
		if kv == "" {
			continue
		}
		parts := strings.SplitN(kv, "=", 2)
		if len(parts) == 2 {
			p.opts[parts[0]] = parts[1]
		} else {
			p.opts[parts[0]] = "1"
		}
	}
	return p
}

func (p *vparams) optInt(k string, def int) int {
	if s, have := p.opts[k]; have {
		if v, err := strconv.Atoi(s); err == nil {
			return v
		}
	}
	return def
}

// replayCases: the cases of a replay file written by the check driver
// (./check Cxx --replay FILE), or nil.
func (p *vparams) replayCases() []map[string]interface{} {
	path, have := p.opts["replay"]
	if !have {
		return nil
	}
	js, err := os.ReadFile(path)
	if err != nil {
		panic(err)
	}
	var payload struct {
		Cases []map[string]interface{} `json:"cases"`
	}
	if err := json.Unmarshal(js, &payload); err != nil {
		panic(err)
	}
	if payload.Cases == nil {
		payload.Cases = []map[string]interface{}{}
	}
	return payload.Cases
}

// vReJSON converts through JSON (used to read the operations of a replay file back).
func vReJSON(from, into interface{}) {
	js, err := json.Marshal(from)
	if err != nil {
		panic(err)
	}
	if err := json.Unmarshal(js, into); err != nil {
		panic(err)
	}
}

type vgen struct{ r *rand.Rand }

func newVgen(seed int64) *vgen          { return &vgen{r: rand.New(rand.NewSource(seed))} }
func (g *vgen) chance(p float64) bool   { return g.r.Float64() < p }
func (g *vgen) intn(n int) int          { return g.r.Intn(n) }
func (g *vgen) pick(xs []string) string { return xs[g.r.Intn(len(xs))] }
func (g *vgen) shuffle(xs []string) {
	g.r.Shuffle(len(xs), func(i, j int) { xs[i], xs[j] = xs[j], xs[i] })
}
func (g *vgen) perm(n int) []int { return g.r.Perm(n) }

// ---- Gallina printers ---------------------------------------------------------

var (
	vInternIDs  = map[string]int{}
	vInternList []string
	vInternMu   sync.Mutex // the concurrent drivers render responses in their client goroutines
)

func vString(s string) string {
	vInternMu.Lock()
	defer vInternMu.Unlock()
	if id, have := vInternIDs[s]; have {
		return fmt.Sprintf("s%d", id)
	}
	clean := []byte(s)
	for i := range clean {
		if clean[i] < 32 || clean[i] > 126 || clean[i] == '\\' {
			clean[i] = '#'
		}
	}
	id := len(vInternList)
	vInternIDs[s] = id
	vInternList = append(vInternList, string(clean))
	return fmt.Sprintf("s%d", id)
}

func vInternDefs() string {
	var sb strings.Builder
	for id, s := range vInternList {
		sb.WriteString(fmt.Sprintf("Definition s%d : string := \"%s\".\n", id, strings.ReplaceAll(s, `"`, `""`)))
	}
	for id, t := range vTermList {
		sb.WriteString(fmt.Sprintf("Definition t%d : %s := %s.\n", id, t[0], t[1]))
	}
	return sb.String()
}

// vTerm interns a closed Gallina term of the given type: the case files define
// it once (Definition tN, after the strings) and the cases refer to it by name.
// Used where the same sub-term is printed very many times (the memory and store
// of a crew of some hundred machines after each of some hundred operations).
var (
	vTermIDs  = map[string]int{}
	vTermList [][2]string
)

func vTerm(typ, term string) string {
	vInternMu.Lock()
	defer vInternMu.Unlock()
	key := typ + "\x00" + term
	if id, have := vTermIDs[key]; have {
		return fmt.Sprintf("t%d", id)
	}
	id := len(vTermList)
	vTermIDs[key] = id
	vTermList = append(vTermList, [2]string{typ, term})
	return fmt.Sprintf("t%d", id)
}

func vBool(b bool) string {
	if b {
		return "true"
	}
	return "false"
}

func vSortedKeys(m map[string]interface{}) []string {
	ks := make([]string, 0, len(m))
	for k := range m {
		ks = append(ks, k)
	}
	sort.Strings(ks)
	return ks
}

// vJSON renders a JSON value; anything that is not plain JSON data with
// quarter numbers becomes the string "<unrep>" (the model never produces it,
// so such a value shows up as a disagreement).
func vJSON(x interface{}) string {
	var sb strings.Builder
	vWriteJSON(&sb, x)
	return sb.String()
}

func vWriteJSON(sb *strings.Builder, x interface{}) {
	switch v := x.(type) {
	case nil:
		sb.WriteString("jnull")
	case bool:
		if v {
			sb.WriteString("jt")
		} else {
			sb.WriteString("jf")
		}
	case float64:
		if math.IsNaN(v) {
			// the model's marker for a value encoding/json refuses (coq/Model/MCrew.v, nan_marker)
			sb.WriteString("(js " + vString(vNaNMarker) + ")")
			return
		}
		q := v * 4
		if q != math.Trunc(q) || math.Abs(q) > 1e15 || math.IsInf(v, 0) {
			sb.WriteString("(js " + vString("<unrep>") + ")")
			return
		}
		z := int64(q)
		if z < 0 {
			sb.WriteString(fmt.Sprintf("(jn (%d))", z))
		} else {
			sb.WriteString(fmt.Sprintf("(jn %d)", z))
		}
	case string:
		if v == vNaNMarker {
			// a genuine string must never be taken for the NaN marker
			v = "<unrep>"
		}
		sb.WriteString("(js " + vString(v) + ")")
	case []interface{}:
		sb.WriteString("(ja [")
		for i, y := range v {
			if i > 0 {
				sb.WriteString("; ")
			}
			vWriteJSON(sb, y)
		}
		sb.WriteString("])")
	case map[string]interface{}:
		sb.WriteString("(jo ")
		vWriteKVs(sb, v)
		sb.WriteString(")")
	default:
		sb.WriteString("(js " + vString("<unrep>") + ")")
	}
}

func vWriteKVs(sb *strings.Builder, m map[string]interface{}) {
	sb.WriteString("[")
	for i, k := range vSortedKeys(m) {
		if i > 0 {
			sb.WriteString("; ")
		}
		sb.WriteString("(" + vString(k) + ", ")
		vWriteJSON(sb, m[k])
		sb.WriteString(")")
	}
	sb.WriteString("]")
}

func vBindings(m map[string]interface{}) string {
	var sb strings.Builder
	vWriteKVs(&sb, m)
	return sb.String()
}

func vList(items []string) string { return "[" + strings.Join(items, "; ") + "]" }

func vStrings(xs []string) string {
	acc := make([]string, len(xs))
	for i, x := range xs {
		acc[i] = vString(x)
	}
	return vList(acc)
}

// vCanon: JSON round trip (what the store does to a value); false when the
// value cannot be serialised.
func vCanon(x interface{}) (interface{}, bool) {
	js, err := json.Marshal(x)
	if err != nil {
		return nil, false
	}
	var y interface{}
	if err := json.Unmarshal(js, &y); err != nil {
		return nil, false
	}
	return y, true
}

// vNaNMarker stands for a float64 NaN: in operations (which are kept as JSON
// for the replay files) and in the Gallina terms (the model has no NaN; Model/MCrew.v
// calls a value unserialisable when it contains this marker).
const vNaNMarker = "<NaN>"

// vPoison replaces every marker string inside a JSON value by a real NaN (a copy;
// what is submitted to the service under test).
func vPoison(x interface{}) interface{} {
	switch v := x.(type) {
	case string:
		if v == vNaNMarker {
			return math.NaN()
		}
		return v
	case []interface{}:
		acc := make([]interface{}, len(v))
		for i, y := range v {
			acc[i] = vPoison(y)
		}
		return acc
	case map[string]interface{}:
		acc := make(map[string]interface{}, len(v))
		for k, y := range v {
			acc[k] = vPoison(y)
		}
		return acc
	}
	return x
}

// vSafe: the value itself when it can be serialised, the marker string otherwise
// (bindings that must never have reached memory, e.g. +Inf).
func vSafe(x interface{}) interface{} {
	if _, err := json.Marshal(x); err != nil {
		return "<unrep>"
	}
	return x
}

func vCanonText(x interface{}) string {
	js, err := json.Marshal(x)
	if err != nil {
		return fmt.Sprintf("!unmarshalable:%T", x)
	}
	return string(js)
}

// ---- output ---------------------------------------------------------------------

type vout struct {
	Require   string
	CaseType  string
	Cases     []string
	JSONL     []string
	Samples   []interface{}
	Hist      map[string]int
	distinct  map[string]bool
	distinctA map[string]bool
	Notes     []string
}

func newVout(require, caseType string) *vout {
	return &vout{Require: require, CaseType: caseType, Hist: map[string]int{},
		distinct: map[string]bool{}, distinctA: map[string]bool{}}
}

func (o *vout) count(k string) { o.Hist[k]++ }

func (o *vout) add(term, key string, nontrivial bool, sample interface{}) {
	o.Cases = append(o.Cases, term)
	if js, err := json.Marshal(sample); err == nil {
		o.JSONL = append(o.JSONL, string(js))
	} else {
		o.JSONL = append(o.JSONL, "null")
		sample = nil
	}
	o.distinctA[key] = true
	if nontrivial {
		o.distinct[key] = true
	}
	if sample != nil && len(o.Samples) < 4 {
		o.Samples = append(o.Samples, sample)
	}
}

func (o *vout) write(dir, component string, seed int64, shardSize int) error {
	if err := os.MkdirAll(dir, 0755); err != nil {
		return err
	}
	if shardSize <= 0 {
		shardSize = 100
	}
	var shards []string
	for i, n := 0, 0; ; n++ {
		j := i + shardSize
		if j > len(o.Cases) {
			j = len(o.Cases)
		}
		name := fmt.Sprintf("cases_%s_%d", component, n)
		var sb strings.Builder
		sb.WriteString("From Sheens Require Import " + o.Require + ".\n")
		sb.WriteString("Local Open Scope string_scope.\nLocal Open Scope Z_scope.\nLocal Open Scope list_scope.\n")
		sb.WriteString(vInternDefs())
		sb.WriteString("Definition cases : list " + o.CaseType + " := [\n")
		for k := i; k < j; k++ {
			sb.WriteString(" ")
			sb.WriteString(o.Cases[k])
			if k+1 < j {
				sb.WriteString(";")
			}
			sb.WriteString("\n")
		}
		sb.WriteString("].\n")
		if err := os.WriteFile(filepath.Join(dir, name+".v"), []byte(sb.String()), 0644); err != nil {
			return err
		}
		shards = append(shards, name)
		i = j
		if i >= len(o.Cases) {
			break
		}
	}
	if err := os.WriteFile(filepath.Join(dir, "cases_"+component+".jsonl"),
		[]byte(strings.Join(o.JSONL, "\n")+"\n"), 0644); err != nil {
		return err
	}
	st := map[string]interface{}{
		"component": component, "seed": seed, "evaluations": len(o.Cases),
		"distinct": len(o.distinctA), "distinct_nontrivial": len(o.distinct),
		"hist": o.Hist, "samples": o.Samples, "shards": shards, "notes": o.Notes,
	}
	js, err := json.MarshalIndent(st, "", " ")
	if err != nil {
		return err
	}
	return os.WriteFile(filepath.Join(dir, "stats_"+component+".json"), js, 0644)
}

// ---- the specifications of coq/Model/MCrew.v ---------------------------------------

const vRecordJS = `var b = _.bindings;
        var log = Array.isArray(b.log) ? b.log : [];
        log.push(b["?id"] === undefined ? null : b["?id"]);
        b.log = log;
        var fwd = Array.isArray(b["?fwd"]) ? b["?fwd"] : [];
        for (var i = 0; i < fwd.length; i++) { _.out(fwd[i]); }
        delete b["?id"];
        delete b["?fwd"];
        return b;`

func vMsgNode(name, key, target string) string {
	return fmt.Sprintf(`  %s:
    branching:
      type: message
      branches:
      - pattern: |
          {"%s":"?id","fwd":"?fwd"}
        target: %s
`, name, key, target)
}

func vActNode(name, target string) string {
	return fmt.Sprintf(`  %s:
    action:
      interpreter: ecmascript
      source: |-
        %s
    branching:
      branches:
      - target: %s
`, name, vRecordJS, target)
}

// vSpecFiles: file name (without directory) -> text.  "ghost" has no file,
// "broken" has a file whose action does not compile.
func vSpecFiles() map[string]string {
	head := "patternsyntax: json\nnodes:\n"
	return map[string]string{
		"rec":  "name: rec\n" + head + vMsgNode("start", "id", "note") + vActNode("note", "start"),
		"flip": "name: flip\n" + head + vMsgNode("start", "id", "note1") + vActNode("note1", "alt") + vMsgNode("alt", "id", "note2") + vActNode("note2", "start"),
		"bigflip": "name: bigflip\n" + head + vMsgNode("start", "id", "note1") + vActNode("note1", "alt") +
			strings.Repeat("  # "+strings.Repeat("padding ", 12)+"\n", 13000) + vMsgNode("alt", "id", "note2") + vActNode("note2", "start"),
		"deaf": "name: deaf\n" + head + vMsgNode("start", "wake", "note") + vActNode("note", "start"),
		// nan: no action; keeps what it bound from the message, the value of "poison" included (a NaN there makes the end
		// state impossible to serialise: the action-less path never canonicalises the bindings)
		"nan": "name: nan\n" + head + `  start:
    branching:
      type: message
      branches:
      - pattern: |
          {"id":"?id","fwd":"?fwd","poison":"?p"}
        target: start
`,
		"broken": "name: broken\n" + head + `  start:
    action:
      interpreter: ecmascript
      source: |-
        return (((;
`,
	}
}

func vWriteSpecs(dir, suffix string) error {
	for name, text := range vSpecFiles() {
		if err := os.WriteFile(filepath.Join(dir, name+suffix), []byte(text), 0644); err != nil {
			return err
		}
	}
	return nil
}

// ---- messages ----------------------------------------------------------------------

type vmsgGen struct {
	g      *vgen
	prefix string
	next   int
}

func (mg *vmsgGen) id() string {
	mg.next++
	return fmt.Sprintf("%s%d", mg.prefix, mg.next)
}

// tree builds a message {"id":…, "fwd":[children…], "to"?:…}; target chooses the
// routing target of every node (nil = none).
func (mg *vmsgGen) tree(depth, maxFan int, target func(depth int) (interface{}, bool)) map[string]interface{} {
	m := map[string]interface{}{"id": mg.id()}
	if to, have := target(depth); have {
		m["to"] = to
	}
	kids := []interface{}{}
	if depth > 0 {
		for i, n := 0, mg.g.intn(maxFan+1); i < n; i++ {
			kids = append(kids, mg.tree(depth-1, maxFan, target))
		}
	}
	m["fwd"] = kids
	return m
}
