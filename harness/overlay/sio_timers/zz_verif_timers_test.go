//go:build verif

package sio

// C17 overlay test for sio: drives the real Timers (timers.go) the way the
// crew does: a crew with the real Loop, the real timers machine
// (timersspec.go) and the real emitter (crew.go init); requests are
// {"to":"timers","makeTimer":...} / {"to":"timers","cancelTimer":...}
// messages.
//
// A driver machine "drv" with a native action stands for the application:
//   {"to":"drv","run":k}     issue batch k of the scenario's requests (sent by the main goroutine)
//   {"to":"drv","fire":lbl}  the message of timer lbl: log the firing, issue the requests the
//                            scenario places inside this handler
// The driver emits every request followed by a probe, a func(*Crew) message
// which the crew loop executes right after the request: it reads the result
// (the "error" binding of the timers machine) and the ids in Timers.Map.
//
// Results arrive on the out channel; a consumer goroutine serialises each
// (as sio.Stdio prints them) and keeps the machines' last published states:
// that is the persisted crew state a restart boots from.

import (
	"context"
	"encoding/json"
	"fmt"
	"sync"
	"testing"
	"time"

	"github.com/Comcast/sheens/core"
	"github.com/Comcast/sheens/crew"
	"github.com/Comcast/sheens/match"
)

type vtCouplings struct {
	in  chan interface{}
	out chan *Result
}

func (c *vtCouplings) Start(context.Context) error { return nil }
func (c *vtCouplings) IO(context.Context) (chan interface{}, chan *Result, error) {
	return c.in, c.out, nil
}
func (c *vtCouplings) Read(context.Context) (map[string]*crew.Machine, error) { return nil, nil }
func (c *vtCouplings) Stop(context.Context) error                             { return nil }

type vtSio struct {
	r *vtRun

	c        *Crew
	cancel   context.CancelFunc
	coup     *vtCouplings
	loopDone chan bool
	consDone chan bool

	pmu       sync.Mutex
	persisted map[string]*crew.Machine
	printed   int

	bmu     sync.Mutex
	batches map[int][]int
	nbatch  int
	done    chan bool
}

func vtNewSio(r *vtRun) vtDriver {
	d := &vtSio{r: r, persisted: map[string]*crew.Machine{}, batches: map[int][]int{}, done: make(chan bool, 4)}
	d.boot(nil)
	return d
}

func vtInt(x interface{}) int {
	switch v := x.(type) {
	case int:
		return v
	case float64:
		return int(v)
	}
	return -1
}

// boot makes a crew (restoring the timers machine's state when given),
// starts its loop and the consumer of its results.
func (d *vtSio) boot(timersState *core.State) {
	ctx, cancel := context.WithCancel(context.Background())
	d.cancel = cancel
	d.coup = &vtCouplings{in: make(chan interface{}), out: make(chan *Result)}
	c, err := NewCrew(ctx, &CrewConf{Ctl: core.DefaultControl}, d.coup)
	if err != nil {
		panic(err)
	}
	d.c = c
	if timersState != nil {
		if err = c.SetMachine(ctx, TimersMachine, nil, timersState); err != nil {
			panic(err)
		}
	}
	if err = c.SetMachine(ctx, "drv", nil, nil); err != nil {
		panic(err)
	}
	spec := d.drvSpec()
	if err = spec.Compile(ctx, Interpreters, true); err != nil {
		panic(err)
	}
	c.Machines["drv"].Specter = spec

	d.loopDone, d.consDone = make(chan bool), make(chan bool)
	out := d.coup.out
	go func() {
		defer close(d.consDone)
		for {
			select {
			case <-ctx.Done():
				// keep draining until the loop has returned
				select {
				case r := <-out:
					d.consume(r)
					continue
				case <-d.loopDone:
					return
				}
			case r := <-out:
				d.consume(r)
			}
		}
	}()
	go func() {
		defer close(d.loopDone)
		c.Loop(ctx)
	}()
}

// consume does what sio.Stdio does with a Result: render it, remember the states.
func (d *vtSio) consume(r *Result) {
	if r == nil {
		return
	}
	d.pmu.Lock()
	defer d.pmu.Unlock()
	for mid, m := range r.Changed {
		d.printed += len(JS(m))
		if m.Deleted {
			delete(d.persisted, mid)
			continue
		}
		n, have := d.persisted[mid]
		if !have {
			n = &crew.Machine{}
			d.persisted[mid] = n
		}
		if m.State != nil {
			n.State = m.State.Copy()
		}
	}
}

func (d *vtSio) mapIds(c *Crew) []int {
	c.timers.Lock()
	names := make([]string, 0, len(c.timers.Map))
	for k := range c.timers.Map {
		names = append(names, k)
	}
	c.timers.Unlock()
	return vtIds(names)
}

// requests renders the operations as messages for the timers machine, each
// followed by its probe.
func (d *vtSio) requests(idx []int, in int, last func()) []interface{} {
	var msgs []interface{}
	// a slow handler: the crew loop is busy for a while before the
	// handler's requests are processed
	var reqs []int
	for _, i := range idx {
		if d.r.scn.Ops[i].A == "pause" {
			time.Sleep(vtPause)
		} else {
			reqs = append(reqs, i)
		}
	}
	idx = reqs
	for k, i := range idx {
		i, op := i, d.r.scn.Ops[i]
		isLast := k == len(idx)-1
		t := d.r.now()
		switch op.A {
		case "add":
			msgs = append(msgs, map[string]interface{}{
				"to": TimersMachine,
				"makeTimer": map[string]interface{}{
					"id":  vtIdName(op.Id),
					"in":  fmt.Sprintf("%dus", op.D),
					"msg": map[string]interface{}{"to": "drv", "fire": i},
				}})
		case "rem":
			msgs = append(msgs, map[string]interface{}{"to": TimersMachine, "cancelTimer": vtIdName(op.Id)})
		case "bad":
			// a request the timers machine has to reject (unparsable delay) under an id that may
			// belong to a pending timer: it must change nothing (the log skips the request itself;
			// the snapshot after it is compared with the model's pending set)
			msgs = append(msgs, map[string]interface{}{
				"to": TimersMachine,
				"makeTimer": map[string]interface{}{
					"id":  vtIdName(op.Id),
					"in":  "soon",
					"msg": map[string]interface{}{"to": "drv", "fire": i},
				}})
		}
		msgs = append(msgs, func(c *Crew) interface{} {
			_, failed := c.Machines[TimersMachine].State.Bs["error"]
			e := vtEvent{K: op.A, T: t, T1: d.r.now(), Id: op.Id, Lbl: i, Ok: !failed, In: in}
			if op.A == "add" {
				e.D = op.D
			}
			d.r.log(e, true)
			ids := d.mapIds(c)
			tsnap := d.r.now()
			d.r.log(vtEvent{K: "snap", T: tsnap, T1: tsnap, Ids: ids, In: in}, true)
			if isLast && last != nil {
				last()
			}
			return map[string]interface{}{"to": "nobody-home"}
		})
	}
	if len(idx) == 0 && last != nil {
		last()
	}
	return msgs
}

func (d *vtSio) drvSpec() *core.Spec {
	back := &core.Branches{Type: "bindings", Branches: []*core.Branch{{Target: "start"}}}
	emit := func(msgs []interface{}) (*core.Execution, error) {
		exe := core.NewExecution(match.NewBindings())
		for _, m := range msgs {
			exe.AddEmitted(m)
		}
		return exe, nil
	}
	return &core.Spec{
		Name: "drv",
		Nodes: map[string]*core.Node{
			"start": {
				Branches: &core.Branches{
					Type: "message",
					Branches: []*core.Branch{
						{Pattern: mustParse(`{"run":"?k"}`), Target: "run"},
						{Pattern: mustParse(`{"fire":"?lbl"}`), Target: "fire"},
					},
				},
			},
			"run": {
				Action: &core.FuncAction{
					F: func(ctx context.Context, bs match.Bindings, props core.StepProps) (*core.Execution, error) {
						d.bmu.Lock()
						idx := d.batches[vtInt(bs["?k"])]
						d.bmu.Unlock()
						return emit(d.requests(idx, -1, func() { d.done <- true }))
					},
				},
				Branches: back,
			},
			"fire": {
				Action: &core.FuncAction{
					F: func(ctx context.Context, bs match.Bindings, props core.StepProps) (*core.Execution, error) {
						lbl := vtInt(bs["?lbl"])
						d.r.handler(1)
						tfire := d.r.now()
						d.r.log(vtEvent{K: "fire", T: tfire, T1: tfire, Lbl: lbl, In: -1}, true)
						return emit(d.requests(d.r.opsOf(lbl), lbl, func() { d.r.handler(-1) }))
					},
				},
				Branches: back,
			},
		},
	}
}

func (d *vtSio) Issue(idx []int, in int) {
	// only the main goroutine calls this: the handler's requests are
	// emitted by the driver machine
	d.bmu.Lock()
	k := d.nbatch
	d.nbatch++
	d.batches[k] = idx
	d.bmu.Unlock()
	select {
	case d.coup.in <- map[string]interface{}{"to": "drv", "run": k}:
	case <-time.After(30 * time.Second):
		return
	}
	select {
	case <-d.done:
	case <-time.After(30 * time.Second):
	}
}

func (d *vtSio) halt() {
	d.cancel()
	<-d.loopDone
	<-d.consDone
}

// Boot: stop the crew (its loop first, so that what was persisted is what
// the loop last published), then start a new one from the persisted state
// after a trip through JSON.
func (d *vtSio) Boot() {
	d.halt()
	d.pmu.Lock()
	js, err := json.Marshal(d.persisted)
	d.pmu.Unlock()
	if err != nil {
		panic(err)
	}
	var ms map[string]*crew.Machine
	if err = json.Unmarshal(js, &ms); err != nil {
		panic(err)
	}
	var st *core.State
	if m, have := ms[TimersMachine]; have && m != nil {
		st = m.State
	}
	t := d.r.now()
	d.boot(st)
	d.r.log(vtEvent{K: "boot", T: t, T1: t, In: -1}, true)
	ids := d.mapIds(d.c)
	tsnap := d.r.now()
	d.r.log(vtEvent{K: "snap", T: tsnap, T1: tsnap, Ids: ids, In: -1}, true)
}

func (d *vtSio) Snap() []int { return d.mapIds(d.c) }

func (d *vtSio) Stop() { d.halt() }

func TestVerifTimers(t *testing.T) {
	vtMain(t, "sio", vtNewSio)
}
