//go:build verif

package main

// Overlay tests for cmd/mcrew (C16, and the mcrew half of C14).  Run by
// checklib/props_mcrew.py with
//   go test -vet=off -tags verif -overlay overlay.json -run TestVerifMcrewXxx ./cmd/mcrew
// Parameters come from the environment (VERIF_SEED, VERIF_N, VERIF_OUT,
// VERIF_SHARD, VERIF_OPTS); each test writes cases_<component>_<i>.v,
// cases_<component>.jsonl and stats_<component>.json into VERIF_OUT.
//
//   TestVerifMcrewSeq   (component mcrewseq)  sequences of add / rem / process /
//        get with the store going down and up; after every operation the
//        in-memory crew and the stored records are read back.
//   TestVerifMcrewConc  (component mcrewconc) concurrent clients; the recorded
//        history (call/return stamps, requests, responses) plus the final
//        memory and store.
//   TestVerifMcrewRoute (component mcrewroute) routing and feedback of emitted
//        messages (C14): recorder machines, message trees.

import (
	"context"
	"fmt"
	"io"
	"log"
	"math"
	"os"
	"path/filepath"
	"runtime"
	"sort"
	"strings"
	"sync"
	"sync/atomic"
	"testing"
	"time"

	"github.com/Comcast/sheens/core"
	"github.com/Comcast/sheens/match"
)

// ---- operations --------------------------------------------------------------------

// A message may contain the string vNaNMarker: it is submitted as a float64 NaN
// (which encoding/json refuses) and printed for the model as its marker.
type vop struct {
	Kind string                 `json:"op"` // add, rem, process, get, fault
	Spec string                 `json:"spec,omitempty"`
	Id   string                 `json:"id,omitempty"`
	Node string                 `json:"node,omitempty"`
	Bs   map[string]interface{} `json:"bs,omitempty"`
	Bad  bool                   `json:"bad,omitempty"`
	Msg  interface{}            `json:"msg,omitempty"`
	Up   bool                   `json:"up,omitempty"`
	// Cancelled: the request's context is already cancelled when the service is called (add / rem: no script runs, the
	// store does not look at the context, so the operation takes place as usual - and entirely, or not at all)
	Cancelled bool `json:"cancelled_ctx,omitempty"`
}

func (o *vop) coq() string {
	switch o.Kind {
	case "add":
		bs := o.Bs
		if bs == nil {
			bs = map[string]interface{}{}
		}
		return fmt.Sprintf("(RAdd %s %s %s %s %s)", vString(o.Spec), vString(o.Id), vString(o.Node), vBindings(bs), vBool(o.Bad))
	case "rem":
		return fmt.Sprintf("(RRem %s)", vString(o.Id))
	case "process":
		return fmt.Sprintf("(RProcess %s)", vJSON(vPoison(o.Msg)))
	case "get":
		return "RGet"
	case "fault":
		return fmt.Sprintf("(RFault %s)", vBool(o.Up))
	}
	panic("unknown op " + o.Kind)
}

type vrec struct {
	Spec string                 `json:"spec"`
	Node string                 `json:"node"`
	Bs   map[string]interface{} `json:"bs"`
}

func vMmap(m map[string]vrec) string {
	ids := make([]string, 0, len(m))
	for id := range m {
		ids = append(ids, id)
	}
	sort.Strings(ids)
	items := make([]string, 0, len(ids))
	for _, id := range ids {
		r := m[id]
		item := fmt.Sprintf("(%s, mk_mrec %s %s %s)", vString(id), vString(r.Spec), vString(r.Node), vBindings(r.Bs))
		if len(ids) > vLargeCrew {
			item = vTerm("(string * mrec)", item)
		}
		items = append(items, item)
	}
	return vList(items)
}

// vLargeCrew: above this size the entries of a crew (and the states of a
// Process response) are printed once and referred to by name.
const vLargeCrew = 16

func vState(st *core.State) string {
	if st == nil {
		return "(" + vString("<none>") + ", [])"
	}
	bs := map[string]interface{}(st.Bs)
	if bs == nil {
		bs = map[string]interface{}{}
	}
	return fmt.Sprintf("(%s, %s)", vString(st.NodeName), vBindings(bs))
}

// the service under test ------------------------------------------------------------------

type vsvc struct {
	s      *Service
	ctx    context.Context
	cancel func()
	isUp   bool
	dir    string
	bg     int // goroutines the service keeps for its lifetime (the store closer of NewService)
	downs  int // how often the store went down
}

// vBase0: the goroutines of the test binary before any service existed.  A
// service at rest has vBase0 + bg goroutines; every Process call spawns
// goroutines (one per emitted message, one per interpreter execution) that end
// on their own, so "at rest" is observable without sleeping.
var vBase0 int

func waitGoroutines(target int, slack time.Duration) bool {
	deadline := time.Now().Add(slack)
	for {
		if runtime.NumGoroutine() <= target {
			return true
		}
		if time.Now().After(deadline) {
			return false
		}
		time.Sleep(time.Millisecond)
	}
}

// waitQuiet waits until the goroutines spawned by Process are gone; false when
// that did not happen within a generous slack.
func (v *vsvc) waitQuiet(extra int) bool {
	return waitGoroutines(vBase0+v.bg+extra, 60*time.Second)
}

func vCleanupSpecs() {
	if vSpecDir != "" {
		os.RemoveAll(vSpecDir)
	}
}

var vSpecDirOnce sync.Once
var vSpecDir string

func vSpecs(t *testing.T) string {
	vSpecDirOnce.Do(func() {
		dir, err := os.MkdirTemp("", "verif-mcrew-specs")
		if err != nil {
			t.Fatal(err)
		}
		if err := vWriteSpecs(dir, ".yaml"); err != nil {
			t.Fatal(err)
		}
		vSpecDir = dir
	})
	return vSpecDir
}

func newVsvc(t *testing.T, withDB bool) *vsvc {
	specDir := vSpecs(t)
	if vBase0 == 0 {
		// the smallest of a few samples: a goroutine of the runtime or the testing
		// package that is just ending must not be counted
		vBase0 = runtime.NumGoroutine()
		for i := 0; i < 5; i++ {
			time.Sleep(time.Millisecond)
			if n := runtime.NumGoroutine(); n < vBase0 {
				vBase0 = n
			}
		}
	}
	ctx, cancel := context.WithCancel(context.Background())
	v := &vsvc{ctx: ctx, cancel: cancel, isUp: withDB}
	dbFile := ""
	if withDB {
		v.bg = 1
		dir, err := os.MkdirTemp("", "verif-mcrew-db")
		if err != nil {
			t.Fatal(err)
		}
		v.dir = dir
		dbFile = filepath.Join(dir, "crew.db")
	}
	s, err := NewService(ctx, specDir, dbFile, "")
	if err != nil {
		t.Fatal(err)
	}
	s.wsClientC = make(chan interface{}, 4096)
	if withDB {
		s.store.db.NoSync = true // only durability against power loss is given up
	}
	v.s = s
	return v
}

func (v *vsvc) close() {
	if v.s.store != nil {
		if !v.isUp {
			v.s.store.Open(v.ctx) // so that the closer goroutine of NewService finds a db
		}
	}
	v.cancel()
	// the closer goroutine of NewService ends after ctx.Done: wait for it so that
	// the next service starts from the same number of goroutines
	waitGoroutines(vBase0, 10*time.Second)
	if v.dir != "" {
		// the closer goroutine runs after ctx.Done; removing the files under an
		// open bolt handle is harmless on Linux
		os.RemoveAll(v.dir)
	}
}

// fault takes the store down (closes the bolt file) or up (re-opens it).
func (v *vsvc) fault(up bool) {
	if up && !v.isUp {
		if err := v.s.store.Open(v.ctx); err != nil {
			panic(err)
		}
		v.s.store.db.NoSync = true
		v.isUp = true
	} else if !up && v.isUp {
		// the store goes away the way the service itself closes it (Storage.Close), every other time through the
		// database handle (a store that broke underneath)
		v.downs++
		if v.downs%2 == 1 {
			v.s.store.Close(v.ctx)
		} else {
			v.s.store.db.Close()
		}
		v.isUp = false
	}
}

func (v *vsvc) memory() map[string]vrec {
	op := &GetCrewOp{}
	op.Do(v.ctx, v.s)
	acc := map[string]vrec{}
	for id, m := range op.Crew.Machines {
		r := vrec{Bs: map[string]interface{}{}}
		if m.SpecSource != nil {
			r.Spec = m.SpecSource.Name
		}
		if m.State != nil {
			r.Node = m.State.NodeName
			for k, x := range m.State.Bs {
				r.Bs[k] = vSafe(x)
			}
		}
		acc[id] = r
	}
	return acc
}

// stored reads the persistent records (re-opening the file for the read when the
// store is down).
func (v *vsvc) stored() map[string]vrec {
	wasUp := v.isUp
	if !wasUp {
		v.fault(true)
	}
	mss, err := v.s.store.GetCrew(v.ctx, v.s.crewName)
	if !wasUp {
		v.fault(false)
	}
	if err != nil {
		panic(err)
	}
	acc := map[string]vrec{}
	for _, ms := range mss {
		r := vrec{Node: ms.NodeName, Bs: map[string]interface{}{}}
		if ms.SpecSource != nil {
			r.Spec = ms.SpecSource.Name
		}
		for k, x := range ms.Bs {
			r.Bs[k] = x
		}
		acc[ms.Mid] = r
	}
	return acc
}

func (v *vsvc) ctxFor(o *vop) context.Context {
	if !o.Cancelled {
		return v.ctx
	}
	ctx, cancel := context.WithCancel(v.ctx)
	cancel()
	return ctx
}

// do executes one operation and renders the response as a Gallina term plus a
// short class for the statistics.
func (v *vsvc) do(o *vop) (term string, class string) {
	defer func() {
		if r := recover(); r != nil {
			term, class = "PPanic", "panic"
		}
	}()
	switch o.Kind {
	case "add":
		var bs match.Bindings
		if o.Bs != nil {
			c, _ := vCanon(o.Bs)
			bs = match.Bindings(c.(map[string]interface{}))
		}
		if o.Bad {
			if bs == nil {
				bs = match.NewBindings()
			}
			bs["inf"] = math.Inf(1) // encoding/json refuses it
		}
		err := v.s.AddMachine(v.ctxFor(o), o.Spec, o.Id, o.Node, bs)
		switch {
		case err == nil:
			return "POk", "add-ok"
		case err == Exists:
			return "PExists", "add-exists"
		default:
			return "PErr", "add-err"
		}
	case "rem":
		if err := v.s.RemMachine(v.ctxFor(o), o.Id); err != nil {
			return "PErr", "rem-err"
		}
		return "POk", "rem-ok"
	case "process":
		msg, _ := vCanon(o.Msg)
		msg = vPoison(msg)
		walkeds, err := v.s.Process(v.ctx, msg, nil)
		if walkeds == nil && err != nil {
			return "PSpecErr", "process-specerr"
		}
		state := vState
		if len(walkeds) > vLargeCrew {
			state = func(st *core.State) string { return vTerm("(string * bindings)", vState(st)) }
		}
		mids := make([]string, 0, len(walkeds))
		for mid := range walkeds {
			mids = append(mids, mid)
		}
		sort.Strings(mids)
		items := make([]string, 0, len(mids))
		moved := 0
		for _, mid := range mids {
			w := walkeds[mid]
			to := "None"
			if st := w.To(); st != nil {
				to = "(Some " + state(st) + ")"
				moved++
			}
			em := []string{}
			for _, sd := range w.Strides {
				for _, x := range sd.Emitted {
					em = append(em, vJSON(x))
				}
			}
			items = append(items, fmt.Sprintf("(%s, mk_wobs %s %s %s)", vString(mid), state(w.From()), to, vList(em)))
		}
		class = "process-ok"
		if err != nil {
			class = "process-writefail"
		} else if moved == 0 {
			class = "process-nochange"
		}
		return fmt.Sprintf("(PProcessed %s %s)", vBool(err != nil), vList(items)), class
	case "get":
		return "(PCrew " + vMmap(v.memory()) + ")", "get"
	case "fault":
		v.fault(o.Up)
		return "PFault", "fault"
	}
	panic("unknown op")
}

// ---- generators --------------------------------------------------------------------

var vIds = []string{"m0", "m1", "m2", "m3"}

func vGenAdd(g *vgen, ids []string) *vop {
	o := &vop{Kind: "add", Id: g.pick(ids)}
	switch x := g.intn(20); {
	case x < 9:
		o.Spec = "rec"
	case x < 14:
		o.Spec = "flip"
	case x < 17:
		o.Spec = "deaf"
	case x < 18:
		o.Spec = "ghost"
	case x < 19:
		o.Spec = "broken"
	default:
		o.Spec = ""
	}
	if g.chance(0.08) {
		o.Spec = "nan" // harmless until a message carries "poison"
	}
	if o.Spec == "flip" && g.chance(0.15) {
		o.Spec = "bigflip" // the same specification in a file of 1.3 MB (a long comment between its nodes)
	}
	switch g.intn(6) {
	case 0:
		o.Node = "start"
	case 1:
		if o.Spec == "flip" || o.Spec == "bigflip" {
			o.Node = "alt"
		}
	}
	switch g.intn(5) {
	case 0:
		o.Bs = map[string]interface{}{"log": []interface{}{"old"}}
	case 1:
		o.Bs = map[string]interface{}{"k": 1.5, "cfg": map[string]interface{}{"a": true}}
	case 2:
		o.Bs = map[string]interface{}{}
	case 3:
		// a machine waiting for one particular message: the binding is there now and gone from the state it reaches
		// (memory and store must both lose it)
		o.Bs = map[string]interface{}{"?id": "again", "k": 2.0}
	}
	o.Bad = g.chance(0.08)
	o.Cancelled = g.chance(0.25)
	return o
}

// a message for the C16 runs.  "fwd" is always empty: the recorders emit
// nothing, so no Process call is re-submitted behind the observer's back and
// C16's runs do not depend on how emitted messages are routed (that is
// C14's business: TestVerifMcrewRoute).  present = ids believed to be in the
// crew (targets are mostly chosen among them).
func vGenMsg(g *vgen, mg *vmsgGen, ids, present []string) interface{} {
	target := func() string {
		if len(present) > 0 && g.chance(0.8) {
			return g.pick(present)
		}
		return g.pick(ids)
	}
	switch x := g.intn(60); {
	case x == 0:
		return nil
	case x == 1:
		return "hello"
	case x == 2:
		return 2.5
	case x == 3:
		return map[string]interface{}{"id": mg.id(), "to": target()} // no "fwd": nobody moves
	}
	m := map[string]interface{}{"id": mg.id(), "fwd": []interface{}{}}
	if g.chance(0.15) {
		m["id"] = "again"
	}
	switch y := g.intn(10); {
	case y < 6:
		m["to"] = target()
	case y < 7:
		m["to"] = "nobody"
	}
	if g.chance(0.3) {
		m["wake"] = m["id"]
	}
	if g.chance(0.2) {
		// only machines of specification "nan" look at "poison"; they keep its value, and a NaN cannot be written
		if g.chance(0.75) {
			m["poison"] = vNaNMarker
		} else {
			m["poison"] = 1.5
		}
	}
	return m
}

func vGenOp(g *vgen, mg *vmsgGen, ids, present []string) *vop {
	switch x := g.intn(20); {
	case x < 4:
		return vGenAdd(g, ids)
	case x < 6:
		if len(present) > 0 && g.chance(0.7) {
			return &vop{Kind: "rem", Id: g.pick(present), Cancelled: g.chance(0.25)}
		}
		return &vop{Kind: "rem", Id: g.pick(ids)}
	case x < 18:
		return &vop{Kind: "process", Msg: vGenMsg(g, mg, ids, present)}
	}
	return &vop{Kind: "get"}
}

func vGenBase(g *vgen, mg *vmsgGen, n int) ([]*vop, []string) {
	ids := append([]string{}, vIds...)
	g.shuffle(ids)
	ids = ids[:1+g.intn(4)]
	ops := []*vop{}
	present := []string{}
	note := func(o *vop) {
		switch o.Kind {
		case "add":
			if !o.Bad {
				for _, id := range present {
					if id == o.Id {
						return
					}
				}
				present = append(present, o.Id)
			}
		case "rem":
			for i, id := range present {
				if id == o.Id {
					present = append(append([]string{}, present[:i]...), present[i+1:]...)
					return
				}
			}
		}
	}
	// start with a populated crew more often than not
	for i := 0; i < len(ids) && g.chance(0.7); i++ {
		o := vGenAdd(g, ids)
		o.Bad = false
		ops = append(ops, o)
		note(o)
	}
	for len(ops) < n {
		o := vGenOp(g, mg, ids, present)
		ops = append(ops, o)
		note(o)
	}
	return ops, ids
}

// withWindow: the store fails from position i to position j (inclusive).
func withWindow(base []*vop, i, j int) []*vop {
	acc := []*vop{}
	for k, o := range base {
		if k == i {
			acc = append(acc, &vop{Kind: "fault", Up: false})
		}
		acc = append(acc, o)
		if k == j {
			acc = append(acc, &vop{Kind: "fault", Up: true})
		}
	}
	return acc
}

func vSeqCorpus() [][]*vop {
	leaf := func(id, to string) map[string]interface{} {
		return map[string]interface{}{"id": id, "to": to, "fwd": []interface{}{}}
	}
	add := func(id, spec string) *vop { return &vop{Kind: "add", Id: id, Spec: spec} }
	down, up, get := &vop{Kind: "fault", Up: false}, &vop{Kind: "fault", Up: true}, &vop{Kind: "get"}
	return [][]*vop{
		// D15: store down during add / rem (DESIGN section 4)
		{down, add("m0", "rec"), get, up, get, add("m0", "rec")},
		{add("m0", "rec"), down, &vop{Kind: "rem", Id: "m0"}, get, up, get, &vop{Kind: "rem", Id: "m0"}, get},
		{add("m0", "rec"), down, &vop{Kind: "process", Msg: leaf("a", "m0")}, get, up, &vop{Kind: "process", Msg: leaf("b", "m0")}, get},
		// a write that fails although the store is up: bindings that cannot be serialised
		{&vop{Kind: "add", Id: "m0", Spec: "rec", Bad: true}, get, add("m0", "rec"), get},
		// a specification file of 1.3 MB is read whole: the machine gets past the node that follows the long comment
		{add("m0", "bigflip"), &vop{Kind: "process", Msg: leaf("a", "m0")}, &vop{Kind: "process", Msg: leaf("b", "m0")},
			&vop{Kind: "process", Msg: leaf("c", "m0")}, get},
		// the service tests' scenario: add, process, remove, process
		{add("m0", "rec"), &vop{Kind: "process", Msg: leaf("a", "m0")}, &vop{Kind: "rem", Id: "m0"}, &vop{Kind: "process", Msg: leaf("b", "m0")}, get},
		// exists; unknown specification; broadcast with one bad specification
		{add("m0", "flip"), add("m0", "rec"), add("m1", "ghost"), &vop{Kind: "process", Msg: leaf("a", "m0")},
			&vop{Kind: "process", Msg: map[string]interface{}{"id": "b", "fwd": []interface{}{}}}, &vop{Kind: "rem", Id: "m1"},
			&vop{Kind: "process", Msg: map[string]interface{}{"id": "c", "fwd": []interface{}{}}}, get},
		// a batch of two machines with the store down: all or nothing
		{add("m0", "rec"), add("m1", "flip"), down, &vop{Kind: "process", Msg: map[string]interface{}{"id": "a", "fwd": []interface{}{}}}, get, up,
			&vop{Kind: "process", Msg: map[string]interface{}{"id": "b", "fwd": []interface{}{}}}, get},
		// nothing to write while the store is down: no error
		{add("m0", "deaf"), down, &vop{Kind: "process", Msg: leaf("a", "m0")}, &vop{Kind: "process", Msg: nil}, up},
		// one end state of a batch of three cannot be serialised although the store is up: all or nothing; a "poison" that
		// can be serialised is kept; after that the nan machine only accepts what it has bound
		{add("m0", "rec"), add("m1", "nan"), add("m2", "flip"), poisoned("a", vNaNMarker), get, poisoned("b", 1.5), poisoned("c", vNaNMarker),
			poisoned("b", 1.5), &vop{Kind: "rem", Id: "m1"}, poisoned("d", vNaNMarker), get},
		// the same with the store down as well, and addressed to the nan machine alone
		{add("m0", "nan"), add("m1", "rec"), down, poisoned("a", vNaNMarker), up,
			&vop{Kind: "process", Msg: map[string]interface{}{"id": "b", "to": "m0", "fwd": []interface{}{}, "poison": vNaNMarker}}, get,
			&vop{Kind: "process", Msg: map[string]interface{}{"id": "c", "to": "m1", "fwd": []interface{}{}, "poison": vNaNMarker}}, get},
		// volume: a batch much larger than anything a storage layer might cut into pieces; the one record that cannot be
		// serialised sits at a random place of the batch (Go map order), so the failing broadcast is repeated
		vVolume(200, 5),
		vVolume(130, 4),
	}
}

func poisoned(id string, poison interface{}) *vop {
	return &vop{Kind: "process", Msg: map[string]interface{}{"id": id, "fwd": []interface{}{}, "poison": poison}}
}

// vVolume: n machines m000.. of specifications rec and flip and one of
// specification nan; a broadcast whose "poison" is a NaN moves them all, and the
// end state of the nan machine cannot be serialised: the write fails as a whole
// (memory and store unchanged for every machine), repeats times; without the nan
// machine the same broadcast is written for all.
func vVolume(n, repeats int) []*vop {
	ops := []*vop{}
	nanAt := n / 3
	for i := 0; i < n; i++ {
		spec := "rec"
		if i%3 == 1 {
			spec = "flip"
		}
		ops = append(ops, &vop{Kind: "add", Id: fmt.Sprintf("m%03d", i), Spec: spec})
		if i == nanAt {
			ops = append(ops, &vop{Kind: "add", Id: "m-nan", Spec: "nan"})
		}
	}
	// an ordinary broadcast first: the nan machine does not move, the others are written in one batch
	ops = append(ops, &vop{Kind: "process", Msg: map[string]interface{}{"id": "a", "fwd": []interface{}{}}})
	for k := 0; k < repeats; k++ {
		ops = append(ops, poisoned(fmt.Sprintf("p%d", k), vNaNMarker))
	}
	ops = append(ops, &vop{Kind: "rem", Id: "m-nan"}, poisoned("q", vNaNMarker), &vop{Kind: "get"})
	return ops
}

var vInlineProbes, vInlineSerial int32

// vInlineProbe: returns "" when the machine with the inlining specification follows the edit of the inlined file
func vInlineProbe(v *vsvc) (why string) {
	defer func() {
		if r := recover(); r != nil {
			why = fmt.Sprintf("panic: %v", r)
		}
	}()
	n := atomic.AddInt32(&vInlineSerial, 1)
	name, js := fmt.Sprintf("zz-inl%d", n), fmt.Sprintf("zz-inl%d.js", n)
	yaml := "name: " + name + "\npatternsyntax: json\nnodes:\n  start:\n    branching:\n      type: message\n      branches:\n      - pattern: |\n          {\"probe\":\"?p\"}\n        target: note\n" +
		"  note:\n    action:\n      interpreter: ecmascript\n      source: %inline(\"" + js + "\")\n    branching:\n      branches:\n      - target: start\n"
	dir := v.s.specDir
	write := func(version int) error {
		return os.WriteFile(filepath.Join(dir, js), []byte(fmt.Sprintf("\"return {v: %d};\"", version)), 0644)
	}
	if err := write(1); err != nil {
		return err.Error()
	}
	defer os.Remove(filepath.Join(dir, js))
	if err := os.WriteFile(filepath.Join(dir, name+".yaml"), []byte(yaml), 0644); err != nil {
		return err.Error()
	}
	defer os.Remove(filepath.Join(dir, name+".yaml"))
	mid := "zz-inline-machine"
	if err := v.s.AddMachine(v.ctx, name, mid, "", nil); err != nil {
		return "add: " + err.Error()
	}
	defer v.s.RemMachine(v.ctx, mid)
	seen := func() interface{} {
		if r, have := v.memory()[mid]; have {
			return r.Bs["v"]
		}
		return "<no machine>"
	}
	msg := map[string]interface{}{"to": mid, "probe": true}
	if _, err := v.s.Process(v.ctx, msg, nil); err != nil {
		return "process: " + err.Error()
	}
	if got := seen(); got != 1.0 {
		return fmt.Sprintf("first version: v = %v", got)
	}
	if err := write(2); err != nil { // same length, only the inlined file changes
		return err.Error()
	}
	if _, err := v.s.Process(v.ctx, msg, nil); err != nil {
		return "process: " + err.Error()
	}
	if got := seen(); got != 2.0 {
		return fmt.Sprintf("after the inlined file was edited: v = %v (the machine still runs what was inlined before)", got)
	}
	return ""
}

func quietLog() func() {
	w, verbose := log.Writer(), Verbose
	log.SetOutput(io.Discard)
	Verbose = false
	return func() { log.SetOutput(w); Verbose = verbose }
}

// ---- sequential -------------------------------------------------------------------------

type vstepSample struct {
	Op    *vop            `json:"op"`
	Resp  string          `json:"resp"`
	Mem   map[string]vrec `json:"mem"`
	Store map[string]vrec `json:"store"`
	// large crews: the sample (and so a replay file) only says how memory and store differ; the Gallina term has both in full
	Machines int      `json:"machines,omitempty"`
	Differ   []string `json:"mem_differs_from_store_at,omitempty"`
}

func vDiffer(mem, sto map[string]vrec) []string {
	acc := []string{}
	for id, r := range mem {
		if r2, have := sto[id]; !have || vCanonText(r) != vCanonText(r2) {
			acc = append(acc, id)
		}
	}
	for id := range sto {
		if _, have := mem[id]; !have {
			acc = append(acc, id)
		}
	}
	sort.Strings(acc)
	return acc
}

func runSeq(t *testing.T, out *vout, ops []*vop, kind string) {
	v := newVsvc(t, true)
	defer v.close()
	steps := make([]string, 0, len(ops))
	sample := make([]vstepSample, 0, len(ops))
	var key strings.Builder
	nontrivial := false
	wasDown := false
	for _, o := range ops {
		resp, class := v.do(o)
		mem, sto := v.memory(), v.stored()
		steps = append(steps, fmt.Sprintf("mk_sstep %s %s %s %s", o.coq(), resp, vMmap(mem), vMmap(sto)))
		if len(mem) > vLargeCrew || len(sto) > vLargeCrew {
			sample = append(sample, vstepSample{Op: o, Resp: class, Machines: len(mem), Differ: vDiffer(mem, sto)})
		} else {
			sample = append(sample, vstepSample{Op: o, Resp: class, Mem: mem, Store: sto})
		}
		out.count("op:" + class)
		key.WriteString(vCanonText(o))
		if o.Kind == "fault" && !o.Up {
			wasDown = true
		}
		if !v.isUp && (class == "add-err" || class == "rem-err" || class == "process-writefail") {
			nontrivial = true
		}
		if (class == "add-err" || class == "process-writefail") && v.isUp {
			nontrivial = true
			if class == "process-writefail" {
				out.count("batch-with-unserialisable-record")
			}
		}
		if o.Kind == "process" && len(mem) > 64 {
			out.count("process-on-crew-over-64:" + class)
		}
	}
	out.count("sequence:" + kind)
	out.count(fmt.Sprintf("length:%02d", len(ops)/4*4))
	if wasDown {
		out.count("sequence-with-store-down")
	}
	// at the end of (the first fifty) sequences whose store is up: a specification that inlines a file (%inline("...")) is
	// what its files say when it is loaded - also after the inlined file alone was edited while the service runs.  A
	// failure is reported as a call that panicked (a response the model never gives).
	if v.isUp && atomic.AddInt32(&vInlineProbes, 1) <= 50 {
		if why := vInlineProbe(v); why != "" {
			out.count("inline-probe-failed")
			steps = append(steps, fmt.Sprintf("mk_sstep RGet PPanic %s %s", vMmap(v.memory()), vMmap(v.stored())))
			sample = append(sample, vstepSample{Op: &vop{Kind: "get"}, Resp: "inline-probe: " + why})
		}
	}
	out.add("(mk_seqcase "+vList(steps)+")", key.String(), nontrivial, map[string]interface{}{"kind": kind, "steps": sample})
}

func TestVerifMcrewSeq(t *testing.T) {
	p := verifParams()
	if p.out == "" {
		t.Skip("VERIF_OUT not set")
	}
	defer quietLog()()
	defer vCleanupSpecs()
	g := newVgen(p.seed)
	out := newVout("Corr.MCrewCorr", "seqcase")
	out.Notes = append(out.Notes, "non-trivial = a sequence in which at least one write failed (store down, or unserialisable bindings)")
	if rc := p.replayCases(); rc != nil {
		for _, c := range rc {
			var steps []struct {
				Op *vop `json:"op"`
			}
			vReJSON(c["steps"], &steps)
			ops := []*vop{}
			for _, st := range steps {
				ops = append(ops, st.Op)
			}
			runSeq(t, out, ops, "replay")
		}
		if err := out.write(p.out, "mcrewseq", p.seed, p.shard); err != nil {
			t.Fatal(err)
		}
		return
	}
	for _, ops := range vSeqCorpus() {
		runSeq(t, out, ops, "corpus")
	}
	mg := &vmsgGen{g: g, prefix: "q"}
	exhaustive := p.optInt("windows", 0) == 1
	for len(out.Cases) < p.n {
		L := 4 + g.intn(7)
		base, _ := vGenBase(g, mg, L)
		if exhaustive {
			// every window i <= j of a short base sequence
			if len(base) > 6 {
				base = base[:6]
			}
			runSeq(t, out, base, "healthy")
			for i := 0; i < len(base); i++ {
				for j := i; j < len(base); j++ {
					runSeq(t, out, withWindow(base, i, j), "window")
				}
			}
			continue
		}
		switch x := g.intn(10); {
		case x < 1:
			runSeq(t, out, base, "healthy")
		case x < 7:
			i := g.intn(len(base))
			j := i + g.intn(len(base)-i)
			runSeq(t, out, withWindow(base, i, j), "window")
		default:
			// several windows: faults sprinkled
			acc := []*vop{}
			isUp := true
			for _, o := range base {
				if g.chance(0.3) {
					isUp = !isUp
					acc = append(acc, &vop{Kind: "fault", Up: isUp})
				}
				acc = append(acc, o)
			}
			runSeq(t, out, acc, "sprinkled")
		}
	}
	if err := out.write(p.out, "mcrewseq", p.seed, p.shard); err != nil {
		t.Fatal(err)
	}
}

// ---- concurrent --------------------------------------------------------------------------

type vhop struct {
	Client int    `json:"client"`
	Call   int64  `json:"call"`
	Ret    int64  `json:"ret"`
	Op     *vop   `json:"op"`
	Resp   string `json:"-"`
	Class  string `json:"resp"`
}

func runConc(t *testing.T, out *vout, g *vgen, mg *vmsgGen, clients, perClient int) {
	ids := vIds[:1+g.intn(3)]
	// programmes are generated up front (one PRNG, deterministic given the seed)
	progs := make([][]*vop, clients)
	for c := range progs {
		for k := 0; k < perClient; k++ {
			var o *vop
			if c == 0 {
				// the fault injector: mostly flips, some reads
				if g.chance(0.75) {
					o = &vop{Kind: "fault", Up: g.chance(0.55)}
				} else {
					o = &vop{Kind: "get"}
				}
			} else {
				o = vGenOp(g, mg, ids, ids)
				if k == 0 && g.chance(0.6) {
					o = vGenAdd(g, ids) // populate the crew early
				}
				if o.Kind == "add" && (o.Spec == "ghost" || o.Spec == "broken" || o.Spec == "") && g.chance(0.7) {
					o.Spec = "rec"
				}
			}
			progs[c] = append(progs[c], o)
		}
	}
	runConcProgs(t, out, progs)
}

func runConcProgs(t *testing.T, out *vout, progs [][]*vop) {
	clients := len(progs)
	v := newVsvc(t, true)
	defer v.close()
	var clock int64
	hist := make([][]*vhop, clients)
	start := make(chan struct{})
	var wg sync.WaitGroup
	for c := 0; c < clients; c++ {
		wg.Add(1)
		go func(c int) {
			defer wg.Done()
			<-start
			for _, o := range progs[c] {
				h := &vhop{Client: c, Op: o}
				h.Call = atomic.AddInt64(&clock, 1)
				if o.Kind == "fault" {
					// the environment acts between two atomic steps of the service:
					// under the crew lock
					v.s.crew.Lock()
					v.fault(o.Up)
					v.s.crew.Unlock()
					h.Resp, h.Class = "PFault", "fault"
				} else {
					h.Resp, h.Class = v.do(o)
				}
				h.Ret = atomic.AddInt64(&clock, 1)
				hist[c] = append(hist[c], h)
			}
		}(c)
	}
	close(start)
	wg.Wait()
	quiet := v.waitQuiet(0) // the calling goroutine is part of vBase0; the clients are gone
	mem, sto := v.memory(), v.stored()
	all := []*vhop{}
	for _, hs := range hist {
		all = append(all, hs...)
	}
	sort.Slice(all, func(i, j int) bool { return all[i].Call < all[j].Call })
	items := make([]string, 0, len(all))
	overlaps, fails := 0, 0
	var key strings.Builder
	for i, h := range all {
		items = append(items, fmt.Sprintf("mk_hop %d %d %d %s %s", h.Client, h.Call, h.Ret, h.Op.coq(), h.Resp))
		out.count("op:" + h.Class)
		key.WriteString(fmt.Sprintf("%d:%s;", h.Client, vCanonText(h.Op)))
		if i+1 < len(all) && all[i+1].Call < h.Ret {
			overlaps++
		}
		if h.Class == "add-err" || h.Class == "rem-err" || h.Class == "process-writefail" {
			fails++
		}
	}
	key.WriteString(fmt.Sprintf("|%d", overlaps))
	out.count(fmt.Sprintf("overlapping-calls:%02d+", overlaps/5*5))
	if fails > 0 {
		out.count("history-with-failed-write")
	}
	if !quiet {
		out.count("not-quiet")
	}
	out.add(fmt.Sprintf("(mk_conccase %s %s %s %s)", vList(items), vMmap(mem), vMmap(sto), vBool(quiet)),
		key.String(), overlaps > 0,
		map[string]interface{}{"history": all, "mem": mem, "store": sto, "overlaps": overlaps})
}

func TestVerifMcrewConc(t *testing.T) {
	p := verifParams()
	if p.out == "" {
		t.Skip("VERIF_OUT not set")
	}
	defer quietLog()()
	defer vCleanupSpecs()
	g := newVgen(p.seed)
	out := newVout("Corr.MCrewCorr", "conccase")
	out.Notes = append(out.Notes, "one case = one concurrent history; non-trivial = at least two calls overlapped in time")
	mg := &vmsgGen{g: g, prefix: "c"}
	clients, perClient := p.optInt("clients", 8), p.optInt("ops", 5)
	if rc := p.replayCases(); rc != nil {
		for _, c := range rc {
			var hist []*vhop
			vReJSON(c["history"], &hist)
			progs := [][]*vop{}
			for _, h := range hist { // in call order
				for len(progs) <= h.Client {
					progs = append(progs, nil)
				}
				progs[h.Client] = append(progs[h.Client], h.Op)
			}
			for k := 0; k < 20; k++ { // the schedule is not reproducible: several attempts
				runConcProgs(t, out, progs)
			}
		}
		if err := out.write(p.out, "mcrewconc", p.seed, p.shard); err != nil {
			t.Fatal(err)
		}
		return
	}
	for len(out.Cases) < p.n {
		runConc(t, out, g, mg, clients, perClient)
	}
	if err := out.write(p.out, "mcrewconc", p.seed, p.shard); err != nil {
		t.Fatal(err)
	}
}

// ---- routing (C14) -------------------------------------------------------------------------

var vRouteIds = []string{"m0", "m1", "m2", "m3", "timers", "*", "http", ""}

func vGenTarget(g *vgen, ids []string) (interface{}, bool) {
	other := func() string {
		if g.chance(0.6) && len(ids) > 0 {
			return g.pick(ids)
		}
		return g.pick([]string{"nobody", "m9", "captain"})
	}
	switch x := g.intn(20); {
	case x < 5:
		return nil, false
	case x < 10:
		if len(ids) > 0 {
			return g.pick(ids), true
		}
		return "nobody", true
	case x < 11:
		return "nobody", true
	case x < 12:
		return "*", true
	case x < 15:
		n := g.intn(4)
		l := []interface{}{}
		for i := 0; i < n; i++ {
			switch g.intn(6) {
			case 0:
				l = append(l, 1.0)
			case 1:
				l = append(l, nil)
			default:
				l = append(l, other())
			}
		}
		return l, true
	case x < 17:
		return g.pick([]string{"timers", "http", "ws"}), true
	case x < 18:
		return map[string]interface{}{"mid": other()}, true
	case x < 19:
		return 1.0, true
	}
	return "", true
}

type vrouteObs struct {
	Ids       []string                 `json:"ids"`
	Broken    []string                 `json:"broken,omitempty"` // members of Ids whose specification cannot be loaded
	Root      interface{}              `json:"root"`
	Logs      map[string][]interface{} `json:"logs"`
	Walked    []string                 `json:"walked_root"`
	Processed []interface{}            `json:"processed"`
	Reported  []interface{}            `json:"reported"`
	Quiet     bool                     `json:"quiet"`
	Down      bool                     `json:"store_down,omitempty"`
}

func vIdOf(msg interface{}) interface{} {
	if m, is := msg.(map[string]interface{}); is {
		if id, have := m["id"]; have {
			return id
		}
	}
	return "<noid>"
}

func (o *vrouteObs) coq(mdb bool) string {
	logs := make([]string, 0, len(o.Logs))
	for _, id := range o.Ids {
		items := []string{}
		for _, x := range o.Logs[id] {
			items = append(items, vJSON(x))
		}
		logs = append(logs, fmt.Sprintf("(%s, %s)", vString(id), vList(items)))
	}
	js := func(xs []interface{}) string {
		items := make([]string, len(xs))
		for i, x := range xs {
			items[i] = vJSON(x)
		}
		return vList(items)
	}
	return fmt.Sprintf("(mk_routecase %s %s %s %s %s %s %s %s %s %s)", vBool(mdb), vStrings(o.Ids), vStrings(o.Broken), vJSON(o.Root),
		vList(logs), vStrings(o.Walked), js(o.Processed), js(o.Reported), vBool(o.Quiet), vBool(o.Down))
}

func vRouteCorpus() [](struct {
	ids  []string
	root map[string]interface{}
}) {
	leaf := func(id string, to interface{}) map[string]interface{} {
		m := map[string]interface{}{"id": id, "fwd": []interface{}{}}
		if to != nil {
			m["to"] = to
		}
		return m
	}
	type c = struct {
		ids  []string
		root map[string]interface{}
	}
	return []c{
		{[]string{"m0", "m1", "m2"}, leaf("a", nil)},
		{[]string{"m0", "m1", "m2"}, leaf("a", "m1")},
		{[]string{"m0", "m1", "m2"}, leaf("a", "nobody")},
		// D12: a list of ids, and "*"
		{[]string{"m0", "m1", "m2"}, leaf("a", []interface{}{"m0", "m1"})},
		{[]string{"m0", "m1", "m2"}, leaf("a", []interface{}{"m0", "m0"})},
		{[]string{"m0", "m1", "m2"}, leaf("a", "*")},
		{[]string{"m0", "*"}, leaf("a", "*")},
		// doc/by-example.md: {"to":{"mid":"doubler"},...}
		{[]string{"m0", "m1"}, leaf("a", map[string]interface{}{"mid": "m0"})},
		// reserved names: a machine called "timers" does not get what is sent to the timers service
		{[]string{"m0", "timers", "http"}, leaf("a", "timers")},
		{[]string{"m0", "timers", "http"}, leaf("a", "http")},
		{[]string{"m0", "timers"}, leaf("a", "ws")},
		// feedback: m0 forwards to m1 and to everybody
		{[]string{"m0", "m1"}, map[string]interface{}{"id": "a", "to": "m0", "fwd": []interface{}{leaf("b", "m1"), leaf("c", nil)}}},
		{[]string{"m0", "m1"}, map[string]interface{}{"id": "a", "fwd": []interface{}{leaf("b", "m1"), leaf("c", "nobody")}}},
	}
}

func runRoute(t *testing.T, out *vout, ids []string, root map[string]interface{}, kind string) {
	ids = append([]string{}, ids...)
	sort.Strings(ids)
	// every fifth case has a store, and the store is down while the message and its offspring are processed: no state
	// advances, but routing, reports and feedback go on as ever (a failed write is logged, not a reason to stop)
	down := (len(vCanonText(ids))+2*len(vCanonText(root)))%5 == 3
	for _, id := range ids {
		if id == "" {
			down = false // (the bolt store takes no empty key: the machine with the empty id lives in crews without a store)
		}
	}
	v := newVsvc(t, down)
	defer v.close()
	v.s.Emitted = make(chan interface{}, 1<<16)
	v.s.Processing = make(chan interface{}, 1<<16)
	// the crew is built by a history of additions and removals that ends with exactly [ids]: every third case adds a
	// temporary machine and removes it again at some point of the build-up (routing must depend on the crew as
	// it is, not on how it came about)
	tmpAt, tmpGone := -1, -1
	if h := len(vCanonText(ids)) + len(vCanonText(root)); len(ids) > 0 && h%3 == 0 {
		tmpAt = h % len(ids)
		tmpGone = tmpAt + (h/3)%(len(ids)-tmpAt)
	}
	for i, id := range ids {
		if i == tmpAt {
			if err := v.s.AddMachine(v.ctx, "rec", "tmp-machine", "", nil); err != nil {
				t.Fatal(err)
			}
			out.count("crew-history:add-remove")
		}
		if i == tmpGone {
			if err := v.s.RemMachine(v.ctx, "tmp-machine"); err != nil {
				t.Fatal(err)
			}
		}
		specName := "rec"
		if strings.HasPrefix(id, "zz-broken") {
			specName = "ghost" // no such specification: every Process call that meets this machine fails
		}
		if err := v.s.AddMachine(v.ctx, specName, id, "", nil); err != nil {
			t.Fatal(err)
		}
	}
	obs := &vrouteObs{Ids: ids, Root: root, Logs: map[string][]interface{}{}, Down: down}
	if down {
		v.fault(false)
		out.count("store-down-throughout")
	}
	for _, id := range ids {
		if strings.HasPrefix(id, "zz-broken") {
			obs.Broken = append(obs.Broken, id)
			out.count("crew:with-broken-machine")
		}
	}
	msg, _ := vCanon(root)
	func() {
		defer func() {
			if r := recover(); r != nil {
				obs.Walked = []string{"<panic>"}
			}
		}()
		walkeds, _ := v.s.Process(v.ctx, msg, nil)
		for mid := range walkeds {
			obs.Walked = append(obs.Walked, mid)
		}
	}()
	sort.Strings(obs.Walked)
	obs.Quiet = v.waitQuiet(0)
	for id, r := range v.memory() {
		if l, is := r.Bs["log"].([]interface{}); is {
			obs.Logs[id] = l
		}
	}
	drain := func(c chan interface{}) []interface{} {
		acc := []interface{}{}
		for {
			select {
			case x := <-c:
				acc = append(acc, vIdOf(x))
			default:
				return acc
			}
		}
	}
	obs.Processed = drain(v.s.Processing)
	obs.Reported = drain(v.s.Emitted)
	deliveries := 0
	for _, l := range obs.Logs {
		deliveries += len(l)
	}
	out.count("case:" + kind)
	out.count(fmt.Sprintf("machines:%d", len(ids)))
	out.count(fmt.Sprintf("processed:%02d+", len(obs.Processed)/4*4))
	vCountTargets(out, root)
	if !obs.Quiet {
		out.count("not-quiet")
	}
	out.add(obs.coq(false), vCanonText(ids)+vCanonText(root), len(obs.Processed) > 1 && deliveries > 0, obs)
}

func vCountTargets(out *vout, msg interface{}) {
	m, is := msg.(map[string]interface{})
	if !is {
		return
	}
	switch to := m["to"].(type) {
	case nil:
		if _, have := m["to"]; have {
			out.count("to:null")
		} else {
			out.count("to:absent")
		}
	case string:
		switch to {
		case "*":
			out.count("to:star")
		case "timers", "http", "ws":
			out.count("to:reserved")
		default:
			out.count("to:id")
		}
	case []interface{}:
		out.count("to:list")
	default:
		out.count("to:other")
	}
	if kids, is := m["fwd"].([]interface{}); is {
		for _, k := range kids {
			vCountTargets(out, k)
		}
	}
}

func vGenRouteCase(g *vgen, mg *vmsgGen) ([]string, map[string]interface{}) {
	pool := append([]string{}, vRouteIds...)
	g.shuffle(pool)
	// ordinary ids first most of the time
	ids := []string{}
	for _, id := range pool {
		if len(ids) >= 5 {
			break
		}
		if strings.HasPrefix(id, "m") || g.chance(0.25) {
			ids = append(ids, id)
		}
	}
	ids = ids[:g.intn(len(ids)+1)]
	if len(ids) > 0 && g.chance(0.15) {
		// a machine whose specification cannot be loaded sits in the crew: messages routed to the others still arrive
		ids = append(ids, "zz-broken")
	}
	sort.Strings(ids)
	root := mg.tree(1+g.intn(2), 2, func(int) (interface{}, bool) { return vGenTarget(g, ids) })
	return ids, root
}

func TestVerifMcrewRoute(t *testing.T) {
	p := verifParams()
	if p.out == "" {
		t.Skip("VERIF_OUT not set")
	}
	defer quietLog()()
	defer vCleanupSpecs()
	g := newVgen(p.seed)
	out := newVout("Corr.MCrewCorr", "routecase")
	out.Notes = append(out.Notes, "non-trivial = at least one emitted message was fed back and at least one machine received something")
	if rc := p.replayCases(); rc != nil {
		for _, c := range rc {
			var ids []string
			var root map[string]interface{}
			vReJSON(c["ids"], &ids)
			vReJSON(c["root"], &root)
			runRoute(t, out, ids, root, "replay")
		}
		if err := out.write(p.out, "mcrewroute", p.seed, p.shard); err != nil {
			t.Fatal(err)
		}
		return
	}
	for _, c := range vRouteCorpus() {
		runRoute(t, out, c.ids, c.root, "corpus")
	}
	mg := &vmsgGen{g: g, prefix: "r"}
	for len(out.Cases) < p.n {
		ids, root := vGenRouteCase(g, mg)
		runRoute(t, out, ids, root, "generated")
	}
	if err := out.write(p.out, "mcrewroute", p.seed, p.shard); err != nil {
		t.Fatal(err)
	}
}
