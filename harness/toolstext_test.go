package main

import (
	"encoding/hex"
	"io"
	"log"
	"testing"
)

// The frame calibration works on the real renderers and the cut returns the
// bytes between the frame, whatever they are.
func TestToolsTextCut(t *testing.T) {
	log.SetOutput(io.Discard)
	o := newOut("Corr.ToolsTextCorr", "ttcase")
	for _, pos := range []string{"node", "target"} {
		f := ttCalibrate(pos)
		if !f.ok {
			t.Fatalf("calibration %s: %s", pos, f.problem)
		}
		for name, want := range map[string][2]string{
			"a":        {`"a"`, "a"},
			``:         {`""`, ""},
			`a"b`:      {`"a\"b"`, "a#quot;b"},
			`\`:        {`"\\"`, `\`},
			"#\n>":     {"\"#\n>\"", "#35;\n>"},
			"\xff":     {"\"\xff\"", "\xff"},
			`" [x="y"`: {`"\" [x=\"y\""`, `#quot; [x=#quot;y#quot;`},
		} {
			cs := f.observe("test", pos, name, o)
			if (pos == "node" && len(cs) != 2) || (pos == "target" && len(cs) != 3) {
				t.Fatalf("%s %q: %d cases: %+v", pos, name, len(cs), cs[0])
			}
			last := cs[len(cs)-1]
			if l, _ := hex.DecodeString(last.LabelHex); last.What != "label" || len(l) < len(name) {
				t.Errorf("%s %q: label case %+v", pos, name, last)
			}
			for _, c := range cs[:len(cs)-1] {
				d, _ := hex.DecodeString(c.DotHex)
				m, _ := hex.DecodeString(c.MerHex)
				if c.Problem != "" || string(d) != want[0] || string(m) != want[1] {
					t.Errorf("%s %q: got %q %q (%s), want %q %q", pos, name, d, m, c.Problem, want[0], want[1])
				}
			}
		}
	}
	if got := cutT("PPxSS", "PP", "SS"); got != "x" {
		t.Errorf("cut: %q", got)
	}
}

func cutT(a, b, c string) string { s, _ := cut(a, b, c); return s }

func TestToolsTextCoqString(t *testing.T) {
	if got := ttCoqString("a\n\"\xff"); got != "(sb [97; 10; 34; 255])" {
		t.Errorf("got %s", got)
	}
	cs := ttNidCases(12)
	if len(cs) != 13 || cs[0].Nid != "n1" || cs[12].Nid != "n13" || cs[12].Num != 13 {
		t.Errorf("nids: %+v", cs)
	}
}
