package main

// Components "compile" and "jsontext" (C13: a specification's behaviour is
// independent of its representation; compiling is idempotent).
//
// compile: one abstract specification is rendered as Go structures, as a
// JSON document and as YAML documents (github.com/jsccast/yaml as mcrew,
// msimple and mdb load it; gopkg.in/yaml.v2 as sio loads URLs; sio's own
// ResolveSpecSource for inline sources), with the patterns inline and as
// JSON text under patternSyntax json.  Every variant is compiled, compiled
// again (force off and on), serialised (JSON and YAML) and compiled again,
// and after every stage the same message sequences are walked.  What goes to
// Coq: the abstract document, per variant the decoded patterns / syntax, the
// class of every Compile result and whether every walk equalled the
// reference walk, and the reference walks themselves.
//
// jsontext: encoding/json against the printer/parser of Model/JsonText.v.

import (
	"context"
	"encoding/json"
	"errors"
	"fmt"
	"os"
	"sort"
	"strings"

	"github.com/Comcast/sheens/core"
	"github.com/Comcast/sheens/crew"
	stdints "github.com/Comcast/sheens/interpreters"
	"github.com/Comcast/sheens/interpreters/noop"
	"github.com/Comcast/sheens/sio"
	jyaml "github.com/jsccast/yaml"
	yaml2 "gopkg.in/yaml.v2"
)

func init() {
	components["compile"] = c13CompileComponent
	components["jsontext"] = c13JsonTextComponent
}

// ---- abstract documents ------------------------------------------------------

type c13CSource struct {
	Interp string `json:"interpreter"`
	Prog   *Prog  `json:"prog,omitempty"`
	Bad    bool   `json:"bad,omitempty"` // text the interpreter cannot compile
}

type c13CBranch struct {
	Null    bool        `json:"null,omitempty"`
	Pattern interface{} `json:"pattern"` // nil = no pattern
	Guard   *c13CSource `json:"guard,omitempty"`
	Target  string      `json:"target"`
}

type c13CNode struct {
	Null         bool          `json:"null,omitempty"`
	Action       *c13CSource   `json:"action,omitempty"`
	HasBranching bool          `json:"has_branching"`
	Type         string        `json:"type"`
	Branches     []*c13CBranch `json:"branches"`
}

type c13CDoc struct {
	Nodes         map[string]*c13CNode `json:"nodes"`
	ErrorNode     string               `json:"errorNode"`
	NoAutoError   bool                 `json:"noErrorNode"`
	ErrBranches   bool                 `json:"actionErrorBranches"`
	ActionErrNode string               `json:"actionErrorNode"`
	Boot          *c13CSource          `json:"boot,omitempty"`
	Toob          *c13CSource          `json:"toob,omitempty"`
	Defect        string               `json:"defect,omitempty"`
}

const c13BadSourceText = "return (1 +;"

func (s *c13CSource) text() string {
	if s.Bad {
		return c13BadSourceText
	}
	return s.Prog.JS()
}

func (s *c13CSource) coq() string {
	if s == nil {
		return "None"
	}
	src := "SBad"
	if !s.Bad {
		src = "(SProg " + s.Prog.coq() + ")"
	}
	return fmt.Sprintf("(Some (mk_asource %s %s))", coqString(s.Interp), src)
}

func (d *c13CDoc) nodeNames() []string {
	names := make([]string, 0, len(d.Nodes))
	for k := range d.Nodes {
		names = append(names, k)
	}
	sort.Strings(names)
	return names
}

// coq renders the abstract document (patterns inline, nothing compiled).
func (d *c13CDoc) coq() string {
	nodes := []string{}
	for _, name := range d.nodeNames() {
		n := d.Nodes[name]
		if n.Null {
			nodes = append(nodes, fmt.Sprintf("(%s, None)", coqString(name)))
			continue
		}
		branching := "None"
		if n.HasBranching {
			brs := []string{}
			for _, b := range n.Branches {
				if b.Null {
					brs = append(brs, "None")
					continue
				}
				brs = append(brs, fmt.Sprintf("(Some (mk_dbranch %s None %s %s))",
					mustCoqJSON(b.Pattern), b.Guard.coq(), coqString(b.Target)))
			}
			branching = fmt.Sprintf("(Some (mk_dbranching %s %s))", coqString(n.Type), coqList(brs))
		}
		nodes = append(nodes, fmt.Sprintf("(%s, Some (mk_dnode None %s %s))", coqString(name), n.Action.coq(), branching))
	}
	return fmt.Sprintf("(mk_adoc %s %s %s %s %s %s None %s None %s false)", coqList(nodes), coqString(""),
		coqString(d.ErrorNode), coqBool(d.NoAutoError), coqBool(d.ErrBranches), coqString(d.ActionErrNode),
		d.Boot.coq(), d.Toob.coq())
}

var c13KnownInterpNames = []string{"ecmascript", "ecmascript", "ecmascript", "ecmascript-5.1", "goja"}

func (g *G) c13Csource(a *Act) *c13CSource {
	if a == nil {
		return nil
	}
	p := a.P
	if p.Term == "loop" {
		// nothing timing dependent in this check
		q := *p
		q.Term = "throw"
		p = &q
	}
	// the action language's model of "gcount" (a counter kept on a built-in) is "1": true of one use per
	// execution, so a program keeps at most one
	seen := false
	var ops []Op
	for _, op := range p.Ops {
		if op.Kind == "gcount" {
			if seen {
				continue
			}
			seen = true
		}
		ops = append(ops, op)
	}
	if len(ops) != len(p.Ops) {
		q := *p
		q.Ops = ops
		p = &q
	}
	return &c13CSource{Interp: g.pick(c13KnownInterpNames), Prog: p}
}

// cdoc: an abstract document built on the specification generator shared
// with the step/walk components, every action and guard given as source.
func (g *G) c13Cdoc() *c13CDoc {
	as := g.aspec(nil)
	d := &c13CDoc{Nodes: map[string]*c13CNode{}, ErrBranches: as.ErrBranches, ActionErrNode: as.ErrNode,
		NoAutoError: as.NoAutoError}
	if g.chance(0.1) {
		d.ErrorNode = g.pick([]string{"error", "oops", "a"})
	}
	for name, nd := range as.Nodes {
		n := &c13CNode{Action: g.c13Csource(nd.Action), HasBranching: nd.HasBranches, Type: nd.Type}
		for _, b := range nd.Branches {
			br := &c13CBranch{Target: b.Target, Guard: g.c13Csource(b.Guard)}
			if b.HasPattern {
				br.Pattern = b.Pattern
			}
			if nd.Type == "message" && g.chance(0.3) {
				// bare strings, bare variables and the texts that D9 corrupted
				br.Pattern = g.c13BarePattern()
			}
			n.Branches = append(n.Branches, br)
		}
		d.Nodes[name] = n
	}
	if g.chance(0.08) {
		d.Boot = g.c13Csource(g.act(false))
	}
	if g.chance(0.05) {
		d.Toob = g.c13Csource(g.act(false))
	}
	return d
}

func (g *G) c13BarePattern() interface{} {
	switch g.intn(12) {
	case 0, 1, 2:
		return g.pick(plainVars)
	case 3, 4:
		return g.pick(vocabStrs)
	case 5:
		return g.pick([]string{"1", "true", "null", "2.5", "[1]", "{}"}) // strings that are themselves JSON texts
	case 6:
		return "?"
	case 7:
		return g.num()
	case 8:
		return g.chance(0.5)
	case 9:
		return []interface{}{g.pick(plainVars)}
	default:
		return g.pick(vocabStrs)
	}
}

// inject one defect that Compile has to reject (or, for a null node, accept)
func (g *G) c13Defect(d *c13CDoc) {
	names := d.nodeNames()
	name := names[g.intn(len(names))]
	n := d.Nodes[name]
	unknown := g.pick([]string{"lua", "js", "python", "Ecmascript"})
	switch g.intn(8) {
	case 0:
		d.Defect = "unknown-interpreter-action"
		n.Action = &c13CSource{Interp: unknown, Prog: &Prog{Term: "bindings"}}
		if n.Type == "message" {
			n.Type = "bindings"
		}
	case 1:
		d.Defect = "unknown-interpreter-guard"
		if !n.HasBranching {
			n.HasBranching, n.Type = true, "bindings"
		}
		n.Branches = append(n.Branches, &c13CBranch{Pattern: map[string]interface{}{"a": "?x"}, Target: name,
			Guard: &c13CSource{Interp: unknown, Prog: &Prog{Term: "bindings"}}})
	case 2:
		d.Defect = "unknown-interpreter-boot"
		d.Boot = &c13CSource{Interp: unknown, Prog: &Prog{Term: "bindings"}}
	case 3, 4:
		d.Defect = "unknown-branching-type"
		n.HasBranching = true
		n.Type = g.pick([]string{"msg", "Message", "binding", "messages", "any"})
	case 5:
		d.Defect = "bad-source"
		n.Action = &c13CSource{Interp: "ecmascript", Bad: true}
		if n.Type == "message" {
			n.Type = "bindings"
		}
	case 6:
		d.Defect = "null-branch"
		if !n.HasBranching {
			n.HasBranching, n.Type = true, "bindings"
		}
		n.Branches = append(n.Branches, &c13CBranch{Null: true})
	default:
		d.Defect = "null-node"
		d.Nodes[name] = &c13CNode{Null: true}
	}
}

// ---- renderings ------------------------------------------------------------------

// c13PatFn decides how the i-th pattern is written; ok=false means "leave the
// key out" (only for a nil pattern).
type c13PatFn func(i int, p interface{}) (interface{}, bool)

func c13InlinePat(i int, p interface{}) (interface{}, bool) {
	if p == nil {
		return nil, false
	}
	return deepCopy(p, nil), true
}

// spacedJSON: the JSON text of x with optional spaces where JSON allows them
func (g *G) c13SpacedJSON(x interface{}, loose bool) string {
	sp := func() string {
		if loose && g.chance(0.4) {
			return " "
		}
		return ""
	}
	var w func(x interface{}) string
	w = func(x interface{}) string {
		switch v := x.(type) {
		case []interface{}:
			parts := make([]string, len(v))
			for i, y := range v {
				parts[i] = sp() + w(y) + sp()
			}
			return "[" + sp() + strings.Join(parts, ",") + "]"
		case map[string]interface{}:
			ks := sortedKeys(v)
			if loose {
				g.r.Shuffle(len(ks), func(i, j int) { ks[i], ks[j] = ks[j], ks[i] })
			}
			parts := make([]string, len(ks))
			for i, k := range ks {
				parts[i] = sp() + c13PlainQuote(k) + sp() + ":" + sp() + w(v[k]) + sp()
			}
			return "{" + sp() + strings.Join(parts, ",") + "}"
		case string:
			return c13PlainQuote(v)
		default:
			return jsText(x)
		}
	}
	return sp() + w(x) + sp()
}

// c13PlainQuote: a string literal as a person writes it in a pattern text (json.Marshal would write "?<n" as
// "?\u003cn"; escapes are outside the text fragment of Model/JsonText.v)
func c13PlainQuote(s string) string {
	for i := 0; i < len(s); i++ {
		if s[i] < 32 || s[i] > 126 || s[i] == '"' || s[i] == '\\' {
			panic(fmt.Sprintf("string needs escaping: %q", s))
		}
	}
	return "\"" + s + "\""
}

func (g *G) c13TextPat(loose bool, nullText bool) c13PatFn {
	return func(i int, p interface{}) (interface{}, bool) {
		if p == nil && !nullText {
			return nil, false
		}
		return g.c13SpacedJSON(p, loose), true
	}
}

// mixed: strings must be text; everything else inline or text
func (g *G) c13MixedPat() c13PatFn {
	return func(i int, p interface{}) (interface{}, bool) {
		if p == nil {
			return nil, false
		}
		if _, is := p.(string); is || g.chance(0.5) {
			return g.c13SpacedJSON(p, true), true
		}
		return deepCopy(p, nil), true
	}
}

// c13GoNative: the pattern as a Go programmer writes it inline: whole numbers as int / int64 / float32, a list of
// strings as []string, a map of strings as map[string]string (Compile canonicalises all of them)
func c13GoNative(x interface{}, depth int) interface{} {
	switch v := x.(type) {
	case float64:
		if v == float64(int64(v)) {
			switch depth % 3 {
			case 0:
				return int(v)
			case 1:
				return int64(v)
			}
			return float32(v)
		}
		return v
	case []interface{}:
		allStr := len(v) > 0
		for _, y := range v {
			if _, is := y.(string); !is {
				allStr = false
			}
		}
		if allStr {
			acc := make([]string, len(v))
			for i, y := range v {
				acc[i] = y.(string)
			}
			return acc
		}
		acc := make([]interface{}, len(v))
		for i, y := range v {
			acc[i] = c13GoNative(y, depth+1)
		}
		return acc
	case map[string]interface{}:
		allStr := len(v) > 0
		for _, y := range v {
			if _, is := y.(string); !is {
				allStr = false
			}
		}
		if allStr {
			acc := make(map[string]string, len(v))
			for k, y := range v {
				acc[k] = y.(string)
			}
			return acc
		}
		acc := make(map[string]interface{}, len(v))
		for k, y := range v {
			acc[k] = c13GoNative(y, depth+1)
		}
		return acc
	}
	return x
}

// native inline: strings must be text under the json syntax; everything else inline with Go-native types
func (g *G) c13NativePat(stringsAsText bool) c13PatFn {
	return func(i int, p interface{}) (interface{}, bool) {
		if p == nil {
			return nil, false
		}
		if _, is := p.(string); is && stringsAsText {
			return g.c13SpacedJSON(p, true), true
		}
		return c13GoNative(deepCopy(p, nil), i), true
	}
}

func (s *c13CSource) goSource() *core.ActionSource {
	if s == nil {
		return nil
	}
	return &core.ActionSource{Interpreter: s.Interp, Source: s.text()}
}

// goSpec: the document as Go structures
func (d *c13CDoc) goSpec(syntax string, pat c13PatFn) *core.Spec {
	spec := &core.Spec{Name: "gen", Nodes: map[string]*core.Node{}, PatternSyntax: syntax,
		ErrorNode: d.ErrorNode, NoAutoErrorNode: d.NoAutoError, ActionErrorBranches: d.ErrBranches,
		ActionErrorNode: d.ActionErrNode, BootSource: d.Boot.goSource(), ToobSource: d.Toob.goSource()}
	i := 0
	for _, name := range d.nodeNames() {
		nd := d.Nodes[name]
		if nd.Null {
			spec.Nodes[name] = nil
			continue
		}
		n := &core.Node{ActionSource: nd.Action.goSource()}
		if nd.HasBranching {
			n.Branches = &core.Branches{Type: nd.Type}
			for _, b := range nd.Branches {
				if b.Null {
					n.Branches.Branches = append(n.Branches.Branches, nil)
					continue
				}
				br := &core.Branch{Target: b.Target, GuardSource: b.Guard.goSource()}
				if p, ok := pat(i, b.Pattern); ok {
					br.Pattern = p
				}
				i++
				n.Branches.Branches = append(n.Branches.Branches, br)
			}
		}
		spec.Nodes[name] = n
	}
	return spec
}

type c13KeyNames struct {
	errorNode, noAutoError, errBranches, actionErrNode, patternSyntax string
}

var (
	c13JsonKeys = c13KeyNames{"errorNode", "noErrorNode", "actionErrorBranches", "actionErrorNode", "patternSyntax"}
	c13YamlKeys = c13KeyNames{"errornode", "noautoerrornode", "actionerrorbranches", "actionerrornode", "patternsyntax"}
)

func (s *c13CSource) docMap() interface{} {
	return map[string]interface{}{"interpreter": s.Interp, "source": s.text()}
}

// docMap: the document as a generic map, to be serialised as JSON or YAML
func (d *c13CDoc) docMap(keys c13KeyNames, syntax string, pat c13PatFn) map[string]interface{} {
	m := map[string]interface{}{"name": "gen"}
	if syntax != "" {
		m[keys.patternSyntax] = syntax
	}
	if d.ErrorNode != "" {
		m[keys.errorNode] = d.ErrorNode
	}
	if d.NoAutoError {
		m[keys.noAutoError] = true
	}
	if d.ErrBranches {
		m[keys.errBranches] = true
	}
	if d.ActionErrNode != "" {
		m[keys.actionErrNode] = d.ActionErrNode
	}
	if d.Boot != nil {
		m["boot"] = d.Boot.docMap()
	}
	if d.Toob != nil {
		m["toob"] = d.Toob.docMap()
	}
	nodes := map[string]interface{}{}
	i := 0
	for _, name := range d.nodeNames() {
		nd := d.Nodes[name]
		if nd.Null {
			nodes[name] = nil
			continue
		}
		n := map[string]interface{}{}
		if nd.Action != nil {
			n["action"] = nd.Action.docMap()
		}
		if nd.HasBranching {
			bg := map[string]interface{}{}
			if nd.Type != "" {
				bg["type"] = nd.Type
			}
			brs := []interface{}{}
			for _, b := range nd.Branches {
				if b.Null {
					brs = append(brs, nil)
					continue
				}
				br := map[string]interface{}{}
				if b.Target != "" {
					br["target"] = b.Target
				}
				if b.Guard != nil {
					br["guard"] = b.Guard.docMap()
				}
				if p, ok := pat(i, b.Pattern); ok {
					br["pattern"] = p
				}
				i++
				brs = append(brs, br)
			}
			if len(brs) > 0 {
				bg["branches"] = brs
			}
			n["branching"] = bg
		}
		nodes[name] = n
	}
	m["nodes"] = nodes
	return m
}

// ---- observing a decoded Spec value ------------------------------------------------

func c13SpecNodeNames(spec *core.Spec) []string {
	names := make([]string, 0, len(spec.Nodes))
	for k := range spec.Nodes {
		names = append(names, k)
	}
	sort.Strings(names)
	return names
}

// c13NormDecoded: the decoded pattern as plain JSON data (numbers of any Go
// type are numbers; a Go string stays a string)
func c13NormDecoded(x interface{}) (interface{}, bool) {
	switch v := x.(type) {
	case nil, bool, string, float64:
		return v, true
	case int:
		return float64(v), true
	case int64:
		return float64(v), true
	case uint64:
		return float64(v), true
	case float32:
		return float64(v), true
	case []string:
		acc := make([]interface{}, len(v))
		for i, y := range v {
			acc[i] = y
		}
		return acc, true
	case map[string]string:
		acc := make(map[string]interface{}, len(v))
		for k, y := range v {
			acc[k] = y
		}
		return acc, true
	case []interface{}:
		acc := make([]interface{}, len(v))
		for i, y := range v {
			z, ok := c13NormDecoded(y)
			if !ok {
				return nil, false
			}
			acc[i] = z
		}
		return acc, true
	case map[string]interface{}:
		acc := make(map[string]interface{}, len(v))
		for k, y := range v {
			z, ok := c13NormDecoded(y)
			if !ok {
				return nil, false
			}
			acc[k] = z
		}
		return acc, true
	}
	return nil, false
}

func c13DecodedPatterns(spec *core.Spec) ([]interface{}, bool) {
	acc := []interface{}{}
	for _, name := range c13SpecNodeNames(spec) {
		n := spec.Nodes[name]
		if n == nil || n.Branches == nil {
			continue
		}
		for _, b := range n.Branches.Branches {
			if b == nil {
				continue
			}
			p, ok := c13NormDecoded(b.Pattern)
			if !ok {
				return nil, false
			}
			acc = append(acc, p)
		}
	}
	return acc, true
}

func c13SrcKey(s *core.ActionSource) string {
	if s == nil {
		return "-"
	}
	return fmt.Sprintf("%s|%v", s.Interpreter, s.Source)
}

// c13Skeleton: everything of a Spec value that is not a pattern or the syntax
func c13Skeleton(spec *core.Spec) string {
	var sb strings.Builder
	fmt.Fprintf(&sb, "en=%s;na=%v;eb=%v;aen=%s;boot=%s;toob=%s", spec.ErrorNode, spec.NoAutoErrorNode,
		spec.ActionErrorBranches, spec.ActionErrorNode, c13SrcKey(spec.BootSource), c13SrcKey(spec.ToobSource))
	for _, name := range c13SpecNodeNames(spec) {
		n := spec.Nodes[name]
		if n == nil {
			fmt.Fprintf(&sb, ";%s=null", name)
			continue
		}
		fmt.Fprintf(&sb, ";%s:act=%s", name, c13SrcKey(n.ActionSource))
		if n.Branches != nil {
			fmt.Fprintf(&sb, ":type=%s", n.Branches.Type)
			for _, b := range n.Branches.Branches {
				if b == nil {
					sb.WriteString(":null")
					continue
				}
				fmt.Fprintf(&sb, ":[%s>%s]", c13SrcKey(b.GuardSource), b.Target)
			}
		}
	}
	return sb.String()
}

// ---- compiling -------------------------------------------------------------------------

func c13CompileClass(spec *core.Spec, ints core.Interpreters, force bool) (cls string) {
	defer func() {
		if p := recover(); p != nil {
			cls = "GcPanic"
		}
	}()
	err := spec.Compile(context.Background(), ints, force)
	return c13ClassOfCompileErr(err)
}

func c13ClassOfCompileErr(err error) string {
	switch {
	case err == nil:
		return "GcOk"
	case errors.Is(err, core.InterpreterNotFound) || strings.Contains(err.Error(), core.InterpreterNotFound.Error()):
		return "GcInterp"
	}
	return "GcOther"
}

func c13InterpNames(m core.InterpretersMap) []string {
	names := make([]string, 0, len(m))
	for k := range m {
		names = append(names, k)
	}
	sort.Strings(names)
	return names
}

type c13CRun struct {
	State *AState       `json:"state"`
	Msgs  []interface{} `json:"messages"`
	Limit int           `json:"limit"`
}

type c13CVariant struct {
	Name     string        `json:"name"`
	Syntax   string        `json:"syntax"`
	Patterns []interface{} `json:"patterns"`
	Force    bool          `json:"force"`
	Skeleton bool          `json:"skeleton_ok"`
	Class    string        `json:"class"`
	Again    []string      `json:"again"`
	Reload   []string      `json:"reload"`
	Agree    []bool        `json:"agree"`
	Note     string        `json:"note,omitempty"`
	known    []string
}

type c13CompileCase struct {
	Doc      *c13CDoc       `json:"doc"`
	Syntaxes string         `json:"kind"`
	Runs     []*c13CRun     `json:"runs"`
	Variants []*c13CVariant `json:"variants"`
	Ref      []*walkObs     `json:"reference_walks"`
	Late     bool           `json:"late_error"`
}

type c13Loader struct {
	name  string
	force bool
	ints  core.InterpretersMap
	// load returns the decoded, not yet compiled Spec value; a nil spec with
	// a nil error means "this variant does not apply to this document"
	load func() (*core.Spec, error)
	// compile overrides Spec.Compile (sio's c13Loader compiles itself)
	compile func() (*core.Spec, error)
}

func c13ViaJSON(m map[string]interface{}) (*core.Spec, error) {
	js, err := json.Marshal(m)
	if err != nil {
		return nil, err
	}
	var spec core.Spec
	if err = json.Unmarshal(js, &spec); err != nil {
		return nil, err
	}
	return &spec, nil
}

func c13ViaJYAML(m map[string]interface{}) (*core.Spec, error) {
	ys, err := jyaml.Marshal(m)
	if err != nil {
		return nil, err
	}
	var spec core.Spec
	if err = jyaml.Unmarshal(ys, &spec); err != nil {
		return nil, err
	}
	return &spec, nil
}

// YAML is a superset of JSON: the JSON text of the document, flow style
func c13ViaJYAMLFlow(m map[string]interface{}) (*core.Spec, error) {
	js, err := json.Marshal(m)
	if err != nil {
		return nil, err
	}
	var spec core.Spec
	if err = jyaml.Unmarshal(js, &spec); err != nil {
		return nil, err
	}
	return &spec, nil
}

func c13ViaYAML2(m map[string]interface{}) (*core.Spec, error) {
	ys, err := yaml2.Marshal(m)
	if err != nil {
		return nil, err
	}
	var spec core.Spec
	if err = yaml2.Unmarshal(ys, &spec); err != nil {
		return nil, err
	}
	return &spec, nil
}

// c13HasMapPattern: gopkg.in/yaml.v2 decodes an inline map into
// map[interface{}]interface{}, which Canonicalize refuses (DESIGN section 4,
// "not a finding"): that c13Loader is only given documents it can represent
func c13HasMapPattern(x interface{}) bool {
	switch v := x.(type) {
	case map[string]interface{}:
		return true
	case []interface{}:
		for _, y := range v {
			if c13HasMapPattern(y) {
				return true
			}
		}
	}
	return false
}

func (d *c13CDoc) anyMapPattern() bool {
	for _, n := range d.Nodes {
		for _, b := range n.Branches {
			if !b.Null && c13HasMapPattern(b.Pattern) {
				return true
			}
		}
	}
	return false
}

func (d *c13CDoc) usesInterp(name string) bool {
	use := func(s *c13CSource) bool { return s != nil && s.Interp == name }
	if use(d.Boot) || use(d.Toob) {
		return true
	}
	for _, n := range d.Nodes {
		if use(n.Action) {
			return true
		}
		for _, b := range n.Branches {
			if !b.Null && use(b.Guard) {
				return true
			}
		}
	}
	return false
}

func (g *G) c13Loaders(d *c13CDoc, syntaxOverride string) []*c13Loader {
	std := stdints.Standard()
	none, empty, js := "none", "", "json"
	if syntaxOverride != "" {
		none, empty, js = syntaxOverride, syntaxOverride, syntaxOverride
	}
	ls := []*c13Loader{
		{name: "go-inline-none", force: true, ints: std, load: func() (*core.Spec, error) { return d.goSpec(none, c13InlinePat), nil }},
		{name: "go-inline-empty", force: true, ints: std, load: func() (*core.Spec, error) { return d.goSpec(empty, c13InlinePat), nil }},
		{name: "go-text", force: true, ints: std, load: func() (*core.Spec, error) { return d.goSpec(js, g.c13TextPat(false, true)), nil }},
		{name: "go-mixed", force: true, ints: std, load: func() (*core.Spec, error) { return d.goSpec(js, g.c13MixedPat()), nil }},
		{name: "go-native-none", force: true, ints: std, load: func() (*core.Spec, error) { return d.goSpec(none, g.c13NativePat(false)), nil }},
		{name: "go-native-json", force: true, ints: std, load: func() (*core.Spec, error) { return d.goSpec(js, g.c13NativePat(true)), nil }},
		{name: "go-inline-noforce", force: false, ints: std, load: func() (*core.Spec, error) { return d.goSpec(none, c13InlinePat), nil }},
		{name: "go-text-noforce", force: false, ints: std, load: func() (*core.Spec, error) { return d.goSpec(js, g.c13TextPat(true, false)), nil }},
		{name: "json-inline", force: true, ints: std, load: func() (*core.Spec, error) { return c13ViaJSON(d.docMap(c13JsonKeys, empty, c13InlinePat)) }},
		{name: "json-text", force: true, ints: std, load: func() (*core.Spec, error) { return c13ViaJSON(d.docMap(c13JsonKeys, js, g.c13TextPat(true, false))) }},
		{name: "yaml-inline", force: true, ints: std, load: func() (*core.Spec, error) { return c13ViaJYAML(d.docMap(c13YamlKeys, empty, c13InlinePat)) }},
		{name: "yaml-text", force: true, ints: std, load: func() (*core.Spec, error) { return c13ViaJYAML(d.docMap(c13YamlKeys, js, g.c13TextPat(true, false))) }},
		{name: "yaml-flow-mixed", force: true, ints: std, load: func() (*core.Spec, error) { return c13ViaJYAMLFlow(d.docMap(c13YamlKeys, js, g.c13MixedPat())) }},
		{name: "yaml2-text", force: true, ints: std, load: func() (*core.Spec, error) { return c13ViaYAML2(d.docMap(c13YamlKeys, js, g.c13TextPat(false, false))) }},
	}
	if !d.anyMapPattern() {
		ls = append(ls, &c13Loader{name: "yaml2-inline", force: true, ints: std,
			load: func() (*core.Spec, error) { return c13ViaYAML2(d.docMap(c13YamlKeys, none, c13InlinePat)) }})
	}
	// sio: ResolveSpecSource with an inline source (it marshals the source, unmarshals a crew.SpecSource
	// and compiles with sio.Interpreters, force on)
	{
		m := d.docMap(c13JsonKeys, js, g.c13MixedPat())
		ls = append(ls, &c13Loader{name: "sio-inline", force: true, ints: sio.Interpreters,
			load: func() (*core.Spec, error) {
				bs, err := json.Marshal(map[string]interface{}{"inline": m})
				if err != nil {
					return nil, err
				}
				var src crew.SpecSource
				if err = json.Unmarshal(bs, &src); err != nil {
					return nil, err
				}
				return src.Inline, nil
			},
			compile: func() (*core.Spec, error) {
				_, spec, err := sio.ResolveSpecSource(context.Background(), map[string]interface{}{"inline": m})
				return spec, err
			}})
	}
	// sio: ResolveSpecSource with a source given by URL (file://): the body is a JSON document (first byte '{') or a YAML one
	for _, asJSON := range []bool{true, false} {
		asJSON := asJSON
		name, keys := "sio-url-yaml", c13YamlKeys
		if asJSON {
			name, keys = "sio-url-json", c13JsonKeys
		}
		m := d.docMap(keys, js, g.c13TextPat(false, false))
		ls = append(ls, &c13Loader{name: name, force: true, ints: sio.Interpreters,
			load: func() (*core.Spec, error) {
				if asJSON {
					return c13ViaJSON(m)
				}
				return c13ViaYAML2(m)
			},
			compile: func() (*core.Spec, error) {
				var body []byte
				var err error
				if asJSON {
					body, err = json.Marshal(m)
				} else {
					body, err = yaml2.Marshal(m)
				}
				if err != nil {
					return nil, err
				}
				f, err := os.CreateTemp("", "vspec*.doc")
				if err != nil {
					return nil, err
				}
				defer os.Remove(f.Name())
				f.Write(body)
				f.Close()
				_, spec, err := sio.ResolveSpecSource(context.Background(), map[string]interface{}{"url": "file://" + f.Name()})
				return spec, err
			}})
	}
	// a dry run first: tools compile a specification with the no-op interpreters (tools.ReadAndRenderSpecPage does) before the
	// host compiles it for real; what the dry run built must not survive into the real compilation
	{
		spec := d.goSpec(none, c13InlinePat)
		ls = append(ls, &c13Loader{name: "go-inline-dryrun-first", force: true, ints: std,
			load: func() (*core.Spec, error) { return d.goSpec(none, c13InlinePat), nil },
			compile: func() (*core.Spec, error) {
				noopInts := noop.NewInterpreters()
				noopInts.I.Silent = true
				if err := spec.Compile(context.Background(), noopInts, true); err != nil {
					return nil, err
				}
				if err := spec.Compile(context.Background(), std, true); err != nil {
					return nil, err
				}
				return spec, nil
			}})
	}
	// sio again, the source handed over as a Go value (*crew.SpecSource) whose inline specification a tool has compiled with
	// the no-op interpreters before
	{
		inline := d.goSpec(none, c13InlinePat)
		ls = append(ls, &c13Loader{name: "sio-inline-gotyped-dryrun", force: true, ints: sio.Interpreters,
			load: func() (*core.Spec, error) { return d.goSpec(none, c13InlinePat), nil },
			compile: func() (*core.Spec, error) {
				noopInts := noop.NewInterpreters()
				noopInts.I.Silent = true
				inline.Compile(context.Background(), noopInts, true)
				_, spec, err := sio.ResolveSpecSource(context.Background(), &crew.SpecSource{Inline: inline})
				return spec, err
			}})
	}
	// a failed compilation first (the host did not know the interpreter yet), then the successful one, on the same Spec value:
	// what the failed attempt did to the value - patterns already parsed - must not be done again
	{
		spec := d.goSpec(js, g.c13TextPat(false, true))
		ls = append(ls, &c13Loader{name: "go-text-failed-first", force: true, ints: std,
			load: func() (*core.Spec, error) { return d.goSpec(js, g.c13TextPat(false, true)), nil },
			compile: func() (*core.Spec, error) {
				spec.Compile(context.Background(), core.InterpretersMap{}, true)
				if err := spec.Compile(context.Background(), std, true); err != nil {
					return nil, err
				}
				return spec, nil
			}})
	}
	// a compilation that fails at one pattern (its text is broken), the pattern is corrected in the same Spec value, and
	// the specification is compiled again: the patterns that were fine are what they were given as, parsed once
	{
		spec := d.goSpec(js, g.c13TextPat(false, true))
		ls = append(ls, &c13Loader{name: "go-text-broken-pattern-first", force: true, ints: std,
			load: func() (*core.Spec, error) { return d.goSpec(js, g.c13TextPat(false, true)), nil },
			compile: func() (*core.Spec, error) {
				if spec.Nodes == nil {
					if err := spec.Compile(context.Background(), std, true); err != nil {
						return nil, err
					}
					return spec, nil
				}
				// the broken pattern sits in the branch that comes last in every order: a node added for it, named to sort last
				spec.Nodes["zzz-added"] = &core.Node{Branches: &core.Branches{Type: "message", Branches: []*core.Branch{{Pattern: `{"broken`, Target: "zzz-added"}}}}
				for name, n := range spec.Nodes {
					if n != nil && n.Branches != nil && name != "zzz-added" {
						// ... and also as the last branch of an existing node, after that node's own patterns
						n.Branches.Branches = append(n.Branches.Branches, &core.Branch{Pattern: `["broken"`, Target: name})
						break
					}
				}
				if err := spec.Compile(context.Background(), std, true); err == nil {
					return nil, fmt.Errorf("a specification with a broken pattern text compiled")
				}
				delete(spec.Nodes, "zzz-added")
				for _, n := range spec.Nodes {
					if n != nil && n.Branches != nil {
						bs := n.Branches.Branches
						if k := len(bs); k > 0 && bs[k-1] != nil {
							if t, is := bs[k-1].Pattern.(string); is && t == `["broken"` {
								n.Branches.Branches = bs[:k-1]
							}
						}
					}
				}
				if err := spec.Compile(context.Background(), std, true); err != nil {
					return nil, err
				}
				return spec, nil
			}})
	}
	// hosts that know no interpreter, or only another one: compiled last, after the same sources compiled fine above
	// (an unknown interpreter is rejected whatever was compiled before)
	ls = append(ls,
		&c13Loader{name: "go-inline-noints", force: true, ints: core.InterpretersMap{},
			load: func() (*core.Spec, error) { return d.goSpec(none, c13InlinePat), nil }},
		&c13Loader{name: "json-inline-otherints", force: true, ints: core.InterpretersMap{"other-engine": std["ecmascript"]},
			load: func() (*core.Spec, error) { return c13ViaJSON(d.docMap(c13JsonKeys, empty, c13InlinePat)) }})
	return ls
}

func c13WalkKey(r *walkRun) string {
	if r == nil {
		return "none"
	}
	return r.Outcome + "|" + r.key()
}

// c13LateErrors: does a Step on the compiled specification report "not
// compiled" or "uncompiled action"?
func c13LateErrors(spec *core.Spec) (late bool) {
	defer func() {
		if p := recover(); p != nil {
			late = false
		}
	}()
	for name := range spec.Nodes {
		_, err := spec.Step(context.Background(), &core.State{NodeName: name, Bs: map[string]interface{}{}}, nil, nil, nil)
		switch errClass(err) {
		case "GNotCompiled", "GUncompiled":
			return true
		}
	}
	return false
}

func (c *c13CompileCase) walkAll(spec *core.Spec) []*walkRun {
	rs := make([]*walkRun, len(c.Runs))
	for i, r := range c.Runs {
		msgs := deepCopy(r.Msgs, nil)
		var ms []interface{}
		if msgs != nil {
			ms = msgs.([]interface{})
		}
		rs[i] = runWalk(spec, r.State.core(), ms, &core.Control{Limit: r.Limit}, nil, false)
	}
	return rs
}

// runCompileCase loads, compiles and walks every variant.
func (g *G) c13RunCompileCase(c *c13CompileCase, syntaxOverride string) (refs []*walkRun) {
	var refKeys []string
	agree := func(v *c13CVariant, spec *core.Spec) {
		rs := c.walkAll(spec)
		if refKeys == nil {
			refs = rs
			for _, r := range rs {
				refKeys = append(refKeys, c13WalkKey(r))
				c.Ref = append(c.Ref, r.W)
			}
		}
		ok := true
		for i, r := range rs {
			if c13WalkKey(r) != refKeys[i] {
				ok = false
			}
		}
		v.Agree = append(v.Agree, ok)
		if c13LateErrors(spec) {
			c.Late = true
		}
	}
	abstractSkeleton := c13Skeleton(c.Doc.goSpec("", c13InlinePat))
	for _, l := range g.c13Loaders(c.Doc, syntaxOverride) {
		spec, err := l.load()
		if err != nil || spec == nil {
			// the decoder itself refused the document: counted, not a variant
			continue
		}
		pats, ok := c13DecodedPatterns(spec)
		if !ok {
			continue
		}
		v := &c13CVariant{Name: l.name, Syntax: spec.PatternSyntax, Patterns: pats, Force: l.force,
			Skeleton: c13Skeleton(spec) == abstractSkeleton, known: c13InterpNames(l.ints),
			Again: []string{}, Reload: []string{}, Agree: []bool{}}
		c.Variants = append(c.Variants, v)
		if l.compile != nil {
			var cerr error
			func() {
				defer func() {
					if p := recover(); p != nil {
						cerr = errors.New("panic")
						v.Class = "GcPanic"
					}
				}()
				spec, cerr = l.compile()
			}()
			if v.Class == "" {
				v.Class = c13ClassOfCompileErr(cerr)
			}
		} else {
			v.Class = c13CompileClass(spec, l.ints, l.force)
		}
		if v.Class != "GcOk" || spec == nil {
			continue
		}
		agree(v, spec)
		// compile again, force off then on
		for _, force := range []bool{false, true} {
			cls := c13CompileClass(spec, l.ints, force)
			v.Again = append(v.Again, cls)
			if cls == "GcOk" {
				agree(v, spec)
			}
		}
		// serialise the compiled value, load it, compile it
		if js, err := json.Marshal(spec); err == nil {
			var s2 core.Spec
			if err = json.Unmarshal(js, &s2); err != nil {
				v.Reload = append(v.Reload, "GcOther")
				v.Note += " json-reload-decode:" + err.Error()
			} else {
				cls := c13CompileClass(&s2, l.ints, true)
				v.Reload = append(v.Reload, cls)
				if cls == "GcOk" {
					agree(v, &s2)
				}
			}
		} else {
			v.Reload = append(v.Reload, "GcOther")
			v.Note += " json-marshal:" + err.Error()
		}
		if ys, err := jyaml.Marshal(spec); err == nil {
			var s3 core.Spec
			if err = jyaml.Unmarshal(ys, &s3); err != nil {
				v.Reload = append(v.Reload, "GcOther")
				v.Note += " yaml-reload-decode:" + err.Error()
			} else {
				cls := c13CompileClass(&s3, l.ints, true)
				v.Reload = append(v.Reload, cls)
				if cls == "GcOk" {
					agree(v, &s3)
				}
			}
		} else {
			v.Reload = append(v.Reload, "GcOther")
			v.Note += " yaml-marshal:" + err.Error()
		}
	}
	return refs
}

func c13CoqBools(bs []bool) string {
	items := make([]string, len(bs))
	for i, b := range bs {
		items[i] = coqBool(b)
	}
	return coqList(items)
}

func c13CoqStrings(ss []string) string {
	items := make([]string, len(ss))
	for i, s := range ss {
		items[i] = coqString(s)
	}
	return coqList(items)
}

// c13CoqStringLit: a Gallina string literal written in place.  Pattern texts hardly ever repeat, so interning
// them (coqString defines every interned string at the top of every shard) would cost more than it saves.
func c13CoqStringLit(s string) string {
	for i := 0; i < len(s); i++ {
		if s[i] < 32 || s[i] > 126 {
			panic(fmt.Sprintf("non-printable string in generated case: %q", s))
		}
	}
	return "\"" + strings.ReplaceAll(s, "\"", "\"\"") + "\""
}

func (v *c13CVariant) coq() string {
	pats := make([]string, len(v.Patterns))
	for i, p := range v.Patterns {
		if s, is := p.(string); is && len(s) > 3 {
			pats[i] = "(js " + c13CoqStringLit(s) + ")"
		} else {
			pats[i] = mustCoqJSON(p)
		}
	}
	return fmt.Sprintf("(mk_cvariant %s %s %s %s %s %s %s %s %s %s)", coqString(v.Name), coqString(v.Syntax),
		coqList(pats), c13CoqStrings(v.known), coqBool(v.Force), coqBool(v.Skeleton), v.Class,
		coqList(v.Again), coqList(v.Reload), c13CoqBools(v.Agree))
}

func (c *c13CompileCase) coq(refs []*walkRun) string {
	vs := make([]string, len(c.Variants))
	for i, v := range c.Variants {
		vs[i] = v.coq()
	}
	runs := []string{}
	if refs != nil {
		for i, r := range c.Runs {
			gor, ok := refs[i].coq()
			if !ok {
				gor = "GWalkUnrep"
			}
			ms := make([]string, len(r.Msgs))
			for k, m := range r.Msgs {
				ms[k] = mustCoqJSON(m)
			}
			runs = append(runs, fmt.Sprintf("(mk_crun %s %s %d%%nat %s)", r.State.coq(), coqList(ms), r.Limit, gor))
		}
	}
	return fmt.Sprintf("(mk_ccase %s %s %s %s)", c.Doc.coq(), coqList(vs), coqList(runs), coqBool(c.Late))
}

// as an ASpec, for the state and message generators
func (d *c13CDoc) asASpec() *ASpec {
	as := &ASpec{Nodes: map[string]*ANode{}}
	for name, n := range d.Nodes {
		an := &ANode{HasBranches: n.HasBranching, Type: n.Type}
		for _, b := range n.Branches {
			if b.Null {
				continue
			}
			an.Branches = append(an.Branches, &ABranch{Pattern: b.Pattern, HasPattern: b.Pattern != nil, Target: b.Target})
		}
		as.Nodes[name] = an
	}
	return as
}

func (g *G) c13Cruns(d *c13CDoc) []*c13CRun {
	as := d.asASpec()
	runs := []*c13CRun{}
	for k := 0; k < 2; k++ {
		st := g.astate(as)
		var msgs []interface{}
		node := st.Node
		for n := g.intn(4); n > 0; n-- {
			msgs = append(msgs, g.messageFor(as, node))
			names := sortedKeys(nodesAsMap(as))
			node = names[g.intn(len(names))]
		}
		if msgs == nil {
			msgs = []interface{}{}
		}
		runs = append(runs, &c13CRun{State: st, Msgs: msgs, Limit: 1 + g.intn(8)})
	}
	return runs
}

func c13JsProg(ops []Op, term string) *c13CSource {
	return &c13CSource{Interp: "ecmascript", Prog: &Prog{Ops: ops, Term: term}}
}

// c13CompileCorpus: the D9 witnesses and the shapes the property names (bare
// strings, bare variables), as hand-written cases that always run first
func c13CompileCorpus() []*c13CompileCase {
	msgBranches := func(pats ...interface{}) []*c13CBranch {
		brs := []*c13CBranch{}
		for i, p := range pats {
			brs = append(brs, &c13CBranch{Pattern: p, Target: fmt.Sprintf("t%d", i%3)})
		}
		return brs
	}
	targets := func(d *c13CDoc) *c13CDoc {
		for _, t := range []string{"t0", "t1", "t2"} {
			d.Nodes[t] = &c13CNode{Action: c13JsProg([]Op{{Kind: "emit", J: map[string]interface{}{"at": t, "to": "nobody"}}}, "bindings"),
				HasBranching: true, Type: "bindings", Branches: []*c13CBranch{{Target: "start"}}}
		}
		return d
	}
	mk := func(msgs []interface{}, pats ...interface{}) *c13CompileCase {
		d := targets(&c13CDoc{Nodes: map[string]*c13CNode{"start": {HasBranching: true, Type: "message", Branches: msgBranches(pats...)}}})
		return &c13CompileCase{Doc: d, Runs: []*c13CRun{
			{State: &AState{Node: "start", Bs: map[string]interface{}{}}, Msgs: msgs, Limit: 8},
			{State: &AState{Node: "start", Bs: map[string]interface{}{"?x": "x"}}, Msgs: msgs, Limit: 3}}}
	}
	return []*c13CompileCase{
		// D9 (a): the pattern text "?x" (a bare variable) did not compile under patternSyntax json
		mk([]interface{}{"tacos", 1.0}, "?x"),
		// D9 (b): the string pattern "1" silently became the number 1; "true" the boolean; "null" no pattern at all
		mk([]interface{}{"1", 1.0, "true", true, "null", "x"}, "1", "true", "null"),
		// bare literals of every scalar shape
		mk([]interface{}{"x", 1.0, true, 2.5, "y"}, "x", 1.0, true),
		mk([]interface{}{2.5, -0.75, false}, 2.5, -0.75, false),
		// a string that is the text of an object / array
		mk([]interface{}{"{}", map[string]interface{}{}, "[1]", []interface{}{1.0}}, "{}", "[1]"),
		// README-style object patterns with variables, nested
		mk([]interface{}{map[string]interface{}{"a": 1.0, "b": map[string]interface{}{"c": "x"}}, map[string]interface{}{"likes": "tacos"}},
			map[string]interface{}{"a": "?x", "b": map[string]interface{}{"c": "?y"}}, map[string]interface{}{"likes": "?x"}),
		// arrays
		mk([]interface{}{[]interface{}{1.0, 2.0}, []interface{}{"x"}}, []interface{}{"?x"}, []interface{}{1.0, 2.0}),
		// guard and action error settings together with text patterns
		{Doc: targets(&c13CDoc{ErrBranches: true, ActionErrNode: "t2", Nodes: map[string]*c13CNode{
			"start": {HasBranching: true, Type: "message", Branches: []*c13CBranch{
				{Pattern: map[string]interface{}{"n": "?n"}, Target: "t0", Guard: c13JsProg(nil, "null")},
				{Pattern: map[string]interface{}{"n": "?n"}, Target: "work", Guard: c13JsProg(nil, "bindings")}}},
			"work": {Action: c13JsProg([]Op{{Kind: "emit", J: map[string]interface{}{"w": 1.0, "to": "nobody"}}}, "throw"),
				HasBranching: true, Type: "bindings", Branches: []*c13CBranch{
					{Pattern: map[string]interface{}{"actionError": "?e"}, Target: "t1"}, {Target: "t2"}}}}}),
			Runs: []*c13CRun{{State: &AState{Node: "start", Bs: map[string]interface{}{}}, Msgs: []interface{}{map[string]interface{}{"n": 1.0}}, Limit: 6}}},
	}
}

func c13CompileComponent(g *G, n int, opts map[string]string) *Out {
	o := newOut("Corr.CompileCorr", "ccase")
	var todo []*c13CompileCase
	if path := opts["replay"]; path != "" {
		var w struct {
			Cases []*c13CompileCase `json:"cases"`
		}
		loadJSON(path, &w)
		for _, c := range w.Cases {
			todo = append(todo, &c13CompileCase{Doc: c.Doc, Runs: c.Runs, Syntaxes: c.Syntaxes})
		}
	} else {
		todo = c13CompileCorpus()
		for len(todo) < n {
			d := g.c13Cdoc()
			c := &c13CompileCase{Doc: d}
			switch k := g.intn(100); {
			case k < 14:
				g.c13Defect(d)
			case k < 20:
				c.Syntaxes = g.pick([]string{"xml", "JSON", "yaml", "jsonish"})
			}
			c.Runs = g.c13Cruns(d)
			todo = append(todo, c)
		}
	}
	for _, c := range todo {
		refs := g.c13RunCompileCase(c, c.Syntaxes)
		term := c.coq(refs)
		compiled, rejected, text := 0, 0, false
		for _, v := range c.Variants {
			o.count("variant:" + v.Name)
			o.count("class:" + v.Class)
			if v.Class == "GcOk" {
				compiled++
				if v.Syntax == "json" {
					text = true
				}
			} else {
				rejected++
			}
			for _, cls := range append(append([]string{}, v.Again...), v.Reload...) {
				o.count("recompile:" + cls)
			}
			if !v.Skeleton {
				o.count("decoder-changed-document")
			}
			for _, a := range v.Agree {
				if !a {
					o.count("walk-differs")
				}
			}
		}
		if c.Doc.Defect != "" {
			o.count("defect:" + c.Doc.Defect)
		}
		if c.Syntaxes != "" {
			o.count("unknown-syntax-case")
		}
		moved := false
		for _, w := range c.Ref {
			if w == nil {
				continue
			}
			for _, sd := range w.Strides {
				if sd.To != nil {
					moved = true
				}
			}
		}
		if moved {
			o.count("reference-walk-moved")
		}
		if compiled > 0 && rejected > 0 {
			o.count("mixed-outcome")
		}
		o.add(term, canon(c.Doc)+canon(c.Runs)+c.Syntaxes, compiled >= 2 && text && moved, c)
	}
	o.Notes = append(o.Notes, "gopkg.in/yaml.v2 (sio URL sources) decodes an inline map pattern into map[interface{}]interface{}, "+
		"which Canonicalize refuses at compile time: that c13Loader is given inline patterns only when none contains a map")
	return o
}

// ---- jsontext ---------------------------------------------------------------------------

type c13JtCase struct {
	Text   string      `json:"text"`
	Go     interface{} `json:"go"`
	GoErr  bool        `json:"go_error"`
	Val    interface{} `json:"value"`
	GoText string      `json:"go_text"`
	Back   bool        `json:"go_roundtrip"`
}

func (g *G) c13CorruptText(s string) string {
	if len(s) == 0 {
		return "?"
	}
	i := g.intn(len(s))
	switch g.intn(6) {
	case 0:
		return s[:i] + s[i+1:] // drop a character
	case 1:
		return s[:i] + g.pick([]string{",", ":", "]", "}", "\"", "?", "x", "0", "1", ".", "-", " "}) + s[i:]
	case 2:
		return s[:i]
	case 3:
		return s + g.pick([]string{",", "]", "}", " 1", "x", " "})
	case 4:
		return g.pick([]string{"?x", "x", "tru", "nul", "01", "1.", "-", ".5", "[1,]", "{\"a\" 1}", "{\"a\":}", "{1:2}", "[", "", " ", "\"abc", "+1"})
	default:
		return g.pick([]string{"[", "{", " "}) + s
	}
}

func c13JsonTextComponent(g *G, n int, opts map[string]string) *Out {
	o := newOut("Corr.CompileCorr", "jtcase")
	var todo []*c13JtCase
	if path := opts["replay"]; path != "" {
		var w struct {
			Cases []*c13JtCase `json:"cases"`
		}
		loadJSON(path, &w)
		todo = w.Cases
	} else {
		for _, t := range []string{`"?x"`, `"\"x\""`, `"1"`, `1`, `?x`, `{"a":"?x"}`, `{"a":1,"a":2}`, ` [ 1 , 2.5 , -0.75 ] `,
			`{"b":{"c":[true,false,null]},"a":"tacos"}`, `100`, `-0`, `0.25`, `{}`, `[]`, `[[],{}]`, `{"":1}`, `""`} {
			todo = append(todo, &c13JtCase{Text: t, Val: map[string]interface{}{"likes": "?x", "n": []interface{}{1.0, 2.5}}})
		}
		if k := opts["enum"]; k != "" {
			// exhaustive small scope (thorough tier): every text over a small alphabet up to the given length
			max := 0
			fmt.Sscanf(k, "%d", &max)
			alphabet := []string{"[", "]", "{", "}", "\"", ":", ",", "1", "0", "-", ".", "5", " ", "a", "t"}
			var rec func(prefix string, left int)
			rec = func(prefix string, left int) {
				todo = append(todo, &c13JtCase{Text: prefix, Val: 1.0})
				n++
				if left == 0 {
					return
				}
				for _, a := range alphabet {
					rec(prefix+a, left-1)
				}
			}
			rec("", max)
		}
		for len(todo) < n {
			var v interface{}
			if g.chance(0.5) {
				v = g.pattern(3, newPctx())
			} else {
				v = g.value(3)
			}
			c := &c13JtCase{Val: g.value(3)}
			c.Text = g.c13SpacedJSON(v, g.chance(0.7))
			if g.chance(0.3) {
				c.Text = g.c13CorruptText(c.Text)
			}
			todo = append(todo, c)
		}
	}
	for _, c := range todo {
		var x interface{}
		err := json.Unmarshal([]byte(c.Text), &x)
		c.GoErr = err != nil
		gov := "None"
		if err == nil {
			c.Go = x
			s, ok := coqJSON(x)
			if !ok {
				// outside the model's fragment (a number that is not a multiple of 1/4): not a case
				o.count("skipped-outside-fragment")
				continue
			}
			gov = "(Some " + s + ")"
		}
		if strings.Contains(c.Text, "\\") {
			o.count("skipped-outside-fragment")
			continue
		}
		js, merr := json.Marshal(c.Val)
		if merr != nil {
			continue
		}
		c.GoText = string(js)
		if strings.Contains(c.GoText, "\\") {
			// the encoder escaped something (also <, > and &, which it writes as \u003c ...): outside this model's
			// fragment; the escape-aware model and the component jsonesc cover it
			o.count("skipped-outside-fragment")
			continue
		}
		var back interface{}
		c.Back = json.Unmarshal(js, &back) == nil && canon(back) == canon(c.Val)
		term := fmt.Sprintf("(mk_jtcase %s %s %s %s %s)", c13CoqStringLit(c.Text), gov, mustCoqJSON(c.Val), c13CoqStringLit(c.GoText), coqBool(c.Back))
		if c.GoErr {
			o.count("text:rejected")
		} else {
			o.count("text:accepted")
		}
		nontrivial := false
		switch x.(type) {
		case []interface{}, map[string]interface{}:
			nontrivial = true
		}
		o.add(term, c.Text+"|"+c.GoText, nontrivial, c)
	}
	return o
}
