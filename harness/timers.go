package main

// C17 (timers): scenario generator and renderer.
//
// The Go code under test lives in `package main` (cmd/mcrew) and behind
// unexported names (sio), so it is driven by overlay tests
// (harness/overlay/...), not by this binary.  This file provides the two
// halves around that run:
//
//   vharness timers_<impl> -opt phase=gen,file=F     writes the scenarios (corpus first, then generated
//                                                     from the one PRNG) as a JSON list to F
//   vharness timers_<impl> -opt phase=render,obs=F   reads the observation lines the overlay test wrote
//                                                     and renders cases_timers_<impl>_*.v, .jsonl, stats
//
// A scenario: at most 6 requests (add/rem) over the ids x and y with the
// delays 15 ms and 5 s, each placed in the main goroutine or inside the
// handler of an earlier short timer, with waits (until quiet / until exactly
// the due time) and, for sio, restarts in between.

import (
	"bufio"
	"encoding/json"
	"fmt"
	"os"
	"strconv"
	"strings"
)

type tOp struct {
	W  int    `json:"w"`
	A  string `json:"a"`
	Id int    `json:"id"`
	D  int64  `json:"d"`
}

type tScenario struct {
	N    int    `json:"n"`
	Kind string `json:"kind"`
	Glue bool   `json:"glue"`
	Ops  []tOp  `json:"ops"`
}

type tEvent struct {
	K   string `json:"k"`
	T   int64  `json:"t"`
	T1  int64  `json:"t1"`
	Id  int    `json:"id"`
	D   int64  `json:"d,omitempty"`
	Lbl int    `json:"lbl"`
	Ok  bool   `json:"ok"`
	In  int    `json:"in"`
	Ids []int  `json:"ids,omitempty"`
}

type tResult struct {
	N       int      `json:"n"`
	Kind    string   `json:"kind"`
	Impl    string   `json:"impl"`
	Glue    bool     `json:"glue"`
	Ops     []tOp    `json:"ops"`
	Events  []tEvent `json:"events"`
	Hang    bool     `json:"hang"`
	End     int64    `json:"end"`
	Grace   int64    `json:"grace"`
	Slow    bool     `json:"slow"`
	Rerun   bool     `json:"rerun"`
	Skipped bool     `json:"skipped,omitempty"`
	Races   int      `json:"races"`
	Race    string   `json:"race_report,omitempty"`
}

const (
	tShort = 15000   // 15 ms
	tLong  = 5000000 // 5 s
	// tEarly: a hand-over up to 100 us before request time + delay is not called early (Timers
	// compute the due time from the wall clock, the harness measures with the monotonic clock)
	tEarly = 100
)

func tAdd(w, id int, d int64) tOp { return tOp{W: w, A: "add", Id: id, D: d} }
func tRem(w, id int) tOp          { return tOp{W: w, A: "rem", Id: id} }
func tBad(w, id int) tOp          { return tOp{W: w, A: "bad", Id: id} }
func tDo(a string) tOp            { return tOp{W: -1, A: a} }
func tPause(w int) tOp            { return tOp{W: w, A: "pause"} }

// timersCorpus: the hand-written scenarios, the witnesses of D16/D17/D24 first.
func timersCorpus(impl string, reps int) []tScenario {
	x, y := 0, 1
	var c []tScenario
	add := func(kind string, ops ...tOp) { c = append(c, tScenario{Kind: "corpus:" + kind, Ops: ops}) }
	// D16: inside the handler the id must be free
	add("D16-id-free-in-handler", tAdd(-1, x, tShort), tAdd(0, x, tShort), tDo("sleep"))
	// D16: rem+add inside the handler; the re-created timer must stay cancellable / in the map
	add("D16-recreate-in-handler", tAdd(-1, x, tShort), tRem(0, x), tAdd(0, x, tShort), tDo("sleep"), tRem(-1, x))
	add("D16-recreate-long-then-cancel", tAdd(-1, x, tShort), tRem(0, x), tAdd(0, x, tLong), tDo("sleep"), tRem(-1, x), tRem(-1, x))
	add("D16-handler-recreates-cancellable", tAdd(-1, x, tShort), tAdd(0, x, tLong), tDo("sleep"), tRem(-1, x))
	// D16: a successful Rem at the due time
	add("D16-rem-at-due", tAdd(-1, x, tShort), tDo("waitdue"), tRem(-1, x), tDo("sleep"))
	// the existing tests
	add("TestTimersBasic", tAdd(-1, x, tShort), tAdd(-1, x, tShort), tDo("sleep"), tAdd(-1, y, tLong), tRem(-1, y), tRem(-1, y))
	add("TestTimersIdReuse", tAdd(-1, x, tShort), tDo("sleep"), tAdd(-1, x, tShort), tDo("sleep"))
	// D17: add on a pending id
	add("D17-add-on-pending", tAdd(-1, x, tShort), tAdd(-1, x, tShort), tDo("sleep"))
	add("D17-add-on-pending-long", tAdd(-1, x, tLong), tAdd(-1, x, tShort), tDo("sleep"), tRem(-1, x))
	// D24: a failed request must not wedge the timers machine
	add("D24-failed-cancel-then-others", tRem(-1, y), tAdd(-1, x, tShort), tRem(-1, x), tAdd(-1, y, tShort), tDo("sleep"))
	add("two-ids", tAdd(-1, x, tShort), tAdd(-1, y, tShort), tRem(1, x), tAdd(0, y, tLong), tDo("sleep"), tRem(-1, y))
	// two timers due together; the handler of whichever message is processed first cancels and
	// re-creates the other one, whose goroutine may already have taken timer.C: only the identity
	// check keeps the cancelled timer from firing and the new entry in the map (schedule-dependent,
	// hence repeated)
	for k := 0; k < reps; k++ {
		add("replace-while-due", tAdd(-1, x, tShort), tAdd(-1, y, tShort), tRem(1, x), tAdd(1, x, tLong),
			tRem(0, y), tAdd(0, y, tLong), tDo("sleep"))
	}
	// the same with slow handlers: while the first handler is busy the other timer comes due (sio: its
	// goroutine is then blocked handing its message to the crew loop), and is then cancelled and re-created
	for k := 0; k < 1+reps/4; k++ {
		add("replace-while-sending", tAdd(-1, x, tShort), tAdd(-1, y, tShort),
			tPause(1), tRem(1, x), tAdd(1, x, tLong), tPause(0), tRem(0, y), tAdd(0, y, tLong), tDo("sleep"))
	}
	if impl == "sio" {
		// a rejected request (unparsable delay) under the id of a pending timer changes nothing: the
		// timer stays pending and cancellable, fires once, and survives a restart
		add("rejected-request-on-pending", tAdd(-1, x, tLong), tBad(-1, x), tRem(-1, x))
		add("rejected-request-then-fire", tAdd(-1, x, tShort), tBad(-1, x), tDo("sleep"))
		add("rejected-request-in-handler", tAdd(-1, x, tShort), tAdd(-1, y, tLong), tBad(0, y), tDo("sleep"), tRem(-1, y))
		add("rejected-request-then-restart", tAdd(-1, x, tLong), tBad(-1, x), tDo("boot"), tRem(-1, x))
		add("rejected-request-free-id", tBad(-1, x), tAdd(-1, x, tShort), tDo("sleep"))
		add("restart-long", tAdd(-1, x, tLong), tDo("boot"), tRem(-1, x))
		add("restart-before-due", tAdd(-1, x, tShort), tDo("boot"), tDo("sleep"))
		add("restart-after-firing", tAdd(-1, x, tShort), tDo("sleep"), tDo("boot"), tDo("sleep"), tAdd(-1, x, tShort), tDo("sleep"))
		add("restart-after-cancel", tAdd(-1, x, tLong), tAdd(-1, y, tShort), tRem(-1, x), tDo("boot"), tDo("sleep"), tRem(-1, x))
		add("restart-after-handler-recreated", tAdd(-1, x, tShort), tAdd(0, x, tLong), tDo("sleep"), tDo("boot"), tRem(-1, x))
	}
	if impl == "mcrew" {
		n := len(c)
		for i := 0; i < n; i++ {
			g := c[i]
			g.Glue = true
			g.Kind += "+glue"
			c = append(c, g)
		}
	}
	return c
}

// timersGenerate: one random scenario.
func timersGenerate(g *G, impl string) tScenario {
	s := tScenario{Kind: "gen", Glue: impl == "mcrew" && g.chance(0.3)}
	nreq := 1 + g.intn(6)
	var shortAdds []int // indexes of short adds (their handlers can hold later requests)
	for k := 0; k < nreq; k++ {
		// waits and restarts between the requests of the main goroutine
		if k > 0 {
			switch r := g.intn(20); {
			case r < 4:
				s.Ops = append(s.Ops, tDo("sleep"))
			case r < 6:
				s.Ops = append(s.Ops, tDo("waitdue"))
			case r < 8 && impl == "sio":
				s.Ops = append(s.Ops, tDo("boot"))
			}
		}
		w := -1
		if len(shortAdds) > 0 && g.chance(0.45) {
			w = shortAdds[g.intn(len(shortAdds))]
		}
		if w >= 0 && g.chance(0.15) {
			s.Ops = append(s.Ops, tPause(w))
		}
		id := g.intn(2)
		if impl == "sio" && g.chance(0.12) {
			s.Ops = append(s.Ops, tBad(w, g.intn(2)))
		}
		if g.chance(0.6) {
			d := int64(tShort)
			if g.chance(0.3) {
				d = tLong
			}
			s.Ops = append(s.Ops, tAdd(w, id, d))
			if d == tShort {
				shortAdds = append(shortAdds, len(s.Ops)-1)
			}
		} else {
			s.Ops = append(s.Ops, tRem(w, id))
		}
	}
	if g.chance(0.3) {
		s.Ops = append(s.Ops, tDo("sleep"))
		if g.chance(0.5) {
			s.Ops = append(s.Ops, tRem(-1, g.intn(2)))
		}
	}
	return s
}

// timersEnumerate: every sequence of at most maxLen requests over the six request kinds
// (add x/y with short/long delay, rem x/y), each request after the first placed either in the main
// goroutine or inside the handler of the most recent earlier short timer, followed by a final wait.
func timersEnumerate(maxLen int) []tScenario {
	type kind struct {
		a  string
		id int
		d  int64
	}
	kinds := []kind{{"add", 0, tShort}, {"add", 0, tLong}, {"add", 1, tShort}, {"add", 1, tLong}, {"rem", 0, 0}, {"rem", 1, 0}}
	var out []tScenario
	var rec func(ops []tOp, lastShort int)
	rec = func(ops []tOp, lastShort int) {
		if len(ops) > 0 {
			scn := tScenario{Kind: "enum", Ops: append(append([]tOp(nil), ops...), tDo("sleep"))}
			out = append(out, scn)
		}
		if len(ops) >= maxLen {
			return
		}
		for _, k := range kinds {
			places := []int{-1}
			if lastShort >= 0 {
				places = append(places, lastShort)
			}
			for _, w := range places {
				op := tOp{W: w, A: k.a, Id: k.id, D: k.d}
				next := lastShort
				if k.a == "add" && k.d == tShort {
					next = len(ops)
				}
				rec(append(append([]tOp(nil), ops...), op), next)
			}
		}
	}
	rec(nil, -1)
	return out
}

func coqNatList(xs []int) string {
	items := make([]string, len(xs))
	for i, x := range xs {
		items[i] = strconv.Itoa(x) + "%nat"
	}
	return coqList(items)
}

// timersTrace renders the observed log as a list of visible labels.
//
// A request was begun at T and its result was in hand at T1; it took effect
// somewhere in between.  The model's clock is put at T1 before the request (so
// that everything that can have happened before the request took effect is
// enabled), and the delay is given relative to that clock such that the due
// time is T + D (minus tEarly): the earliest the implementation can have meant.  A snapshot
// is stamped after it was read, a hand-over when the handler was entered.
func timersTrace(evs []tEvent) string {
	var items []string
	for _, e := range evs {
		t1 := e.T1
		if t1 < e.T {
			t1 = e.T
		}
		switch e.K {
		case "add":
			items = append(items, fmt.Sprintf("VTick %s", coqZ(t1)),
				fmt.Sprintf("VAdd %d %d %s %s", e.Lbl, e.Id, coqZ(e.T+e.D-tEarly-t1), coqBool(e.Ok)))
		case "rem":
			items = append(items, fmt.Sprintf("VTick %s", coqZ(t1)), fmt.Sprintf("VRem %d %s", e.Id, coqBool(e.Ok)))
		case "fire":
			lbl := e.Lbl
			if lbl < 0 {
				lbl = 999
			}
			items = append(items, fmt.Sprintf("VTick %s", coqZ(e.T)), fmt.Sprintf("VReport %d", lbl))
		case "snap":
			items = append(items, fmt.Sprintf("VTick %s", coqZ(t1)), "VSnap "+coqNatList(e.Ids))
		case "boot":
			items = append(items, fmt.Sprintf("VTick %s", coqZ(e.T)), "VBoot")
		}
	}
	return coqList(items)
}

func timersComponent(impl string) component {
	return func(g *G, n int, opts map[string]string) *Out {
		o := newOut("Corr.TimersCorr", "tcase")
		switch opts["phase"] {
		case "gen":
			reps := 8
			if v, err := strconv.Atoi(opts["reps"]); err == nil && v >= 0 {
				reps = v
			}
			scns := timersCorpus(impl, reps)
			if rp := opts["replay"]; rp != "" {
				var payload struct {
					Cases []tResult `json:"cases"`
				}
				loadJSON(rp, &payload)
				scns = nil
				for _, c := range payload.Cases {
					if c.Impl == impl && len(c.Ops) > 0 {
						scns = append(scns, tScenario{Kind: "replay", Glue: c.Glue, Ops: c.Ops})
					}
				}
			} else {
				if v, err := strconv.Atoi(opts["enum"]); err == nil && v > 0 {
					scns = append(scns, timersEnumerate(v)...)
				}
				for i := 0; i < n; i++ {
					scns = append(scns, timersGenerate(g, impl))
				}
			}
			for i := range scns {
				scns[i].N = i
			}
			js, err := json.Marshal(scns)
			if err != nil {
				panic(err)
			}
			if err = os.WriteFile(opts["file"], js, 0644); err != nil {
				panic(err)
			}
			o.Notes = append(o.Notes, fmt.Sprintf("wrote %d scenarios", len(scns)))
			return o
		case "render":
		default:
			panic("timers component: phase=gen|render")
		}
		f, err := os.Open(opts["obs"])
		if err != nil {
			panic(err)
		}
		defer f.Close()
		coqImpl := map[string]string{"mcrew": "Mcrew", "sio": "Sio"}[impl]
		sc := bufio.NewScanner(f)
		sc.Buffer(make([]byte, 1<<20), 1<<26)
		for sc.Scan() {
			line := strings.TrimSpace(sc.Text())
			if line == "" {
				continue
			}
			var r tResult
			if err := json.Unmarshal([]byte(line), &r); err != nil {
				panic(fmt.Sprintf("bad observation line: %v", err))
			}
			if r.Skipped {
				o.count("skipped-after-three-hangs")
				continue
			}
			term := fmt.Sprintf("mk_tcase %s %s %s %s %s %d", coqImpl, timersTrace(r.Events), coqBool(r.Hang),
				coqZ(r.End), coqZ(r.Grace), r.Races)
			opsKey, _ := json.Marshal(r.Ops)
			key := fmt.Sprintf("%s/%v/%s", impl, r.Glue, opsKey)
			// non-trivial: a message was handed over and a request came after it
			fired, nontrivial := false, false
			nIn := 0
			for _, e := range r.Events {
				switch e.K {
				case "fire":
					fired = true
					o.count("event:fire")
				case "add", "rem":
					if fired {
						nontrivial = true
					}
					if e.In >= 0 {
						nIn++
						o.count("request:inside-handler")
					} else {
						o.count("request:main")
					}
					o.count(fmt.Sprintf("result:%s:%v", e.K, e.Ok))
				case "boot":
					o.count("event:boot")
				case "bad":
					o.count(fmt.Sprintf("rejected-request:stays-rejected:%v", !e.Ok))
				}
			}
			nreq := 0
			for _, op := range r.Ops {
				switch op.A {
				case "add", "rem":
					nreq++
				default:
					o.count("op:" + op.A)
				}
			}
			o.count(fmt.Sprintf("requests:%d", nreq))
			o.count("kind:" + strings.SplitN(r.Kind, ":", 2)[0])
			if r.Glue {
				o.count("via:toTimers")
			}
			if r.Hang {
				o.count("hang")
			}
			if r.Rerun {
				o.count("rerun-after-slow-wait")
			}
			if r.Races > 0 {
				o.count("race-reports")
			}
			o.add(term, key, nontrivial, r)
		}
		if err := sc.Err(); err != nil {
			panic(err)
		}
		return o
	}
}

func init() {
	components["timers_mcrew"] = timersComponent("mcrew")
	components["timers_sio"] = timersComponent("sio")
}
