package main

// Component "toolstext" (C20, text level): node names of any content
// (quotes, runs of backslashes, '#', '<', '>', '&', newlines, tabs, NUL,
// UTF-8, bytes that are not UTF-8, the empty name, names that look like
// escapes) are put into small specifications as a node name or as a branch
// target; tools.Dot and tools.Mermaid (exported API only) render them; the
// identifier / label text that was actually written for the name is cut out
// of the output and handed to Coq together with the name
// (Corr/ToolsTextCorr.v: mk_ttcase name dot mermaid), where it is compared
// with dot_id / mermaid_text of Model/ToolsText.v (M) and decided by the
// property oracle (V): the identifier reads back as the name and is one
// well-formed quoted string, no two names share an identifier.
//
// How the texts are cut out.  The specifications are so small that the
// output is one known frame around the unknown text:
//
//   position "node":   Nodes = {name: {}}                        (one node)
//   position "target": Nodes = {"start": {branches: [-> name]}}  (name is not a node)
//
// The frame is not written down here; it is calibrated by rendering the same
// specification with the reference name N0, whose identifier is the only
// occurrence of "N0" with quotes in the output.  For "node" in Graphviz:
//     P  "N0"  S1  N0  S2          (S1 = ` [shape=...label=<`, S2 = `> ]\n}\n`)
// and for a name the output must be P X S1 L S2 with two unknown texts: the
// identifier X and the label text L.  P and S2 are taken away from both
// ends; X ends and L begins at the first occurrence of S1 (names that
// contain ` [shape=` or `label=<` are not generated, so neither a correct
// nor a raw rendering of the name can contain S1).  When S1 is not there (the
// node "start" is drawn bold) X ends at the first ` [shape=` and L begins
// behind the first `label=<` after it.  No reading of X or L is involved.
// For "target" the identifier is written twice (placeholder statement, edge
// statement):  P X S1 L S2 arrow Y E.  Y stands between the last
// `  "start" -> ` and the calibrated tail E; X and L as before; X and Y are
// emitted as mk_ttcase, L as (mk_ttlabel name L).  Mermaid:
// `graph TB\n  n1("` T `")\n\n` and `...n2["` T `"]\n  style n2 ...`, T by
// taking away both ends.
//
// position "doc": Nodes = {"D": {doc: text}} (text of 1..40 bytes, so that Dot
// does not cut it); the frame is calibrated with the doc N0 and taken away
// from both ends; what is left is emitted as (mk_ttdoc text written).
//
// Mermaid ids: one specification start -> t1, ..., tK (K branches in order)
// declares K+1 nodes in a known order; the ids at the beginning of the node
// lines are emitted as (mk_ttnid k id).

import (
	"bytes"
	"encoding/hex"
	"encoding/json"
	"fmt"
	"io"
	"log"
	"os"
	"regexp"
	"strconv"
	"strings"

	"github.com/Comcast/sheens/core"
	"github.com/Comcast/sheens/tools"
)

func init() { components["toolstext"] = toolsTextComponent }

type ttSink struct{ bytes.Buffer }

func (s *ttSink) Close() error { return nil }

// ttCase is one observation (also the replay format: Position + NameHex).
type ttCase struct {
	Kind     string `json:"kind"`
	Position string `json:"position"`       // node | target | doc | nid
	What     string `json:"what,omitempty"` // "" (identifier and Mermaid text) | label | doc
	NameHex  string `json:"name_hex"`
	Name     string `json:"name_go"` // strconv.Quote, for the reader
	Dot      string `json:"dot_go,omitempty"`
	Mermaid  string `json:"mermaid_go,omitempty"`
	DotHex   string `json:"dot_hex,omitempty"`
	MerHex   string `json:"mermaid_hex,omitempty"`
	Num      int    `json:"num,omitempty"`
	Nid      string `json:"nid,omitempty"`
	Problem  string `json:"problem,omitempty"`
	DotText  string `json:"dot_text,omitempty"` // whole outputs, only when something could not be cut out
	MerText  string `json:"mermaid_text,omitempty"`
	Label    string `json:"label_go,omitempty"` // the text written inside label=<...> for the name / the doc
	LabelHex string `json:"label_hex,omitempty"`
}

// ttCoqString renders any byte string as a Gallina term: a literal when it
// is printable ASCII (quote doubled, Coq's only escape), otherwise the
// list of its bytes (sb of Corr/ToolsTextCorr.v), so that no control
// character, no byte >= 128 and no invalid UTF-8 ever stands in a .v file.
// The literals are written in place, not interned by coqString: interned
// definitions are repeated in every shard, and these strings are many.
func ttCoqString(s string) string {
	printable := true
	for i := 0; i < len(s); i++ {
		if s[i] < 32 || s[i] > 126 {
			printable = false
			break
		}
	}
	if printable {
		return `"` + strings.ReplaceAll(s, `"`, `""`) + `"`
	}
	parts := make([]string, len(s))
	for i := 0; i < len(s); i++ {
		parts[i] = strconv.Itoa(int(s[i]))
	}
	return "(sb [" + strings.Join(parts, "; ") + "])"
}

func ttSpec(position, name string) *core.Spec {
	switch position {
	case "node":
		return &core.Spec{Nodes: map[string]*core.Node{name: {}}}
	case "doc":
		return &core.Spec{Nodes: map[string]*core.Node{"D": {Doc: name}}}
	default:
		return &core.Spec{Nodes: map[string]*core.Node{
			"start": {Branches: &core.Branches{Branches: []*core.Branch{{Target: name}}}}}}
	}
}

// ttRender calls the two renderers under recover; "" + problem on panic/error.
func ttRender(spec *core.Spec, avoid string) (dot, mer, problem string) {
	run := func(what string, f func(w io.WriteCloser) error) (out string) {
		defer func() {
			if r := recover(); r != nil {
				problem += fmt.Sprintf("%s panic: %v; ", what, r)
				out = ""
			}
		}()
		var s ttSink
		if err := f(&s); err != nil {
			problem += fmt.Sprintf("%s error: %v; ", what, err)
			return ""
		}
		return s.String()
	}
	// the highlighting arguments name no node of the spec
	dot = run("Dot", func(w io.WriteCloser) error { return tools.Dot(spec, w, avoid, avoid) })
	mer = run("Mermaid", func(w io.WriteCloser) error { return tools.Mermaid(spec, w, nil, avoid, avoid) })
	return
}

const ttRef = "N0"
const ttShape = ` [shape=`

// ttFrame is the calibrated frame of one position.
type ttFrame struct {
	ok               bool
	dotP, dotS1      string // node / placeholder statement: P X S1 name S2
	dotS2            string
	dotArrow, dotE   string // target only: ... dotArrow Y dotE
	merP, merS       string
	problem          string
	dotWhole, merWho string
}

func split2(text, sep string) (a, b string, ok bool) {
	i := strings.Index(text, sep)
	if i < 0 || strings.Index(text[i+len(sep):], sep) >= 0 {
		return "", "", false
	}
	return text[:i], text[i+len(sep):], true
}

func ttCalibrate(position string) *ttFrame {
	f := &ttFrame{}
	dot, mer, problem := ttRender(ttSpec(position, ttRef), ttRef+"~")
	f.dotWhole, f.merWho, f.problem = dot, mer, problem
	if problem != "" {
		return f
	}
	q := `"` + ttRef + `"`
	switch position {
	case "doc":
		p, s, ok := split2(dot, ttRef)
		if !ok {
			f.problem = "calibration: the reference doc string does not occur exactly once in the Dot output"
			return f
		}
		f.dotP, f.dotS2 = p, s
		f.ok = true
		return f
	case "node":
		p, rest, ok := split2(dot, q)
		if !ok || !strings.HasPrefix(rest, ttShape) {
			f.problem = "calibration: Dot output has not exactly one quoted reference identifier followed by an attribute list"
			return f
		}
		s1, s2, ok := split2(rest, ttRef)
		if !ok {
			f.problem = "calibration: the reference name does not occur exactly once in the attribute list"
			return f
		}
		f.dotP, f.dotS1, f.dotS2 = p, s1, s2
	default:
		i := strings.Index(dot, q)
		j := strings.LastIndex(dot, q)
		if i < 0 || i == j || strings.Count(dot, q) != 2 {
			f.problem = "calibration: the target identifier is not written exactly twice"
			return f
		}
		f.dotP = dot[:i]
		mid := dot[i+len(q) : j] // S1 N0 S2' arrow
		f.dotE = dot[j+len(q):]
		if !strings.HasPrefix(mid, ttShape) {
			f.problem = "calibration: no attribute list behind the placeholder identifier"
			return f
		}
		s1, rest, ok := split2(mid, ttRef)
		if !ok {
			f.problem = "calibration: the reference name does not occur exactly once in the placeholder's attribute list"
			return f
		}
		k := strings.LastIndex(rest, "\n")
		if k < 0 {
			f.problem = "calibration: placeholder and edge statement on one line"
			return f
		}
		f.dotS1, f.dotS2, f.dotArrow = s1, rest[:k+1], rest[k+1:]
		if strings.TrimSpace(f.dotArrow) == "" {
			f.problem = "calibration: no edge statement head"
			return f
		}
	}
	mp, ms, ok := split2(mer, ttRef)
	if !ok {
		f.problem = "calibration: the reference name does not occur exactly once in the Mermaid output"
		return f
	}
	f.merP, f.merS = mp, ms
	f.ok = true
	return f
}

// cut takes prefix and suffix away.
func cut(text, prefix, suffix string) (string, bool) {
	if len(text) < len(prefix)+len(suffix) || !strings.HasPrefix(text, prefix) || !strings.HasSuffix(text, suffix) {
		return "", false
	}
	return text[len(prefix) : len(text)-len(suffix)], true
}

const ttFailed = "<not found in the output>"

const ttLabelAttr = "label=<"

// splitStmt takes a node statement X S1 L S2 apart.
func (f *ttFrame) splitStmt(stmt string, o *Out) (id, label string, ok bool) {
	body, ok := cut(stmt, "", f.dotS2)
	if !ok {
		return "", "", false
	}
	if i := strings.Index(body, f.dotS1); i >= 0 {
		o.count("dot: statement split at the calibrated attribute list")
		return body[:i], body[i+len(f.dotS1):], true
	}
	i := strings.Index(body, ttShape)
	if i < 0 {
		return "", "", false
	}
	j := strings.Index(body[i:], ttLabelAttr)
	if j < 0 {
		return "", "", false
	}
	o.count("dot: statement split at ` [shape=` and `label=<`")
	return body[:i], body[i+j+len(ttLabelAttr):], true
}

// observe renders the name in the position and cuts the texts out; the
// result is the identifier case(s) (node: one; target: placeholder and
// edge) and the label case.
func (f *ttFrame) observe(kind, position, name string, o *Out) []*ttCase {
	base := func() *ttCase {
		return &ttCase{Kind: kind, Position: position, NameHex: hex.EncodeToString([]byte(name)), Name: strconv.Quote(name)}
	}
	fail := func(problem, dot, mer string) []*ttCase {
		c := base()
		c.Problem, c.DotText, c.MerText = problem, dot, mer
		c.Dot, c.Mermaid = ttFailed, ttFailed
		return []*ttCase{c}
	}
	if !f.ok {
		return fail(f.problem, f.dotWhole, f.merWho)
	}
	dot, mer, problem := ttRender(ttSpec(position, name), name+"~")
	if problem != "" {
		return fail(problem, dot, mer)
	}
	if position == "doc" {
		d, ok := cut(dot, f.dotP, f.dotS2)
		if !ok {
			return fail("Dot output does not have the frame calibrated for a doc string", dot, mer)
		}
		c := base()
		c.What, c.Label, c.LabelHex = "doc", strconv.Quote(d), hex.EncodeToString([]byte(d))
		return []*ttCase{c}
	}
	t, ok := cut(mer, f.merP, f.merS)
	if !ok {
		return fail("Mermaid output does not have the calibrated frame", dot, mer)
	}
	var ids []string
	if !strings.HasPrefix(dot, f.dotP) {
		return fail("Dot output does not begin with the calibrated frame", dot, mer)
	}
	rest := dot[len(f.dotP):]
	var label string
	switch position {
	case "node":
		x, l, ok := f.splitStmt(rest, o)
		if !ok {
			return fail("the Dot node statement does not have the calibrated shape", dot, mer)
		}
		ids, label = append(ids, x), l
	default:
		body, ok := cut(rest, "", f.dotE)
		if !ok {
			return fail("Dot edge statement does not end as calibrated", dot, mer)
		}
		j := strings.LastIndex(body, f.dotArrow)
		if j < 0 {
			return fail("no edge statement head in the Dot output", dot, mer)
		}
		x, l, ok := f.splitStmt(body[:j], o)
		if !ok {
			return fail("the Dot placeholder statement does not have the calibrated shape", dot, mer)
		}
		ids, label = append(ids, x, body[j+len(f.dotArrow):]), l
	}
	var acc []*ttCase
	for _, id := range ids {
		c := base()
		c.Dot, c.Mermaid = strconv.Quote(id), strconv.Quote(t)
		c.DotHex, c.MerHex = hex.EncodeToString([]byte(id)), hex.EncodeToString([]byte(t))
		acc = append(acc, c)
	}
	c := base()
	c.What, c.Label, c.LabelHex = "label", strconv.Quote(label), hex.EncodeToString([]byte(label))
	return append(acc, c)
}

func (c *ttCase) term() string {
	if c.Position == "nid" {
		return fmt.Sprintf("(mk_ttnid %d %s)", c.Num, ttCoqString(c.Nid))
	}
	name, _ := hex.DecodeString(c.NameHex)
	if c.Problem != "" {
		if c.Position == "doc" {
			return fmt.Sprintf("(mk_ttdoc %s %s)", ttCoqString(string(name)), ttCoqString(ttFailed))
		}
		return fmt.Sprintf("(mk_ttcase %s %s %s)", ttCoqString(string(name)), ttCoqString(ttFailed), ttCoqString(ttFailed))
	}
	switch c.What {
	case "label", "doc":
		l, _ := hex.DecodeString(c.LabelHex)
		return fmt.Sprintf("(mk_tt%s %s %s)", c.What, ttCoqString(string(name)), ttCoqString(string(l)))
	}
	d, _ := hex.DecodeString(c.DotHex)
	m, _ := hex.DecodeString(c.MerHex)
	return fmt.Sprintf("(mk_ttcase %s %s %s)", ttCoqString(string(name)), ttCoqString(string(d)), ttCoqString(string(m)))
}

// ---------------------------------------------------------------------------
// names

var ttCorpus = []string{
	"", "a", "start", "N0", "two words", "test-1", "node", "42",
	`"`, `\`, `\\`, `\\\`, `\\\\`, `""`, `\"`, `"\`, `\\"`, `\"\`, `a\\`, `\\"b`, `a\`, `a\"`, `a"b`, `a\"b`, `a\\"b`, `a\\\"b`,
	`" -> "x`, `x" [color="red"] "y`, `"; evil [label="pwned"]; "`, `\" -> \"x`, `a\\" ]` + "\n}\n",
	"#", "##", "#35;", "#quot;", "#q", "#;", "a#b", `#"`, `"#`, "#35", "35;", "&quot;", "&#35;", "&", "&amp;", "#9829;",
	"&lt;", "&gt;", "&amp;amp;", "&lt", "&;", "&&", "<&>", "a&b<c>d", "&amp;lt;",
	"<", ">", "<>", "><", "<b>bold</b>", "a<b", "a>b", "</FONT>", "<BR/>", "> ]",
	"\n", "a\nb", "\r\n", "\t", "a\tb", "\x00", "a\x00b", "\x7f", "\x1b[31m", "\\\n", "\\n", `\n"`, "\"\n\"",
	"é", "日本語", "😀", " ", "\u00a0", "\u2028", "\ufeff", "\xff", "\xc3", "\xc3\x28", "a\x80b", "\xe2\x82", "\\\xc3\\", "\"\xff\"",
	"(", ")", "[", "]", "{", "}", "|", ";", ":", ",", "--", "-->", "-- x -->", "n1", "n1(\"x\")", "end", "graph TB", "style n1 fill:#f00",
	"'", "`", "%", "%%", "%s", "%d", "%!s(MISSING)", "$", "@from", "?x",
	strings.Repeat(`\`, 7), strings.Repeat(`"`, 7), strings.Repeat(`\"`, 5), strings.Repeat("#", 9), strings.Repeat("ab\"\\#", 40),
	"a\"\\\\\"#\n\t>\xc3\xa9\\", // the name of Example C20_text_demo
}

var ttFragments = []string{
	`"`, `"`, `\`, `\`, `\\`, `\"`, "#", "#", "#35;", "#quot;", ";", "35;", "quot;", "<", ">", "&", "<", ">", "&", "&quot;", "&amp;", "&lt;", "&gt;", "amp;", "lt;", "gt;", "\n", "\t", "\r", "\x00", " ",
	"a", "b", "n", "1", "é", "日", "😀", "\xff", "\xc3", "\x80", "'", "(", ")", "[", "]", "{", "}", "|", "-", "->", "=", "%", "start",
}

func (g *G) ttName() string {
	var sb strings.Builder
	switch g.intn(10) {
	case 0, 1: // arbitrary bytes
		n := 1 + g.intn(9)
		for i := 0; i < n; i++ {
			sb.WriteByte(byte(g.intn(256)))
		}
	case 2, 3: // only the escaped bytes
		n := 1 + g.intn(10)
		for i := 0; i < n; i++ {
			sb.WriteString(g.pick([]string{`\`, `"`, "#", `\`, `"`, ";", "a"}))
		}
	default:
		n := 1 + g.intn(8)
		for i := 0; i < n; i++ {
			sb.WriteString(g.pick(ttFragments))
		}
	}
	return sb.String()
}

// every string over the alphabet up to the length
func ttEnum(alphabet []string, maxLen int) []string {
	acc := []string{""}
	level := []string{""}
	for l := 1; l <= maxLen; l++ {
		var next []string
		for _, s := range level {
			for _, a := range alphabet {
				next = append(next, s+a)
			}
		}
		acc = append(acc, next...)
		level = next
	}
	return acc
}

// ---------------------------------------------------------------------------

var ttNidLine = regexp.MustCompile(`(?m)^  ([^ \n(\["]+)[(\[]"`)

func ttNidCases(k int) []*ttCase {
	bs := make([]*core.Branch, k)
	for i := range bs {
		bs[i] = &core.Branch{Target: fmt.Sprintf("t%d", i+1)}
	}
	spec := &core.Spec{Nodes: map[string]*core.Node{"start": {Branches: &core.Branches{Branches: bs}}}}
	_, mer, problem := ttRender(spec, "~")
	var acc []*ttCase
	ms := ttNidLine.FindAllStringSubmatch(mer, -1)
	if problem != "" || len(ms) != k+1 {
		acc = append(acc, &ttCase{Kind: "nids", Position: "nid", Num: 1, Nid: ttFailed,
			Problem: fmt.Sprintf("%s%d node lines for %d nodes", problem, len(ms), k+1), MerText: mer})
		return acc
	}
	for i, m := range ms {
		acc = append(acc, &ttCase{Kind: "nids", Position: "nid", Num: i + 1, Nid: m[1]})
	}
	return acc
}

func toolsTextComponent(g *G, n int, opts map[string]string) *Out {
	log.SetOutput(io.Discard)
	o := newOut("Corr.ToolsTextCorr", "ttcase")
	frames := map[string]*ttFrame{"node": ttCalibrate("node"), "target": ttCalibrate("target"), "doc": ttCalibrate("doc")}
	emit := func(c *ttCase) {
		o.count("position:" + c.Position)
		if c.What != "" {
			o.count("case:" + c.What)
		}
		name, _ := hex.DecodeString(c.NameHex)
		nontrivial := false
		if c.Position == "nid" {
			nontrivial = c.Num >= 10
		} else {
			nontrivial = strings.ContainsAny(string(name), "\"\\#")
			if c.What != "" {
				nontrivial = strings.ContainsAny(string(name), "&<>")
			}
			for what, on := range map[string]bool{
				"name with a quote": bytes.IndexByte(name, '"') >= 0, "name with a backslash": bytes.IndexByte(name, '\\') >= 0,
				"name with '#'": bytes.IndexByte(name, '#') >= 0, "name with '<' or '>'": bytes.ContainsAny(name, "<>"),
				"name with a control character": bytes.IndexFunc(name, func(r rune) bool { return r < 32 || r == 127 }) >= 0,
				"name with bytes >= 128":        bytes.IndexFunc(name, func(r rune) bool { return r >= 128 }) >= 0,
				"name with '&'":                 bytes.IndexByte(name, '&') >= 0,
				"empty name":                    len(name) == 0,
			} {
				if on {
					o.count(what)
				}
			}
		}
		if c.Problem != "" {
			o.count("not cut out: " + c.Problem)
			if os.Getenv("VERIF_DEBUG") != "" {
				fmt.Fprintln(os.Stderr, "toolstext:", c.Problem, c.Name)
			}
		}
		o.add(c.term(), c.Position+":"+c.What+":"+c.NameHex+":"+strconv.Itoa(c.Num), nontrivial, c)
	}
	name := func(kind, s string) {
		if strings.Contains(s, ttShape) || strings.Contains(s, `"start" -> `) || strings.Contains(s, ttLabelAttr) {
			o.count("skipped: name contains a frame delimiter")
			return
		}
		for _, c := range frames["node"].observe(kind, "node", s, o) {
			emit(c)
		}
		if 0 < len(s) && len(s) <= 40 { // Dot cuts longer doc strings at the first sentence
			for _, c := range frames["doc"].observe(kind, "doc", s, o) {
				emit(c)
			}
		}
		if s == "start" {
			return // as a target of start it is a node, not a placeholder
		}
		for _, c := range frames["target"].observe(kind, "target", s, o) {
			emit(c)
		}
	}
	if path := opts["replay"]; path != "" {
		js, err := os.ReadFile(path)
		must(err)
		var wrapper struct {
			Cases []*ttCase `json:"cases"`
		}
		must(json.Unmarshal(js, &wrapper))
		for _, c := range wrapper.Cases {
			if c == nil {
				continue
			}
			if c.Position == "nid" {
				for _, d := range ttNidCases(c.Num) {
					emit(d)
				}
				continue
			}
			s, err := hex.DecodeString(c.NameHex)
			must(err)
			if frames[c.Position] == nil {
				continue
			}
			for _, d := range frames[c.Position].observe("replay", c.Position, string(s), o) {
				emit(d)
			}
		}
		return o
	}
	if opts["nocorpus"] == "" {
		for _, s := range ttCorpus {
			name("corpus", s)
		}
		for _, c := range ttNidCases(120) {
			emit(c)
		}
		depth := 3
		if opts["enum"] != "" {
			depth, _ = strconv.Atoi(opts["enum"])
		}
		for _, s := range ttEnum([]string{`\`, `"`, "#", ";", "a"}, depth) {
			name("enumerated", s)
		}
		depth2 := depth
		if depth2 > 4 {
			depth2 = 4
		}
		for _, s := range ttEnum([]string{"&", "<", ">", ";", "a"}, depth2) {
			if strings.ContainsAny(s, "&<>") { // the others are in the first enumeration
				name("enumerated", s)
			}
		}
		o.count("exhaustive")
		o.Notes = append(o.Notes, fmt.Sprintf("exhaustive small scope included: every name over the bytes { \\ \" # ; a } up to length %d and "+
			"over { & < > ; a } up to length %d, as a node name, as a branch target and as a doc string", depth, depth2))
	}
	for i := 0; i < n; i++ {
		name("generated", g.ttName())
	}
	for _, f := range frames {
		if !f.ok {
			o.Notes = append(o.Notes, "calibration failed: "+f.problem)
		}
	}
	o.Notes = append(o.Notes, "non-trivial = the name holds a quote, a backslash or '#' (label and doc cases: '&', '<' or '>'), or the Mermaid id has two digits or more; "+
		"texts are cut out of the output of tools.Dot / tools.Mermaid by taking the calibrated frame away (harness/toolstext.go)")
	return o
}
