package main

// Component "toolstext" (C20, text level): node names of any content
// (quotes, runs of backslashes, '#', '<', '>', '&', newlines, tabs, NUL,
// UTF-8, bytes that are not UTF-8, the empty name, names that look like
// escapes) are put into small specifications as a node name or as a branch
// target; tools.Dot and tools.Mermaid (exported API only) render them; the
// identifier / label text that was actually written for the name is cut out
// of the output and handed to Coq together with the name
// (Corr/ToolsTextCorr.v: mk_ttcase name dot mermaid), where it is compared
// with dot_id / mermaid_text of Model/ToolsText.v (M) and decided by the
// property oracle (V): the identifier reads back as the name and is one
// well-formed quoted string, no two names share an identifier.
//
// How the texts are cut out.  The specifications are so small that the
// output is one known frame around the unknown text:
//
//   position "node":   Nodes = {name: {}}                        (one node)
//   position "target": Nodes = {"start": {branches: [-> name]}}  (name is not a node)
//
// The frame is not written down here; it is calibrated by rendering the same
// specification with the reference name N0, whose identifier is the only
// occurrence of "N0" with quotes in the output.  For "node" in Graphviz:
//     P  "N0"  S1  N0  S2          (S1 = ` [shape=...label=<`, S2 = `> ]\n}\n`)
// and for a name the output must be P X S1 name S2; X is what is left when
// P and S1+name+S2 are taken away from both ends - no reading of X is
// involved.  When the tail differs (the node "start" is drawn bold; a future
// Dot may escape the label) X is what stands between P and the first
// ` [shape=` (generated names never contain that).  For "target" the
// identifier is written twice (placeholder statement, edge statement):
//     A  X  B(name)  Y  E
// X is cut as before, Y between the last `  "start" -> ` and the calibrated
// tail E; both are emitted as cases.  Mermaid: `graph TB\n  n1("` T `")\n\n`
// and `...n2["` T `"]\n  style n2 ...`, T by taking away both ends.
//
// Mermaid ids: one specification start -> t1, ..., tK (K branches in order)
// declares K+1 nodes in a known order; the ids at the beginning of the node
// lines are emitted as (mk_ttnid k id).

import (
	"bytes"
	"encoding/hex"
	"encoding/json"
	"fmt"
	"io"
	"log"
	"os"
	"regexp"
	"strconv"
	"strings"

	"github.com/Comcast/sheens/core"
	"github.com/Comcast/sheens/tools"
)

func init() { components["toolstext"] = toolsTextComponent }

type ttSink struct{ bytes.Buffer }

func (s *ttSink) Close() error { return nil }

// ttCase is one observation (also the replay format: Position + NameHex).
type ttCase struct {
	Kind     string `json:"kind"`
	Position string `json:"position"` // node | target | nid
	NameHex  string `json:"name_hex"`
	Name     string `json:"name_go"` // strconv.Quote, for the reader
	Dot      string `json:"dot_go,omitempty"`
	Mermaid  string `json:"mermaid_go,omitempty"`
	DotHex   string `json:"dot_hex,omitempty"`
	MerHex   string `json:"mermaid_hex,omitempty"`
	Num      int    `json:"num,omitempty"`
	Nid      string `json:"nid,omitempty"`
	Problem  string `json:"problem,omitempty"`
	DotText  string `json:"dot_text,omitempty"` // whole outputs, only when something could not be cut out
	MerText  string `json:"mermaid_text,omitempty"`
	LabelRaw bool   `json:"dot_label_is_raw_name,omitempty"`
}

// ttCoqString renders any byte string as a Gallina term: a literal when it
// is printable ASCII (quote doubled, Coq's only escape), otherwise the
// list of its bytes (sb of Corr/ToolsTextCorr.v), so that no control
// character, no byte >= 128 and no invalid UTF-8 ever stands in a .v file.
// The literals are written in place, not interned by coqString: interned
// definitions are repeated in every shard, and these strings are many.
func ttCoqString(s string) string {
	printable := true
	for i := 0; i < len(s); i++ {
		if s[i] < 32 || s[i] > 126 {
			printable = false
			break
		}
	}
	if printable {
		return `"` + strings.ReplaceAll(s, `"`, `""`) + `"`
	}
	parts := make([]string, len(s))
	for i := 0; i < len(s); i++ {
		parts[i] = strconv.Itoa(int(s[i]))
	}
	return "(sb [" + strings.Join(parts, "; ") + "])"
}

func ttSpec(position, name string) *core.Spec {
	switch position {
	case "node":
		return &core.Spec{Nodes: map[string]*core.Node{name: {}}}
	default:
		return &core.Spec{Nodes: map[string]*core.Node{
			"start": {Branches: &core.Branches{Branches: []*core.Branch{{Target: name}}}}}}
	}
}

// ttRender calls the two renderers under recover; "" + problem on panic/error.
func ttRender(spec *core.Spec, avoid string) (dot, mer, problem string) {
	run := func(what string, f func(w io.WriteCloser) error) (out string) {
		defer func() {
			if r := recover(); r != nil {
				problem += fmt.Sprintf("%s panic: %v; ", what, r)
				out = ""
			}
		}()
		var s ttSink
		if err := f(&s); err != nil {
			problem += fmt.Sprintf("%s error: %v; ", what, err)
			return ""
		}
		return s.String()
	}
	// the highlighting arguments name no node of the spec
	dot = run("Dot", func(w io.WriteCloser) error { return tools.Dot(spec, w, avoid, avoid) })
	mer = run("Mermaid", func(w io.WriteCloser) error { return tools.Mermaid(spec, w, nil, avoid, avoid) })
	return
}

const ttRef = "N0"
const ttShape = ` [shape=`

// ttFrame is the calibrated frame of one position.
type ttFrame struct {
	ok               bool
	dotP, dotS1      string // node / placeholder statement: P X S1 name S2
	dotS2            string
	dotArrow, dotE   string // target only: ... dotArrow Y dotE
	merP, merS       string
	problem          string
	dotWhole, merWho string
}

func split2(text, sep string) (a, b string, ok bool) {
	i := strings.Index(text, sep)
	if i < 0 || strings.Index(text[i+len(sep):], sep) >= 0 {
		return "", "", false
	}
	return text[:i], text[i+len(sep):], true
}

func ttCalibrate(position string) *ttFrame {
	f := &ttFrame{}
	dot, mer, problem := ttRender(ttSpec(position, ttRef), ttRef+"~")
	f.dotWhole, f.merWho, f.problem = dot, mer, problem
	if problem != "" {
		return f
	}
	q := `"` + ttRef + `"`
	switch position {
	case "node":
		p, rest, ok := split2(dot, q)
		if !ok || !strings.HasPrefix(rest, ttShape) {
			f.problem = "calibration: Dot output has not exactly one quoted reference identifier followed by an attribute list"
			return f
		}
		s1, s2, ok := split2(rest, ttRef)
		if !ok {
			f.problem = "calibration: the reference name does not occur exactly once in the attribute list"
			return f
		}
		f.dotP, f.dotS1, f.dotS2 = p, s1, s2
	default:
		i := strings.Index(dot, q)
		j := strings.LastIndex(dot, q)
		if i < 0 || i == j || strings.Count(dot, q) != 2 {
			f.problem = "calibration: the target identifier is not written exactly twice"
			return f
		}
		f.dotP = dot[:i]
		mid := dot[i+len(q) : j] // S1 N0 S2' arrow
		f.dotE = dot[j+len(q):]
		if !strings.HasPrefix(mid, ttShape) {
			f.problem = "calibration: no attribute list behind the placeholder identifier"
			return f
		}
		s1, rest, ok := split2(mid, ttRef)
		if !ok {
			f.problem = "calibration: the reference name does not occur exactly once in the placeholder's attribute list"
			return f
		}
		k := strings.LastIndex(rest, "\n")
		if k < 0 {
			f.problem = "calibration: placeholder and edge statement on one line"
			return f
		}
		f.dotS1, f.dotS2, f.dotArrow = s1, rest[:k+1], rest[k+1:]
		if strings.TrimSpace(f.dotArrow) == "" {
			f.problem = "calibration: no edge statement head"
			return f
		}
	}
	mp, ms, ok := split2(mer, ttRef)
	if !ok {
		f.problem = "calibration: the reference name does not occur exactly once in the Mermaid output"
		return f
	}
	f.merP, f.merS = mp, ms
	f.ok = true
	return f
}

// cut takes prefix and suffix away.
func cut(text, prefix, suffix string) (string, bool) {
	if len(text) < len(prefix)+len(suffix) || !strings.HasPrefix(text, prefix) || !strings.HasSuffix(text, suffix) {
		return "", false
	}
	return text[len(prefix) : len(text)-len(suffix)], true
}

const ttFailed = "<not found in the output>"

// observe renders the name in the position and cuts the texts out; the
// result is one case (node) or two (target: placeholder and edge).
func (f *ttFrame) observe(kind, position, name string, o *Out) []*ttCase {
	base := func() *ttCase {
		return &ttCase{Kind: kind, Position: position, NameHex: hex.EncodeToString([]byte(name)), Name: strconv.Quote(name)}
	}
	fail := func(problem, dot, mer string) []*ttCase {
		c := base()
		c.Problem, c.DotText, c.MerText = problem, dot, mer
		c.Dot, c.Mermaid = ttFailed, ttFailed
		return []*ttCase{c}
	}
	if !f.ok {
		return fail(f.problem, f.dotWhole, f.merWho)
	}
	dot, mer, problem := ttRender(ttSpec(position, name), name+"~")
	if problem != "" {
		return fail(problem, dot, mer)
	}
	t, ok := cut(mer, f.merP, f.merS)
	if !ok {
		return fail("Mermaid output does not have the calibrated frame", dot, mer)
	}
	var ids []string
	if !strings.HasPrefix(dot, f.dotP) {
		return fail("Dot output does not begin with the calibrated frame", dot, mer)
	}
	rest := dot[len(f.dotP):]
	labelRaw := false
	switch position {
	case "node":
		if x, ok := cut(rest, "", f.dotS1+name+f.dotS2); ok {
			ids = append(ids, x)
			labelRaw = true
			o.count("dot: identifier cut by taking both ends away")
		} else if i := strings.Index(rest, ttShape); i >= 0 {
			ids = append(ids, rest[:i])
			o.count("dot: identifier cut at the attribute list")
		} else {
			return fail("no attribute list in the Dot node statement", dot, mer)
		}
	default:
		body, ok := cut(rest, "", f.dotE)
		if !ok {
			return fail("Dot edge statement does not end as calibrated", dot, mer)
		}
		j := strings.LastIndex(body, f.dotArrow)
		if j < 0 {
			return fail("no edge statement head in the Dot output", dot, mer)
		}
		y := body[j+len(f.dotArrow):]
		head := body[:j]
		if x, ok := cut(head, "", f.dotS1+name+f.dotS2); ok {
			ids = append(ids, x)
			labelRaw = true
			o.count("dot: identifier cut by taking both ends away")
		} else if i := strings.Index(head, ttShape); i >= 0 {
			ids = append(ids, head[:i])
			o.count("dot: identifier cut at the attribute list")
		} else {
			return fail("no attribute list in the Dot placeholder statement", dot, mer)
		}
		ids = append(ids, y)
	}
	var acc []*ttCase
	for _, id := range ids {
		c := base()
		c.Dot, c.Mermaid = strconv.Quote(id), strconv.Quote(t)
		c.DotHex, c.MerHex = hex.EncodeToString([]byte(id)), hex.EncodeToString([]byte(t))
		c.LabelRaw = labelRaw
		acc = append(acc, c)
	}
	return acc
}

func (c *ttCase) term() string {
	if c.Position == "nid" {
		return fmt.Sprintf("(mk_ttnid %d %s)", c.Num, ttCoqString(c.Nid))
	}
	name, _ := hex.DecodeString(c.NameHex)
	if c.Problem != "" {
		return fmt.Sprintf("(mk_ttcase %s %s %s)", ttCoqString(string(name)), ttCoqString(ttFailed), ttCoqString(ttFailed))
	}
	d, _ := hex.DecodeString(c.DotHex)
	m, _ := hex.DecodeString(c.MerHex)
	return fmt.Sprintf("(mk_ttcase %s %s %s)", ttCoqString(string(name)), ttCoqString(string(d)), ttCoqString(string(m)))
}

// ---------------------------------------------------------------------------
// names

var ttCorpus = []string{
	"", "a", "start", "N0", "two words", "test-1", "node", "42",
	`"`, `\`, `\\`, `\\\`, `\\\\`, `""`, `\"`, `"\`, `\\"`, `\"\`, `a\\`, `\\"b`, `a\`, `a\"`, `a"b`, `a\"b`, `a\\"b`, `a\\\"b`,
	`" -> "x`, `x" [color="red"] "y`, `"; evil [label="pwned"]; "`, `\" -> \"x`, `a\\" ]` + "\n}\n",
	"#", "##", "#35;", "#quot;", "#q", "#;", "a#b", `#"`, `"#`, "#35", "35;", "&quot;", "&#35;", "&", "&amp;", "#9829;",
	"<", ">", "<>", "><", "<b>bold</b>", "a<b", "a>b", "</FONT>", "<BR/>", "> ]",
	"\n", "a\nb", "\r\n", "\t", "a\tb", "\x00", "a\x00b", "\x7f", "\x1b[31m", "\\\n", "\\n", `\n"`, "\"\n\"",
	"é", "日本語", "😀", " ", "\u00a0", "\u2028", "\ufeff", "\xff", "\xc3", "\xc3\x28", "a\x80b", "\xe2\x82", "\\\xc3\\", "\"\xff\"",
	"(", ")", "[", "]", "{", "}", "|", ";", ":", ",", "--", "-->", "-- x -->", "n1", "n1(\"x\")", "end", "graph TB", "style n1 fill:#f00",
	"'", "`", "%", "%%", "%s", "%d", "%!s(MISSING)", "$", "@from", "?x",
	strings.Repeat(`\`, 7), strings.Repeat(`"`, 7), strings.Repeat(`\"`, 5), strings.Repeat("#", 9), strings.Repeat("ab\"\\#", 40),
	"a\"\\\\\"#\n\t>\xc3\xa9\\", // the name of Example C20_text_demo
}

var ttFragments = []string{
	`"`, `"`, `\`, `\`, `\\`, `\"`, "#", "#", "#35;", "#quot;", ";", "35;", "quot;", "<", ">", "&", "&quot;", "\n", "\t", "\r", "\x00", " ",
	"a", "b", "n", "1", "é", "日", "😀", "\xff", "\xc3", "\x80", "'", "(", ")", "[", "]", "{", "}", "|", "-", "->", "=", "%", "start",
}

func (g *G) ttName() string {
	var sb strings.Builder
	switch g.intn(10) {
	case 0, 1: // arbitrary bytes
		n := 1 + g.intn(9)
		for i := 0; i < n; i++ {
			sb.WriteByte(byte(g.intn(256)))
		}
	case 2, 3: // only the escaped bytes
		n := 1 + g.intn(10)
		for i := 0; i < n; i++ {
			sb.WriteString(g.pick([]string{`\`, `"`, "#", `\`, `"`, ";", "a"}))
		}
	default:
		n := 1 + g.intn(8)
		for i := 0; i < n; i++ {
			sb.WriteString(g.pick(ttFragments))
		}
	}
	return sb.String()
}

// every string over the alphabet up to the length
func ttEnum(alphabet []string, maxLen int) []string {
	acc := []string{""}
	level := []string{""}
	for l := 1; l <= maxLen; l++ {
		var next []string
		for _, s := range level {
			for _, a := range alphabet {
				next = append(next, s+a)
			}
		}
		acc = append(acc, next...)
		level = next
	}
	return acc
}

// ---------------------------------------------------------------------------

var ttNidLine = regexp.MustCompile(`(?m)^  ([^ \n(\["]+)[(\[]"`)

func ttNidCases(k int) []*ttCase {
	bs := make([]*core.Branch, k)
	for i := range bs {
		bs[i] = &core.Branch{Target: fmt.Sprintf("t%d", i+1)}
	}
	spec := &core.Spec{Nodes: map[string]*core.Node{"start": {Branches: &core.Branches{Branches: bs}}}}
	_, mer, problem := ttRender(spec, "~")
	var acc []*ttCase
	ms := ttNidLine.FindAllStringSubmatch(mer, -1)
	if problem != "" || len(ms) != k+1 {
		acc = append(acc, &ttCase{Kind: "nids", Position: "nid", Num: 1, Nid: ttFailed,
			Problem: fmt.Sprintf("%s%d node lines for %d nodes", problem, len(ms), k+1), MerText: mer})
		return acc
	}
	for i, m := range ms {
		acc = append(acc, &ttCase{Kind: "nids", Position: "nid", Num: i + 1, Nid: m[1]})
	}
	return acc
}

func toolsTextComponent(g *G, n int, opts map[string]string) *Out {
	log.SetOutput(io.Discard)
	o := newOut("Corr.ToolsTextCorr", "ttcase")
	frames := map[string]*ttFrame{"node": ttCalibrate("node"), "target": ttCalibrate("target")}
	emit := func(c *ttCase) {
		o.count("position:" + c.Position)
		name, _ := hex.DecodeString(c.NameHex)
		nontrivial := false
		if c.Position == "nid" {
			nontrivial = c.Num >= 10
		} else {
			nontrivial = strings.ContainsAny(string(name), "\"\\#")
			for what, on := range map[string]bool{
				"name with a quote": bytes.IndexByte(name, '"') >= 0, "name with a backslash": bytes.IndexByte(name, '\\') >= 0,
				"name with '#'": bytes.IndexByte(name, '#') >= 0, "name with '<' or '>'": bytes.ContainsAny(name, "<>"),
				"name with a control character": bytes.IndexFunc(name, func(r rune) bool { return r < 32 || r == 127 }) >= 0,
				"name with bytes >= 128":        bytes.IndexFunc(name, func(r rune) bool { return r >= 128 }) >= 0,
				"empty name":                    len(name) == 0,
				"dot label is the raw name":     c.LabelRaw,
			} {
				if on {
					o.count(what)
				}
			}
		}
		if c.Problem != "" {
			o.count("not cut out: " + c.Problem)
			if os.Getenv("VERIF_DEBUG") != "" {
				fmt.Fprintln(os.Stderr, "toolstext:", c.Problem, c.Name)
			}
		}
		o.add(c.term(), c.Position+":"+c.NameHex+":"+strconv.Itoa(c.Num), nontrivial, c)
	}
	name := func(kind, s string) {
		if strings.Contains(s, ttShape) || strings.Contains(s, `"start" -> `) {
			o.count("skipped: name contains a frame delimiter")
			return
		}
		for _, c := range frames["node"].observe(kind, "node", s, o) {
			emit(c)
		}
		if s == "start" {
			return // as a target of start it is a node, not a placeholder
		}
		for _, c := range frames["target"].observe(kind, "target", s, o) {
			emit(c)
		}
	}
	if path := opts["replay"]; path != "" {
		js, err := os.ReadFile(path)
		must(err)
		var wrapper struct {
			Cases []*ttCase `json:"cases"`
		}
		must(json.Unmarshal(js, &wrapper))
		for _, c := range wrapper.Cases {
			if c == nil {
				continue
			}
			if c.Position == "nid" {
				for _, d := range ttNidCases(c.Num) {
					emit(d)
				}
				continue
			}
			s, err := hex.DecodeString(c.NameHex)
			must(err)
			for _, d := range frames[c.Position].observe("replay", c.Position, string(s), o) {
				emit(d)
			}
		}
		return o
	}
	if opts["nocorpus"] == "" {
		for _, s := range ttCorpus {
			name("corpus", s)
		}
		for _, c := range ttNidCases(120) {
			emit(c)
		}
		depth := 3
		if opts["enum"] != "" {
			depth, _ = strconv.Atoi(opts["enum"])
		}
		for _, s := range ttEnum([]string{`\`, `"`, "#", ";", "a"}, depth) {
			name("enumerated", s)
		}
		o.count("exhaustive")
		o.Notes = append(o.Notes, fmt.Sprintf("exhaustive small scope included: every name over the bytes { \\ \" # ; a } up to length %d, "+
			"as a node name and as a branch target", depth))
	}
	for i := 0; i < n; i++ {
		name("generated", g.ttName())
	}
	for _, f := range frames {
		if !f.ok {
			o.Notes = append(o.Notes, "calibration failed: "+f.problem)
		}
	}
	o.Notes = append(o.Notes, "non-trivial = the name holds a quote, a backslash or '#', or the Mermaid id has two digits or more; "+
		"texts are cut out of the output of tools.Dot / tools.Mermaid by taking the calibrated frame away (harness/toolstext.go)")
	return o
}
