package main

import (
	"reflect"
	"testing"
)

// The Graphviz and Mermaid readers of the "tools" component are part of the
// trusted base of C20; these tests pin what they accept and what they reject.

func TestParseDot(t *testing.T) {
	good := "digraph G {\n" +
		"  graph [ordering=out]\n  node [shape=\"record\" style=\"rounded,filled\"]\n  edge [fontsize = \"12\"]\n" +
		"  rankdir = TB;\n  // a comment\n" +
		"  \"start\" [shape=\"note\", label=<start<BR/>x &lt; 1 ]\n more> ]\n" +
		"  \"say \\\"hi\\\"\" [label=<x>];\n" +
		"  plain_1 -> \"two words\" [ color=\"black\" label = <1/2 {}> ]\n" +
		"  subgraph cluster_a {\n    42\n    \"node\" -> -7.5\n  }\n" +
		"}\n\n"
	items, err := parseDot(good)
	if err != nil {
		t.Fatal(err)
	}
	want := []tItem{{Node: "start"}, {Node: `say "hi"`}, {Edge: true, From: "plain_1", To: "two words"}, {Node: "42"}, {Edge: true, From: "node", To: "-7.5"}}
	if !reflect.DeepEqual(items, want) {
		t.Fatalf("got %#v", items)
	}
	for _, bad := range []string{
		"digraph G {\n  test-1 [label=<x> ]\n}\n",       // not an identifier
		"digraph G {\n  two words [label=<x> ]\n}\n",    // two identifiers
		"digraph G {\n  @from [label=<x> ]\n}\n",        // not an identifier
		"digraph G {\n   [label=<x> ]\n}\n",             // empty name unquoted
		"digraph G {\n  a -> node [label=<x> ]\n}\n",    // keyword as an edge end
		"digraph G {\n  \"a\\\" [label=<x> ]\n}\n",      // the quote is escaped: unterminated
		"digraph G {\n  a [label=<x> ]\n",               // no closing brace
		"graph TB\n  a\n",                               // not a digraph
		"digraph G {\n  a [label=<x>\n}\n",              // unterminated attribute list
		"digraph G {\n  a -> [label=<x> ]\n}\n",         // missing edge end
		"digraph G {\n  a [label=<x> ]\n}\n  b [x=y]\n", // text after the end
	} {
		if items, err := parseDot(bad); err == nil {
			t.Errorf("accepted %q as %v", bad, items)
		}
	}
	// a name that is a keyword declares no node when unquoted
	items, err = parseDot("digraph G {\n  node [shape=\"record\", label=<node> ]\n  \"node\" [label=<x> ]\n}\n")
	if err != nil || len(items) != 1 || items[0].Node != "node" {
		t.Fatalf("keyword handling: %v %v", items, err)
	}
	// an unquoted arrow inside a name is an edge
	items, _ = parseDot("digraph G {\n  a -> b [shape=\"record\", label=<a -> b> ]\n}\n")
	if len(items) != 1 || !items[0].Edge {
		t.Fatalf("arrow handling: %v", items)
	}
}

func TestParseMermaid(t *testing.T) {
	good := "graph TB\n" +
		"  n1(\"start\")\n  n2[\"say #quot;hi#quot; a#35;b\"]\n  style n2 fill:#bcf2db\n" +
		"  n1  --> n2\n  n2 -- \"<pre>{\n  'a': 'x --\\u003e n9'\n}</pre>\" --> n1\n" +
		"  %% comment\n  n3([\"round\"]);\n  n3 -->|\"lbl\"| n1\n\n"
	stmts, err := parseMermaid(good)
	if err != nil {
		t.Fatal(err)
	}
	want := []mStmt{{ID: 1, Name: "start"}, {ID: 2, Name: `say "hi" a#b`, Boxed: true}, {Edge: true, From: 1, To: 2},
		{Edge: true, From: 2, To: 1}, {ID: 3, Name: "round"}, {Edge: true, From: 3, To: 1}}
	if !reflect.DeepEqual(stmts, want) {
		t.Fatalf("got %#v", stmts)
	}
	for _, bad := range []string{
		"graph TB\n  n1(\"say \"hi\"\")\n",          // a quote ends the label
		"graph TB\n  n1(\"x\"]\n",                   // brackets do not match
		"graph TB\n  n1 -- \"<pre>x</pre> --> n2\n", // unterminated label
		"graph TB\n  n1 --> \n",
		"digraph G {\n}\n",
		"graph TB\n  something else\n",
	} {
		if stmts, err := parseMermaid(bad); err == nil {
			t.Errorf("accepted %q as %v", bad, stmts)
		}
	}
}
