package main

// Component "jsonesc" (C13): encoding/json against the escape-aware text
// model coq/Model/JsonTextEsc.v (print_esc / parse_esc); Coq side
// coq/Corr/JsonEscCorr.v.  The cases have the format of the component
// jsontext (mk_jtcase): a text handed to json.Unmarshal and what came back, a
// value handed to json.Marshal, the text that came back and whether
// json.Unmarshal gave the value back from it.
//
// What is generated:
//   - a hand-written corpus: every escape the decoder knows (\" \\ \/ \b \f
//     \n \r \t \uXXXX in lower, upper and mixed case), escapes it refuses,
//     truncated escapes, raw control characters, DEL, escapes in keys, keys
//     that become equal once decoded;
//   - exhaustively, for every byte b of 0..127: the string made of b alone
//     (and b between two letters) through json.Marshal; the texts "\u00XX"
//     in lower and in upper case, "\b" (a backslash followed by the byte) and
//     the byte raw between quotes through json.Unmarshal;
//   - generated values whose strings and keys mix quotes, backslashes,
//     control characters, '<', '>', '&', DEL, '/', plain words and (a small
//     share) well-formed non-ASCII UTF-8; generated texts of such values in
//     which every character is written in one of the ways the decoder accepts
//     (raw, short escape, \u escape of either case), with optional white
//     space (blank, tab, newline, carriage return), 25% of them corrupted.
//
// Not handed over (outside the fragment of the model, counted as
// skipped-outside-fragment): texts with a \u escape of 0x80 and above, texts
// and values that are not UTF-8 or contain U+2028 / U+2029, numbers that are
// not multiples of 1/4.

import (
	"encoding/json"
	"fmt"
	"reflect"
	"runtime"
	"strconv"
	"strings"
	"unicode/utf8"
)

func init() {
	components["jsonesc"] = c13JsonEscComponent
}

type jeCase struct {
	Kind   string      `json:"kind"`
	Text   string      `json:"text"`
	Go     interface{} `json:"go"`
	GoErr  bool        `json:"go_error"`
	Val    interface{} `json:"value"`
	GoText string      `json:"go_text"`
	Back   bool        `json:"go_roundtrip"`
}

// ---- Gallina rendering of byte strings -------------------------------------------------

func jePrintable(b byte) bool { return b >= 32 && b <= 126 }

func jeCoqLit(s string) string {
	return "\"" + strings.ReplaceAll(s, "\"", "\"\"") + "\""
}

// jeCoqString: printable runs as literals, the other bytes by their codes (zs, sc of Corr/JsonEscCorr.v)
func jeCoqString(s string) string {
	all := true
	for i := 0; i < len(s); i++ {
		if !jePrintable(s[i]) {
			all = false
			break
		}
	}
	if all {
		return jeCoqLit(s)
	}
	var segs []string
	for i := 0; i < len(s); {
		j := i
		if jePrintable(s[i]) {
			for j < len(s) && jePrintable(s[j]) {
				j++
			}
			segs = append(segs, jeCoqLit(s[i:j]))
		} else {
			var ns []string
			for j < len(s) && !jePrintable(s[j]) {
				ns = append(ns, strconv.Itoa(int(s[j])))
				j++
			}
			segs = append(segs, "(zs ["+strings.Join(ns, "; ")+"])")
		}
		i = j
	}
	return "(sc [" + strings.Join(segs, "; ") + "])"
}

func jeCoqJSON(sb *strings.Builder, x interface{}) bool {
	switch v := x.(type) {
	case nil:
		sb.WriteString("jnull")
	case bool:
		if v {
			sb.WriteString("jt")
		} else {
			sb.WriteString("jf")
		}
	case float64:
		q, ok := quarters(v)
		if !ok {
			return false
		}
		sb.WriteString("(jn " + coqZ(q) + ")")
	case string:
		sb.WriteString("(js " + jeCoqString(v) + ")")
	case []interface{}:
		sb.WriteString("(ja [")
		for i, y := range v {
			if i > 0 {
				sb.WriteString("; ")
			}
			if !jeCoqJSON(sb, y) {
				return false
			}
		}
		sb.WriteString("])")
	case map[string]interface{}:
		sb.WriteString("(jo [")
		for i, k := range sortedKeys(v) {
			if i > 0 {
				sb.WriteString("; ")
			}
			sb.WriteString("(" + jeCoqString(k) + ", ")
			if !jeCoqJSON(sb, v[k]) {
				return false
			}
			sb.WriteString(")")
		}
		sb.WriteString("])")
	default:
		return false
	}
	return true
}

// ---- the fragment -----------------------------------------------------------------------

func jeBadUTF8(s string) bool {
	return !utf8.ValidString(s) || strings.ContainsRune(s, 0x2028) || strings.ContainsRune(s, 0x2029)
}

func jeHex(b byte) (int, bool) {
	switch {
	case b >= '0' && b <= '9':
		return int(b - '0'), true
	case b >= 'a' && b <= 'f':
		return int(b-'a') + 10, true
	case b >= 'A' && b <= 'F':
		return int(b-'A') + 10, true
	}
	return 0, false
}

// jeTextOutside: the text has a \u escape of 0x80 and above (backslashes read in pairs from the left, as a
// scanner inside a string literal does), or is not UTF-8
func jeTextOutside(t string) bool {
	if jeBadUTF8(t) {
		return true
	}
	for i := 0; i < len(t); i++ {
		if t[i] != '\\' {
			continue
		}
		if i+6 <= len(t) && t[i+1] == 'u' {
			n, ok := 0, true
			for k := i + 2; k < i+6; k++ {
				h, is := jeHex(t[k])
				if !is {
					ok = false
					break
				}
				n = n*16 + h
			}
			if ok && n >= 0x80 {
				return true
			}
		}
		i++ // the escaped character
	}
	return false
}

func jeValueOutside(x interface{}) bool {
	switch v := x.(type) {
	case string:
		return jeBadUTF8(v)
	case []interface{}:
		for _, y := range v {
			if jeValueOutside(y) {
				return true
			}
		}
	case map[string]interface{}:
		for k, y := range v {
			if jeBadUTF8(k) || jeValueOutside(y) {
				return true
			}
		}
	}
	return false
}

// ---- generators -------------------------------------------------------------------------

var jeSpecials = []string{"\"", "\\", "\n", "\r", "\t", "\b", "\f", "<", ">", "&", "\x00", "\x01", "\x0b", "\x1b",
	"\x1f", "\x7f", "/", "'", " ", "\\n", "\\\"", "\\u0041", "</script>", "a&b", "?x", "u", "\"\"", "\\\\"}
var jeWords = []string{"tacos", "chips", "likes", "?x", "??opt", "a", "b", "x y", "Homer", "{\"a\":1}", "[1,2]", "1", "true", "null", ""}
var jeNonASCII = []string{"\u00e9", "\u00df", "\u65e5\u672c", "\u20ac", "\U0001F600", "\u0080", "\u07ff"}

func (g *G) jeString(nonascii bool) string {
	n := g.intn(5)
	if g.chance(0.15) {
		n += g.intn(8)
	}
	var sb strings.Builder
	for i := 0; i < n; i++ {
		switch p := g.r.Float64(); {
		case p < 0.45:
			sb.WriteString(g.pick(jeSpecials))
		case p < 0.75:
			sb.WriteString(g.pick(jeWords))
		case p < 0.95 || !nonascii:
			sb.WriteByte(byte(g.intn(128)))
		default:
			sb.WriteString(g.pick(jeNonASCII))
		}
	}
	return sb.String()
}

func (g *G) jeValue(depth int, nonascii bool) interface{} {
	if depth <= 0 || g.chance(0.45) {
		switch g.intn(10) {
		case 0:
			return nil
		case 1:
			return g.chance(0.5)
		case 2, 3:
			return g.num()
		default:
			return g.jeString(nonascii)
		}
	}
	n := g.intn(4)
	if g.chance(0.5) {
		m := map[string]interface{}{}
		for i := 0; i < n; i++ {
			k := g.pick(vocabKeys)
			if g.chance(0.6) {
				k = g.jeString(nonascii)
			}
			m[k] = g.jeValue(depth-1, nonascii)
		}
		return m
	}
	a := make([]interface{}, 0, n)
	for i := 0; i < n; i++ {
		a = append(a, g.jeValue(depth-1, nonascii))
	}
	return a
}

var jeShort = map[byte]string{'"': "\\\"", '\\': "\\\\", '/': "\\/", '\b': "\\b", '\f': "\\f", '\n': "\\n", '\r': "\\r", '\t': "\\t"}

func (g *G) jeU(b byte) string {
	switch g.intn(3) {
	case 0:
		return fmt.Sprintf("\\u%04x", b)
	case 1:
		return fmt.Sprintf("\\u%04X", b)
	default:
		return fmt.Sprintf("\\u00%X%x", b>>4, b&15)
	}
}

// jeQuote: a string literal in which every byte is written in one of the ways the decoder accepts
func (g *G) jeQuote(s string) string {
	var sb strings.Builder
	sb.WriteByte('"')
	for i := 0; i < len(s); i++ {
		b := s[i]
		short, hasShort := jeShort[b]
		switch {
		case b >= 0x80:
			sb.WriteByte(b)
		case b == '"' || b == '\\' || b < 0x20:
			if hasShort && g.chance(0.6) {
				sb.WriteString(short)
			} else {
				sb.WriteString(g.jeU(b))
			}
		case b == '/':
			switch g.intn(3) {
			case 0:
				sb.WriteString(short)
			case 1:
				sb.WriteString(g.jeU(b))
			default:
				sb.WriteByte(b)
			}
		default:
			if g.chance(0.12) {
				sb.WriteString(g.jeU(b))
			} else {
				sb.WriteByte(b)
			}
		}
	}
	sb.WriteByte('"')
	return sb.String()
}

func (g *G) jeText(x interface{}, loose bool) string {
	sp := func() string {
		if loose && g.chance(0.35) {
			return g.pick([]string{" ", " ", "\n", "\t", "\r", "  ", "\r\n"})
		}
		return ""
	}
	var w func(x interface{}) string
	w = func(x interface{}) string {
		switch v := x.(type) {
		case []interface{}:
			parts := make([]string, len(v))
			for i, y := range v {
				parts[i] = sp() + w(y) + sp()
			}
			return "[" + sp() + strings.Join(parts, ",") + "]"
		case map[string]interface{}:
			ks := sortedKeys(v)
			if loose {
				g.r.Shuffle(len(ks), func(i, j int) { ks[i], ks[j] = ks[j], ks[i] })
			}
			parts := make([]string, len(ks))
			for i, k := range ks {
				parts[i] = sp() + g.jeQuote(k) + sp() + ":" + sp() + w(v[k]) + sp()
			}
			return "{" + sp() + strings.Join(parts, ",") + "}"
		case string:
			return g.jeQuote(v)
		default:
			return jsText(x)
		}
	}
	return sp() + w(x) + sp()
}

func (g *G) jeCorrupt(s string) string {
	if len(s) == 0 || g.chance(0.35) {
		return g.c13CorruptText(s)
	}
	i := g.intn(len(s))
	switch g.intn(7) {
	case 0:
		return s[:i] + "\\" + s[i:] // a backslash before whatever stands there
	case 1:
		return s[:i] + g.pick([]string{"\x00", "\x01", "\n", "\t", "\x1f", "\x7f", "\r", "\b"}) + s[i:] // a raw byte
	case 2:
		return s[:i] + g.pick([]string{"\\x", "\\'", "\\a", "\\v", "\\0", "\\U0041", "\\u", "\\u12", "\\u00g0", "\\u 041", "\\N", "\\B"}) + s[i:]
	case 3:
		return s[:i] + g.pick([]string{"\\/", "\\b", "\\f", "\\n", "\\r", "\\t", "\\\"", "\\\\", "\\u0041", "\\u007F", "\\u0000", "\\u003c"}) + s[i:]
	case 4:
		if j := strings.Index(s[i:], "\\u"); j >= 0 { // cut a \u escape short
			return s[:i+j+2+g.intn(4)] + "\""
		}
		return s[:i]
	case 5:
		if j := strings.Index(s[i:], "\\"); j >= 0 && i+j+1 < len(s) { // another character after a backslash
			return s[:i+j+1] + g.pick([]string{"x", "U", "N", "q", "0", " ", "u"}) + s[i+j+2:]
		}
		return s[:i] + "\"" + s[i:]
	default:
		return s[:i] + "\"" + s[i:]
	}
}

func jeCorpus() []string {
	return []string{
		"\"\\/\"", "\"\\b\\f\\n\\r\\t\"", "\"\\\"\\\\\"", "\"\\u0041\"", "\"\\u004a\\u004A\"", "\"\\u003c\\u003E\\u0026\"",
		"\"\\u0000\"", "\"\\u007f\"", "\"\\u007F\"", "\"\\u001f\\u001F\"", "\"a\\/b\"", "\"a/b\"", "\"</script>\"",
		"\"\\u0022\"", "\"\\u005c\"", "\"\\u005C\\u005cn\"", "\"\\\\n\"", "\"\\\\u0041\"", "\"\\\\\\u0041\"",
		"\"\x7f\"", "\"a\x7fb\"", "\"'\"", "\"\\'\"", "\"\\x41\"", "\"\\a\"", "\"\\v\"", "\"\\0\"", "\"\\U0041\"", "\"\\u\"",
		"\"\\u0\"", "\"\\u00\"", "\"\\u004\"", "\"\\u004g\"", "\"\\u00 41\"", "\"\\\"", "\"\\", "\"abc\\", "\"\\u0041",
		"\"\n\"", "\"\t\"", "\"\r\"", "\"\x00\"", "\"\x1f\"", "\"\b\"", "\"a\nb\"",
		"{\"a\\nb\":1}", "{\"\\u0061\":1,\"a\":2}", "{\"a\":1,\"\\u0061\":2}", "{\"\\\"\":\"\\\\\"}", "{\"<\":\">\",\"&\":\"\\u0026\"}",
		"{\"\\/\":[\"\\b\",\"\\f\"]}", "[\"\\u0041\",\"\\u0042\" , \"C\"]", " \n\t\r[ \"\\n\" ,\r\n \"\\t\" ] \n",
		"\\\"a\\\"", "\\u0041", "[\\n]", "{\"a\":\\\"b\\\"}", "\"\\u0041\"x", "\"a\" \"b\"",
		"\"\"", "\"?x\"", "{\"likes\":\"?x\"}", "[1,2.5,-0.75,true,false,null,\"\"]", "{}", "[]",
		"\"\\u00e9\"", "\"\\u0080\"", "\"\\ud83d\\ude00\"", "\"\\uD800\"", "\"\\u2028\"", "\"\u00e9\"", "\"\u65e5\u672c\"",
	}
}

func c13JsonEscComponent(g *G, n int, opts map[string]string) *Out {
	o := newOut("Corr.JsonEscCorr", "jtcase")
	nonascii := opts["ascii"] == ""
	var todo []*jeCase
	if path := opts["replay"]; path != "" {
		var w struct {
			Cases []*jeCase `json:"cases"`
		}
		loadJSON(path, &w)
		todo = w.Cases
	} else {
		def := func() interface{} {
			return map[string]interface{}{"q\"": "a\\b\n<c>&", "n": []interface{}{1.0, "\t\x00\x7f"}}
		}
		for _, t := range jeCorpus() {
			todo = append(todo, &jeCase{Kind: "corpus", Text: t, Val: def()})
		}
		for b := 0; b < 128; b++ {
			one := string([]byte{byte(b)})
			mid := "a" + one + "z"
			js1, _ := json.Marshal(one)
			js2, _ := json.Marshal(map[string]interface{}{mid: []interface{}{one}})
			todo = append(todo,
				&jeCase{Kind: "byte", Text: fmt.Sprintf("\"\\u%04x\"", b), Val: one},
				&jeCase{Kind: "byte", Text: fmt.Sprintf("[\"x\\u%04Xy\"]", b), Val: mid},
				&jeCase{Kind: "byte", Text: "\"\\" + one + "\"", Val: map[string]interface{}{one: mid}},
				&jeCase{Kind: "byte", Text: "\"" + one + "\"", Val: []interface{}{one, mid}},
				&jeCase{Kind: "byte", Text: string(js1), Val: one + one},
				&jeCase{Kind: "byte", Text: string(js2), Val: map[string]interface{}{one: one}})
		}
		o.count("exhaustive")
		o.Notes = append(o.Notes, "every byte 0..127: as a one-byte string and between two letters through json.Marshal; "+
			"as \\u00XX (lower and upper case), after a backslash and raw between quotes through json.Unmarshal")
		for len(todo) < n {
			c := &jeCase{Kind: "generated", Val: g.jeValue(3, nonascii)}
			v := g.jeValue(3, nonascii)
			switch {
			case g.chance(0.2):
				js, _ := json.Marshal(v) // what the encoder wrote, read back
				c.Text = string(js)
			default:
				c.Text = g.jeText(v, g.chance(0.7))
			}
			if g.chance(0.25) {
				c.Text = g.jeCorrupt(c.Text)
				c.Kind = "corrupted"
			}
			todo = append(todo, c)
		}
	}
	for _, c := range todo {
		if jeTextOutside(c.Text) || jeValueOutside(c.Val) {
			o.count("skipped-outside-fragment")
			continue
		}
		var x interface{}
		err := json.Unmarshal([]byte(c.Text), &x)
		c.GoErr = err != nil
		gov := "None"
		if err == nil {
			c.Go = x
			var sb strings.Builder
			if !jeCoqJSON(&sb, x) {
				o.count("skipped-outside-fragment") // a number that is not a multiple of 1/4
				continue
			}
			gov = "(Some " + sb.String() + ")"
		}
		var vb strings.Builder
		if !jeCoqJSON(&vb, c.Val) {
			o.count("skipped-outside-fragment")
			continue
		}
		js, merr := json.Marshal(c.Val)
		if merr != nil {
			continue
		}
		c.GoText = string(js)
		var back interface{}
		c.Back = json.Unmarshal(js, &back) == nil && reflect.DeepEqual(back, c.Val)
		term := fmt.Sprintf("(mk_jtcase %s %s %s %s %s)", jeCoqString(c.Text), gov, vb.String(), jeCoqString(c.GoText), coqBool(c.Back))
		escIn := strings.Contains(c.Text, "\\")
		escOut := strings.Contains(c.GoText, "\\")
		switch {
		case c.GoErr && escIn:
			o.count("text:rejected,backslash")
		case c.GoErr:
			o.count("text:rejected")
		case escIn:
			o.count("text:accepted,escapes")
		default:
			o.count("text:accepted")
		}
		if escOut {
			o.count("value:escapes-written")
		}
		if !isASCII(c.Text) || !isASCII(c.GoText) {
			o.count("non-ascii-utf8")
		}
		o.count("kind:" + c.Kind)
		o.add(term, c.Text+"|"+c.GoText, (escIn && !c.GoErr) || escOut, c)
	}
	o.Notes = append(o.Notes, "encoding/json of "+runtime.Version()+
		" (the encoder writes \\b and \\f since go1.22, \\u0008 and \\u000c before: Model/JsonTextEsc.v models go1.22 and later)")
	return o
}

func isASCII(s string) bool {
	for i := 0; i < len(s); i++ {
		if s[i] >= 0x80 {
			return false
		}
	}
	return true
}
