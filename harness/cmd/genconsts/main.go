// genconsts reads the literals the Coq model depends on out of /repo's
// current source (go/ast, no type checking) and writes coq/Gen/Consts.v.
// A literal it cannot find (the source was rewritten) is never guessed silently:
// the value the model was last validated with is written, and the constant is
// listed in <out>.unextracted.json.  The check driver reports the lost tie for
// the properties whose statements depend on that constant and lets the others
// rely on their correspondence runs, which exercise the actual behaviour.
package main

import (
	"encoding/json"
	"fmt"
	"go/ast"
	"go/parser"
	"go/token"
	"os"
	"path/filepath"
	"strconv"
	"strings"
)

var repo = "/repo"

type extractError string

func die(format string, args ...interface{}) {
	panic(extractError(fmt.Sprintf(format, args...)))
}

// the values the models were last validated with (used only when a literal cannot be read, and reported)
var pinned = map[string]string{
	"var_sigil": `"?"`, "opt_sigil": `"??"`, "anon_var": `"?"`, "perm_sigil": `"!"`, "target_sigil": `"@"`,
	"ineq_ops": `["<="; ">="; "!="; ">"; "<"]`, "default_branch_type": `"bindings"`, "default_error_node": `"error"`,
	"default_limit": "100%Z", "exp_permanent_bindings": "true", "exp_branch_target_variables": "true",
	"allow_property_variables": "true", "check_bad_property_variables": "true", "inequalities": "true",
}

var unextracted = map[string]string{}

func parse(rel string) *ast.File {
	fset := token.NewFileSet()
	f, err := parser.ParseFile(fset, filepath.Join(repo, rel), nil, 0)
	if err != nil {
		die("parse %s: %v", rel, err)
	}
	return f
}

func funcDecl(f *ast.File, name string) *ast.FuncDecl {
	for _, d := range f.Decls {
		if fd, is := d.(*ast.FuncDecl); is && fd.Name.Name == name {
			return fd
		}
	}
	die("function %s not found", name)
	return nil
}

func strLit(e ast.Expr) (string, bool) {
	if bl, is := e.(*ast.BasicLit); is && bl.Kind == token.STRING {
		s, err := strconv.Unquote(bl.Value)
		return s, err == nil
	}
	return "", false
}

// callArg: the string literal given as argument i of the first call to
// pkg.fn inside the function.
func callArg(fd *ast.FuncDecl, pkg, fn string, i int) string {
	var out string
	found := false
	ast.Inspect(fd, func(n ast.Node) bool {
		if found {
			return false
		}
		if ce, is := n.(*ast.CallExpr); is {
			if se, is := ce.Fun.(*ast.SelectorExpr); is && se.Sel.Name == fn {
				if id, is := se.X.(*ast.Ident); is && id.Name == pkg && len(ce.Args) > i {
					if s, ok := strLit(ce.Args[i]); ok {
						out, found = s, true
					}
				}
			}
		}
		return true
	})
	if !found {
		die("%s: no call %s.%s with a literal argument", fd.Name.Name, pkg, fn)
	}
	return out
}

// eqLit: the literal compared with == in the function's first comparison.
func eqLit(fd *ast.FuncDecl) string {
	var out string
	found := false
	ast.Inspect(fd, func(n ast.Node) bool {
		if found {
			return false
		}
		if be, is := n.(*ast.BinaryExpr); is && be.Op == token.EQL {
			if s, ok := strLit(be.Y); ok {
				out, found = s, true
			} else if bl, is := be.Y.(*ast.BasicLit); is && bl.Kind == token.CHAR {
				r, _, _, err := strconv.UnquoteChar(strings.Trim(bl.Value, "'"), '\'')
				if err == nil {
					out, found = string(r), true
				}
			}
		}
		return true
	})
	if !found {
		die("%s: no comparison with a literal", fd.Name.Name)
	}
	return out
}

// firstStringSlice: the first []string{...} literal in the function.
func firstStringSlice(fd *ast.FuncDecl) []string {
	var out []string
	found := false
	ast.Inspect(fd, func(n ast.Node) bool {
		if found {
			return false
		}
		if cl, is := n.(*ast.CompositeLit); is {
			if at, is := cl.Type.(*ast.ArrayType); is {
				if id, is := at.Elt.(*ast.Ident); is && id.Name == "string" {
					for _, e := range cl.Elts {
						s, ok := strLit(e)
						if !ok {
							return true
						}
						out = append(out, s)
					}
					found = true
				}
			}
		}
		return true
	})
	if !found {
		die("%s: no []string literal", fd.Name.Name)
	}
	return out
}

// varValue: the initialiser expression of a package-level var/const.
func varValue(f *ast.File, name string) ast.Expr {
	for _, d := range f.Decls {
		gd, is := d.(*ast.GenDecl)
		if !is {
			continue
		}
		for _, sp := range gd.Specs {
			vs, is := sp.(*ast.ValueSpec)
			if !is {
				continue
			}
			for i, id := range vs.Names {
				if id.Name == name && i < len(vs.Values) {
					return vs.Values[i]
				}
			}
		}
	}
	die("variable %s not found", name)
	return nil
}

func boolValue(f *ast.File, name string) bool {
	if id, is := varValue(f, name).(*ast.Ident); is && (id.Name == "true" || id.Name == "false") {
		return id.Name == "true"
	}
	die("variable %s is not a boolean literal", name)
	return false
}

func stringValue(f *ast.File, name string) string {
	if s, ok := strLit(varValue(f, name)); ok {
		return s
	}
	die("variable %s is not a string literal", name)
	return ""
}

// field of a &T{...} composite literal
func litField(e ast.Expr, field string) ast.Expr {
	if ue, is := e.(*ast.UnaryExpr); is {
		e = ue.X
	}
	cl, is := e.(*ast.CompositeLit)
	if !is {
		die("not a composite literal (field %s)", field)
	}
	for _, el := range cl.Elts {
		if kv, is := el.(*ast.KeyValueExpr); is {
			if id, is := kv.Key.(*ast.Ident); is && id.Name == field {
				return kv.Value
			}
		}
	}
	die("field %s not found", field)
	return nil
}

func identBool(e ast.Expr, what string) bool {
	if id, is := e.(*ast.Ident); is && (id.Name == "true" || id.Name == "false") {
		return id.Name == "true"
	}
	die("%s is not a boolean literal", what)
	return false
}

func q(s string) string { return `"` + strings.ReplaceAll(s, `"`, `""`) + `"` }
func b(v bool) string {
	if v {
		return "true"
	}
	return "false"
}

func main() {
	out := "/verif/coq/Gen/Consts.v"
	if len(os.Args) > 1 {
		out = os.Args[1]
	}
	if len(os.Args) > 2 {
		repo = os.Args[2]
	}
	var sb strings.Builder
	sb.WriteString("(* GENERATED from /repo by harness/cmd/genconsts on every run; do not edit. *)\n")
	sb.WriteString("From Coq Require Import String List ZArith.\nImport ListNotations.\nOpen Scope string_scope.\n")
	// every literal is read under a trap: what cannot be read is reported and replaced by the pinned value
	def := func(name, typ string, val func() string) {
		v := ""
		func() {
			defer func() {
				if r := recover(); r != nil {
					unextracted[name] = fmt.Sprint(r)
					v = pinned[name]
				}
			}()
			v = val()
		}()
		sb.WriteString(fmt.Sprintf("Definition %s : %s := %s.\n", name, typ, v))
	}
	file := func(rel string) func() *ast.File {
		var f *ast.File
		return func() *ast.File {
			if f == nil {
				f = parse(rel)
			}
			return f
		}
	}
	m, step, spec, actions := file("match/match.go"), file("core/step.go"), file("core/spec.go"), file("core/actions.go")
	def("var_sigil", "string", func() string { return q(callArg(funcDecl(m(), "IsVariable"), "strings", "HasPrefix", 1)) })
	def("opt_sigil", "string", func() string { return q(callArg(funcDecl(m(), "IsOptionalVariable"), "strings", "HasPrefix", 1)) })
	def("anon_var", "string", func() string { return q(eqLit(funcDecl(m(), "IsAnonymousVariable"))) })
	def("perm_sigil", "string", func() string { return q(callArg(funcDecl(actions(), "isPermanent"), "strings", "HasSuffix", 1)) })
	def("target_sigil", "string", func() string { return q(eqLit(funcDecl(step(), "IsBranchTargetVariable"))) })
	def("ineq_ops", "list string", func() string {
		ops := firstStringSlice(funcDecl(m(), "inequal"))
		qs := make([]string, len(ops))
		for i, o := range ops {
			qs[i] = q(o)
		}
		return "[" + strings.Join(qs, "; ") + "]"
	})
	def("default_branch_type", "string", func() string { return q(stringValue(spec(), "DefaultBranchType")) })
	def("default_error_node", "string", func() string { return q(stringValue(spec(), "DefaultErrorNodeName")) })
	def("default_limit", "Z", func() string {
		lim := litField(varValue(step(), "DefaultControl"), "Limit")
		bl, is := lim.(*ast.BasicLit)
		if !is || bl.Kind != token.INT {
			die("DefaultControl.Limit is not an integer literal")
		}
		return bl.Value + "%Z"
	})
	def("exp_permanent_bindings", "bool", func() string { return b(boolValue(actions(), "Exp_PermanentBindings")) })
	def("exp_branch_target_variables", "bool", func() string { return b(boolValue(step(), "Exp_BranchTargetVariables")) })
	dm := func() ast.Expr { return varValue(m(), "DefaultMatcher") }
	def("allow_property_variables", "bool", func() string {
		return b(identBool(litField(dm(), "AllowPropertyVariables"), "AllowPropertyVariables"))
	})
	def("check_bad_property_variables", "bool", func() string {
		return b(identBool(litField(dm(), "CheckForBadPropertyVariables"), "CheckForBadPropertyVariables"))
	})
	def("inequalities", "bool", func() string { return b(identBool(litField(dm(), "Inequalities"), "Inequalities")) })

	side, _ := json.MarshalIndent(unextracted, "", " ")
	if err := os.WriteFile(out+".unextracted.json", side, 0644); err != nil {
		fmt.Fprintf(os.Stderr, "genconsts: %v\n", err)
		os.Exit(1)
	}
	for k, v := range unextracted {
		fmt.Fprintf(os.Stderr, "genconsts: %s not read from the source (%s): pinned value written\n", k, v)
	}
	text := sb.String()
	if old, err := os.ReadFile(out); err == nil && string(old) == text {
		return // unchanged: keep the timestamp so make does nothing
	}
	if err := os.WriteFile(out, []byte(text), 0644); err != nil {
		fmt.Fprintf(os.Stderr, "genconsts: write %s: %v\n", out, err)
		os.Exit(1)
	}
}
