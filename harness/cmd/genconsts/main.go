// genconsts reads the literals the Coq model depends on out of /repo's
// current source (go/ast, no type checking) and writes coq/Gen/Consts.v
// (scalars; imported by Model/Json.v and so by everything) and, next to it,
// coq/Gen/SioSpecs.v (the branch patterns of node "start" of the two service
// specifications of package sio, as terms of the model's json type; imports
// Model/Json.v), and coq/Gen/Names.v (names the containers, the engine and
// the renderers write or look for: the reserved destinations of cmd/mcrew's and
// cmd/mdb's Route, the ids of sio's two service machines, the binding names
// and the node name Spec.Step / Spec.Walk write on an error, the escape tables
// of tools/dot.go and tools/mermaid.go; standard library only, imported by
// Model/Step.v, Model/MCrew.v, Model/SioCrew.v, Model/ToolsText.v).
// A literal it cannot find (the source was rewritten) is never guessed silently:
// the value the model was last validated with is written, and the constant is
// listed in <out>.unextracted.json.  The check driver reports the lost tie for
// the properties whose statements depend on that constant and lets the others
// rely on their correspondence runs, which exercise the actual behaviour.
package main

import (
	"encoding/json"
	"fmt"
	"go/ast"
	"go/parser"
	"go/token"
	"math"
	"os"
	"path/filepath"
	"sort"
	"strconv"
	"strings"
)

var repo = "/repo"

type extractError string

func die(format string, args ...interface{}) {
	panic(extractError(fmt.Sprintf(format, args...)))
}

// the values the models were last validated with (used only when a literal cannot be read, and reported)
var pinned = map[string]string{
	"var_sigil": `"?"`, "opt_sigil": `"??"`, "anon_var": `"?"`, "perm_sigil": `"!"`, "target_sigil": `"@"`,
	"ineq_ops": `["<="; ">="; "!="; ">"; "<"]`, "default_branch_type": `"bindings"`, "default_error_node": `"error"`,
	"default_limit": "100%Z", "exp_permanent_bindings": "true", "exp_branch_target_variables": "true",
	"allow_property_variables": "true", "check_bad_property_variables": "true", "inequalities": "true",
	// sio/timersspec.go and sio/captainspec.go, node "start" (Gen/SioSpecs.v)
	"sio_timers_start_type": `"message"`,
	"sio_timers_start_branches": `[(JObj [("makeTimer", JObj [("id", JStr "?id"); ("in", JStr "?in"); ("msg", JStr "?msg")])], "make"); ` +
		`(JObj [("cancelTimer", JStr "?id")], "cancel")]`,
	"sio_captain_start_type":     `"message"`,
	"sio_captain_start_branches": `[(JStr "?op", "do")]`,
	// Gen/Names.v
	"mcrew_route_key": `"to"`, "mcrew_route_services": `["ws"; "http"; "timers"]`,
	"mdb_route_key": `"to"`, "mdb_route_services": `[]`,
	"sio_captain_machine": `"captain"`, "sio_timers_machine": `"timers"`,
	"step_action_error_key": `"actionError"`, "step_error_key": `"error"`,
	"step_last_node_key": `"lastNode"`, "step_last_bindings_key": `"lastBindings"`, "step_error_node": `"error"`,
	"dot_html_escapes":     `[("038"%char, "&amp;"); ("060"%char, "&lt;"); ("062"%char, "&gt;")]`,
	"dot_id_escapes":       `[("092"%char, "\\"); ("034"%char, "\""")]`,
	"mermaid_text_escapes": `[("035"%char, "#35;"); ("034"%char, "#quot;")]`,
}

var unextracted = map[string]string{}

func parse(rel string) *ast.File {
	fset := token.NewFileSet()
	f, err := parser.ParseFile(fset, filepath.Join(repo, rel), nil, 0)
	if err != nil {
		die("parse %s: %v", rel, err)
	}
	return f
}

func funcDecl(f *ast.File, name string) *ast.FuncDecl {
	for _, d := range f.Decls {
		if fd, is := d.(*ast.FuncDecl); is && fd.Name.Name == name {
			return fd
		}
	}
	die("function %s not found", name)
	return nil
}

func strLit(e ast.Expr) (string, bool) {
	if bl, is := e.(*ast.BasicLit); is && bl.Kind == token.STRING {
		s, err := strconv.Unquote(bl.Value)
		return s, err == nil
	}
	return "", false
}

// callArg: the string literal given as argument i of the first call to
// pkg.fn inside the function.
func callArg(fd *ast.FuncDecl, pkg, fn string, i int) string {
	var out string
	found := false
	ast.Inspect(fd, func(n ast.Node) bool {
		if found {
			return false
		}
		if ce, is := n.(*ast.CallExpr); is {
			if se, is := ce.Fun.(*ast.SelectorExpr); is && se.Sel.Name == fn {
				if id, is := se.X.(*ast.Ident); is && id.Name == pkg && len(ce.Args) > i {
					if s, ok := strLit(ce.Args[i]); ok {
						out, found = s, true
					}
				}
			}
		}
		return true
	})
	if !found {
		die("%s: no call %s.%s with a literal argument", fd.Name.Name, pkg, fn)
	}
	return out
}

// eqLit: the literal compared with == in the function's first comparison.
func eqLit(fd *ast.FuncDecl) string {
	var out string
	found := false
	ast.Inspect(fd, func(n ast.Node) bool {
		if found {
			return false
		}
		if be, is := n.(*ast.BinaryExpr); is && be.Op == token.EQL {
			if s, ok := strLit(be.Y); ok {
				out, found = s, true
			} else if bl, is := be.Y.(*ast.BasicLit); is && bl.Kind == token.CHAR {
				r, _, _, err := strconv.UnquoteChar(strings.Trim(bl.Value, "'"), '\'')
				if err == nil {
					out, found = string(r), true
				}
			}
		}
		return true
	})
	if !found {
		die("%s: no comparison with a literal", fd.Name.Name)
	}
	return out
}

// firstStringSlice: the first []string{...} literal in the function.
func firstStringSlice(fd *ast.FuncDecl) []string {
	var out []string
	found := false
	ast.Inspect(fd, func(n ast.Node) bool {
		if found {
			return false
		}
		if cl, is := n.(*ast.CompositeLit); is {
			if at, is := cl.Type.(*ast.ArrayType); is {
				if id, is := at.Elt.(*ast.Ident); is && id.Name == "string" {
					for _, e := range cl.Elts {
						s, ok := strLit(e)
						if !ok {
							return true
						}
						out = append(out, s)
					}
					found = true
				}
			}
		}
		return true
	})
	if !found {
		die("%s: no []string literal", fd.Name.Name)
	}
	return out
}

// varValue: the initialiser expression of a package-level var/const.
func varValue(f *ast.File, name string) ast.Expr {
	for _, d := range f.Decls {
		gd, is := d.(*ast.GenDecl)
		if !is {
			continue
		}
		for _, sp := range gd.Specs {
			vs, is := sp.(*ast.ValueSpec)
			if !is {
				continue
			}
			for i, id := range vs.Names {
				if id.Name == name && i < len(vs.Values) {
					return vs.Values[i]
				}
			}
		}
	}
	die("variable %s not found", name)
	return nil
}

func boolValue(f *ast.File, name string) bool {
	if id, is := varValue(f, name).(*ast.Ident); is && (id.Name == "true" || id.Name == "false") {
		return id.Name == "true"
	}
	die("variable %s is not a boolean literal", name)
	return false
}

func stringValue(f *ast.File, name string) string {
	if s, ok := strLit(varValue(f, name)); ok {
		return s
	}
	die("variable %s is not a string literal", name)
	return ""
}

// field of a &T{...} composite literal
func litField(e ast.Expr, field string) ast.Expr {
	if ue, is := e.(*ast.UnaryExpr); is {
		e = ue.X
	}
	cl, is := e.(*ast.CompositeLit)
	if !is {
		die("not a composite literal (field %s)", field)
	}
	for _, el := range cl.Elts {
		if kv, is := el.(*ast.KeyValueExpr); is {
			if id, is := kv.Key.(*ast.Ident); is && id.Name == field {
				return kv.Value
			}
		}
	}
	die("field %s not found", field)
	return nil
}

func identBool(e ast.Expr, what string) bool {
	if id, is := e.(*ast.Ident); is && (id.Name == "true" || id.Name == "false") {
		return id.Name == "true"
	}
	die("%s is not a boolean literal", what)
	return false
}

func q(s string) string { return `"` + strings.ReplaceAll(s, `"`, `""`) + `"` }
func b(v bool) string {
	if v {
		return "true"
	}
	return "false"
}

// ---- service specifications of package sio (Gen/SioSpecs.v) ----

// coqStr: a Coq string literal; only printable ASCII is written (anything else is reported, not guessed).
func coqStr(s string) string {
	for i := 0; i < len(s); i++ {
		if s[i] < 32 || s[i] > 126 {
			die("string %q is not printable ASCII: not written as a Coq literal", s)
		}
	}
	return q(s)
}

// coqJSON prints a value decoded by encoding/json as a term of the model's
// json type (Model/Json.v): a number f is JNum (4*f) and must be a multiple
// of 1/4; the members of an object are listed in sorted key order (the
// canonical order of the harness's printer writeCoqJSON; Model/Match.v sorts
// the keys of a pattern with several members itself).
func coqJSON(sb *strings.Builder, x interface{}) {
	switch v := x.(type) {
	case nil:
		sb.WriteString("JNull")
	case bool:
		sb.WriteString("JBool " + b(v))
	case float64:
		q4 := v * 4
		if q4 != math.Trunc(q4) || math.Abs(q4) > 1e15 {
			die("number %v is not a multiple of 1/4: not representable in the model", v)
		}
		sb.WriteString(fmt.Sprintf("JNum (%d)%%Z", int64(q4)))
	case string:
		sb.WriteString("JStr " + coqStr(v))
	case []interface{}:
		sb.WriteString("JArr [")
		for i, y := range v {
			if i > 0 {
				sb.WriteString("; ")
			}
			coqJSON(sb, y)
		}
		sb.WriteString("]")
	case map[string]interface{}:
		ks := make([]string, 0, len(v))
		for k := range v {
			ks = append(ks, k)
		}
		sort.Strings(ks)
		sb.WriteString("JObj [")
		for i, k := range ks {
			if i > 0 {
				sb.WriteString("; ")
			}
			sb.WriteString("(" + coqStr(k) + ", ")
			coqJSON(sb, v[k])
			sb.WriteString(")")
		}
		sb.WriteString("]")
	default:
		die("value of type %T is not JSON", x)
	}
}

// nodeLit: the composite literal given for the key "<node>" in the first map
// literal of the function that has such a key (Nodes: map[string]*core.Node{"start": {...}}).
func nodeLit(fd *ast.FuncDecl, node string) *ast.CompositeLit {
	var out *ast.CompositeLit
	ast.Inspect(fd, func(n ast.Node) bool {
		if out != nil {
			return false
		}
		if kv, is := n.(*ast.KeyValueExpr); is {
			if s, ok := strLit(kv.Key); ok && s == node {
				v := kv.Value
				if ue, is := v.(*ast.UnaryExpr); is {
					v = ue.X
				}
				if cl, is := v.(*ast.CompositeLit); is {
					out = cl
				}
			}
		}
		return true
	})
	if out == nil {
		die("%s: no node %q given as a literal", fd.Name.Name, node)
	}
	return out
}

// branchesLit: the &core.Branches{...} literal of the node.
func branchesLit(fd *ast.FuncDecl, node string) ast.Expr {
	return litField(nodeLit(fd, node), "Branches")
}

// patternOf: the pattern of a branch as the value the specification holds at
// run time: mustParse(<string literal>) is the decoded JSON text (what
// mustParse does with a string), a string literal is that string.
func patternOf(e ast.Expr) interface{} {
	if s, ok := strLit(e); ok {
		return s
	}
	if ce, is := e.(*ast.CallExpr); is {
		if id, is := ce.Fun.(*ast.Ident); is && id.Name == "mustParse" && len(ce.Args) == 1 {
			text, ok := strLit(ce.Args[0])
			if !ok {
				die("the argument of mustParse is not a string literal")
			}
			var x interface{}
			if err := json.Unmarshal([]byte(text), &x); err != nil {
				die("the argument of mustParse is not JSON: %v", err)
			}
			return x
		}
	}
	die("a branch pattern is neither a string literal nor mustParse(<string literal>)")
	return nil
}

// startBranches: [(pattern, target); ...] of the node's branches, in source
// order.  A branch with anything but a pattern and a target (a guard, no
// pattern) is not what the model of the service machines covers: reported.
func startBranches(fd *ast.FuncDecl, node string) string {
	list := litField(branchesLit(fd, node), "Branches")
	cl, is := list.(*ast.CompositeLit)
	if !is {
		die("%s: the branches of node %q are not a literal", fd.Name.Name, node)
	}
	var sb strings.Builder
	sb.WriteString("[")
	for i, el := range cl.Elts {
		if ue, is := el.(*ast.UnaryExpr); is {
			el = ue.X
		}
		br, is := el.(*ast.CompositeLit)
		if !is {
			die("%s: branch %d of node %q is not a literal", fd.Name.Name, i, node)
		}
		for _, f := range br.Elts {
			kv, is := f.(*ast.KeyValueExpr)
			if !is {
				die("%s: branch %d of node %q has positional fields", fd.Name.Name, i, node)
			}
			if id, is := kv.Key.(*ast.Ident); !is || (id.Name != "Pattern" && id.Name != "Target") {
				die("%s: branch %d of node %q has a field other than Pattern and Target", fd.Name.Name, i, node)
			}
		}
		target, ok := strLit(litField(br, "Target"))
		if !ok {
			die("%s: the target of branch %d of node %q is not a string literal", fd.Name.Name, i, node)
		}
		if i > 0 {
			sb.WriteString("; ")
		}
		sb.WriteString("(")
		coqJSON(&sb, patternOf(litField(br, "Pattern")))
		sb.WriteString(", " + coqStr(target) + ")")
	}
	sb.WriteString("]")
	return sb.String()
}

func startType(fd *ast.FuncDecl, node string) string {
	s, ok := strLit(litField(branchesLit(fd, node), "Type"))
	if !ok {
		die("%s: the branching type of node %q is not a string literal", fd.Name.Name, node)
	}
	return coqStr(s)
}

// ---- names (Gen/Names.v) ----

// methodDecl: the method <name> whose receiver type is <recv> or *<recv>.
func methodDecl(f *ast.File, recv, name string) *ast.FuncDecl {
	for _, d := range f.Decls {
		fd, is := d.(*ast.FuncDecl)
		if !is || fd.Name.Name != name || fd.Recv == nil || len(fd.Recv.List) != 1 {
			continue
		}
		t := fd.Recv.List[0].Type
		if se, is := t.(*ast.StarExpr); is {
			t = se.X
		}
		if id, is := t.(*ast.Ident); is && id.Name == recv {
			return fd
		}
	}
	die("method %s.%s not found", recv, name)
	return nil
}

// routeKey: the key Route looks at: the one map index with a string literal
// in the function (m["to"]).
func routeKey(fd *ast.FuncDecl) string {
	var keys []string
	ast.Inspect(fd, func(n ast.Node) bool {
		if ie, is := n.(*ast.IndexExpr); is {
			if s, ok := strLit(ie.Index); ok {
				keys = append(keys, s)
			}
		}
		return true
	})
	if len(keys) != 1 {
		die("%s: %d map indexes with a literal key (the model's route looks at one key)", fd.Name.Name, len(keys))
	}
	return keys[0]
}

// routeServices: the case labels of Route's switch over the destination, in
// source order.  The model's route knows one shape: a destination that is
// one of the labels goes to no machine, any other goes to the machine of
// that id (the default clause).  A switch without a default clause, a label
// that is not a string literal, or a second switch is not that shape:
// reported.  A Route without any switch has no reserved destination, unless
// it compares with a string literal in some other way (reported).
func routeServices(fd *ast.FuncDecl) []string {
	var sws []*ast.SwitchStmt
	cmp := false
	ast.Inspect(fd, func(n ast.Node) bool {
		switch x := n.(type) {
		case *ast.SwitchStmt:
			sws = append(sws, x)
		case *ast.BinaryExpr:
			if x.Op == token.EQL || x.Op == token.NEQ {
				_, l := strLit(x.X)
				_, r := strLit(x.Y)
				cmp = cmp || l || r
			}
		}
		return true
	})
	if cmp {
		die("%s compares with a string literal outside a switch: not the shape the model's route has", fd.Name.Name)
	}
	if len(sws) == 0 {
		return []string{}
	}
	if len(sws) != 1 || sws[0].Tag == nil {
		die("%s: not exactly one switch over a value", fd.Name.Name)
	}
	out, haveDefault := []string{}, false
	for _, st := range sws[0].Body.List {
		cc, is := st.(*ast.CaseClause)
		if !is {
			continue
		}
		if cc.List == nil {
			haveDefault = true
			continue
		}
		for _, e := range cc.List {
			s, ok := strLit(e)
			if !ok {
				die("%s: a case label is not a string literal", fd.Name.Name)
			}
			out = append(out, s)
		}
	}
	if !haveDefault {
		die("%s: the switch has no default clause", fd.Name.Name)
	}
	return out
}

func coqStrList(l []string) string {
	qs := make([]string, len(l))
	for i, s := range l {
		qs[i] = coqStr(s)
	}
	return "[" + strings.Join(qs, "; ") + "]"
}

// pkgStringValue: the string literal a package-level var/const of the
// package in directory <dir> is declared with, whichever file declares it.
func pkgStringValue(dir, name string) string {
	fset := token.NewFileSet()
	pkgs, err := parser.ParseDir(fset, filepath.Join(repo, dir), func(fi os.FileInfo) bool {
		return !strings.HasSuffix(fi.Name(), "_test.go")
	}, 0)
	if err != nil {
		die("parse %s: %v", dir, err)
	}
	var found []string
	pns := make([]string, 0, len(pkgs))
	for pn := range pkgs {
		pns = append(pns, pn)
	}
	sort.Strings(pns)
	for _, pn := range pns {
		fns := make([]string, 0)
		for fn := range pkgs[pn].Files {
			fns = append(fns, fn)
		}
		sort.Strings(fns)
		for _, fn := range fns {
			for _, d := range pkgs[pn].Files[fn].Decls {
				gd, is := d.(*ast.GenDecl)
				if !is {
					continue
				}
				for _, sp := range gd.Specs {
					vs, is := sp.(*ast.ValueSpec)
					if !is {
						continue
					}
					for i, id := range vs.Names {
						if id.Name != name {
							continue
						}
						if i >= len(vs.Values) {
							die("%s.%s is declared without a value", dir, name)
						}
						s, ok := strLit(vs.Values[i])
						if !ok {
							die("%s.%s is not a string literal", dir, name)
						}
						found = append(found, s)
					}
				}
			}
		}
	}
	if len(found) != 1 {
		die("%s.%s: %d package-level declarations", dir, name, len(found))
	}
	return found[0]
}

// errorWrites: what Spec.Step and Spec.Walk (core/step.go) write when a
// stride ends in an error, read from both functions:
//
//	Step: bs.Extend(K1, ...); bs.Extend(K2, ...)            an action failed
//	Step: bs.Copy().Extendm(K2, ..., K3, ..., K4, ...)      an action node followed no branch
//	      &State{NodeName: N, ...}
//	Walk: st.Bs.Copy().Extendm(K2, ..., K3, ..., K4, ...)   Step returned an error
//	      st.NodeName == N ; &State{NodeName: N, ...}
//
// The model has one error_bindings and one error_node_literal for both
// functions: sites that disagree are reported, not merged.
// Every name is checked on its own: a disagreement about one does not lose the others.
type errSite struct {
	extend  []string   // first arguments of the calls x.Extend(<literal>, ...)
	extendm [][]string // literal keys (arguments 0, 2, 4, ...) of the calls x.Extendm(...)
	nodes   []string   // NodeName: <literal> in composite literals, NodeName ==/!= <literal>
}

func readErrSite(fd *ast.FuncDecl) errSite {
	var st errSite
	ast.Inspect(fd, func(n ast.Node) bool {
		switch x := n.(type) {
		case *ast.CallExpr:
			se, is := x.Fun.(*ast.SelectorExpr)
			if !is {
				return true
			}
			switch se.Sel.Name {
			case "Extend":
				if len(x.Args) < 1 {
					die("%s: Extend without arguments", fd.Name.Name)
				}
				s, ok := strLit(x.Args[0])
				if !ok {
					die("%s: Extend with a name that is not a string literal", fd.Name.Name)
				}
				st.extend = append(st.extend, s)
			case "Extendm":
				ks := []string{}
				for i := 0; i < len(x.Args); i += 2 {
					s, ok := strLit(x.Args[i])
					if !ok {
						die("%s: Extendm with a name that is not a string literal", fd.Name.Name)
					}
					ks = append(ks, s)
				}
				st.extendm = append(st.extendm, ks)
			}
		case *ast.KeyValueExpr:
			if id, is := x.Key.(*ast.Ident); is && id.Name == "NodeName" {
				if s, ok := strLit(x.Value); ok {
					st.nodes = append(st.nodes, s)
				}
			}
		case *ast.BinaryExpr:
			if x.Op == token.EQL || x.Op == token.NEQ {
				if se, is := x.X.(*ast.SelectorExpr); is && se.Sel.Name == "NodeName" {
					if s, ok := strLit(x.Y); ok {
						st.nodes = append(st.nodes, s)
					}
				}
			}
		}
		return true
	})
	return st
}

type errWrites struct{ step, walk errSite }

func errorWrites(f *ast.File) errWrites {
	w := errWrites{readErrSite(methodDecl(f, "Spec", "Step")), readErrSite(methodDecl(f, "Spec", "Walk"))}
	if len(w.step.extend) != 2 || len(w.step.extendm) != 1 || len(w.step.extendm[0]) != 3 {
		die("Step: expected two Extend calls and one Extendm call with three names, found %v and %v", w.step.extend, w.step.extendm)
	}
	if len(w.walk.extend) != 0 || len(w.walk.extendm) != 1 || len(w.walk.extendm[0]) != 3 {
		die("Walk: expected one Extendm call with three names, found %v and %v", w.walk.extend, w.walk.extendm)
	}
	return w
}

// the name bound first when an action failed
func (w errWrites) actionError() string { return w.step.extend[0] }

// name i of the three Step's and Walk's Extendm write (error text, node, bindings)
func (w errWrites) extendmName(i int) string {
	if w.step.extendm[0][i] != w.walk.extendm[0][i] {
		die("Step writes %q where Walk writes %q: the model has one error_bindings", w.step.extendm[0][i], w.walk.extendm[0][i])
	}
	return w.step.extendm[0][i]
}

// the name of the error text: the second Extend of a failed action and the first name of both Extendm calls
func (w errWrites) errName() string {
	n := w.extendmName(0)
	if w.step.extend[1] != n {
		die("Step binds %q after a failed action and %q when no branch was followed: the model has one name", w.step.extend[1], n)
	}
	return n
}

func (w errWrites) node() string {
	if len(w.step.nodes) == 0 || len(w.walk.nodes) == 0 {
		die("Step or Walk names no node with a literal")
	}
	nodes := append(append([]string{}, w.step.nodes...), w.walk.nodes...)
	for _, n := range nodes {
		if n != nodes[0] {
			die("Step and Walk name different nodes with literals: %v", nodes)
		}
	}
	return nodes[0]
}

// coqAscii: a byte as a Coq ascii literal ("ddd"%char, three decimal digits).
func coqAscii(c byte) string { return fmt.Sprintf("\"%03d\"%%char", c) }

// replacerPairs: the arguments of the one strings.NewReplacer(old1, new1, ...)
// call of the function, as [(old byte, new string); ...] in source order.
// Model/ToolsText.v models the replacer Go builds when every old string is
// one byte (a table indexed by byte, the first pair for a byte wins); an old
// string of another length selects a different algorithm: reported.
func replacerPairs(fd *ast.FuncDecl) string {
	var calls []*ast.CallExpr
	ast.Inspect(fd, func(n ast.Node) bool {
		if ce, is := n.(*ast.CallExpr); is {
			if se, is := ce.Fun.(*ast.SelectorExpr); is && se.Sel.Name == "NewReplacer" {
				if id, is := se.X.(*ast.Ident); is && id.Name == "strings" {
					calls = append(calls, ce)
				}
			}
		}
		return true
	})
	if len(calls) != 1 {
		die("%s: %d calls of strings.NewReplacer", fd.Name.Name, len(calls))
	}
	args := calls[0].Args
	if len(args) == 0 || len(args)%2 != 0 || calls[0].Ellipsis != token.NoPos {
		die("%s: strings.NewReplacer is not given pairs of literals", fd.Name.Name)
	}
	items := []string{}
	for i := 0; i < len(args); i += 2 {
		o, ok1 := strLit(args[i])
		n, ok2 := strLit(args[i+1])
		if !ok1 || !ok2 {
			die("%s: an argument of strings.NewReplacer is not a string literal", fd.Name.Name)
		}
		if len(o) != 1 {
			die("%s: the old string %q is not one byte: not the byte-wise replacer the model describes", fd.Name.Name, o)
		}
		items = append(items, "("+coqAscii(o[0])+", "+coqStr(n)+")")
	}
	return "[" + strings.Join(items, "; ") + "]"
}

// writeIfChanged keeps the timestamp of an unchanged file so that make does nothing.
func writeIfChanged(out, text string) {
	if old, err := os.ReadFile(out); err == nil && string(old) == text {
		return
	}
	if err := os.WriteFile(out, []byte(text), 0644); err != nil {
		fmt.Fprintf(os.Stderr, "genconsts: write %s: %v\n", out, err)
		os.Exit(1)
	}
}

func main() {
	out := "/verif/coq/Gen/Consts.v"
	if len(os.Args) > 1 {
		out = os.Args[1]
	}
	if len(os.Args) > 2 {
		repo = os.Args[2]
	}
	var consts, sio, names strings.Builder
	sb := &consts
	sb.WriteString("(* GENERATED from /repo by harness/cmd/genconsts on every run; do not edit. *)\n")
	sb.WriteString("From Coq Require Import String List ZArith.\nImport ListNotations.\nOpen Scope string_scope.\n")
	// every literal is read under a trap: what cannot be read is reported and replaced by the pinned value
	def := func(name, typ string, val func() string) {
		v := ""
		func() {
			defer func() {
				if r := recover(); r != nil {
					unextracted[name] = fmt.Sprint(r)
					v = pinned[name]
				}
			}()
			v = val()
		}()
		sb.WriteString(fmt.Sprintf("Definition %s : %s := %s.\n", name, typ, v))
	}
	file := func(rel string) func() *ast.File {
		var f *ast.File
		return func() *ast.File {
			if f == nil {
				f = parse(rel)
			}
			return f
		}
	}
	m, step, spec, actions := file("match/match.go"), file("core/step.go"), file("core/spec.go"), file("core/actions.go")
	def("var_sigil", "string", func() string { return q(callArg(funcDecl(m(), "IsVariable"), "strings", "HasPrefix", 1)) })
	def("opt_sigil", "string", func() string { return q(callArg(funcDecl(m(), "IsOptionalVariable"), "strings", "HasPrefix", 1)) })
	def("anon_var", "string", func() string { return q(eqLit(funcDecl(m(), "IsAnonymousVariable"))) })
	def("perm_sigil", "string", func() string { return q(callArg(funcDecl(actions(), "isPermanent"), "strings", "HasSuffix", 1)) })
	def("target_sigil", "string", func() string { return q(eqLit(funcDecl(step(), "IsBranchTargetVariable"))) })
	def("ineq_ops", "list string", func() string {
		ops := firstStringSlice(funcDecl(m(), "inequal"))
		qs := make([]string, len(ops))
		for i, o := range ops {
			qs[i] = q(o)
		}
		return "[" + strings.Join(qs, "; ") + "]"
	})
	def("default_branch_type", "string", func() string { return q(stringValue(spec(), "DefaultBranchType")) })
	def("default_error_node", "string", func() string { return q(stringValue(spec(), "DefaultErrorNodeName")) })
	def("default_limit", "Z", func() string {
		lim := litField(varValue(step(), "DefaultControl"), "Limit")
		bl, is := lim.(*ast.BasicLit)
		if !is || bl.Kind != token.INT {
			die("DefaultControl.Limit is not an integer literal")
		}
		return bl.Value + "%Z"
	})
	def("exp_permanent_bindings", "bool", func() string { return b(boolValue(actions(), "Exp_PermanentBindings")) })
	def("exp_branch_target_variables", "bool", func() string { return b(boolValue(step(), "Exp_BranchTargetVariables")) })
	dm := func() ast.Expr { return varValue(m(), "DefaultMatcher") }
	def("allow_property_variables", "bool", func() string {
		return b(identBool(litField(dm(), "AllowPropertyVariables"), "AllowPropertyVariables"))
	})
	def("check_bad_property_variables", "bool", func() string {
		return b(identBool(litField(dm(), "CheckForBadPropertyVariables"), "CheckForBadPropertyVariables"))
	})
	def("inequalities", "bool", func() string { return b(identBool(litField(dm(), "Inequalities"), "Inequalities")) })

	// the second file: node "start" of the two service specifications of package sio
	sb = &sio
	sb.WriteString("(* GENERATED from /repo (sio/timersspec.go, sio/captainspec.go) by harness/cmd/genconsts on every run; do not edit.\n")
	sb.WriteString("   Node \"start\" of Crew.NewTimersSpec and Crew.NewCaptainSpec: the branching type and, in source order,\n")
	sb.WriteString("   each branch's pattern (the JSON text given to mustParse, decoded; object members in sorted key order) and target. *)\n")
	sb.WriteString("From Sheens Require Import Model.Json.\nOpen Scope string_scope.\nOpen Scope list_scope.\n")
	timers, captain := file("sio/timersspec.go"), file("sio/captainspec.go")
	def("sio_timers_start_type", "string", func() string { return startType(funcDecl(timers(), "NewTimersSpec"), "start") })
	def("sio_timers_start_branches", "list (json * string)", func() string {
		return startBranches(funcDecl(timers(), "NewTimersSpec"), "start")
	})
	def("sio_captain_start_type", "string", func() string { return startType(funcDecl(captain(), "NewCaptainSpec"), "start") })
	def("sio_captain_start_branches", "list (json * string)", func() string {
		return startBranches(funcDecl(captain(), "NewCaptainSpec"), "start")
	})

	// the third file: names written or looked for by the containers, the engine and the renderers
	sb = &names
	sb.WriteString("(* GENERATED from /repo (cmd/mcrew/service.go, cmd/mdb/mdb.go, sio/*.go, core/step.go, tools/dot.go, tools/mermaid.go)\n")
	sb.WriteString("   by harness/cmd/genconsts on every run; do not edit.\n")
	sb.WriteString("   *_route_key / *_route_services: the key Route looks at and the case labels of its switch (source order; no label: []).\n")
	sb.WriteString("   sio_*_machine: the ids of the two service machines.  step_*: the binding names and the node name Spec.Step and\n")
	sb.WriteString("   Spec.Walk write on an error.  *_escapes: the pairs given to strings.NewReplacer (old byte, new string; source order). *)\n")
	// the scope is opened locally: the files that import Names.v keep their own order of scopes
	sb.WriteString("From Coq Require Import String List Ascii.\nImport ListNotations.\nLocal Open Scope string_scope.\n")
	msvc, mdb := file("cmd/mcrew/service.go"), file("cmd/mdb/mdb.go")
	def("mcrew_route_key", "string", func() string { return coqStr(routeKey(methodDecl(msvc(), "Service", "Route"))) })
	def("mcrew_route_services", "list string", func() string {
		l := routeServices(methodDecl(msvc(), "Service", "Route"))
		if len(l) == 0 {
			die("Service.Route has no switch over reserved destinations")
		}
		return coqStrList(l)
	})
	def("mdb_route_key", "string", func() string { return coqStr(routeKey(methodDecl(mdb(), "Host", "Route"))) })
	def("mdb_route_services", "list string", func() string { return coqStrList(routeServices(methodDecl(mdb(), "Host", "Route"))) })
	def("sio_captain_machine", "string", func() string { return coqStr(pkgStringValue("sio", "CaptainMachine")) })
	def("sio_timers_machine", "string", func() string { return coqStr(pkgStringValue("sio", "TimersMachine")) })
	ew := func() errWrites { return errorWrites(step()) }
	def("step_action_error_key", "string", func() string { return coqStr(ew().actionError()) })
	def("step_error_key", "string", func() string { return coqStr(ew().errName()) })
	def("step_last_node_key", "string", func() string { return coqStr(ew().extendmName(1)) })
	def("step_last_bindings_key", "string", func() string { return coqStr(ew().extendmName(2)) })
	def("step_error_node", "string", func() string { return coqStr(ew().node()) })
	dot, mermaid := file("tools/dot.go"), file("tools/mermaid.go")
	def("dot_html_escapes", "list (ascii * string)", func() string { return replacerPairs(funcDecl(dot(), "dotHTML")) })
	def("dot_id_escapes", "list (ascii * string)", func() string { return replacerPairs(funcDecl(dot(), "dotID")) })
	def("mermaid_text_escapes", "list (ascii * string)", func() string { return replacerPairs(funcDecl(mermaid(), "mermaidText")) })

	side, _ := json.MarshalIndent(unextracted, "", " ")
	if err := os.WriteFile(out+".unextracted.json", side, 0644); err != nil {
		fmt.Fprintf(os.Stderr, "genconsts: %v\n", err)
		os.Exit(1)
	}
	for k, v := range unextracted {
		fmt.Fprintf(os.Stderr, "genconsts: %s not read from the source (%s): pinned value written\n", k, v)
	}
	writeIfChanged(out, consts.String())
	writeIfChanged(filepath.Join(filepath.Dir(out), "SioSpecs.v"), sio.String())
	writeIfChanged(filepath.Join(filepath.Dir(out), "Names.v"), names.String())
}
