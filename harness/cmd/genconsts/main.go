// genconsts reads the literals the Coq model depends on out of /repo's
// current source (go/ast, no type checking) and writes coq/Gen/Consts.v
// (scalars; imported by Model/Json.v and so by everything) and, next to it,
// coq/Gen/SioSpecs.v (the branch patterns of node "start" of the two service
// specifications of package sio, as terms of the model's json type; imports
// Model/Json.v).
// A literal it cannot find (the source was rewritten) is never guessed silently:
// the value the model was last validated with is written, and the constant is
// listed in <out>.unextracted.json.  The check driver reports the lost tie for
// the properties whose statements depend on that constant and lets the others
// rely on their correspondence runs, which exercise the actual behaviour.
package main

import (
	"encoding/json"
	"fmt"
	"go/ast"
	"go/parser"
	"go/token"
	"math"
	"os"
	"path/filepath"
	"sort"
	"strconv"
	"strings"
)

var repo = "/repo"

type extractError string

func die(format string, args ...interface{}) {
	panic(extractError(fmt.Sprintf(format, args...)))
}

// the values the models were last validated with (used only when a literal cannot be read, and reported)
var pinned = map[string]string{
	"var_sigil": `"?"`, "opt_sigil": `"??"`, "anon_var": `"?"`, "perm_sigil": `"!"`, "target_sigil": `"@"`,
	"ineq_ops": `["<="; ">="; "!="; ">"; "<"]`, "default_branch_type": `"bindings"`, "default_error_node": `"error"`,
	"default_limit": "100%Z", "exp_permanent_bindings": "true", "exp_branch_target_variables": "true",
	"allow_property_variables": "true", "check_bad_property_variables": "true", "inequalities": "true",
	// sio/timersspec.go and sio/captainspec.go, node "start" (Gen/SioSpecs.v)
	"sio_timers_start_type": `"message"`,
	"sio_timers_start_branches": `[(JObj [("makeTimer", JObj [("id", JStr "?id"); ("in", JStr "?in"); ("msg", JStr "?msg")])], "make"); ` +
		`(JObj [("cancelTimer", JStr "?id")], "cancel")]`,
	"sio_captain_start_type":     `"message"`,
	"sio_captain_start_branches": `[(JStr "?op", "do")]`,
}

var unextracted = map[string]string{}

func parse(rel string) *ast.File {
	fset := token.NewFileSet()
	f, err := parser.ParseFile(fset, filepath.Join(repo, rel), nil, 0)
	if err != nil {
		die("parse %s: %v", rel, err)
	}
	return f
}

func funcDecl(f *ast.File, name string) *ast.FuncDecl {
	for _, d := range f.Decls {
		if fd, is := d.(*ast.FuncDecl); is && fd.Name.Name == name {
			return fd
		}
	}
	die("function %s not found", name)
	return nil
}

func strLit(e ast.Expr) (string, bool) {
	if bl, is := e.(*ast.BasicLit); is && bl.Kind == token.STRING {
		s, err := strconv.Unquote(bl.Value)
		return s, err == nil
	}
	return "", false
}

// callArg: the string literal given as argument i of the first call to
// pkg.fn inside the function.
func callArg(fd *ast.FuncDecl, pkg, fn string, i int) string {
	var out string
	found := false
	ast.Inspect(fd, func(n ast.Node) bool {
		if found {
			return false
		}
		if ce, is := n.(*ast.CallExpr); is {
			if se, is := ce.Fun.(*ast.SelectorExpr); is && se.Sel.Name == fn {
				if id, is := se.X.(*ast.Ident); is && id.Name == pkg && len(ce.Args) > i {
					if s, ok := strLit(ce.Args[i]); ok {
						out, found = s, true
					}
				}
			}
		}
		return true
	})
	if !found {
		die("%s: no call %s.%s with a literal argument", fd.Name.Name, pkg, fn)
	}
	return out
}

// eqLit: the literal compared with == in the function's first comparison.
func eqLit(fd *ast.FuncDecl) string {
	var out string
	found := false
	ast.Inspect(fd, func(n ast.Node) bool {
		if found {
			return false
		}
		if be, is := n.(*ast.BinaryExpr); is && be.Op == token.EQL {
			if s, ok := strLit(be.Y); ok {
				out, found = s, true
			} else if bl, is := be.Y.(*ast.BasicLit); is && bl.Kind == token.CHAR {
				r, _, _, err := strconv.UnquoteChar(strings.Trim(bl.Value, "'"), '\'')
				if err == nil {
					out, found = string(r), true
				}
			}
		}
		return true
	})
	if !found {
		die("%s: no comparison with a literal", fd.Name.Name)
	}
	return out
}

// firstStringSlice: the first []string{...} literal in the function.
func firstStringSlice(fd *ast.FuncDecl) []string {
	var out []string
	found := false
	ast.Inspect(fd, func(n ast.Node) bool {
		if found {
			return false
		}
		if cl, is := n.(*ast.CompositeLit); is {
			if at, is := cl.Type.(*ast.ArrayType); is {
				if id, is := at.Elt.(*ast.Ident); is && id.Name == "string" {
					for _, e := range cl.Elts {
						s, ok := strLit(e)
						if !ok {
							return true
						}
						out = append(out, s)
					}
					found = true
				}
			}
		}
		return true
	})
	if !found {
		die("%s: no []string literal", fd.Name.Name)
	}
	return out
}

// varValue: the initialiser expression of a package-level var/const.
func varValue(f *ast.File, name string) ast.Expr {
	for _, d := range f.Decls {
		gd, is := d.(*ast.GenDecl)
		if !is {
			continue
		}
		for _, sp := range gd.Specs {
			vs, is := sp.(*ast.ValueSpec)
			if !is {
				continue
			}
			for i, id := range vs.Names {
				if id.Name == name && i < len(vs.Values) {
					return vs.Values[i]
				}
			}
		}
	}
	die("variable %s not found", name)
	return nil
}

func boolValue(f *ast.File, name string) bool {
	if id, is := varValue(f, name).(*ast.Ident); is && (id.Name == "true" || id.Name == "false") {
		return id.Name == "true"
	}
	die("variable %s is not a boolean literal", name)
	return false
}

func stringValue(f *ast.File, name string) string {
	if s, ok := strLit(varValue(f, name)); ok {
		return s
	}
	die("variable %s is not a string literal", name)
	return ""
}

// field of a &T{...} composite literal
func litField(e ast.Expr, field string) ast.Expr {
	if ue, is := e.(*ast.UnaryExpr); is {
		e = ue.X
	}
	cl, is := e.(*ast.CompositeLit)
	if !is {
		die("not a composite literal (field %s)", field)
	}
	for _, el := range cl.Elts {
		if kv, is := el.(*ast.KeyValueExpr); is {
			if id, is := kv.Key.(*ast.Ident); is && id.Name == field {
				return kv.Value
			}
		}
	}
	die("field %s not found", field)
	return nil
}

func identBool(e ast.Expr, what string) bool {
	if id, is := e.(*ast.Ident); is && (id.Name == "true" || id.Name == "false") {
		return id.Name == "true"
	}
	die("%s is not a boolean literal", what)
	return false
}

func q(s string) string { return `"` + strings.ReplaceAll(s, `"`, `""`) + `"` }
func b(v bool) string {
	if v {
		return "true"
	}
	return "false"
}

// ---- service specifications of package sio (Gen/SioSpecs.v) ----

// coqStr: a Coq string literal; only printable ASCII is written (anything else is reported, not guessed).
func coqStr(s string) string {
	for i := 0; i < len(s); i++ {
		if s[i] < 32 || s[i] > 126 {
			die("string %q is not printable ASCII: not written as a Coq literal", s)
		}
	}
	return q(s)
}

// coqJSON prints a value decoded by encoding/json as a term of the model's
// json type (Model/Json.v): a number f is JNum (4*f) and must be a multiple
// of 1/4; the members of an object are listed in sorted key order (the
// canonical order of the harness's printer writeCoqJSON; Model/Match.v sorts
// the keys of a pattern with several members itself).
func coqJSON(sb *strings.Builder, x interface{}) {
	switch v := x.(type) {
	case nil:
		sb.WriteString("JNull")
	case bool:
		sb.WriteString("JBool " + b(v))
	case float64:
		q4 := v * 4
		if q4 != math.Trunc(q4) || math.Abs(q4) > 1e15 {
			die("number %v is not a multiple of 1/4: not representable in the model", v)
		}
		sb.WriteString(fmt.Sprintf("JNum (%d)%%Z", int64(q4)))
	case string:
		sb.WriteString("JStr " + coqStr(v))
	case []interface{}:
		sb.WriteString("JArr [")
		for i, y := range v {
			if i > 0 {
				sb.WriteString("; ")
			}
			coqJSON(sb, y)
		}
		sb.WriteString("]")
	case map[string]interface{}:
		ks := make([]string, 0, len(v))
		for k := range v {
			ks = append(ks, k)
		}
		sort.Strings(ks)
		sb.WriteString("JObj [")
		for i, k := range ks {
			if i > 0 {
				sb.WriteString("; ")
			}
			sb.WriteString("(" + coqStr(k) + ", ")
			coqJSON(sb, v[k])
			sb.WriteString(")")
		}
		sb.WriteString("]")
	default:
		die("value of type %T is not JSON", x)
	}
}

// nodeLit: the composite literal given for the key "<node>" in the first map
// literal of the function that has such a key (Nodes: map[string]*core.Node{"start": {...}}).
func nodeLit(fd *ast.FuncDecl, node string) *ast.CompositeLit {
	var out *ast.CompositeLit
	ast.Inspect(fd, func(n ast.Node) bool {
		if out != nil {
			return false
		}
		if kv, is := n.(*ast.KeyValueExpr); is {
			if s, ok := strLit(kv.Key); ok && s == node {
				v := kv.Value
				if ue, is := v.(*ast.UnaryExpr); is {
					v = ue.X
				}
				if cl, is := v.(*ast.CompositeLit); is {
					out = cl
				}
			}
		}
		return true
	})
	if out == nil {
		die("%s: no node %q given as a literal", fd.Name.Name, node)
	}
	return out
}

// branchesLit: the &core.Branches{...} literal of the node.
func branchesLit(fd *ast.FuncDecl, node string) ast.Expr {
	return litField(nodeLit(fd, node), "Branches")
}

// patternOf: the pattern of a branch as the value the specification holds at
// run time: mustParse(<string literal>) is the decoded JSON text (what
// mustParse does with a string), a string literal is that string.
func patternOf(e ast.Expr) interface{} {
	if s, ok := strLit(e); ok {
		return s
	}
	if ce, is := e.(*ast.CallExpr); is {
		if id, is := ce.Fun.(*ast.Ident); is && id.Name == "mustParse" && len(ce.Args) == 1 {
			text, ok := strLit(ce.Args[0])
			if !ok {
				die("the argument of mustParse is not a string literal")
			}
			var x interface{}
			if err := json.Unmarshal([]byte(text), &x); err != nil {
				die("the argument of mustParse is not JSON: %v", err)
			}
			return x
		}
	}
	die("a branch pattern is neither a string literal nor mustParse(<string literal>)")
	return nil
}

// startBranches: [(pattern, target); ...] of the node's branches, in source
// order.  A branch with anything but a pattern and a target (a guard, no
// pattern) is not what the model of the service machines covers: reported.
func startBranches(fd *ast.FuncDecl, node string) string {
	list := litField(branchesLit(fd, node), "Branches")
	cl, is := list.(*ast.CompositeLit)
	if !is {
		die("%s: the branches of node %q are not a literal", fd.Name.Name, node)
	}
	var sb strings.Builder
	sb.WriteString("[")
	for i, el := range cl.Elts {
		if ue, is := el.(*ast.UnaryExpr); is {
			el = ue.X
		}
		br, is := el.(*ast.CompositeLit)
		if !is {
			die("%s: branch %d of node %q is not a literal", fd.Name.Name, i, node)
		}
		for _, f := range br.Elts {
			kv, is := f.(*ast.KeyValueExpr)
			if !is {
				die("%s: branch %d of node %q has positional fields", fd.Name.Name, i, node)
			}
			if id, is := kv.Key.(*ast.Ident); !is || (id.Name != "Pattern" && id.Name != "Target") {
				die("%s: branch %d of node %q has a field other than Pattern and Target", fd.Name.Name, i, node)
			}
		}
		target, ok := strLit(litField(br, "Target"))
		if !ok {
			die("%s: the target of branch %d of node %q is not a string literal", fd.Name.Name, i, node)
		}
		if i > 0 {
			sb.WriteString("; ")
		}
		sb.WriteString("(")
		coqJSON(&sb, patternOf(litField(br, "Pattern")))
		sb.WriteString(", " + coqStr(target) + ")")
	}
	sb.WriteString("]")
	return sb.String()
}

func startType(fd *ast.FuncDecl, node string) string {
	s, ok := strLit(litField(branchesLit(fd, node), "Type"))
	if !ok {
		die("%s: the branching type of node %q is not a string literal", fd.Name.Name, node)
	}
	return coqStr(s)
}

// writeIfChanged keeps the timestamp of an unchanged file so that make does nothing.
func writeIfChanged(out, text string) {
	if old, err := os.ReadFile(out); err == nil && string(old) == text {
		return
	}
	if err := os.WriteFile(out, []byte(text), 0644); err != nil {
		fmt.Fprintf(os.Stderr, "genconsts: write %s: %v\n", out, err)
		os.Exit(1)
	}
}

func main() {
	out := "/verif/coq/Gen/Consts.v"
	if len(os.Args) > 1 {
		out = os.Args[1]
	}
	if len(os.Args) > 2 {
		repo = os.Args[2]
	}
	var consts, sio strings.Builder
	sb := &consts
	sb.WriteString("(* GENERATED from /repo by harness/cmd/genconsts on every run; do not edit. *)\n")
	sb.WriteString("From Coq Require Import String List ZArith.\nImport ListNotations.\nOpen Scope string_scope.\n")
	// every literal is read under a trap: what cannot be read is reported and replaced by the pinned value
	def := func(name, typ string, val func() string) {
		v := ""
		func() {
			defer func() {
				if r := recover(); r != nil {
					unextracted[name] = fmt.Sprint(r)
					v = pinned[name]
				}
			}()
			v = val()
		}()
		sb.WriteString(fmt.Sprintf("Definition %s : %s := %s.\n", name, typ, v))
	}
	file := func(rel string) func() *ast.File {
		var f *ast.File
		return func() *ast.File {
			if f == nil {
				f = parse(rel)
			}
			return f
		}
	}
	m, step, spec, actions := file("match/match.go"), file("core/step.go"), file("core/spec.go"), file("core/actions.go")
	def("var_sigil", "string", func() string { return q(callArg(funcDecl(m(), "IsVariable"), "strings", "HasPrefix", 1)) })
	def("opt_sigil", "string", func() string { return q(callArg(funcDecl(m(), "IsOptionalVariable"), "strings", "HasPrefix", 1)) })
	def("anon_var", "string", func() string { return q(eqLit(funcDecl(m(), "IsAnonymousVariable"))) })
	def("perm_sigil", "string", func() string { return q(callArg(funcDecl(actions(), "isPermanent"), "strings", "HasSuffix", 1)) })
	def("target_sigil", "string", func() string { return q(eqLit(funcDecl(step(), "IsBranchTargetVariable"))) })
	def("ineq_ops", "list string", func() string {
		ops := firstStringSlice(funcDecl(m(), "inequal"))
		qs := make([]string, len(ops))
		for i, o := range ops {
			qs[i] = q(o)
		}
		return "[" + strings.Join(qs, "; ") + "]"
	})
	def("default_branch_type", "string", func() string { return q(stringValue(spec(), "DefaultBranchType")) })
	def("default_error_node", "string", func() string { return q(stringValue(spec(), "DefaultErrorNodeName")) })
	def("default_limit", "Z", func() string {
		lim := litField(varValue(step(), "DefaultControl"), "Limit")
		bl, is := lim.(*ast.BasicLit)
		if !is || bl.Kind != token.INT {
			die("DefaultControl.Limit is not an integer literal")
		}
		return bl.Value + "%Z"
	})
	def("exp_permanent_bindings", "bool", func() string { return b(boolValue(actions(), "Exp_PermanentBindings")) })
	def("exp_branch_target_variables", "bool", func() string { return b(boolValue(step(), "Exp_BranchTargetVariables")) })
	dm := func() ast.Expr { return varValue(m(), "DefaultMatcher") }
	def("allow_property_variables", "bool", func() string {
		return b(identBool(litField(dm(), "AllowPropertyVariables"), "AllowPropertyVariables"))
	})
	def("check_bad_property_variables", "bool", func() string {
		return b(identBool(litField(dm(), "CheckForBadPropertyVariables"), "CheckForBadPropertyVariables"))
	})
	def("inequalities", "bool", func() string { return b(identBool(litField(dm(), "Inequalities"), "Inequalities")) })

	// the second file: node "start" of the two service specifications of package sio
	sb = &sio
	sb.WriteString("(* GENERATED from /repo (sio/timersspec.go, sio/captainspec.go) by harness/cmd/genconsts on every run; do not edit.\n")
	sb.WriteString("   Node \"start\" of Crew.NewTimersSpec and Crew.NewCaptainSpec: the branching type and, in source order,\n")
	sb.WriteString("   each branch's pattern (the JSON text given to mustParse, decoded; object members in sorted key order) and target. *)\n")
	sb.WriteString("From Sheens Require Import Model.Json.\nOpen Scope string_scope.\nOpen Scope list_scope.\n")
	timers, captain := file("sio/timersspec.go"), file("sio/captainspec.go")
	def("sio_timers_start_type", "string", func() string { return startType(funcDecl(timers(), "NewTimersSpec"), "start") })
	def("sio_timers_start_branches", "list (json * string)", func() string {
		return startBranches(funcDecl(timers(), "NewTimersSpec"), "start")
	})
	def("sio_captain_start_type", "string", func() string { return startType(funcDecl(captain(), "NewCaptainSpec"), "start") })
	def("sio_captain_start_branches", "list (json * string)", func() string {
		return startBranches(funcDecl(captain(), "NewCaptainSpec"), "start")
	})

	side, _ := json.MarshalIndent(unextracted, "", " ")
	if err := os.WriteFile(out+".unextracted.json", side, 0644); err != nil {
		fmt.Fprintf(os.Stderr, "genconsts: %v\n", err)
		os.Exit(1)
	}
	for k, v := range unextracted {
		fmt.Fprintf(os.Stderr, "genconsts: %s not read from the source (%s): pinned value written\n", k, v)
	}
	writeIfChanged(out, consts.String())
	writeIfChanged(filepath.Join(filepath.Dir(out), "SioSpecs.v"), sio.String())
}
