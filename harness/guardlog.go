package main

// Guard-call log: Branch.try presents the candidates of a branch to its guard one at a time until the
// guard accepts one (or fails).  Which candidate is chosen when several would be accepted is arbitrary,
// but the protocol is not: no call follows an accepting or failing call, the branches are visited in
// order, and the accepted call's result is the step's result.  The step component wraps every compiled
// guard (ECMAScript or native) in a logger; the log goes into the case and Corr/StepCorr.v checks it
// against the model's guard semantics ([guard_on]) - also for the steps whose choice is order dependent.

import (
	"context"
	"fmt"
	"strings"
	"sync"

	"github.com/Comcast/sheens/core"
	"github.com/Comcast/sheens/match"
)

type guardCall struct {
	Node    string                 `json:"node"`
	Idx     int                    `json:"branch"`
	Cand    map[string]interface{} `json:"candidate"`
	CandNil bool                   `json:"candidate_nil,omitempty"`
	Verdict string                 `json:"verdict"` // accept, reject, fail
	Out     map[string]interface{} `json:"out,omitempty"`
}

var (
	guardLogMu sync.Mutex
	guardLog   []guardCall
)

func resetGuardLog() {
	guardLogMu.Lock()
	guardLog = nil
	guardLogMu.Unlock()
}

func takeGuardLog() []guardCall {
	guardLogMu.Lock()
	defer guardLogMu.Unlock()
	l := guardLog
	guardLog = nil
	return l
}

type guardLogger struct {
	inner core.Action
	node  string
	idx   int
}

func (g *guardLogger) Exec(ctx context.Context, bs match.Bindings, props core.StepProps) (*core.Execution, error) {
	c := guardCall{Node: g.node, Idx: g.idx, CandNil: bs == nil}
	if bs != nil {
		c.Cand, _ = deepCopy(map[string]interface{}(bs), nil).(map[string]interface{})
	}
	exe, err := g.inner.Exec(ctx, bs, props)
	switch {
	case err != nil:
		c.Verdict = "fail"
	case exe == nil || exe.Bs == nil:
		c.Verdict = "reject"
	default:
		c.Verdict = "accept"
		c.Out, _ = deepCopy(map[string]interface{}(exe.Bs), nil).(map[string]interface{})
	}
	guardLogMu.Lock()
	guardLog = append(guardLog, c)
	guardLogMu.Unlock()
	return exe, err
}

func (g *guardLogger) Binds() []match.Bindings { return g.inner.Binds() }
func (g *guardLogger) Emits() []interface{}    { return g.inner.Emits() }

// wrapGuards replaces every compiled guard of the specification by a logging wrapper.
func wrapGuards(spec *core.Spec) {
	for name, n := range spec.Nodes {
		if n == nil || n.Branches == nil {
			continue
		}
		for i, b := range n.Branches.Branches {
			if b != nil && b.Guard != nil {
				b.Guard = &guardLogger{inner: b.Guard, node: name, idx: i}
			}
		}
	}
}

// coqGuardLog renders the calls made at the given node; ok=false when a value has no Coq rendering.
func coqGuardLog(log []guardCall, node string) (string, bool) {
	var items []string
	for _, c := range log {
		if c.Node != node {
			return "", false // a guard of another node ran during one step: not expected
		}
		cand := "None"
		if !c.CandNil {
			nc, _ := normText(c.Cand).(map[string]interface{})
			s, ok := coqBindings(nc)
			if !ok {
				return "", false
			}
			cand = "(Some " + s + ")"
		}
		v := "GVReject"
		switch c.Verdict {
		case "fail":
			v = "GVFail"
		case "accept":
			no, _ := normText(c.Out).(map[string]interface{})
			s, ok := coqBindings(no)
			if !ok {
				return "", false
			}
			v = "(GVAccept " + s + ")"
		}
		items = append(items, fmt.Sprintf("(mk_gcall %d%%nat %s %s)", c.Idx, cand, v))
	}
	return "[" + strings.Join(items, "; ") + "]", true
}
