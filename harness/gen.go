package main

// Generators for JSON values, patterns, messages and bindings.  Every random
// choice comes from the one PRNG in G, seeded from VERIF_SEED.

import (
	"fmt"
	"math/rand"
	"sort"
	"strconv"
)

type G struct {
	r       *rand.Rand
	mode    string    // the property the component is run for (biases the generators)
	recycle *recycler // storage of the previous case's values, reused for the next (match component)
}

func newG(seed int64) *G { return &G{r: rand.New(rand.NewSource(seed))} }

func (g *G) chance(p float64) bool { return g.r.Float64() < p }
func (g *G) intn(n int) int        { return g.r.Intn(n) }
func (g *G) pick(xs []string) string {
	return xs[g.r.Intn(len(xs))]
}

var (
	vocabKeys   = []string{"a", "b", "c", "d"}
	vocabStrs   = []string{"x", "y", "z", "tacos"}
	plainVars   = []string{"?x", "?y", "?z"}
	ineqStems   = []string{"n", "m"}
	ineqOps     = []string{"<", "<=", ">", ">=", "!="}
	optVars     = []string{"??o", "??p"}
	propKeyVars = []string{"?k", "?j"}
)

// num: a multiple of 1/4 in [-1, 2.25]
func (g *G) num() float64 { return float64(g.r.Intn(14)-4) / 4 }

func (g *G) scalar() interface{} {
	switch g.intn(10) {
	case 0:
		return nil
	case 1:
		return g.chance(0.5)
	case 2, 3, 4, 5:
		return g.num()
	case 6:
		// strings that print like values of another type
		return g.pick(lookAlikes)
	default:
		return g.pick(vocabStrs)
	}
}

var lookAlikes = []string{"1", "0", "0.5", "-1", "2", "true", "false", "<nil>", "null", "", "[]", "map[]"}

// twin: the value of another JSON type that prints the same (or the value itself when there is none)
func twin(x interface{}) interface{} {
	switch v := x.(type) {
	case nil:
		return "<nil>"
	case bool:
		return fmt.Sprint(v)
	case float64:
		return fmt.Sprint(v)
	case string:
		switch v {
		case "true":
			return true
		case "false":
			return false
		case "<nil>", "null":
			return nil
		}
		if f, err := strconv.ParseFloat(v, 64); err == nil {
			if _, ok := quarters(f); ok {
				return f
			}
		}
	}
	return x
}

// value: a variable-free JSON value
func (g *G) value(depth int) interface{} {
	if depth <= 0 || g.chance(0.55) {
		return g.scalar()
	}
	if g.chance(0.5) {
		n := g.intn(4)
		m := map[string]interface{}{}
		for i := 0; i < n; i++ {
			m[g.pick(vocabKeys)] = g.value(depth - 1)
		}
		return m
	}
	n := g.intn(4)
	a := make([]interface{}, 0, n)
	for i := 0; i < n; i++ {
		a = append(a, g.value(depth-1))
	}
	return a
}

// pctx carries what a pattern uses so that messages and bindings can be
// built around it.
type pctx struct {
	vars      map[string]bool    // every variable name occurring
	ineqBound map[string]float64 // inequality variables pre-bound to a number
	malformed bool               // allow shapes outside the supported fragment
	plainOnly bool               // only plain variables (C02 planted stream)
	linear    bool               // each variable at most once
	noPreIneq bool
}

func newPctx() *pctx {
	return &pctx{vars: map[string]bool{}, ineqBound: map[string]float64{}}
}

func (g *G) variable(c *pctx) string {
	if c.plainOnly {
		if c.linear {
			for _, v := range []string{"?x", "?y", "?z", "?u", "?v", "?w"} {
				if !c.vars[v] {
					c.vars[v] = true
					return v
				}
			}
			return ""
		}
		v := g.pick(plainVars)
		c.vars[v] = true
		return v
	}
	var v string
	switch k := g.intn(20); {
	case k < 11:
		v = g.pick(plainVars)
	case k < 13:
		v = "?"
	case k < 18:
		v = "?" + g.pick(ineqOps) + g.pick(ineqStems)
		if _, have := c.ineqBound[v]; !have && !c.noPreIneq && g.chance(0.8) {
			c.ineqBound[v] = g.num()
		}
	default:
		// the plain counterpart of an inequality variable, used directly
		v = "?" + g.pick(ineqStems)
	}
	c.vars[v] = true
	return v
}

// pattern builds a pattern top-down.
func (g *G) pattern(depth int, c *pctx) interface{} {
	k := g.intn(100)
	switch {
	case depth <= 0 || k < 18:
		if g.chance(0.55) {
			if v := g.variable(c); v != "" {
				return v
			}
		}
		return g.scalar()
	case k < 30:
		if v := g.variable(c); v != "" {
			return v
		}
		return g.scalar()
	case k < 70:
		// object
		if !c.plainOnly && g.chance(0.18) || c.plainOnly && g.chance(0.1) {
			// property variable as the sole key
			kv := g.pick(propKeyVars)
			if c.linear && c.vars[kv] {
				kv = "?"
			}
			if g.chance(0.25) {
				kv = "?"
			}
			c.vars[kv] = true
			m := map[string]interface{}{kv: g.pattern(depth-1, c)}
			if c.malformed && g.chance(0.5) {
				m[g.pick(vocabKeys)] = g.pattern(depth-1, c)
			}
			return m
		}
		n := g.intn(4)
		m := map[string]interface{}{}
		for i := 0; i < n; i++ {
			key := g.pick(vocabKeys)
			if !c.plainOnly && g.chance(0.1) {
				ov := g.pick(optVars)
				c.vars[ov] = true
				m[key] = ov
			} else {
				m[key] = g.pattern(depth-1, c)
			}
		}
		return m
	default:
		// array: constants and structured patterns, at most one variable
		n := g.intn(4)
		a := make([]interface{}, 0, n+1)
		seen := map[string]bool{}
		for i := 0; i < n; i++ {
			var x interface{}
			if g.chance(0.5) {
				x = g.scalar()
				// arrays are sets: no duplicate scalar constants (mostly)
				if seen[canon(x)] && !c.malformed {
					continue
				}
				seen[canon(x)] = true
			} else {
				x = g.nonVarPattern(depth-1, c)
			}
			a = append(a, x)
		}
		if g.chance(0.6) {
			var v string
			if !c.plainOnly && g.chance(0.25) {
				v = g.pick(optVars)
				c.vars[v] = true
			} else {
				v = g.variable(c)
			}
			if v != "" {
				a = append(a, v)
			}
			if c.malformed && g.chance(0.5) {
				a = append(a, g.variable(c))
			}
		}
		g.r.Shuffle(len(a), func(i, j int) { a[i], a[j] = a[j], a[i] })
		return a
	}
}

// nonVarPattern: a structured pattern (object or array), never a bare variable
func (g *G) nonVarPattern(depth int, c *pctx) interface{} {
	for i := 0; i < 8; i++ {
		p := g.pattern(depth, c)
		switch p.(type) {
		case map[string]interface{}, []interface{}:
			return p
		}
	}
	return map[string]interface{}{g.pick(vocabKeys): g.pattern(0, c)}
}

// instantiate builds a message from the pattern and an assignment sigma
// (extended on demand), adding extra properties and elements.
func (g *G) instantiate(p interface{}, sigma map[string]interface{}, c *pctx, extras bool) interface{} {
	switch v := p.(type) {
	case string:
		if len(v) > 0 && v[0] == '?' {
			if v == "?" {
				return g.value(1)
			}
			if x, have := sigma[v]; have {
				return x
			}
			var x interface{}
			if b, have := c.ineqBound[v]; have {
				switch g.intn(5) {
				case 0:
					x = b - 0.25
				case 1:
					x = b
				case 2:
					x = b + 0.25
				case 3:
					x = g.num()
				default:
					x = g.scalar()
				}
				// the inequality variable itself keeps its bound; what gets
				// bound is the plain counterpart, so do not record it
				return x
			}
			if len(v) > 2 && (v[1] == '<' || v[1] == '>' || v[1] == '!') {
				x = g.num()
			} else if g.chance(0.7) {
				x = g.scalar()
			} else {
				x = g.value(2)
			}
			sigma[v] = x
			return x
		}
		return v
	case map[string]interface{}:
		m := map[string]interface{}{}
		for _, k := range sortedKeys(v) {
			pv := v[k]
			if len(k) > 0 && k[0] == '?' {
				// property variable: the key is a binding too
				var fk string
				if x, have := sigma[k]; have && k != "?" {
					if s, is := x.(string); is {
						fk = s
					} else {
						fk = g.pick(vocabKeys)
					}
				} else {
					fk = g.pick(vocabKeys)
					if k != "?" {
						sigma[k] = fk
					}
				}
				m[fk] = g.instantiate(pv, sigma, c, extras)
				if extras {
					// near-miss siblings: other properties whose values almost match
					// (bind some variables, then fail), to provoke leaks between the
					// branches of the search
					for n := g.intn(3); n > 0; n-- {
						sk := g.pick(vocabKeys)
						if _, have := m[sk]; have {
							continue
						}
						sig2 := map[string]interface{}{}
						if g.chance(0.5) {
							for kk, vv := range sigma {
								sig2[kk] = vv
							}
						}
						sib := g.instantiate(pv, sig2, c, false)
						if g.chance(0.7) {
							sib = g.corrupt(sib)
						}
						m[sk] = sib
					}
				}
				continue
			}
			if s, is := pv.(string); is && len(s) > 1 && s[:2] == "??" && g.chance(0.5) {
				continue // optional and absent
			}
			m[k] = g.instantiate(pv, sigma, c, extras)
		}
		if extras {
			for n := g.intn(3); n > 0; n-- {
				k := g.pick(vocabKeys)
				if _, have := m[k]; !have {
					m[k] = g.value(1)
				}
			}
		}
		return m
	case []interface{}:
		a := make([]interface{}, 0, len(v)+2)
		for _, x := range v {
			if s, is := x.(string); is && len(s) > 1 && s[:2] == "??" && g.chance(0.5) {
				continue
			}
			a = append(a, g.instantiate(x, sigma, c, extras))
		}
		if extras {
			for n := g.intn(3); n > 0; n-- {
				if len(v) > 0 && g.chance(0.4) {
					// a near miss of one of the pattern's structured elements
					x := v[g.intn(len(v))]
					switch x.(type) {
					case map[string]interface{}, []interface{}:
						sig2 := map[string]interface{}{}
						if g.chance(0.5) {
							for kk, vv := range sigma {
								sig2[kk] = vv
							}
						}
						nm := g.instantiate(x, sig2, c, false)
						if g.chance(0.7) {
							nm = g.corrupt(nm)
						}
						a = append(a, nm)
						continue
					}
				}
				a = append(a, g.value(1))
			}
		}
		g.r.Shuffle(len(a), func(i, j int) { a[i], a[j] = a[j], a[i] })
		return a
	default:
		return p
	}
}

// corrupt replaces, removes or adds something at a random position.
func (g *G) corrupt(x interface{}) interface{} {
	switch v := x.(type) {
	case map[string]interface{}:
		if len(v) == 0 || g.chance(0.25) {
			return g.value(1)
		}
		ks := sortedKeys(v)
		k := ks[g.intn(len(ks))]
		m := map[string]interface{}{}
		for kk, vv := range v {
			m[kk] = vv
		}
		switch g.intn(3) {
		case 0:
			delete(m, k)
		default:
			m[k] = g.corrupt(v[k])
		}
		return m
	case []interface{}:
		if len(v) == 0 || g.chance(0.25) {
			return g.value(1)
		}
		i := g.intn(len(v))
		a := append([]interface{}{}, v...)
		switch g.intn(3) {
		case 0:
			a = append(a[:i], a[i+1:]...)
		default:
			a[i] = g.corrupt(v[i])
		}
		return a
	default:
		if g.chance(0.3) {
			// the scalar of another type that prints alike ("404" for 404, "true" for true)
			return twin(x)
		}
		return g.value(1)
	}
}

// bindingsFor builds initial bindings around the pattern's variables.
func (g *G) bindingsFor(c *pctx, sigma map[string]interface{}) map[string]interface{} {
	bs := map[string]interface{}{}
	names := make([]string, 0, len(c.vars))
	for v := range c.vars {
		names = append(names, v)
	}
	sort.Strings(names)
	for _, v := range names {
		if v == "?" {
			continue
		}
		if b, have := c.ineqBound[v]; have {
			bs[v] = b
			// sometimes the plain counterpart is given as well
			if g.chance(0.2) {
				stem := plainOf(v)
				switch g.intn(3) {
				case 0:
					bs[stem] = g.num()
				case 1:
					bs[stem] = g.scalar()
				default:
					if x, have := sigma[stem]; have {
						bs[stem] = x
					}
				}
			}
			continue
		}
		if g.chance(0.2) {
			if x, have := sigma[v]; have && g.chance(0.7) {
				bs[v] = x
			} else if g.chance(0.7) {
				bs[v] = g.scalar()
			} else {
				bs[v] = g.value(2)
			}
		}
	}
	if g.chance(0.2) {
		bs[g.pick([]string{"?w", "k", "cfg!"})] = g.value(1)
	}
	return bs
}

func plainOf(v string) string {
	rest := v[1:]
	for _, op := range []string{"<=", ">=", "!=", ">", "<"} {
		if len(rest) >= len(op) && rest[:len(op)] == op {
			return "?" + rest[len(op):]
		}
	}
	return v
}
