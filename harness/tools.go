package main

// Component "tools" (C20): runs tools.Analyze, tools.Dot and tools.Mermaid on
// generated specifications (compiled, or uncompiled as cmd/spectool passes
// them), under recover(), parses the node and edge statements back out of
// the Graphviz and Mermaid texts and writes the node graph of the spec and
// what was observed as a Gallina term (Corr/ToolsCorr.v: tcase).
//
// The graph handed to the Coq side is read off the real *core.Spec after
// Compile / ParsePatterns (exported fields only), so that everything Compile
// adds (the error node, branching types) is part of the input.

import (
	"bytes"
	"context"
	"encoding/json"
	"fmt"
	"io"
	"log"
	"os"
	"path/filepath"
	"regexp"
	"sort"
	"strconv"
	"strings"

	"github.com/Comcast/sheens/core"
	"github.com/Comcast/sheens/interpreters/noop"
	"github.com/Comcast/sheens/match"
	"github.com/Comcast/sheens/tools"
	"github.com/jsccast/yaml"
)

func init() { components["tools"] = toolsComponent }

// ---------------------------------------------------------------------------
// abstract specification (what the generator and the replay files speak)

type TBranch struct {
	Target     string      `json:"target"`
	Guard      string      `json:"guard,omitempty"` // "", "native", "source"
	GInterp    string      `json:"ginterp,omitempty"`
	HasPattern bool        `json:"hasPattern,omitempty"`
	Pattern    interface{} `json:"pattern,omitempty"`
}

type TNode struct {
	Null        bool        `json:"null,omitempty"`   // a nil *Node (uncompiled specs only)
	Action      string      `json:"action,omitempty"` // "", "native", "source"
	Interp      string      `json:"interp,omitempty"`
	Source      interface{} `json:"source,omitempty"`
	Doc         string      `json:"doc,omitempty"`
	HasBranches bool        `json:"hasBranches,omitempty"` // Branches != nil
	BType       string      `json:"btype,omitempty"`
	Branches    []*TBranch  `json:"branches,omitempty"`
}

type TSpec struct {
	Nodes       map[string]*TNode `json:"nodes"`
	Compile     bool              `json:"compile"`
	NoAutoError bool              `json:"noAutoError,omitempty"`
	ErrorNode   string            `json:"errorNode,omitempty"`
	// how the renderers are called
	From        string             `json:"from,omitempty"`
	To          string             `json:"to,omitempty"`
	MermaidOpts *tools.MermaidOpts `json:"mermaidOpts,omitempty"`
	// a spec document to load instead of Nodes (bundled examples)
	YAML string `json:"yaml,omitempty"`
	File string `json:"file,omitempty"`
}

var nativeAct = &core.FuncAction{
	F: func(ctx context.Context, bs match.Bindings, props core.StepProps) (*core.Execution, error) {
		return core.NewExecution(bs), nil
	},
}

func quietInterpreters() core.Interpreters {
	is := noop.NewInterpreters()
	is.I.Silent = true
	return is
}

// construct makes a fresh, uncompiled *core.Spec.
func (t *TSpec) construct() (*core.Spec, error) {
	if t.YAML != "" {
		var spec *core.Spec
		if err := yaml.Unmarshal([]byte(t.YAML), &spec); err != nil || spec == nil {
			return nil, fmt.Errorf("yaml: %v", err)
		}
		return spec, nil
	}
	spec := &core.Spec{Name: "gen", Nodes: map[string]*core.Node{}, NoAutoErrorNode: t.NoAutoError, ErrorNode: t.ErrorNode}
	for name, tn := range t.Nodes {
		if tn == nil || tn.Null {
			spec.Nodes[name] = nil
			continue
		}
		n := &core.Node{Doc: tn.Doc}
		switch tn.Action {
		case "native":
			n.Action = nativeAct
		case "source":
			src := tn.Source
			if src == nil {
				src = "return _.bindings;"
			}
			n.ActionSource = &core.ActionSource{Interpreter: tn.Interp, Source: src}
		}
		if tn.HasBranches {
			n.Branches = &core.Branches{Type: tn.BType}
			for _, tb := range tn.Branches {
				b := &core.Branch{Target: tb.Target}
				if tb.HasPattern {
					b.Pattern = deepCopy(tb.Pattern, nil)
				}
				switch tb.Guard {
				case "native":
					b.Guard = nativeAct
				case "source":
					b.GuardSource = &core.ActionSource{Interpreter: tb.GInterp, Source: "return _.bindings;"}
				}
				n.Branches.Branches = append(n.Branches.Branches, b)
			}
		}
		spec.Nodes[name] = n
	}
	return spec, nil
}

// build makes the *core.Spec the tools are run on; ok=false when the spec
// does not compile (it is then outside the property's quantifier).
func (t *TSpec) build() (spec *core.Spec, ok bool, why string) {
	defer func() {
		if r := recover(); r != nil {
			spec, ok, why = nil, false, fmt.Sprintf("panic in Compile: %v", r)
		}
	}()
	ctx := context.Background()
	spec, err := t.construct()
	if err != nil {
		return nil, false, err.Error()
	}
	odd := false
	for _, tn := range t.Nodes {
		if tn != nil && tn.BType != "" && tn.BType != "message" && tn.BType != "bindings" {
			odd = true // a branching type Compile rejects: the tools see such a specification before any compilation
		}
	}
	if !(odd && !t.Compile) {
		if err := spec.Compile(ctx, quietInterpreters(), true); err != nil {
			return nil, false, "compile: " + err.Error()
		}
	}
	if t.Compile {
		return spec, true, ""
	}
	// as cmd/spectool does: patterns parsed, nothing compiled
	if spec, err = t.construct(); err != nil {
		return nil, false, err.Error()
	}
	if err := spec.ParsePatterns(ctx); err != nil {
		return nil, false, "patterns: " + err.Error()
	}
	return spec, true, ""
}

// ---------------------------------------------------------------------------
// projection of the real spec to the model's graph

type gBranch struct {
	Target  string      `json:"target"`
	Guard   bool        `json:"guard"`
	GSource *string     `json:"gsource"`
	Pattern interface{} `json:"pattern,omitempty"`
	HasPat  bool        `json:"hasPattern"`
}
type gNode struct {
	Name     string     `json:"name"`
	Null     bool       `json:"null"`
	Action   bool       `json:"action"`
	Source   *string    `json:"source"`
	Branches []*gBranch `json:"branches"` // nil = no Branches
	HasBr    bool       `json:"hasBranches"`
}

func projectSpec(s *core.Spec) []*gNode {
	names := make([]string, 0, len(s.Nodes))
	for name := range s.Nodes {
		names = append(names, name)
	}
	sort.Strings(names)
	var acc []*gNode
	for _, name := range names {
		n := s.Nodes[name]
		gn := &gNode{Name: name}
		if n == nil {
			gn.Null = true
			acc = append(acc, gn)
			continue
		}
		gn.Action = n.Action != nil
		if n.ActionSource != nil {
			i := n.ActionSource.Interpreter
			gn.Source = &i
		}
		if n.Branches != nil {
			gn.HasBr = true
			gn.Branches = []*gBranch{}
			for _, b := range n.Branches.Branches {
				gb := &gBranch{Target: b.Target, Guard: b.Guard != nil}
				if b.GuardSource != nil {
					i := b.GuardSource.Interpreter
					gb.GSource = &i
				}
				if b.Pattern != nil {
					gb.HasPat = true
					gb.Pattern = b.Pattern
				}
				gn.Branches = append(gn.Branches, gb)
			}
		}
		acc = append(acc, gn)
	}
	return acc
}

func coqNat(n int) string { return fmt.Sprintf("%d%%nat", n) }

func coqOptString(s *string) string {
	if s == nil {
		return "None"
	}
	return "(Some " + coqString(*s) + ")"
}

func coqGraph(g []*gNode) (term string, ok bool) {
	// coqString refuses strings outside printable ASCII (bundled specs may have some)
	defer func() {
		if r := recover(); r != nil {
			term, ok = "", false
		}
	}()
	for _, n := range g {
		if !printable(n.Name) {
			return "", false
		}
		for _, b := range n.Branches {
			if !printable(b.Target) {
				return "", false
			}
		}
	}
	var nodes []string
	for _, n := range g {
		if n.Null {
			nodes = append(nodes, "("+coqString(n.Name)+", None)")
			continue
		}
		br := "None"
		if n.HasBr {
			var bs []string
			for _, b := range n.Branches {
				pat := "None"
				if b.HasPat {
					// the pattern never reaches the model's observables; patterns
					// outside the JSON fragment of the model are passed as absent
					if p, ok := coqJSON(b.Pattern); ok {
						pat = "(Some " + p + ")"
					}
				}
				bs = append(bs, fmt.Sprintf("mk_branch %s %s %s %s", coqString(b.Target), coqBool(b.Guard), coqOptString(b.GSource), pat))
			}
			br = "(Some " + coqList(bs) + ")"
		}
		nodes = append(nodes, fmt.Sprintf("(%s, Some (mk_node %s %s %s))", coqString(n.Name), coqBool(n.Action), coqOptString(n.Source), br))
	}
	return coqList(nodes), true
}

func printable(s string) bool {
	for i := 0; i < len(s); i++ {
		if s[i] < 32 || s[i] > 126 {
			return false
		}
	}
	return true
}

// ---------------------------------------------------------------------------
// running the three functions

type sink struct {
	bytes.Buffer
	closed int
}

func (s *sink) Close() error { s.closed++; return nil }

type anObs struct {
	Class                 string   `json:"class"` // ok | panic | error
	NodeCount             int      `json:"nodeCount"`
	Branches              int      `json:"branches"`
	Actions               int      `json:"actions"`
	Guards                int      `json:"guards"`
	TerminalNodes         []string `json:"terminalNodes"`
	Orphans               []string `json:"orphans"`
	EmptyTargets          []string `json:"emptyTargets"`
	MissingTargets        []string `json:"missingTargets"`
	BranchTargetVariables []string `json:"branchTargetVariables"`
	Interpreters          []string `json:"interpreters"`
	Detail                string   `json:"detail,omitempty"`
}

func runAnalyze(s *core.Spec) (o *anObs) {
	o = &anObs{}
	defer func() {
		if r := recover(); r != nil {
			*o = anObs{Class: "panic", Detail: fmt.Sprint(r)}
		}
	}()
	a, err := tools.Analyze(s)
	if err != nil || a == nil {
		return &anObs{Class: "error", Detail: fmt.Sprint(err)}
	}
	return &anObs{Class: "ok", NodeCount: a.NodeCount, Branches: a.Branches, Actions: a.Actions, Guards: a.Guards,
		TerminalNodes: a.TerminalNodes, Orphans: a.Orphans, EmptyTargets: a.EmptyTargets, MissingTargets: a.MissingTargets,
		BranchTargetVariables: a.BranchTargetVariables, Interpreters: a.Interpreters}
}

func coqStrings(ss []string) (string, bool) {
	acc := make([]string, 0, len(ss))
	for _, s := range ss {
		if !printable(s) {
			return "", false
		}
		acc = append(acc, coqString(s))
	}
	return coqList(acc), true
}

func (o *anObs) coq() string {
	switch o.Class {
	case "panic":
		return "GAnPanic"
	case "error":
		return "GAnError"
	}
	parts := []string{coqNat(o.NodeCount), coqNat(o.Branches), coqNat(o.Actions), coqNat(o.Guards)}
	for _, l := range [][]string{o.TerminalNodes, o.Orphans, o.EmptyTargets, o.MissingTargets, o.BranchTargetVariables, o.Interpreters} {
		s, ok := coqStrings(l)
		if !ok {
			return "GAnError"
		}
		parts = append(parts, s)
	}
	return "(GAn (mk_analysis " + strings.Join(parts, " ") + "))"
}

type tItem struct {
	Node string `json:"node,omitempty"`
	From string `json:"from,omitempty"`
	To   string `json:"to,omitempty"`
	Edge bool   `json:"edge,omitempty"`
}

type dotObs struct {
	Class  string  `json:"class"` // ok | panic | error | garbled
	Items  []tItem `json:"items,omitempty"`
	Detail string  `json:"detail,omitempty"`
	Text   string  `json:"text,omitempty"`
}

func runDot(s *core.Spec, from, to string) (o *dotObs) {
	o = &dotObs{}
	w := &sink{}
	defer func() {
		if r := recover(); r != nil {
			*o = dotObs{Class: "panic", Detail: fmt.Sprint(r), Text: clip(w.String())}
		}
	}()
	if err := tools.Dot(s, w, from, to); err != nil {
		return &dotObs{Class: "error", Detail: err.Error(), Text: clip(w.String())}
	}
	items, err := parseDot(w.String())
	if err != nil {
		return &dotObs{Class: "garbled", Detail: err.Error(), Text: clip(w.String())}
	}
	return &dotObs{Class: "ok", Items: items, Text: clip(w.String())}
}

func clip(s string) string {
	if len(s) > 1500 {
		return s[:1500] + "..."
	}
	return s
}

func (o *dotObs) coq() string {
	switch o.Class {
	case "panic":
		return "GPanic"
	case "error":
		return "GError"
	case "garbled":
		return "GGarbled"
	}
	var acc []string
	for _, it := range o.Items {
		if it.Edge {
			if !printable(it.From) || !printable(it.To) {
				return "GGarbled"
			}
			acc = append(acc, "EdgeItem "+coqString(it.From)+" "+coqString(it.To))
		} else {
			if !printable(it.Node) {
				return "GGarbled"
			}
			acc = append(acc, "NodeItem "+coqString(it.Node))
		}
	}
	return "(GItems " + coqList(acc) + ")"
}

type mStmt struct {
	Edge  bool   `json:"edge,omitempty"`
	ID    int    `json:"id,omitempty"`
	Name  string `json:"name,omitempty"`
	Boxed bool   `json:"boxed,omitempty"`
	From  int    `json:"from,omitempty"`
	To    int    `json:"to,omitempty"`
}

type merObs struct {
	Class  string  `json:"class"`
	Stmts  []mStmt `json:"stmts,omitempty"`
	Detail string  `json:"detail,omitempty"`
	Text   string  `json:"text,omitempty"`
}

func runMermaid(s *core.Spec, opts *tools.MermaidOpts, from, to string) (o *merObs) {
	o = &merObs{}
	w := &sink{}
	defer func() {
		if r := recover(); r != nil {
			*o = merObs{Class: "panic", Detail: fmt.Sprint(r), Text: clip(w.String())}
		}
	}()
	if err := tools.Mermaid(s, w, opts, from, to); err != nil {
		return &merObs{Class: "error", Detail: err.Error(), Text: clip(w.String())}
	}
	stmts, err := parseMermaid(w.String())
	if err != nil {
		return &merObs{Class: "garbled", Detail: err.Error(), Text: clip(w.String())}
	}
	return &merObs{Class: "ok", Stmts: stmts, Text: clip(w.String())}
}

func (o *merObs) coq() string {
	switch o.Class {
	case "panic":
		return "GMPanic"
	case "error":
		return "GMError"
	case "garbled":
		return "GMGarbled"
	}
	var acc []string
	for _, st := range o.Stmts {
		if st.Edge {
			acc = append(acc, "MEdge "+coqNat(st.From)+" "+coqNat(st.To))
		} else {
			if !printable(st.Name) {
				return "GMGarbled"
			}
			acc = append(acc, "MNode "+coqNat(st.ID)+" "+coqString(st.Name)+" "+coqBool(st.Boxed))
		}
	}
	return "(GMer " + coqList(acc) + ")"
}

// ---------------------------------------------------------------------------
// reading Graphviz text: statement heads are lexed by the rules of the DOT
// language (identifiers, numerals, double-quoted strings with \" ; keywords);
// attribute lists are skipped (labels are presentation, not structure): a
// statement ends at the first line that ends with ']' (or at the end of its
// line when it has no attribute list).

var dotKeywords = map[string]bool{"node": true, "edge": true, "graph": true, "digraph": true, "subgraph": true, "strict": true}

type dotLexer struct {
	s string
	i int
}

func (l *dotLexer) ws() {
	for l.i < len(l.s) && (l.s[l.i] == ' ' || l.s[l.i] == '\t') {
		l.i++
	}
}

// id reads one identifier; keyword=true for an unquoted keyword.
func (l *dotLexer) id() (name string, keyword bool, err error) {
	l.ws()
	if l.i >= len(l.s) {
		return "", false, fmt.Errorf("identifier expected at end of line")
	}
	c := l.s[l.i]
	switch {
	case c == '"':
		var sb strings.Builder
		j := l.i + 1
		for {
			if j >= len(l.s) {
				return "", false, fmt.Errorf("unterminated string")
			}
			if l.s[j] == '\\' && j+1 < len(l.s) && (l.s[j+1] == '"' || l.s[j+1] == '\\') {
				sb.WriteByte(l.s[j+1])
				j += 2
				continue
			}
			if l.s[j] == '"' {
				break
			}
			sb.WriteByte(l.s[j])
			j++
		}
		l.i = j + 1
		return sb.String(), false, nil
	case c == '_' || c >= 'a' && c <= 'z' || c >= 'A' && c <= 'Z' || c >= 0x80:
		j := l.i
		for j < len(l.s) && (l.s[j] == '_' || l.s[j] >= 'a' && l.s[j] <= 'z' || l.s[j] >= 'A' && l.s[j] <= 'Z' || l.s[j] >= '0' && l.s[j] <= '9' || l.s[j] >= 0x80) {
			j++
		}
		name = l.s[l.i:j]
		l.i = j
		return name, dotKeywords[strings.ToLower(name)], nil
	case c == '-' || c == '.' || c >= '0' && c <= '9':
		m := dotNumeral.FindString(l.s[l.i:])
		if m == "" {
			return "", false, fmt.Errorf("bad numeral at %q", l.s[l.i:])
		}
		l.i += len(m)
		return m, false, nil
	}
	return "", false, fmt.Errorf("identifier expected at %q", l.s[l.i:])
}

var dotNumeral = regexp.MustCompile(`^-?(\.[0-9]+|[0-9]+(\.[0-9]*)?)`)

// skipAttrList finds the line on which the attribute list opened at
// lines[k][col] ends.  It reads double-quoted strings and HTML-like labels
// <...>; inside a label only the tags of Graphviz's label language count as
// markup (Dot does not escape the names, docs and pattern texts it puts into
// labels, so '<' and '>' also occur as plain text).  When no end is found
// that way the layout decides: the first line that ends with ']'.
var (
	dotTagRe      = regexp.MustCompile(`^/?(?i:TABLE|TR|TD|FONT|BR|IMG|I|B|U|O|SUB|SUP|S|HR|VR)(\s|/|>)`)
	dotLabelEndRe = regexp.MustCompile(`^\s*(\]|,|;|[A-Za-z_][A-Za-z0-9_]*\s*=|$)`)
)

func skipAttrList(lines []string, k, col int) (int, bool) {
	const (
		between = iota
		inString
		inLabel
		inTag
	)
	state := between
	var quote byte
	for i := k; i < len(lines); i++ {
		line := lines[i]
		j := 0
		if i == k {
			j = col + 1
		}
		for ; j < len(line); j++ {
			c := line[j]
			switch state {
			case between:
				switch c {
				case '"':
					state = inString
				case '<':
					state = inLabel
				case ']':
					rest := strings.TrimSpace(line[j+1:])
					if rest == "" || rest == ";" {
						return i, true
					}
					return skipAttrListByLayout(lines, k)
				}
			case inString:
				if c == '\\' && j+1 < len(line) {
					j++
				} else if c == '"' {
					state = between
				}
			case inLabel:
				if c == '<' && dotTagRe.MatchString(line[j+1:]) {
					state, quote = inTag, 0
				} else if c == '>' && dotLabelEndRe.MatchString(line[j+1:]) {
					state = between
				}
			case inTag:
				switch {
				case quote != 0:
					if c == quote {
						quote = 0
					}
				case c == '"' || c == '\'':
					quote = c
				case c == '>':
					state = inLabel
				}
			}
		}
	}
	return skipAttrListByLayout(lines, k)
}

func skipAttrListByLayout(lines []string, k int) (int, bool) {
	for i := k; i < len(lines); i++ {
		e := strings.TrimRight(lines[i], " \t\r")
		e = strings.TrimRight(strings.TrimSuffix(e, ";"), " \t")
		if strings.HasSuffix(e, "]") {
			return i, true
		}
	}
	return 0, false
}

var (
	dotHeaderRe   = regexp.MustCompile(`^\s*(strict\s+)?digraph\b[^{]*\{\s*$`)
	dotSubgraphRe = regexp.MustCompile(`^\s*(subgraph\b[^{]*)?\{\s*$`)
)

func parseDot(text string) ([]tItem, error) {
	lines := strings.Split(text, "\n")
	// frame
	k := 0
	for k < len(lines) && strings.TrimSpace(lines[k]) == "" {
		k++
	}
	if k >= len(lines) || !dotHeaderRe.MatchString(lines[k]) {
		return nil, fmt.Errorf("no 'digraph ... {' header")
	}
	k++
	var items []tItem
	depth := 1
	for ; k < len(lines) && depth > 0; k++ {
		line := lines[k]
		t := strings.TrimSpace(line)
		if t == "" || strings.HasPrefix(t, "//") || strings.HasPrefix(t, "#") {
			continue
		}
		if t == "}" || t == "};" {
			depth--
			continue
		}
		if dotSubgraphRe.MatchString(line) {
			depth++
			continue
		}
		lx := &dotLexer{s: line}
		a, kw, err := lx.id()
		if err != nil {
			return nil, fmt.Errorf("line %d: %v", k+1, err)
		}
		var it tItem
		lx.ws()
		if strings.HasPrefix(lx.s[lx.i:], "->") {
			if kw {
				return nil, fmt.Errorf("line %d: keyword %q as an edge end", k+1, a)
			}
			lx.i += 2
			b, kwb, err := lx.id()
			if err != nil {
				return nil, fmt.Errorf("line %d: %v", k+1, err)
			}
			if kwb {
				return nil, fmt.Errorf("line %d: keyword %q as an edge end", k+1, b)
			}
			it = tItem{Edge: true, From: a, To: b}
		} else {
			it = tItem{Node: a}
		}
		lx.ws()
		rest := strings.TrimRight(lx.s[lx.i:], " \t\r")
		switch {
		case rest == "" || rest == ";":
			if kw {
				return nil, fmt.Errorf("line %d: bare keyword", k+1)
			}
		case rest[0] == '[':
			end, ok := skipAttrList(lines, k, len(line)-len(lx.s[lx.i:]))
			if !ok {
				return nil, fmt.Errorf("unterminated attribute list")
			}
			k = end
		case rest[0] == '=' && !it.Edge:
			// graph attribute  name = value
			continue
		default:
			return nil, fmt.Errorf("line %d: unexpected %q after the statement head", k+1, rest)
		}
		if kw {
			continue // node [...], edge [...], graph [...]: default attributes, not a node
		}
		items = append(items, it)
	}
	if depth != 0 {
		return nil, fmt.Errorf("no closing brace")
	}
	for ; k < len(lines); k++ {
		if strings.TrimSpace(lines[k]) != "" {
			return nil, fmt.Errorf("text after the closing brace")
		}
	}
	return items, nil
}

// ---------------------------------------------------------------------------
// reading Mermaid flowchart text

var (
	merHeaderRe = regexp.MustCompile(`^\s*(graph|flowchart)\s+\w+\s*;?\s*$`)
	merNodeRe   = regexp.MustCompile(`^\s*([A-Za-z_][A-Za-z0-9_]*)\s*([(\[{]+)"`)
	merEdge0Re  = regexp.MustCompile(`^\s*([A-Za-z_][A-Za-z0-9_]*)\s+-->\s*([A-Za-z_][A-Za-z0-9_]*)\s*;?\s*$`)
	merEdge1Re  = regexp.MustCompile(`^\s*([A-Za-z_][A-Za-z0-9_]*)\s+(--\s*|-->\s*\|\s*)"`)
	merEdgeEnd  = regexp.MustCompile(`^\s*(-->|\|)\s*([A-Za-z_][A-Za-z0-9_]*)\s*;?\s*$`)
	merSkipRe   = regexp.MustCompile(`^\s*(%%|(style|classDef|class|linkStyle|click|direction|subgraph)\s|end\s*$)`)
	merEntity   = regexp.MustCompile(`#(quot|[0-9]+);`)
)

func merUnescape(s string) string {
	return merEntity.ReplaceAllStringFunc(s, func(m string) string {
		body := m[1 : len(m)-1]
		if body == "quot" {
			return `"`
		}
		n, err := strconv.Atoi(body)
		if err != nil || n < 0 || n > 0x10ffff {
			return m
		}
		return string(rune(n))
	})
}

// parseMermaid reads the node and edge statements.  Node ids are opaque
// tokens; they are numbered in order of first appearance (an id declared
// twice, or used and never declared, is found by mer_items on the Coq side).
func parseMermaid(text string) ([]mStmt, error) {
	lines := strings.Split(text, "\n")
	k := 0
	for k < len(lines) && strings.TrimSpace(lines[k]) == "" {
		k++
	}
	if k >= len(lines) || !merHeaderRe.MatchString(lines[k]) {
		return nil, fmt.Errorf("no 'graph <direction>' header")
	}
	k++
	ids := map[string]int{}
	idOf := func(tok string) int {
		if n, have := ids[tok]; have {
			return n
		}
		ids[tok] = len(ids) + 1
		return ids[tok]
	}
	closers := map[byte]byte{'(': ')', '[': ']', '{': '}'}
	var stmts []mStmt
	for ; k < len(lines); k++ {
		line := lines[k]
		if strings.TrimSpace(line) == "" || merSkipRe.MatchString(line) {
			continue
		}
		if m := merNodeRe.FindStringSubmatch(line); m != nil {
			rest := line[len(m[0]):]
			q := strings.IndexByte(rest, '"')
			if q < 0 {
				return nil, fmt.Errorf("line %d: unterminated label", k+1)
			}
			want := ""
			for i := len(m[2]) - 1; i >= 0; i-- {
				want += string(closers[m[2][i]])
			}
			after := strings.TrimRight(rest[q+1:], " \t\r")
			after = strings.TrimRight(strings.TrimSuffix(after, ";"), " \t")
			if after != want {
				return nil, fmt.Errorf("line %d: %q after the label", k+1, rest[q+1:])
			}
			stmts = append(stmts, mStmt{ID: idOf(m[1]), Name: merUnescape(rest[:q]), Boxed: m[2][0] == '['})
			continue
		}
		if m := merEdge0Re.FindStringSubmatch(line); m != nil {
			a := idOf(m[1])
			stmts = append(stmts, mStmt{Edge: true, From: a, To: idOf(m[2])})
			continue
		}
		if m := merEdge1Re.FindStringSubmatch(line); m != nil {
			a := idOf(m[1])
			// the label runs to the next double quote, possibly on a later line
			rest := line[len(m[0]):]
			for {
				if q := strings.IndexByte(rest, '"'); q >= 0 {
					rest = rest[q+1:]
					break
				}
				k++
				if k >= len(lines) {
					return nil, fmt.Errorf("unterminated edge label")
				}
				rest = lines[k]
			}
			e := merEdgeEnd.FindStringSubmatch(rest)
			if e == nil {
				return nil, fmt.Errorf("line %d: %q after the edge label", k+1, rest)
			}
			stmts = append(stmts, mStmt{Edge: true, From: a, To: idOf(e[2])})
			continue
		}
		return nil, fmt.Errorf("line %d: not a statement: %q", k+1, line)
	}
	return stmts, nil
}

// ---------------------------------------------------------------------------
// the case

type toolsCase struct {
	Kind     string   `json:"kind"`
	Spec     *TSpec   `json:"spec"`
	Graph    []*gNode `json:"graph,omitempty"`
	Analysis *anObs   `json:"analysis,omitempty"`
	Dot      *dotObs  `json:"dot,omitempty"`
	Mermaid  *merObs  `json:"mermaid,omitempty"`
	Skipped  string   `json:"skipped,omitempty"`
}

func (c *toolsCase) run() bool {
	spec, ok, why := c.Spec.build()
	if !ok {
		c.Skipped = why
		return false
	}
	c.Graph = projectSpec(spec)
	c.Analysis = runAnalyze(spec)
	c.Dot = runDot(spec, c.Spec.From, c.Spec.To)
	c.Mermaid = runMermaid(spec, sharedMermaidOpts(c.Spec.MermaidOpts), c.Spec.From, c.Spec.To)
	return true
}

var mermaidOptsPool = map[string]*tools.MermaidOpts{}

// sharedMermaidOpts: a host keeps one options value and renders one specification (revision) after the other with it;
// every rendering must be what it is with fresh options (the rendering is compared with the model as usual)
func sharedMermaidOpts(o *tools.MermaidOpts) *tools.MermaidOpts {
	if o == nil {
		return nil
	}
	key := jsText(o)
	if shared, have := mermaidOptsPool[key]; have {
		return shared
	}
	mermaidOptsPool[key] = o
	return o
}

// features of the graph, for the histogram and the non-triviality rule
type gFeatures struct {
	placeholder, native, null, orphan, oddName, guard, source, emptyTarget, tvar, missing, terminal bool
}

var plainIdent = regexp.MustCompile(`^[A-Za-z_][A-Za-z0-9_]*$`)

func features(g []*gNode) gFeatures {
	var f gFeatures
	isNode := map[string]bool{}
	targeted := map[string]bool{}
	for _, n := range g {
		isNode[n.Name] = true
	}
	for _, n := range g {
		if !plainIdent.MatchString(n.Name) || dotKeywords[strings.ToLower(n.Name)] {
			f.oddName = true
		}
		if n.Null {
			f.null = true
		}
		if n.Action && n.Source == nil {
			f.native = true
		}
		if n.Source != nil {
			f.source = true
		}
		if len(n.Branches) == 0 {
			f.terminal = true
		}
		for _, b := range n.Branches {
			targeted[b.Target] = true
			if b.Guard || b.GSource != nil {
				f.guard = true
			}
			if !isNode[b.Target] {
				f.placeholder = true
				switch {
				case b.Target == "":
					f.emptyTarget = true
				case strings.HasPrefix(b.Target, "@"):
					f.tvar = true
				default:
					f.missing = true
				}
				if !plainIdent.MatchString(b.Target) {
					f.oddName = true
				}
			}
		}
	}
	for _, n := range g {
		if !targeted[n.Name] && n.Name != "start" {
			f.orphan = true
		}
	}
	return f
}

func toolsComponent(g *G, n int, opts map[string]string) *Out {
	log.SetOutput(io.Discard)
	o := newOut("Corr.ToolsCorr", "tcase")
	emit := func(c *toolsCase) {
		if !c.run() {
			o.count("skipped: not compilable")
			if os.Getenv("VERIF_DEBUG") != "" {
				fmt.Fprintln(os.Stderr, "skipped:", c.Kind, c.Spec.File, c.Skipped)
			}
			return
		}
		graph, ok := coqGraph(c.Graph)
		if !ok {
			o.count("skipped: name outside printable ASCII")
			return
		}
		term := fmt.Sprintf("(mk_tcase %s %s %s %s)", graph, c.Analysis.coq(), c.Dot.coq(), c.Mermaid.coq())
		f := features(c.Graph)
		o.count(fmt.Sprintf("nodes=%d", len(c.Graph)))
		if c.Spec.Compile {
			o.count("compiled")
		} else {
			o.count("uncompiled")
		}
		for name, on := range map[string]bool{"target not a node": f.placeholder, "missing target": f.missing, "@variable target": f.tvar,
			"empty target": f.emptyTarget, "native action": f.native, "source action": f.source, "null node": f.null,
			"unreachable node": f.orphan, "non-identifier name": f.oddName, "guard": f.guard, "terminal node": f.terminal} {
			if on {
				o.count(name)
			}
		}
		o.count("analysis:" + c.Analysis.Class)
		o.count("dot:" + c.Dot.Class)
		o.count("mermaid:" + c.Mermaid.Class)
		key := canon(c.Graph)
		nontrivial := f.placeholder || f.native || f.null || f.orphan
		o.add(term, key, nontrivial, c)
	}
	if path := opts["replay"]; path != "" {
		for _, c := range loadToolsReplay(path) {
			emit(c)
		}
		return o
	}
	if opts["nocorpus"] == "" {
		for _, c := range toolsCorpus() {
			emit(c)
		}
	}
	for i := 0; i < n; i++ {
		emit(&toolsCase{Kind: "generated", Spec: g.tspec()})
	}
	if opts["enum"] != "" {
		for _, c := range enumToolsSpecs() {
			emit(c)
		}
		o.Notes = append(o.Notes, "exhaustive small scope included: every spec with nodes among {start, a}, action none/native/source or a null node, "+
			"0-2 branches per node with targets in {start, a, gone, @v, \"\"}, uncompiled and compiled")
	}
	o.Notes = append(o.Notes, "non-trivial = the graph has a target that is not a node, a native action, a null node, or an unreachable node other than start")
	return o
}

func loadToolsReplay(path string) []*toolsCase {
	js, err := os.ReadFile(path)
	must(err)
	var wrapper struct {
		Cases []*toolsCase `json:"cases"`
	}
	must(json.Unmarshal(js, &wrapper))
	var acc []*toolsCase
	for _, c := range wrapper.Cases {
		if c == nil || c.Spec == nil {
			continue
		}
		acc = append(acc, &toolsCase{Kind: "replay", Spec: c.Spec})
	}
	return acc
}

// ---------------------------------------------------------------------------
// corpus: the witnesses of D20, D21, D31, D32, D33, the bundled examples

func tb(target string) *TBranch { return &TBranch{Target: target} }

func toolsCorpus() []*toolsCase {
	var acc []*toolsCase
	add := func(kind string, s *TSpec) { acc = append(acc, &toolsCase{Kind: kind, Spec: s}) }
	for _, compile := range []bool{false, true} {
		// D20: a native action
		add("corpus-D20", &TSpec{Compile: compile, Nodes: map[string]*TNode{"start": {Action: "native"}}})
		// D21: first branch to a node that does not exist, second to one that does
		add("corpus-D21", &TSpec{Compile: compile, Nodes: map[string]*TNode{
			"start": {HasBranches: true, Branches: []*TBranch{tb("gone"), tb("b")}}, "b": {}}})
		// cmd/spectool/demo.yaml shape: a branch target variable and an empty target
		add("corpus-D21-var", &TSpec{Compile: compile, Nodes: map[string]*TNode{
			"start": {HasBranches: true, Branches: []*TBranch{tb("@from"), tb(""), tb("start")}}}})
		// D31: names that are not Graphviz identifiers (specs/double-test.yaml has test-1)
		add("corpus-D31", &TSpec{Compile: compile, Nodes: map[string]*TNode{
			"start":  {HasBranches: true, Branches: []*TBranch{tb("test-1"), tb("node"), tb("two words")}},
			"test-1": {Action: "source", Interp: "ecmascript", Source: "return _.bindings;", HasBranches: true, Branches: []*TBranch{tb("edge")}},
			"node":   {}, "edge": {}, "two words": {}, "a -> b": {}, "42": {}}})
		// D32: a double quote in a name
		add("corpus-D32", &TSpec{Compile: compile, Nodes: map[string]*TNode{
			"start":      {HasBranches: true, Branches: []*TBranch{tb(`say "hi"`)}},
			`say "hi"`:   {Action: "native"},
			`a#b`:        {},
			`trail\`:     {},
			`back\slash`: {HasBranches: true, Branches: []*TBranch{tb(`trail\`)}}}})
	}
	// D33: a null node (only an uncompiled spec can have one)
	add("corpus-D33", &TSpec{Nodes: map[string]*TNode{
		"start": {HasBranches: true, Branches: []*TBranch{tb("idle")}}, "idle": {Null: true}}})
	// adversarial label contents: nothing in a label may be read as a statement
	long := map[string]interface{}{"a": "x --> n9", "b": `</pre>" --> n1`, "c": []interface{}{"] ;", "?<n", 1.5}, "d": map[string]interface{}{"k": "\"q\""}}
	add("corpus-labels", &TSpec{Compile: true, From: "start", To: "a", Nodes: map[string]*TNode{
		"start": {Doc: "First sentence of a long documentation string. Second one.\nstart -> gone", Action: "source", Interp: "goja",
			Source: "if (1 < 2 && 3 > 2) {\n  return _.bindings; // n1 --> n2 ]\n}", HasBranches: true, BType: "message",
			Branches: []*TBranch{{Target: "a", HasPattern: true, Pattern: long, Guard: "source", GInterp: "ecmascript"},
				{Target: "a", HasPattern: true, Pattern: "?x", Guard: "native"}}},
		"a": {Action: "source", Interp: "", Source: map[string]interface{}{"code": "x"}}}})
	// a big specification: more branches than a diagram tool cares to lay out (Mermaid's own limit is 500 edges) are
	// branches all the same
	{
		big := &TSpec{Compile: true, Nodes: map[string]*TNode{}}
		for i := 0; i < 40; i++ {
			nd := &TNode{HasBranches: true, BType: "message"}
			for j := 0; j < 13; j++ {
				nd.Branches = append(nd.Branches, &TBranch{Target: fmt.Sprintf("n%02d", (i+j+1)%40), HasPattern: true, Pattern: map[string]interface{}{"k": float64(j)}})
			}
			big.Nodes[fmt.Sprintf("n%02d", i)] = nd
		}
		big.Nodes["start"] = &TNode{HasBranches: true, Branches: []*TBranch{tb("n00")}}
		add("corpus-big", big)
	}
	// the bundled examples
	for _, compile := range []bool{false, true} {
		add("corpus-turnstile", &TSpec{Compile: compile, YAML: turnstileYAML})
	}
	repo := os.Getenv("VERIF_REPO")
	if repo == "" {
		repo = "/repo"
	}
	files, _ := filepath.Glob(filepath.Join(repo, "specs", "*.yaml"))
	more, _ := filepath.Glob(filepath.Join(repo, "cmd", "spectool", "*.yaml"))
	files = append(files, more...)
	sort.Strings(files)
	for _, f := range files {
		src, err := os.ReadFile(f)
		if err != nil {
			continue
		}
		for _, compile := range []bool{false, true} {
			add("corpus-file", &TSpec{Compile: compile, YAML: string(src), File: filepath.Base(f)})
		}
	}
	return acc
}

const turnstileYAML = `
name: turnstile
nodes:
  locked:
    branching:
      type: message
      branches:
      - pattern: {"input": "coin"}
        target: unlocked
      - pattern: {"input": "push"}
        target: locked
  unlocked:
    branching:
      type: message
      branches:
      - pattern: {"input": "coin"}
        target: unlocked
      - pattern: {"input": "push"}
        target: locked
`

// ---------------------------------------------------------------------------
// generator

var (
	tIdentNames = []string{"start", "a", "b", "c", "idle", "done", "error", "wait_1", "N0"}
	tOddNames   = []string{"test-1", "two words", "node", "edge", "graph", "Digraph", "subgraph", "strict", "42", "-7", "3.5",
		"a->b", "x -- y", "a [x]", `say "hi"`, "it's", "semi;colon", "a#b", "{curly}", "<tag>", "a&b", "@at", "", "100%",
		`back\slash`, `trail\`, "n1", "end", "a.b", "(paren)", "#quot;"}
	tMissing     = []string{"gone", "nowhere", "lost one", "miss-ing", `"q"`}
	tVars        = []string{"@from", "@x", "@", "@a b"}
	tInterps     = []string{"ecmascript", "ecmascript", "goja", "noop", "", "ecmascript-5.1", "default"}
	tDocs        = []string{"", "", "Short doc.", "A first sentence that is rather long for a label. Then a second one.", "two\nlines", "x < y & z > w", "see [x]\nthen [y]", "a < b"}
	tSources     = []interface{}{"return _.bindings;", "var x = 1;\nif (x < 2) { return null; }\nreturn _.bindings;", map[string]interface{}{"requires": "lib"}, 7.0}
	tOddPatterns = []interface{}{
		map[string]interface{}{"n": "?<n"}, map[string]interface{}{"likes": "?likes", "when": "now"},
		map[string]interface{}{"text": `he said "hi" --> n3`}, []interface{}{"a", "] ;", map[string]interface{}{"deep": map[string]interface{}{"deeper": "a rather long string value to push the text over forty characters"}}},
		"?x", 1.25, true, map[string]interface{}{},
	}
)

func (g *G) tname() string {
	if g.chance(0.7) {
		return g.pick(tIdentNames)
	}
	return g.pick(tOddNames)
}

func (g *G) tspec() *TSpec {
	t := &TSpec{Nodes: map[string]*TNode{}, Compile: g.chance(0.55)}
	if g.chance(0.3) {
		t.NoAutoError = true
	}
	if g.chance(0.1) {
		t.ErrorNode = g.tname()
		if t.ErrorNode == "" {
			t.ErrorNode = "oops"
		}
	}
	nn := g.intn(6)
	if g.chance(0.1) {
		nn = 6 + g.intn(6)
	}
	var names []string
	if g.chance(0.8) && nn > 0 {
		names = append(names, "start")
	}
	for len(names) < nn {
		x := g.tname()
		dup := false
		for _, y := range names {
			if x == y {
				dup = true
			}
		}
		if !dup {
			names = append(names, x)
		} else if g.chance(0.3) {
			nn--
		}
	}
	target := func() string {
		switch k := g.intn(100); {
		case k < 62 && len(names) > 0:
			return names[g.intn(len(names))]
		case k < 76:
			return g.pick(tMissing)
		case k < 88:
			return g.pick(tVars)
		case k < 94:
			return ""
		default:
			return g.tname()
		}
	}
	for _, name := range names {
		tn := &TNode{}
		if !t.Compile && g.chance(0.12) {
			tn.Null = true
			t.Nodes[name] = tn
			continue
		}
		switch k := g.intn(10); {
		case k < 3:
			tn.Action = "native"
		case k < 7:
			tn.Action = "source"
			tn.Interp = g.pick(tInterps)
			tn.Source = tSources[g.intn(len(tSources))]
		}
		tn.Doc = g.pick(tDocs)
		if g.chance(0.8) {
			tn.HasBranches = true
			tn.BType = []string{"", "message", "bindings"}[g.intn(3)]
			if !t.Compile && g.chance(0.06) {
				tn.BType = g.pick([]string{"mesage", "none", "Message"}) // a typo: analysed and drawn like any other node
			}
			nb := g.intn(4)
			if g.chance(0.15) {
				nb = 0
			}
			for i := 0; i < nb; i++ {
				b := &TBranch{Target: target()}
				switch k := g.intn(10); {
				case k < 2:
					b.Guard = "native"
				case k < 5:
					b.Guard = "source"
					b.GInterp = g.pick(tInterps)
				}
				switch k := g.intn(10); {
				case k < 4:
					b.HasPattern = true
					b.Pattern = g.pattern(2, newPctx())
				case k < 6:
					b.HasPattern = true
					b.Pattern = tOddPatterns[g.intn(len(tOddPatterns))]
				}
				tn.Branches = append(tn.Branches, b)
			}
		}
		t.Nodes[name] = tn
	}
	if g.chance(0.4) && len(names) > 0 {
		t.From = names[g.intn(len(names))]
		t.To = target()
	}
	if g.chance(0.3) {
		t.MermaidOpts = &tools.MermaidOpts{ShowPatterns: g.chance(0.6), PrettyPatterns: g.chance(0.7)}
		if g.chance(0.5) {
			t.MermaidOpts.ActionFill = "#cccccc"
		}
		if g.chance(0.2) {
			t.MermaidOpts.ActionClass = "act"
		}
	}
	return t
}

// enumToolsSpecs: the small scope, exhaustively (thorough tier)
func enumToolsSpecs() []*toolsCase {
	targets := []string{"start", "a", "gone", "@v", ""}
	var branchLists [][]*TBranch
	branchLists = append(branchLists, nil)
	for _, x := range targets {
		branchLists = append(branchLists, []*TBranch{tb(x)})
	}
	for _, x := range targets {
		for _, y := range targets {
			branchLists = append(branchLists, []*TBranch{tb(x), tb(y)})
		}
	}
	var shapes []*TNode
	shapes = append(shapes, &TNode{Null: true})
	for _, act := range []string{"", "native", "source"} {
		shapes = append(shapes, &TNode{Action: act, Interp: "ecmascript"})
		for _, bl := range branchLists {
			shapes = append(shapes, &TNode{Action: act, Interp: "ecmascript", HasBranches: true, Branches: bl})
		}
	}
	var acc []*toolsCase
	add := func(nodes map[string]*TNode) {
		hasNull := false
		for _, n := range nodes {
			if n.Null {
				hasNull = true
			}
		}
		acc = append(acc, &toolsCase{Kind: "enum", Spec: &TSpec{Nodes: nodes, NoAutoError: true}})
		if !hasNull {
			acc = append(acc, &toolsCase{Kind: "enum", Spec: &TSpec{Nodes: nodes, NoAutoError: true, Compile: true}})
		}
	}
	add(map[string]*TNode{})
	for _, s := range shapes {
		add(map[string]*TNode{"start": s})
		add(map[string]*TNode{"a": s})
	}
	for _, s := range shapes {
		for _, u := range shapes {
			add(map[string]*TNode{"start": s, "a": u})
		}
	}
	return acc
}
