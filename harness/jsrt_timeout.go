package main

// Components "jstimeout" and "jsroute" (C11).
//
// jstimeout: Interpreter.Exec (directly and through the compiled core.Action)
// on scripts that spend their time in interpreted code, under contexts that
// are already over, end after 1..300 ms (deadline or explicit cancellation) or
// never end (finite scripts only), 1..64 executions at once.  Observed per
// batch: the class of every result, whether every execution returned within
// deadline + slack, and whether the number of goroutines is back to where it
// was before the batch (counted before the batch's contexts are released, so a
// watcher that waits for the caller's context shows).
//
// jsroute: Spec.Walk over specifications in which an action or a guard loops
// until the deadline, against the same specification with a throw in place of
// the loop (Go vs Go), and against the model's walk.
//
// Memory: every script keeps its heap bounded (arrays and objects are reset,
// recursion is bounded) except "unbounded-rec", which is only run with at most
// 4 executions at once (about 50 MB/s each while it runs).  After the first
// execution that does not return (a hang: deadline + 8 s) no further endless
// script is started.

import (
	"context"
	"errors"
	"fmt"
	"runtime"
	"sync"
	"time"

	"github.com/Comcast/sheens/core"
	"github.com/Comcast/sheens/interpreters/ecmascript"
	"github.com/Comcast/sheens/match"
)

func init() {
	components["jstimeout"] = jstimeoutComponent
	components["jsroute"] = jsrouteComponent
}

type loopShape struct {
	Name     string
	Src      string
	Infinite bool
	MaxConc  int
	Warm     int // the compiled program has run this often before, quickly and without error (bindings n = 0.5)
}

var loopShapes = []loopShape{
	{"for", `for(;;){}`, true, 64, 0},
	{"while-push", `var a=[]; while(true){ a.push(1); if (a.length > 1000) { a = []; } }`, true, 64, 0},
	{"mutual-rec", `function f(n){ return n<=0 ? 0 : g(n-1); } function g(n){ return n<=0 ? 0 : f(n-1); } for(;;){ f(200); }`, true, 64, 0},
	{"deep-rec", `function r(n){ return n<=0 ? 0 : 1 + r(n-1); } for(;;){ r(2000); }`, true, 64, 0},
	{"prop-churn", `var o={}, i=0; for(;;){ o['k'+(i%50)] = i; delete o['k'+((i+25)%50)]; i++; }`, true, 64, 0},
	{"array-ops", `var a=[3,1,2], i=0; for(;;){ a[i%3] = i; a.indexOf(i); a.slice(0,2); i++; }`, true, 64, 0},
	{"string-ops", `var s=''; for(;;){ s = (s + 'x').slice(-10); }`, true, 64, 0},
	{"try-catch", `for(;;){ try { for(;;){} } catch(e) {} }`, true, 64, 0},
	{"try-finally", `for(;;){ try { for(;;){} } finally { for(;;){} } }`, true, 64, 0},
	{"bindings-churn", `var b=_.bindings||{}, i=0; for(;;){ b['n'] = i++; _.out === undefined; }`, true, 64, 0},
	// the time is spent while the result is exported (a getter of the returned object): D51, hung Exec
	{"getter-loop", `return {get a() { for(;;){} }};`, true, 64, 0},
	{"getter-rec", `return {x: {get a() { function f(n){ return n<=0 ? 0 : 1 + f(n-1); } for(;;){ f(100); } }}};`, true, 64, 0},
	// endless without a loop statement or the word function: recursion through shorthand methods, arrows and accessors
	{"method-rec", `var o = {spin(n) { return n < 1 ? 1 : this.spin(n-1) + this.spin(n-1); }}; return {r: o.spin(300)};`, true, 64, 0},
	{"arrow-rec", `var f = (n) => n < 1 ? 1 : f(n-1) + f(n-1); return {r: f(300)};`, true, 64, 0},
	{"accessor-rec", `var o = {n: 300, get x() { if (this.n < 1) { return 1; } this.n--; var a = this.x + this.x; this.n++; return a; }}; return {r: o.x};`, true, 64, 0},
	// whether it ends depends on the bindings: the same compiled program has ended quickly a hundred times before
	{"data-loop", `var n = _.bindings.n; while (n != 0.5) { n = n - 1; if (n < -1000) { n = 1000; } } return {};`, true, 64, 100},
	// never ends while the text of a thrown value is computed (its toString): during the body, and after the body returned
	{"throw-tostring-loop", `throw {toString: function() { for(;;){} }};`, true, 64, 0},
	{"getter-throw-tostring-loop", `return {get a() { throw {toString: function() { for(;;){} }}; }};`, true, 64, 0},
	{"unbounded-rec", `function f(n){ return f(n+1)+1; } return {x: f(0)};`, true, 4, 0},
	{"finite-loop", `var s=0; for(var i=0;i<2000;i++){ s+=i; } return {s: s};`, false, 64, 0},
	{"finite-rec", `function r(n){ return n<=0 ? 0 : 1 + r(n-1); } return {r: r(300)};`, false, 64, 0},
	{"finite-trivial", `return _.bindings;`, false, 64, 0},
	// finite scripts that end with an error of their own (not an interruption): the watcher must go away all the same
	{"finite-throw", `throw "boom";`, false, 64, 0},
	{"finite-referr", `return nosuch.x;`, false, 64, 0},
	{"finite-badret", `return 42;`, false, 64, 0},
	{"finite-emitbad", `_.out(function(){}); return _.bindings;`, false, 64, 0},
}

// endsWithOwnError: the script ends by itself with an error; for the protocol that is "finished"
func (sh loopShape) endsWithOwnError() bool {
	switch sh.Name {
	case "finite-throw", "finite-referr", "finite-badret", "finite-emitbad":
		return true
	}
	return false
}

// deadline classes in ms; -1 = the context is already over; 0 = never ends
var deadlineClasses = []int{-1, 1, 5, 20, 100, 300}

const (
	routeDeadline = 25 * time.Millisecond // jsroute: the deadline of a walk that reaches an endless script
	promptSlack   = 3 * time.Second       // returned later than deadline + this: not prompt
	hangLimit     = 8 * time.Second       // not returned by deadline + this: a hang
)

type tBatch struct {
	Shape    string   `json:"shape"`
	Infinite bool     `json:"infinite"`
	Deadline int      `json:"deadline_ms"` // -1 expired, 0 never
	Cancel   bool     `json:"explicit_cancel"`
	Conc     int      `json:"concurrent"`
	Route    int      `json:"route"`
	Outcomes []string `json:"outcomes"`
	WorstMs  int64    `json:"worst_elapsed_ms"`
	Prompt   bool     `json:"prompt"`
	Before   int      `json:"goroutines_before"`
	After    int      `json:"goroutines_after"`
	Leak     bool     `json:"leak"`
}

func settleGoroutines(target int, max time.Duration) int {
	deadline := time.Now().Add(max)
	n := runtime.NumGoroutine()
	for n > target && time.Now().Before(deadline) {
		time.Sleep(2 * time.Millisecond)
		n = runtime.NumGoroutine()
	}
	return n
}

var (
	tHangSeen = false // an execution did not return: no further endless script is started
	tSlow     = 0     // batches that were not prompt
	tLeaks    = 0     // batches that left goroutines behind
)

// runBatch executes conc executions of one script at once.
func runBatch(sh loopShape, deadline int, explicit bool, conc, route int) *tBatch {
	b := &tBatch{Shape: sh.Name, Infinite: sh.Infinite, Deadline: deadline, Cancel: explicit, Conc: conc, Route: route, Prompt: true}
	ctxBG := context.Background()
	compiled, err := sharedInterpreter.Compile(ctxBG, sh.Src)
	if err != nil {
		panic(err)
	}
	as := &core.ActionSource{Interpreter: "ecmascript", Source: sh.Src}
	action, err := as.Compile(ctxBG, interpreters())
	if err != nil {
		panic(err)
	}
	for k := 0; k < sh.Warm; k++ {
		wctx, wcancel := context.WithTimeout(ctxBG, 20*time.Second)
		wbs := match.Bindings{"n": 0.5}
		sharedInterpreter.Exec(wctx, wbs, nil, sh.Src, compiled)
		action.Exec(wctx, wbs, nil)
		wcancel()
	}
	runtime.GC()
	b.Before = settleGoroutines(0, 50*time.Millisecond)
	// contexts: created before, released after the goroutines have been counted
	type slot struct {
		ctx     context.Context
		release context.CancelFunc
		outcome string
		elapsed time.Duration
	}
	slots := make([]*slot, conc)
	d := time.Duration(deadline) * time.Millisecond
	for i := range slots {
		s := &slot{}
		switch {
		case deadline < 0 && explicit:
			s.ctx, s.release = context.WithCancel(ctxBG)
			s.release()
		case deadline < 0:
			s.ctx, s.release = context.WithDeadline(ctxBG, time.Now().Add(-time.Second))
		case deadline == 0:
			s.ctx, s.release = context.WithCancel(ctxBG) // never cancelled before the count
		case explicit && i%2 == 1:
			// cancelled at the chosen moment although its own deadline is far away
			s.ctx, s.release = context.WithTimeout(ctxBG, d+30*time.Second)
		case explicit:
			s.ctx, s.release = context.WithCancel(ctxBG)
		default:
			s.ctx, s.release = context.WithTimeout(ctxBG, d)
		}
		slots[i] = s
	}
	var wg sync.WaitGroup
	start := make(chan bool)
	done := make(chan int, conc)
	for i, s := range slots {
		wg.Add(1)
		go func(i int, s *slot) {
			defer wg.Done()
			bs := match.Bindings{"n": 1.0, "a": map[string]interface{}{"b": []interface{}{1.0, 2.0}}}
			props := core.StepProps{"mid": "m1"}
			<-start
			t0 := time.Now()
			var err error
			func() {
				defer func() {
					if r := recover(); r != nil {
						err = fmt.Errorf("panic: %v", r)
					}
				}()
				switch (route + i) % 3 {
				case 0:
					_, err = sharedInterpreter.Exec(s.ctx, bs, props, sh.Src, compiled)
				case 1:
					_, err = sharedInterpreter.Exec(s.ctx, bs, props, sh.Src, nil)
				default:
					_, err = action.Exec(s.ctx, bs, props)
				}
			}()
			s.elapsed = time.Since(t0)
			switch {
			case err == nil:
				s.outcome = "done"
			case errors.Is(err, ecmascript.Interrupted):
				s.outcome = "interrupted"
			case sh.endsWithOwnError():
				s.outcome = "done"
			default:
				s.outcome = "other"
			}
			done <- i
		}(i, s)
	}
	t0 := time.Now()
	close(start)
	if explicit && deadline > 0 {
		// cancellation at the chosen moment, from another goroutine
		go func() {
			time.Sleep(d)
			for _, s := range slots {
				s.release()
			}
		}()
	}
	limit := hangLimit
	if deadline > 0 {
		limit += d
	}
	returned := 0
	timer := time.NewTimer(limit)
	defer timer.Stop()
wait:
	for returned < conc {
		select {
		case <-done:
			returned++
		case <-timer.C:
			break wait
		}
	}
	_ = t0
	hung := returned < conc
	if hung {
		tHangSeen = true
	}
	// goroutines: counted before the contexts are released
	if !hung {
		wg.Wait()
		wait := 5 * time.Second
		if tLeaks >= 3 {
			wait = 200 * time.Millisecond // already reported three times: do not spend the budget waiting
		}
		b.After = settleGoroutines(b.Before, wait)
	} else {
		b.After = runtime.NumGoroutine()
	}
	b.Leak = b.After > b.Before
	if b.Leak {
		tLeaks++
	}
	for _, s := range slots {
		s.release()
	}
	for _, s := range slots {
		oc := s.outcome
		if oc == "" {
			oc = "hang"
			b.Prompt = false
		} else {
			if ms := s.elapsed.Milliseconds(); ms > b.WorstMs {
				b.WorstMs = ms
			}
			allowed := promptSlack
			if deadline > 0 {
				allowed += d
			}
			if deadline != 0 && s.elapsed > allowed {
				b.Prompt = false
			}
		}
		b.Outcomes = append(b.Outcomes, oc)
	}
	if !b.Prompt {
		tSlow++
	}
	return b
}

// lateJoinerBatch: an execution that starts under a context that has already ended while an earlier execution under
// the same context value is still on its way out (held in a native call); the late one loops for ever and must be
// stopped at once all the same.  For the protocol this is an endless script under an expired context.
func lateJoinerBatch(hold time.Duration) *tBatch {
	b := &tBatch{Shape: "late-joiner", Infinite: true, Deadline: -1, Conc: 1, Prompt: true}
	runtime.GC()
	b.Before = settleGoroutines(0, 50*time.Millisecond)
	test := ecmascript.NewInterpreter()
	test.Test = true
	ctx, cancel := context.WithTimeout(context.Background(), 40*time.Millisecond)
	defer cancel()
	first := make(chan bool, 1)
	go func() {
		defer func() { recover(); first <- true }()
		test.Exec(ctx, match.Bindings{}, nil, fmt.Sprintf("_.sleep(%d); return {};", hold.Milliseconds()), nil)
	}()
	time.Sleep(hold / 3) // the context is over, the first execution still registered
	done := make(chan error, 1)
	t0 := time.Now()
	go func() {
		defer func() {
			if r := recover(); r != nil {
				done <- fmt.Errorf("panic: %v", r)
			}
		}()
		_, err := sharedInterpreter.Exec(ctx, match.Bindings{"n": 1.0}, nil, "for(;;){}", nil)
		done <- err
	}()
	oc := "hang"
	select {
	case err := <-done:
		switch {
		case err == nil:
			oc = "done"
		case errors.Is(err, ecmascript.Interrupted):
			oc = "interrupted"
		default:
			oc = "other"
		}
		if el := time.Since(t0); el > promptSlack {
			b.Prompt = false
		} else {
			b.WorstMs = el.Milliseconds()
		}
	case <-time.After(hangLimit):
		b.Prompt = false
		tHangSeen = true
	}
	<-first
	b.Outcomes = []string{oc}
	if oc != "hang" {
		b.After = settleGoroutines(b.Before, 2*time.Second)
		b.Leak = b.After > b.Before
	}
	return b
}

func (b *tBatch) coq() string {
	ocs := make([]string, len(b.Outcomes))
	for i, oc := range b.Outcomes {
		switch oc {
		case "done":
			ocs[i] = "GDone"
		case "interrupted":
			ocs[i] = "GInterrupted"
		case "other":
			ocs[i] = "GOtherErr"
		default:
			ocs[i] = "GHang"
		}
	}
	return fmt.Sprintf("(mk_tcase %s %s %s %s %s %s)", coqBool(b.Infinite), coqBool(b.Deadline < 0), coqBool(b.Deadline != 0),
		coqList(ocs), coqBool(b.Prompt), coqBool(b.Leak))
}

func jstimeoutComponent(g *G, n int, opts map[string]string) *Out {
	o := newOut("Corr.TimeoutCorr", "tcase")
	type plan struct {
		sh       loopShape
		deadline int
		explicit bool
		conc     int
		route    int
	}
	var plans []plan
	if path := opts["replay"]; path != "" {
		var w struct {
			Cases []*tBatch `json:"cases"`
		}
		loadJSON(path, &w)
		for _, c := range w.Cases {
			for _, sh := range loopShapes {
				if sh.Name == c.Shape {
					plans = append(plans, plan{sh, c.Deadline, c.Cancel, c.Conc, c.Route})
				}
			}
		}
	} else {
		// fixed part: every shape once at 20 ms, every deadline class for the plain loop, the leak witnesses
		for _, sh := range loopShapes {
			if sh.Infinite {
				plans = append(plans, plan{sh, 20, false, 1, 0})
			} else {
				plans = append(plans, plan{sh, 0, false, 8, 0}, plan{sh, 300, false, 2, 1})
			}
		}
		for _, d := range deadlineClasses {
			plans = append(plans, plan{loopShapes[0], d, false, 4, 0}, plan{loopShapes[0], d, true, 4, 1})
		}
		concs := []int{1, 1, 2, 4, 4, 8, 16, 64}
		for len(plans) < n {
			sh := loopShapes[g.intn(len(loopShapes))]
			p := plan{sh: sh, route: g.intn(3), explicit: g.chance(0.35)}
			p.conc = concs[g.intn(len(concs))]
			if p.conc > sh.MaxConc {
				p.conc = sh.MaxConc
			}
			p.deadline = deadlineClasses[g.intn(len(deadlineClasses))]
			if !sh.Infinite && g.chance(0.5) {
				p.deadline = 0
			}
			if p.deadline >= 100 && p.conc > 16 {
				p.conc = 16 // keep the long batches cheap
			}
			if sh.Name == "unbounded-rec" && p.deadline > 20 {
				p.deadline = 20
			}
			plans = append(plans, p)
		}
	}
	execs := 0
	for _, p := range plans {
		if (tHangSeen || tSlow >= 3) && p.sh.Infinite {
			o.count("skipped-after-hang-or-slow")
			continue
		}
		b := runBatch(p.sh, p.deadline, p.explicit, p.conc, p.route)
		execs += p.conc
		o.count("shape:" + p.sh.Name)
		o.count(fmt.Sprintf("deadline:%d", p.deadline))
		o.count(fmt.Sprintf("conc:%d", p.conc))
		if p.explicit {
			o.count("explicit-cancel")
		}
		for _, oc := range b.Outcomes {
			o.count("outcome:" + oc)
		}
		if b.Leak {
			o.count("leak")
		}
		if !b.Prompt {
			o.count("not-prompt")
		}
		key := fmt.Sprintf("%s/%d/%v/%d/%d", p.sh.Name, p.deadline, p.explicit, p.conc, p.route)
		// non-trivial: an endless script that had to be stopped, or a finite one whose watcher has to go away
		o.add(b.coq(), key, true, b)
	}
	if opts["replay"] == "" && !tHangSeen {
		for k := 0; k < 2; k++ {
			b := lateJoinerBatch(time.Duration(300+200*k) * time.Millisecond)
			execs++
			o.count("shape:late-joiner")
			for _, oc := range b.Outcomes {
				o.count("outcome:" + oc)
			}
			if !b.Prompt {
				o.count("not-prompt")
			}
			o.add(b.coq(), fmt.Sprintf("late-joiner/%d", k), true, b)
		}
	}
	o.Notes = append(o.Notes, fmt.Sprintf("%d executions in %d batches; slack %v, hang after deadline + %v", execs, o.Evals, promptSlack, hangLimit),
		"non-trivial = every batch: an endless script that must be stopped, or a finite one whose watcher must end with the call")
	return o
}

// ---- routing of the timeout through Spec.Walk ---------------------------------

type routeCase struct {
	Variant string        `json:"variant"`
	Spec    *ASpec        `json:"spec"`
	State   *AState       `json:"state"`
	Msgs    []interface{} `json:"messages"`
	Limit   int           `json:"limit"`
	Go      interface{}   `json:"go,omitempty"`
}

// stopAfter: a context that ends after d - by its deadline, by a cancellation without any deadline, or by a
// cancellation long before its deadline (k picks which)
func stopAfter(d time.Duration, k int) (context.Context, context.CancelFunc) {
	switch k % 3 {
	case 1:
		ctx, cancel := context.WithCancel(context.Background())
		t := time.AfterFunc(d, cancel)
		return ctx, func() { t.Stop(); cancel() }
	case 2:
		ctx, cancel := context.WithTimeout(context.Background(), d+30*time.Second)
		t := time.AfterFunc(d, cancel)
		return ctx, func() { t.Stop(); cancel() }
	}
	return context.WithTimeout(context.Background(), d)
}

func (g *G) loopProg() *Prog {
	p := &Prog{Term: "loop"}
	for k := g.intn(3); k > 0; k-- {
		switch g.intn(3) {
		case 0:
			p.Ops = append(p.Ops, Op{Kind: "emit", J: map[string]interface{}{"lost": g.smallJSON(), "to": "nobody"}})
		case 1:
			p.Ops = append(p.Ops, Op{Kind: "set", K: g.pick(bindKeys), J: g.smallJSON()})
		default:
			p.Ops = append(p.Ops, Op{Kind: "del", K: g.pick(bindKeys)})
		}
	}
	return p
}

func (g *G) routeCase() *routeCase {
	variants := []string{"errnode", "errbranches", "neither", "guard", "second-node", "errnode-missing",
		"errbranches-guard", "errnode-loops-too"}
	c := &routeCase{Variant: variants[g.intn(len(variants))], Limit: 2 + g.intn(8)}
	s := &ASpec{Nodes: map[string]*ANode{}}
	loop := &Act{P: g.loopProg()}
	plain := func(target string) *ANode {
		return &ANode{HasBranches: true, Type: "bindings", Branches: []*ABranch{{Target: target}}}
	}
	s.Nodes["handled"] = &ANode{}
	s.Nodes["other"] = &ANode{}
	switch c.Variant {
	case "errnode":
		s.ErrNode = "onerr"
		s.Nodes["start"] = &ANode{Action: loop, HasBranches: true, Type: "bindings", Branches: []*ABranch{{Target: "other"}}}
		s.Nodes["onerr"] = plain("handled")
	case "errnode-missing":
		s.ErrNode = "nowhere"
		s.Nodes["start"] = &ANode{Action: loop, HasBranches: true, Type: "bindings", Branches: []*ABranch{{Target: "other"}}}
	case "errbranches":
		s.ErrBranches = true
		s.Nodes["start"] = &ANode{Action: loop, HasBranches: true, Type: "bindings", Branches: []*ABranch{
			{HasPattern: true, Pattern: map[string]interface{}{"actionError": "?e"}, Target: "handled"}, {Target: "other"}}}
	case "errbranches-guard":
		// the action times out and the guard of the error-handling branch is endless as well: it runs under the
		// step's (expired) context, so it is interrupted at once and the step fails like one whose guard throws
		s.ErrBranches = true
		s.Nodes["start"] = &ANode{Action: loop, HasBranches: true, Type: "bindings", Branches: []*ABranch{
			{HasPattern: true, Pattern: map[string]interface{}{"actionError": "?e"}, Guard: &Act{P: g.loopProg()}, Target: "handled"},
			{Target: "other"}}}
	case "errnode-loops-too":
		// the designated error node's own action is endless, too
		s.ErrNode = "onerr"
		s.Nodes["start"] = &ANode{Action: loop, HasBranches: true, Type: "bindings", Branches: []*ABranch{{Target: "other"}}}
		s.Nodes["onerr"] = &ANode{Action: &Act{P: g.loopProg()}, HasBranches: true, Type: "bindings", Branches: []*ABranch{{Target: "handled"}}}
	case "neither":
		s.Nodes["start"] = &ANode{Action: loop, HasBranches: true, Type: "bindings", Branches: []*ABranch{{Target: "other"}}}
	case "guard":
		s.Nodes["start"] = &ANode{HasBranches: true, Type: "bindings", Branches: []*ABranch{{Guard: loop, Target: "other"}, {Target: "handled"}}}
	case "second-node":
		s.ErrNode = "onerr"
		s.Nodes["start"] = &ANode{HasBranches: true, Type: "message", Branches: []*ABranch{
			{HasPattern: true, Pattern: map[string]interface{}{"go": "?g"}, Target: "work"}}}
		s.Nodes["work"] = &ANode{Action: loop, HasBranches: true, Type: "bindings", Branches: []*ABranch{{Target: "other"}}}
		s.Nodes["onerr"] = plain("handled")
		c.Msgs = append(c.Msgs, map[string]interface{}{"go": g.num()})
	}
	if g.chance(0.3) {
		c.Msgs = append(c.Msgs, map[string]interface{}{"later": g.scalar()})
	}
	c.Spec = s
	c.State = &AState{Node: "start", Bs: map[string]interface{}{}}
	for k := g.intn(4); k > 0; k-- {
		c.State.Bs[g.pick(bindKeys)] = g.smallJSON()
	}
	if g.chance(0.1) {
		c.State.Bs = nil
	}
	return c
}

func (c *routeCase) setTerm(term string) {
	for _, nd := range c.Spec.Nodes {
		if nd.Action != nil && (nd.Action.P.Term == "loop" || nd.Action.P.Term == "throw") {
			nd.Action.P.Term = term
		}
		for _, b := range nd.Branches {
			if b.Guard != nil && (b.Guard.P.Term == "loop" || b.Guard.P.Term == "throw") {
				b.Guard.P.Term = term
			}
		}
	}
}

func jsrouteComponent(g *G, n int, opts map[string]string) *Out {
	o := newOut("Corr.TimeoutCorr", "rcase")
	var todo []*routeCase
	if path := opts["replay"]; path != "" {
		var w struct {
			Cases []*routeCase `json:"cases"`
		}
		loadJSON(path, &w)
		todo = w.Cases
	} else {
		for len(todo) < n {
			todo = append(todo, g.routeCase())
		}
	}
	slow := 0
	for _, c := range todo {
		if slow >= 3 {
			o.count("skipped-after-slow")
			continue
		}
		c.setTerm("throw")
		specThrow, err := c.Spec.build()
		if err != nil {
			o.count("compile-error")
			continue
		}
		c.setTerm("loop")
		specLoop, err := c.Spec.build()
		if err != nil {
			o.count("compile-error")
			continue
		}
		ctl := &core.Control{Limit: c.Limit}
		t0 := time.Now()
		// the deadline concerns exactly one execution: nothing interpreted runs after the endless script
		lctx, lcancel := stopAfter(routeDeadline, len(o.Cases))
		rl := jsrtWalk(lctx, specLoop, c.State.core(), deepCopy(c.Msgs, nil).([]interface{}), ctl, nil)
		lcancel()
		elapsed := time.Since(t0)
		rt := plainWalk(specThrow, c.State.core(), deepCopy(c.Msgs, nil).([]interface{}), ctl, nil)
		prompt := elapsed < routeDeadline+promptSlack
		if !prompt || rl.Outcome != "ok" {
			slow++
		}
		gl, ok := rl.coq()
		if !ok {
			gl = "GWalkUnrep"
		}
		gt, ok := rt.coq()
		if !ok {
			gt = "GWalkUnrep"
		}
		ms := make([]string, 0, len(c.Msgs))
		for _, m := range c.Msgs {
			ms = append(ms, mustCoqJSON(m))
		}
		term := fmt.Sprintf("(mk_rcase %s %s %s %d%%nat %s %s %s)", c.Spec.coq(), c.State.coq(), coqList(ms), c.Limit, gl, gt, coqBool(prompt))
		o.count("variant:" + c.Variant)
		o.count("outcome:" + rl.Outcome)
		if rl.W != nil {
			o.count("stopped:" + rl.W.Stopped)
		}
		c.Go = map[string]interface{}{"loop": rl.W, "loop_outcome": rl.Outcome, "loop_err": rl.Err != "", "throw": rt.W, "throw_outcome": rt.Outcome,
			"elapsed_ms": elapsed.Milliseconds()}
		o.add(term, canon(c.Spec)+canon(c.State)+canon(c.Msgs)+fmt.Sprint(c.Limit), true, c)
	}
	o.Notes = append(o.Notes, "non-trivial = every case: the walk reaches a script that loops until the deadline (25 ms)")
	return o
}
