package main

// Component "match": runs match.Match on generated (pattern, message,
// bindings) triples, several times with the maps rebuilt in shuffled
// insertion order, with deep snapshots of the arguments and aliasing probes.
// Serves C01, C02, C03.

import (
	"encoding/json"
	"fmt"
	"os"
	"reflect"
	"sort"
	"strings"

	"github.com/Comcast/sheens/match"
)

func init() { components["match"] = matchComponent }

type matchCase struct {
	Kind    string                   `json:"kind"`
	P       interface{}              `json:"pattern"`
	F       interface{}              `json:"message"`
	Bs      map[string]interface{}   `json:"bindings"`
	Planted map[string]interface{}   `json:"planted,omitempty"`
	Class   string                   `json:"class"`
	Results []map[string]interface{} `json:"results"`
	// C03 observations
	RepsAgree   bool `json:"reps_agree"`
	Intact      bool `json:"inputs_intact"`
	Independent bool `json:"results_independent"`
}

// callMatch runs the real matcher under recover.
func callMatch(p, f interface{}, bs map[string]interface{}) (class string, res []map[string]interface{}) {
	defer func() {
		if r := recover(); r != nil {
			class, res = "panic", nil
		}
	}()
	bss, err := match.Match(p, f, match.Bindings(bs))
	if err != nil {
		return "err", nil
	}
	for _, b := range bss {
		res = append(res, map[string]interface{}(b))
	}
	return "ok", res
}

func multisetKey(class string, res []map[string]interface{}) string {
	ss := make([]string, 0, len(res))
	for _, r := range res {
		ss = append(ss, canon(r))
	}
	sort.Strings(ss)
	return class + "|" + strings.Join(ss, "|")
}

func mapPtr(m map[string]interface{}) uintptr {
	if m == nil {
		return 0
	}
	return reflect.ValueOf(m).Pointer()
}

func (g *G) runMatchCase(c *matchCase, reps int) {
	c.RepsAgree, c.Intact, c.Independent = true, true, true
	var first string
	for i := 0; i < reps; i++ {
		var p, f interface{}
		var bs map[string]interface{}
		if i == 0 {
			// the first evaluation - the one compared with the model and judged by the oracles - works on storage the
			// previous case's pattern and message occupied
			if g.recycle == nil {
				g.recycle = newRecycler()
			}
			p, f, bs = g.recycle.build(c.P), g.recycle.build(c.F), deepCopy(c.Bs, nil).(map[string]interface{})
			defer func(p, f interface{}) { g.recycle.give(p); g.recycle.give(f) }(p, f)
		} else {
			p, f, bs = deepCopy(c.P, g), deepCopy(c.F, g), deepCopy(c.Bs, g).(map[string]interface{})
		}
		if g.mode == "c03" && i >= 1 && g.chance(0.4) {
			// the same pattern built by a Go program: whole numbers held as int,
			// int64 or float32 where the matcher coerces them (map values)
			p = intify(p, g)
		}
		before := canon(p) + canon(f) + canon(bs)
		typedBefore := typedSnap(p) + "|" + typedSnap(f) + "|" + typedSnap(bs)
		class, res := callMatch(p, f, bs)
		if canon(p)+canon(f)+canon(bs) != before || typedSnap(p)+"|"+typedSnap(f)+"|"+typedSnap(bs) != typedBefore {
			c.Intact = false
		}
		key := multisetKey(class, res)
		if i == 0 {
			first = key
			c.Class = class
			for _, r := range res {
				c.Results = append(c.Results, deepCopy(r, nil).(map[string]interface{}))
			}
		} else if key != first {
			c.RepsAgree = false
		}
		if i == 0 && g.mode == "c03" && g.chance(0.2) && !yamlishAgree(c) {
			c.RepsAgree = false
		}
		// aliasing probes: distinct maps, and mutating one result changes
		// neither the inputs nor the other results
		seen := map[uintptr]bool{mapPtr(bs): true}
		for _, r := range res {
			ptr := mapPtr(r)
			if seen[ptr] {
				c.Independent = false
			}
			seen[ptr] = true
		}
		for j, r := range res {
			others := ""
			for k, o := range res {
				if k != j {
					others += canon(o)
				}
			}
			r["zz_mutated"] = float64(j)
			delete(r, "?x")
			after := ""
			for k, o := range res {
				if k != j {
					after += canon(o)
				}
			}
			if after != others || canon(p)+canon(f)+canon(bs) != before {
				c.Independent = false
			}
		}
	}
}

// yamlish: the value as a stock YAML decoder hands it over - maps keyed by interface{}, with two members whose keys
// print alike (1 and "1") in every map
func yamlish(x interface{}) interface{} {
	switch v := x.(type) {
	case map[string]interface{}:
		m := make(map[interface{}]interface{}, len(v)+2)
		for k, y := range v {
			m[k] = yamlish(y)
		}
		m[1], m["1"] = "one", "uno"
		m[true], m["true"] = "yes", "si"
		return m
	case []interface{}:
		a := make([]interface{}, len(v))
		for i, y := range v {
			a[i] = yamlish(y)
		}
		return a
	}
	return x
}

// yamlishAgree: whatever the matcher makes of such values (it does not know the map type), it makes the same of them
// every time
func yamlishAgree(c *matchCase) bool {
	for series := 0; series < 2; series++ {
		first := ""
		for i := 0; i < 4; i++ {
			var p, f interface{} = yamlish(c.P), yamlish(c.F)
			if series == 1 {
				f = deepCopy(c.F, nil) // a YAML pattern against a JSON message
			}
			class, res := callMatch(p, f, deepCopy(c.Bs, nil).(map[string]interface{}))
			key := multisetKey(class, res)
			if i == 0 {
				first = key
			} else if key != first {
				return false
			}
		}
	}
	return true
}

// typedSnap is a deep snapshot that also records the Go type of every scalar
// (json.Marshal prints int(1) and float64(1) alike).
func typedSnap(x interface{}) string {
	switch v := x.(type) {
	case map[string]interface{}:
		var sb strings.Builder
		sb.WriteString("{")
		for _, k := range sortedKeys(v) {
			sb.WriteString(fmt.Sprintf("%q:%s,", k, typedSnap(v[k])))
		}
		sb.WriteString("}")
		return sb.String()
	case []interface{}:
		var sb strings.Builder
		sb.WriteString("[")
		for _, y := range v {
			sb.WriteString(typedSnap(y) + ",")
		}
		sb.WriteString("]")
		return sb.String()
	default:
		return fmt.Sprintf("%T:%v", x, x)
	}
}

// intify re-types whole numbers that are values of a map (the places where
// the matcher coerces numeric types) as int / int64 / float32.
func intify(x interface{}, g *G) interface{} {
	switch v := x.(type) {
	case map[string]interface{}:
		m := make(map[string]interface{}, len(v))
		for k, y := range v {
			if f, is := y.(float64); is && f == float64(int(f)) {
				switch g.intn(4) {
				case 0:
					m[k] = int(f)
				case 1:
					m[k] = int64(f)
				case 2:
					m[k] = float32(f)
				default:
					m[k] = f
				}
				continue
			}
			if _, is := y.(map[string]interface{}); is {
				m[k] = intify(y, g)
				continue
			}
			m[k] = y
		}
		return m
	default:
		return x
	}
}

func (c *matchCase) coq() (string, bool) {
	p, ok1 := coqJSON(c.P)
	f, ok2 := coqJSON(c.F)
	bs, ok3 := coqBindings(c.Bs)
	if !(ok1 && ok2 && ok3) {
		return "", false
	}
	planted := "None"
	if c.Planted != nil {
		s, ok := coqBindings(c.Planted)
		if !ok {
			return "", false
		}
		planted = "(Some " + s + ")"
	}
	var gores string
	switch c.Class {
	case "ok":
		rs := make([]string, 0, len(c.Results))
		for _, r := range c.Results {
			s, ok := coqBindings(r)
			if !ok {
				return "", false
			}
			rs = append(rs, s)
		}
		gores = "(GoOk " + coqList(rs) + ")"
	case "err":
		gores = "GoErr"
	default:
		gores = "GoPanic"
	}
	return fmt.Sprintf("(mk_mcase %s %s %s %s %s %s %s %s)", p, f, bs, planted, gores,
		coqBool(c.RepsAgree), coqBool(c.Intact), coqBool(c.Independent)), true
}

func hasVar(x interface{}) bool {
	switch v := x.(type) {
	case string:
		return strings.HasPrefix(v, "?")
	case []interface{}:
		for _, y := range v {
			if hasVar(y) {
				return true
			}
		}
	case map[string]interface{}:
		for k, y := range v {
			if strings.HasPrefix(k, "?") || hasVar(y) {
				return true
			}
		}
	}
	return false
}

// corpus: the repository's own table plus the witnesses of DESIGN.md §4.
func matchCorpus() []*matchCase {
	var acc []*matchCase
	if js, err := os.ReadFile(repoPath("match/match_test.json")); err == nil {
		var rows []map[string]interface{}
		if json.Unmarshal(js, &rows) == nil {
			for _, r := range rows {
				if _, isErr := r["err"]; isErr {
					// rows that document errors still run
				}
				bs, _ := r["b"].(map[string]interface{})
				if bs == nil {
					bs = map[string]interface{}{}
				}
				acc = append(acc, &matchCase{Kind: "corpus-table", P: r["p"], F: r["m"], Bs: bs})
			}
		}
	}
	lit := func(p, f, bs string) *matchCase {
		var pp, ff interface{}
		var bb map[string]interface{}
		must(json.Unmarshal([]byte(p), &pp))
		must(json.Unmarshal([]byte(f), &ff))
		must(json.Unmarshal([]byte(bs), &bb))
		return &matchCase{Kind: "corpus-witness", P: pp, F: ff, Bs: bb}
	}
	acc = append(acc,
		// D10 (a), (b), (c): order dependence before the repair
		lit(`{"a":"?x","b":"?x"}`, `{"a":{"p":1},"b":{"p":1,"q":2}}`, `{}`),
		lit(`{"b":"?x","a":"?x"}`, `{"b":{"p":1},"a":{"p":1,"q":2}}`, `{}`),
		lit(`{"a":1,"b":["?x","?y"]}`, `{"a":2,"b":[1]}`, `{}`),
		lit(`{"b":1,"a":["?x","?y"]}`, `{"b":2,"a":[1]}`, `{}`),
		lit(`{"a":"?<n","b":"?<n"}`, `{"a":5,"b":3}`, `{}`),
		lit(`{"a":"?<n","b":"?<n"}`, `{"a":3,"b":5}`, `{}`),
		// README examples
		lit(`{"a":[{"b":"?x"},{"c":"?y"}]}`, `{"a":[{"b":1,"c":2},{"b":3,"c":4}]}`, `{}`),
		lit(`["a","?x"]`, `["a","b","c"]`, `{}`),
		lit(`{"n":"?<n"}`, `{"n":3}`, `{"?<n":10}`),
		lit(`{"n":"?<n"}`, `{"n":10}`, `{"?<n":10}`),
		lit(`{"n":"?<=n"}`, `{"n":10}`, `{"?<=n":10}`),
		lit(`{"n":"?<n"}`, `{"n":3}`, `{"?<n":10,"?n":"s"}`),
		lit(`{"?k":{"v":"?v"}}`, `{"a":{"v":1},"b":{"v":2},"c":3}`, `{}`),
		lit(`[1,1]`, `[1,1]`, `{}`),
		lit(`[{"a":"?x"},{"a":"?x"}]`, `[{"a":1},{"a":1},{"a":2}]`, `{}`),
		lit(`[{"a":1},"??o"]`, `[{"a":1}]`, `{}`),
		lit(`[{"a":1},"??o"]`, `[{"a":1},2]`, `{"??o":3}`),
		lit(`{"a":"??o"}`, `{}`, `{}`),
		lit(`["?x","?y"]`, `{"a":1}`, `{}`),
		lit(`{"?k":1,"a":2}`, `{"a":2,"b":1}`, `{}`),
		// D6: a bound value that is itself a variable name (stack overflow before the repair)
		lit(`{"b":"?x"}`, `{"b":1}`, `{"?x":"?x"}`),
		lit(`{"b":"?x"}`, `{"b":"?x"}`, `{"?x":"?x"}`),
		lit(`{"b":"?x"}`, `{"b":"?y"}`, `{"?x":"?y","?y":"?x"}`),
		lit(`{"b":["?x"]}`, `{"b":["?x",2]}`, `{"?x":"?x"}`),
	)
	// planted assignments with an optional variable beside structured elements (C02_match_complete_optional)
	plant := func(p, f, sg string) *matchCase {
		c := lit(p, f, `{}`)
		c.Kind = "corpus-planted-optional"
		must(json.Unmarshal([]byte(sg), &c.Planted))
		return c
	}
	acc = append(acc,
		plant(`[{"a":"?y"},"??o"]`, `[{"a":"b","c":"a"}]`, `{"?y":"b"}`),
		plant(`["a",{"a":"?y"},"??o"]`, `[{"a":"b"},"a"]`, `{"?y":"b"}`),
		plant(`{"k":[["?y"],"??o"],"n":1}`, `{"k":[["x"]],"n":1,"m":2}`, `{"?y":"x"}`),
		plant(`[{"a":"?y"},"??o"]`, `[{"a":"b"},"c"]`, `{"?y":"b","??o":"c"}`),
		plant(`{"a":{"b":"?y"},"o":"??o"}`, `{"a":{"b":1,"c":2}}`, `{"?y":1}`),
		plant(`{"a":{"b":"?y"},"o":"??o"}`, `{"a":{"b":1,"c":2},"o":[1]}`, `{"?y":1,"??o":[1]}`),
	)
	return acc
}

// matchVolume: arrays wider than the sizes at which an implementation might switch representation (64 bits of a
// word, a few hundred alternatives): the wanted element sits behind the boundary
func matchVolume(mode string) []*matchCase {
	var acc []*matchCase
	objs := func(n int, at map[int]interface{}) []interface{} {
		a := make([]interface{}, n)
		for i := range a {
			a[i] = map[string]interface{}{"f": float64(i)}
			if x, have := at[i]; have {
				a[i] = x
			}
		}
		return a
	}
	strs := func(n int) []interface{} {
		a := make([]interface{}, n)
		for i := range a {
			a[i] = fmt.Sprintf("s%d", i)
		}
		return a
	}
	pat := func(js string) interface{} {
		var x interface{}
		must(json.Unmarshal([]byte(js), &x))
		return x
	}
	vol := func(p string, f interface{}, bs map[string]interface{}) {
		acc = append(acc, &matchCase{Kind: "corpus-volume", P: pat(p), F: f, Bs: bs})
	}
	none := func() map[string]interface{} { return map[string]interface{}{} }
	a1 := map[string]interface{}{"a": 1.0}
	a2 := map[string]interface{}{"a": 2.0, "want": true}
	for _, n := range []int{65, 70} {
		// one element cannot serve two pattern elements, wherever it sits
		vol(`[{"a":"?x"},{"a":"?y"}]`, objs(n, map[int]interface{}{n - 1: a1}), none())
		vol(`[{"a":"?x"},{"a":"?y"}]`, objs(n, map[int]interface{}{3: a1, n - 1: a2}), none())
		vol(`[{"a":"?x","want":true}]`, objs(n, map[int]interface{}{n - 2: a2, 1: a1}), none())
		acc[len(acc)-1].Planted = map[string]interface{}{"?x": 2.0} // the embedding that must be found (C02)
		vol(`[{"a":"?x"},"?rest"]`, append(objs(n, map[int]interface{}{n - 1: a1}), "tail"), none())
		vol(`{"l":["?x"]}`, map[string]interface{}{"l": strs(n)}, none())
		vol(`["?x"]`, strs(n), map[string]interface{}{"?x": fmt.Sprintf("s%d", n-1)})
	}
	if mode == "c03" {
		// more alternatives than a bound on backtracking might allow: all of them, every time
		vol(`["?x"]`, strs(600), none())
	}
	return acc
}

func must(err error) {
	if err != nil {
		panic(err)
	}
}

func matchComponent(g *G, n int, opts map[string]string) *Out {
	g.mode = opts["mode"]
	o := newOut("Corr.MatchCorr", "mcase")
	reps := 6
	emit := func(c *matchCase) {
		g.runMatchCase(c, reps)
		term, ok := c.coq()
		if !ok {
			o.count("skipped-unrepresentable")
			return
		}
		o.count("kind:" + c.Kind)
		o.count("class:" + c.Class)
		if c.Class == "ok" {
			switch {
			case len(c.Results) == 0:
				o.count("results:0")
			case len(c.Results) == 1:
				o.count("results:1")
			default:
				o.count("results:many")
			}
		}
		nontrivial := c.Class == "ok" && len(c.Results) > 0 && hasVar(c.P)
		switch opts["mode"] {
		case "c02":
			nontrivial = c.Class == "ok" && len(c.Planted) > 0
		case "c03":
			nontrivial = countMaps(c.P)+countMaps(c.F) > 0 && (c.Class != "ok" || len(c.Results) > 0)
		}
		key := canon(c.P) + canon(c.F) + canon(c.Bs)
		o.add(term, key, nontrivial, c)
	}
	if path := opts["replay"]; path != "" {
		// re-run exactly the recorded inputs against the current code
		for _, c := range loadMatchReplay(path) {
			emit(c)
		}
		return o
	}
	if opts["nocorpus"] == "" {
		for _, c := range matchCorpus() {
			emit(c)
		}
		for _, c := range matchVolume(opts["mode"]) {
			emit(c)
		}
	}
	for i := 0; i < n; i++ {
		c := &matchCase{}
		k := g.intn(100)
		switch opts["mode"] {
		case "c02":
			// mostly planted
			if k >= 12 {
				k = 55 + k%33
				if g.chance(0.2) {
					k = 86
				}
			}
		}
		switch {
		case k < 55:
			// instance of the pattern, extras, sometimes corrupted
			ctx := newPctx()
			p := g.pattern(3, ctx)
			sigma := map[string]interface{}{}
			f := g.instantiate(p, sigma, ctx, true)
			c.Kind = "instance"
			if g.chance(0.35) {
				f = g.corrupt(f)
				c.Kind = "instance-corrupted"
			}
			c.P, c.F, c.Bs = p, f, g.bindingsFor(ctx, sigma)
		case k < 85:
			// planted assignment (C02): plain variables, no initial bindings
			ctx := newPctx()
			ctx.plainOnly = true
			ctx.linear = g.chance(0.6)
			p := g.pattern(3, ctx)
			sigma := map[string]interface{}{}
			if !ctx.linear {
				// repeated variables take scalar values
				names := make([]string, 0, len(ctx.vars))
				for v := range ctx.vars {
					names = append(names, v)
				}
				sort.Strings(names)
				for _, v := range names {
					if v == "?k" || v == "?j" {
						sigma[v] = g.pick(vocabKeys)
					} else if v != "?" {
						sigma[v] = g.scalar()
					}
				}
			}
			f := g.instantiate(p, sigma, ctx, true)
			c.Kind = "planted"
			c.P, c.F, c.Bs = p, f, map[string]interface{}{}
			c.Planted = map[string]interface{}{}
			for k, v := range sigma {
				if ctx.vars[k] {
					c.Planted[k] = v
				}
			}
		case k < 88 && (opts["mode"] == "c02" || k >= 85):
			// planted assignment with an optional variable (C02_match_complete_optional): the variable of
			// an array whose other elements use up the whole message array (left unassigned) or leave
			// one element over (assigned to it), or an object value whose key is missing / present
			g.plantedOptional(c)
		case k < 93:
			// unrelated pattern and message
			ctx := newPctx()
			c.Kind = "unrelated"
			c.P, c.F, c.Bs = g.pattern(2, ctx), g.value(3), g.bindingsFor(ctx, map[string]interface{}{})
		default:
			// shapes outside the supported fragment (errors expected)
			ctx := newPctx()
			ctx.malformed = true
			p := g.pattern(3, ctx)
			sigma := map[string]interface{}{}
			c.Kind = "malformed"
			c.P, c.F, c.Bs = p, g.instantiate(p, sigma, ctx, true), g.bindingsFor(ctx, sigma)
			if g.chance(0.4) {
				// invalid at one key (a property variable beside other keys) and merely non-matching at another (a
				// constant key the message lacks, or a different value there): an error, whatever is visited first
				bad := map[string]interface{}{g.pick(propKeyVars): g.scalar()}
				msg := map[string]interface{}{}
				for n := 1 + g.intn(3); n > 0; n-- {
					k := g.pick(vocabKeys)
					bad[k] = g.scalar()
					switch g.intn(3) {
					case 0: // absent from the message
					case 1:
						msg[k] = g.scalar()
					default:
						msg[k] = bad[k]
					}
				}
				msg[g.pick(vocabKeys)+"z"] = g.scalar()
				c.Kind = "invalid+nonmatching"
				c.P, c.F = bad, msg
				if g.chance(0.4) {
					k := g.pick(vocabKeys)
					c.P, c.F = map[string]interface{}{k: bad}, map[string]interface{}{k: msg}
				}
			}
		}
		emit(c)
	}
	return o
}

// loadMatchReplay reads case inputs (one JSON object or a list) from a replay file.
func loadMatchReplay(path string) []*matchCase {
	js, err := os.ReadFile(path)
	must(err)
	var wrapper struct {
		Cases []*matchCase `json:"cases"`
	}
	must(json.Unmarshal(js, &wrapper))
	for _, c := range wrapper.Cases {
		c.Class, c.Results = "", nil
		if c.Bs == nil {
			c.Bs = map[string]interface{}{}
		}
		c.Kind = "replay"
	}
	return wrapper.Cases
}

// countMaps: number of maps with at least two keys (where iteration order can matter)
func countMaps(x interface{}) int {
	n := 0
	switch v := x.(type) {
	case []interface{}:
		if len(v) > 1 {
			n++
		}
		for _, y := range v {
			n += countMaps(y)
		}
	case map[string]interface{}:
		if len(v) > 1 {
			n++
		}
		for _, y := range v {
			n += countMaps(y)
		}
	}
	return n
}

// Component "matchconc" (C03, concurrent part): one shared pattern, message
// and bindings value matched from many goroutines at once; every result must
// equal the sequential one and the shared arguments must stay intact.  Built
// with -race for the check, so a data race aborts the run with a report.
func init() { components["matchconc"] = matchConcComponent }

func matchConcComponent(g *G, n int, opts map[string]string) *Out {
	o := newOut("Corr.MatchCorr", "mcase")
	workers := 16
	var inputs []*matchCase
	for _, c := range matchCorpus() {
		inputs = append(inputs, c)
	}
	for i := 0; i < n; i++ {
		ctx := newPctx()
		p := g.pattern(3, ctx)
		sigma := map[string]interface{}{}
		f := g.instantiate(p, sigma, ctx, true)
		inputs = append(inputs, &matchCase{Kind: "conc-instance", P: p, F: f, Bs: g.bindingsFor(ctx, sigma)})
	}
	for _, c := range inputs {
		p, f, bs := deepCopy(c.P, nil), deepCopy(c.F, nil), deepCopy(c.Bs, nil).(map[string]interface{})
		before := canon(p) + canon(f) + canon(bs)
		class, res := callMatch(p, f, bs)
		want := multisetKey(class, res)
		c.Class = class
		for _, r := range res {
			c.Results = append(c.Results, deepCopy(r, nil).(map[string]interface{}))
		}
		c.RepsAgree, c.Intact, c.Independent = true, true, true
		got := make(chan string, workers)
		for w := 0; w < workers; w++ {
			go func() {
				for k := 0; k < 4; k++ {
					cl, rs := callMatch(p, f, bs)
					// results are private: mutate them freely
					for _, r := range rs {
						r["zz"] = 1.0
						delete(r, "zz")
					}
					if multisetKey(cl, rs) != want {
						got <- "diff"
						return
					}
				}
				got <- "same"
			}()
		}
		for w := 0; w < workers; w++ {
			if <-got != "same" {
				c.RepsAgree = false
			}
		}
		if canon(p)+canon(f)+canon(bs) != before {
			c.Intact = false
		}
		term, ok := c.coq()
		if !ok {
			continue
		}
		o.count("kind:" + c.Kind)
		o.add(term, canon(c.P)+canon(c.F)+canon(c.Bs), countMaps(c.P)+countMaps(c.F) > 0, c)
	}
	return o
}

// repoPath resolves a path inside the tree under test (the directory the
// harness module's replace directive points to; VERIF_REPO or /repo).
func repoPath(rel string) string {
	root := os.Getenv("VERIF_REPO")
	if root == "" {
		root = "/repo"
	}
	return root + "/" + rel
}

// ---- exhaustive small scope (C02's "all small pattern/message pairs over a two-letter alphabet") ----

func init() { components["matchenum"] = matchEnumComponent }

// enumJSON returns every value with exactly size nodes over the alphabet
// {a, b} (string constants and keys), arrays and objects of at most two
// members; patterns additionally use the variables ?x, ?y (also as a sole
// property name).
func enumJSON(size int, pattern bool, memo map[int][]interface{}) []interface{} {
	if v, have := memo[size]; have {
		return v
	}
	var acc []interface{}
	if size == 1 {
		acc = append(acc, "a", "b")
		if pattern {
			acc = append(acc, "?x", "?y")
		}
		acc = append(acc, []interface{}{}, map[string]interface{}{})
		memo[size] = acc
		return acc
	}
	rest := size - 1
	// one member
	for _, c := range enumJSON(rest, pattern, memo) {
		acc = append(acc, []interface{}{c})
		acc = append(acc, map[string]interface{}{"a": c}, map[string]interface{}{"b": c})
		if pattern {
			acc = append(acc, map[string]interface{}{"?x": c})
		}
	}
	// two members
	for s1 := 1; s1 < rest; s1++ {
		for _, c1 := range enumJSON(s1, pattern, memo) {
			for _, c2 := range enumJSON(rest-s1, pattern, memo) {
				acc = append(acc, []interface{}{c1, c2})
				acc = append(acc, map[string]interface{}{"a": c1, "b": c2})
			}
		}
	}
	memo[size] = acc
	return acc
}

func matchEnumComponent(g *G, n int, opts map[string]string) *Out {
	g.mode = opts["mode"]
	o := newOut("Corr.MatchCorr", "mcase")
	pmax, fmax := 3, 4
	if opts["deep"] == "1" {
		pmax, fmax = 4, 4
	}
	pm, fm := map[int][]interface{}{}, map[int][]interface{}{}
	var ps, fs []interface{}
	for s := 1; s <= pmax; s++ {
		ps = append(ps, enumJSON(s, true, pm)...)
	}
	for s := 1; s <= fmax; s++ {
		fs = append(fs, enumJSON(s, false, fm)...)
	}
	total := len(ps) * len(fs)
	stride := 1
	if n > 0 && total > n {
		stride = (total + n - 1) / n
	}
	o.Notes = append(o.Notes, fmt.Sprintf("small scope: %d patterns (<= %d nodes) x %d messages (<= %d nodes) = %d pairs; stride %d (1 = exhaustive)",
		len(ps), pmax, len(fs), fmax, total, stride))
	k := 0
	for _, p := range ps {
		for _, f := range fs {
			k++
			if (k-1)%stride != 0 {
				continue
			}
			c := &matchCase{Kind: "enum", P: p, F: f, Bs: map[string]interface{}{}}
			g.runMatchCase(c, 2)
			term, ok := c.coq()
			if !ok {
				continue
			}
			o.count("class:" + c.Class)
			if len(c.Results) > 1 {
				o.count("several-results")
			}
			o.add(term, canon(p)+"|"+canon(f), hasVar(p) && len(c.Results) > 0, c)
		}
	}
	if stride == 1 {
		o.count("exhaustive")
	}
	return o
}


// plantedOptional builds a pattern with one optional variable and a message in which the planted
// assignment is an embedding in the sense of Spec/EmbedOpt.v.
func (g *G) plantedOptional(c *matchCase) {
	ctx := newPctx()
	ctx.plainOnly, ctx.linear = true, true
	sigma := map[string]interface{}{}
	sub := func() interface{} {
		for {
			p := g.pattern(2, ctx)
			if s, is := p.(string); is && len(s) > 0 && s[0] == '?' {
				continue
			}
			return p
		}
	}
	opt := "??o"
	var p, f interface{}
	assigned := g.chance(0.5)
	if g.chance(0.65) {
		var pa, fa []interface{}
		for n := g.intn(4); n > 0; n-- {
			e := sub()
			pa = append(pa, e)
			fa = append(fa, g.instantiate(e, sigma, ctx, true))
		}
		pa = append(pa, opt)
		if assigned {
			x := g.scalar()
			if g.chance(0.3) {
				x = g.value(2)
			}
			sigma[opt] = x
			fa = append(fa, x)
		}
		g.r.Shuffle(len(fa), func(i, j int) { fa[i], fa[j] = fa[j], fa[i] })
		if g.chance(0.5) {
			g.r.Shuffle(len(pa), func(i, j int) { pa[i], pa[j] = pa[j], pa[i] })
		}
		if fa == nil {
			fa = []interface{}{}
		}
		p, f = pa, fa
	} else {
		pm, fm := map[string]interface{}{}, map[string]interface{}{}
		for n := g.intn(3); n > 0; n-- {
			k := g.pick(vocabKeys)
			if _, have := pm[k]; have {
				continue
			}
			e := sub()
			pm[k] = e
			fm[k] = g.instantiate(e, sigma, ctx, true)
		}
		pm["o"] = opt
		if assigned {
			x := g.value(2)
			sigma[opt] = x
			fm["o"] = x
		}
		if g.chance(0.5) {
			fm["extra"] = g.scalar()
		}
		p, f = pm, fm
	}
	if g.chance(0.4) {
		k := g.pick(vocabKeys)
		p, f = map[string]interface{}{k: p}, map[string]interface{}{k: f, "zz": g.scalar()}
	}
	c.Kind = "planted-optional"
	c.P, c.F, c.Bs = p, f, map[string]interface{}{}
	c.Planted = map[string]interface{}{}
	for k, v := range sigma {
		if ctx.vars[k] || k == opt {
			c.Planted[k] = v
		}
	}
}
