package main

// Component "total" (C07): two streams that the action-language generators do
// not reach.
//
//   specdoc : specification DOCUMENTS (JSON and YAML text), well-formed or not
//             - null nodes, null branching, null branches, wrong types, unknown
//             targets / interpreters / branching types - are loaded, compiled
//             and, when compilation succeeds, walked from every node.
//   jsfuzz  : ECMAScript actions and guards written against the whole
//             environment object of the extended interpreter (_.out, _.match,
//             _.cronNext, _.randstr, bindings, props) with junk arguments,
//             throwing, recursing, returning non-objects.
//
// Every call runs under recover() and a watchdog.  Observed: returned normally
// (no panic, no hang), and a failing action was surfaced as an error state.

import (
	"context"
	"encoding/json"
	"fmt"
	"regexp"
	"sort"
	"strings"
	"time"

	"github.com/Comcast/sheens/core"
	stdinterp "github.com/Comcast/sheens/interpreters"
	"github.com/jsccast/yaml"
	yamlv2 "gopkg.in/yaml.v2"
)

func init() { components["total"] = totalComponent }

type totalCase struct {
	Kind string      `json:"kind"`
	Doc  string      `json:"doc,omitempty"`
	Src  string      `json:"src,omitempty"`
	Go   interface{} `json:"go"`
}

var stdInterpreters = stdinterp.Standard()

// guarded runs f under recover and a watchdog; outcome: ok, panic:..., hang
func guarded(f func()) (outcome string) {
	done := make(chan string, 1)
	go func() {
		defer func() {
			if p := recover(); p != nil {
				done <- fmt.Sprintf("panic: %v", p)
				return
			}
			done <- "ok"
		}()
		f()
	}()
	select {
	case o := <-done:
		return o
	case <-time.After(20 * time.Second):
		return "hang"
	}
}

func (g *G) junkDocValue(depth int) interface{} {
	switch g.intn(9) {
	case 0:
		return nil
	case 1:
		return g.chance(0.5)
	case 2:
		return float64(g.intn(5))
	case 3:
		return g.pick([]string{"message", "bindings", "start", "ecmascript", "goja", "cobol", "", "return _.bindings;", "?x", "@t"})
	case 4:
		return []interface{}{}
	case 5:
		if depth > 0 {
			return []interface{}{g.junkDocValue(depth - 1)}
		}
		return []interface{}{nil}
	default:
		if depth > 0 {
			return map[string]interface{}{g.pick([]string{"branches", "type", "action", "pattern", "target", "guard", "source", "interpreter"}): g.junkDocValue(depth - 1)}
		}
		return map[string]interface{}{}
	}
}

// mutateDoc replaces, nulls or deletes something at a random position of a decoded JSON document.
func (g *G) mutateDoc(x interface{}, depth int) interface{} {
	switch v := x.(type) {
	case map[string]interface{}:
		if len(v) == 0 || g.chance(0.15) {
			return g.junkDocValue(1)
		}
		ks := sortedKeys(v)
		k := ks[g.intn(len(ks))]
		m := map[string]interface{}{}
		for kk, vv := range v {
			m[kk] = vv
		}
		switch g.intn(6) {
		case 0:
			delete(m, k)
		case 1:
			m[k] = nil
		case 2:
			m[k] = g.junkDocValue(2)
		default:
			m[k] = g.mutateDoc(v[k], depth+1)
		}
		return m
	case []interface{}:
		if len(v) == 0 || g.chance(0.15) {
			return g.junkDocValue(1)
		}
		i := g.intn(len(v))
		a := append([]interface{}{}, v...)
		switch g.intn(5) {
		case 0:
			a[i] = nil
		case 1:
			a[i] = g.junkDocValue(2)
		default:
			a[i] = g.mutateDoc(v[i], depth+1)
		}
		return a
	default:
		return g.junkDocValue(1)
	}
}

// specDocument renders a generated spec as the JSON document a user would write.
func (s *ASpec) document() map[string]interface{} {
	nodes := map[string]interface{}{}
	for name, nd := range s.Nodes {
		n := map[string]interface{}{}
		if nd.Action != nil && !nd.Action.Native {
			n["action"] = map[string]interface{}{"interpreter": "ecmascript", "source": nd.Action.P.JS()}
		}
		if nd.HasBranches {
			brs := []interface{}{}
			for _, b := range nd.Branches {
				bm := map[string]interface{}{"target": b.Target}
				if b.HasPattern {
					bm["pattern"] = b.Pattern
				}
				if b.Guard != nil && !b.Guard.Native {
					bm["guard"] = map[string]interface{}{"interpreter": "ecmascript", "source": b.Guard.P.JS()}
				}
				brs = append(brs, bm)
			}
			bg := map[string]interface{}{"branches": brs}
			if nd.Type != "" {
				bg["type"] = nd.Type
			}
			n["branching"] = bg
		}
		nodes[name] = n
	}
	doc := map[string]interface{}{"name": "generated", "nodes": nodes}
	if s.ErrBranches {
		doc["actionErrorBranches"] = true
	}
	if s.ErrNode != "" {
		doc["actionErrorNode"] = s.ErrNode
	}
	return doc
}

func walkEverywhere(spec *core.Spec, msg interface{}) {
	names := make([]string, 0, len(spec.Nodes))
	for k := range spec.Nodes {
		names = append(names, k)
	}
	sort.Strings(names)
	for _, name := range names {
		for _, bs := range []map[string]interface{}{nil, {"cfg!": 1.0, "a": "x"}} {
			ctx, cancel := context.WithTimeout(context.Background(), 100*time.Millisecond)
			st := &core.State{NodeName: name, Bs: bs}
			spec.Walk(ctx, st, []interface{}{msg, msg}, nil, nil)
			spec.Step(ctx, st, msg, nil, nil)
			cancel()
		}
	}
}

var junkArgs = []string{"undefined", "null", "0", "1", "-1", "0/0", "1/0", "\"\"", "\"chips\"", "\"?x\"", "\"* * * * *\"",
	"true", "[]", "[1,[2]]", "{}", "{\"a\":1}", "{\"a\":\"?x\"}", "function(){}", "_", "_.bindings", "_.props", "_.out",
	"(function(){var o={}; o.self=o; return o;})()", "new Date(0)", "Symbol && 1", "[undefined]", "{\"?k\":\"?v\"}",
	// values whose export to Go runs script code
	"{get a() { throw \"getter\"; }}", "{x: [{get a() { throw new Error(\"deep\"); }}]}", "{get a() { for(;;){} }}",
	"{toString: function(){ throw \"ts\"; }}", "{valueOf: function(){ throw \"vo\"; }}"}

func (g *G) jsStatement(depth int) string {
	a := func() string { return g.pick(junkArgs) }
	switch g.intn(16) {
	case 0:
		return "_.out(" + a() + ");"
	case 1:
		return "_.match(" + a() + ", " + a() + ", " + a() + ");"
	case 2:
		return "_.match(" + a() + ", " + a() + ");"
	case 3:
		return "_.cronNext(" + a() + ");"
	case 4:
		return "_.bindings[" + a() + "] = " + a() + ";"
	case 5:
		return "var r = _.randstr && _.randstr(" + a() + ");"
	case 6:
		return "throw " + a() + ";"
	case 7:
		return "return " + a() + ";"
	case 8:
		return "(" + a() + ").x.y = 1;"
	case 9:
		return "JSON.parse(" + a() + ");"
	case 10:
		return "(function f(n){ return f(n+1); })(0);"
	case 11:
		return "_.bindings = " + a() + ";"
	case 12:
		return "_.out = " + a() + "; _.out(1);"
	case 13:
		if depth > 0 {
			return "try { " + g.jsStatement(depth-1) + " } catch (e) { " + g.jsStatement(depth-1) + " }"
		}
		return "try { throw 1; } catch (e) { }"
	case 14:
		return "Object.defineProperty(_.bindings, \"g\", {get: function(){ throw \"getter\"; }, enumerable: true});"
	default:
		return "var x = " + a() + ";"
	}
}

func (g *G) jsProgram() string {
	var sb strings.Builder
	for n := 1 + g.intn(4); n > 0; n-- {
		sb.WriteString(g.jsStatement(1) + "\n")
	}
	if g.chance(0.6) {
		sb.WriteString("return _.bindings;\n")
	}
	return sb.String()
}

func totalComponent(g *G, n int, opts map[string]string) *Out {
	g.mode = "c07"
	o := newOut("Corr.TotalCorr", "tcase")
	msg := map[string]interface{}{"a": 1.0, "b": "x"}
	for i := 0; i < n; i++ {
		var c *totalCase
		surfaced := true
		var outcome string
		if i%2 == 0 {
			// specification documents
			as := g.aspec(opts)
			var doc interface{} = as.document()
			for k := g.intn(4); k > 0; k-- {
				doc = g.mutateDoc(doc, 0)
			}
			js, _ := json.Marshal(doc)
			text := string(js)
			// a later revision of the same document, loaded into the same Spec value after it was compiled
			var doc2 interface{} = deepCopy(doc, nil)
			for k := 1 + g.intn(3); k > 0; k-- {
				doc2 = g.mutateDoc(doc2, 0)
			}
			js2, _ := json.Marshal(doc2)
			reviseForce := g.chance(0.5)
			asYAML := g.chance(0.4)
			viaV2 := false
			if asYAML {
				ydoc := doc
				if g.chance(0.5) {
					// the stock YAML decoder (gopkg.in/yaml.v2, which sio uses for specifications fetched by URL) gives
					// maps keyed by interface{}; a key that YAML does not read as a string (1, on, ~, 2.5) stays what it is
					viaV2 = true
					ydoc = oddKeys(deepCopy(doc, nil), g)
				}
				if y, err := yaml.Marshal(ydoc); err == nil {
					text = string(y)
					if viaV2 {
						text = oddKeyRe.ReplaceAllString(text, "$1$2:")
					}
				}
			}
			compiled := false
			outcome = guarded(func() {
				var spec core.Spec
				var err error
				if viaV2 {
					err = yamlv2.Unmarshal([]byte(text), &spec)
				} else if asYAML {
					err = yaml.Unmarshal([]byte(text), &spec)
				} else {
					err = json.Unmarshal([]byte(text), &spec)
				}
				if err != nil {
					return
				}
				ctx, cancel := context.WithTimeout(context.Background(), 2*time.Second)
				defer cancel()
				if err := spec.Compile(ctx, stdInterpreters, true); err != nil {
					return
				}
				compiled = true
				walkEverywhere(&spec, msg)
				// the revision arrives: decoded into the same value, compiled again (with and without force), walked
				if json.Unmarshal(js2, &spec) == nil {
					ctx2, cancel2 := context.WithTimeout(context.Background(), 2*time.Second)
					defer cancel2()
					if err := spec.Compile(ctx2, stdInterpreters, reviseForce); err == nil {
						walkEverywhere(&spec, msg)
					}
				}
			})
			kind := "specdoc-json"
			if asYAML {
				kind = "specdoc-yaml"
			}
			if viaV2 {
				kind = "specdoc-yaml-v2-odd-keys"
			}
			o.count(kind)
			if compiled {
				o.count("specdoc-compiled")
			}
			c = &totalCase{Kind: kind, Doc: text, Go: map[string]interface{}{"outcome": outcome, "compiled": compiled,
				"revision": string(js2), "revision_forced": reviseForce}}
		} else {
			// scripts against the whole environment object
			src := g.jsProgram()
			asGuard := g.chance(0.3)
			failed, atError := false, false
			outcome = guarded(func() {
				spec := &core.Spec{Name: "jsfuzz", Nodes: map[string]*core.Node{}}
				if asGuard {
					spec.Nodes["start"] = &core.Node{Branches: &core.Branches{Type: "bindings", Branches: []*core.Branch{
						{Target: "next", GuardSource: &core.ActionSource{Interpreter: "ecmascript-ext", Source: src}}, {Target: "other"}}}}
				} else {
					spec.Nodes["start"] = &core.Node{ActionSource: &core.ActionSource{Interpreter: "ecmascript-ext", Source: src},
						Branches: &core.Branches{Type: "bindings", Branches: []*core.Branch{{Target: "next"}}}}
				}
				spec.Nodes["next"] = &core.Node{}
				spec.Nodes["other"] = &core.Node{}
				ctx, cancel := context.WithTimeout(context.Background(), 2*time.Second)
				defer cancel()
				if err := spec.Compile(ctx, stdInterpreters, true); err != nil {
					failed = true
					atError = true // a compile error is a returned error
					return
				}
				for _, bs := range []map[string]interface{}{{"a": 1.0, "cfg!": "keep"}, nil} {
					wctx, wcancel := context.WithTimeout(context.Background(), 150*time.Millisecond)
					w, err := spec.Walk(wctx, &core.State{NodeName: "start", Bs: bs}, nil, nil, map[string]interface{}{"mid": "m"})
					wcancel()
					if err != nil || w == nil {
						continue
					}
					to := w.To()
					if to == nil {
						continue
					}
					if to.NodeName == "error" {
						failed = true
						if _, have := to.Bs["error"]; have {
							atError = true
						} else {
							atError = false
						}
					}
				}
			})
			if failed && !atError {
				surfaced = false
			}
			o.count("jsfuzz")
			if failed {
				o.count("jsfuzz-failed")
			}
			c = &totalCase{Kind: "jsfuzz", Src: src, Go: map[string]interface{}{"outcome": outcome, "failed": failed, "surfaced": surfaced, "guard": asGuard}}
		}
		o.count("outcome:" + strings.SplitN(outcome, ":", 2)[0])
		term := fmt.Sprintf("(mk_tcase %s %s)", coqBool(outcome == "ok"), coqBool(surfaced))
		key := c.Doc + c.Src
		o.add(term, key, true, c)
	}
	return o
}

var oddKeyRe = regexp.MustCompile(`(?m)^(\s*(?:- )?)"?'?(1|on|~|yes|2\.5|off|null)'?"?:`)

// oddKeys puts members named 1, on, ~, 2.5 ... into some maps of the patterns of a specification document
func oddKeys(doc interface{}, g *G) interface{} {
	var visit func(x interface{}, inPattern bool)
	visit = func(x interface{}, inPattern bool) {
		switch v := x.(type) {
		case map[string]interface{}:
			if inPattern && g.chance(0.6) {
				v[g.pick([]string{"1", "on", "~", "yes", "2.5", "off", "null"})] = g.scalar()
			}
			for k, y := range v {
				visit(y, inPattern || k == "pattern")
			}
		case []interface{}:
			for _, y := range v {
				visit(y, inPattern)
			}
		}
	}
	visit(doc, false)
	return doc
}
