package main

// Component "persist" (C09): the same message history is processed twice -
// run A keeps the machine state in memory throughout; run B_k writes the
// state out as JSON and reads it back at boundary k (for every k, and at
// all boundaries at once).  Per message the observable (node, canonical
// bindings, emitted messages) of the two runs must be equal.  Also checked:
// every value of every state run A reaches has a canonical Go type (the
// inductive invariant behind the theorem in Proofs/ReprProofs.v).

import (
	"context"
	"encoding/json"
	"fmt"
	"math"
	"time"
	"unicode/utf8"

	"github.com/Comcast/sheens/core"
	"github.com/Comcast/sheens/match"
)

func init() { components["persist"] = persistComponent }

type persistStep struct {
	Node    string                 `json:"node"`
	Bs      map[string]interface{} `json:"bs"`
	Emitted []interface{}          `json:"emitted"`
	Stopped string                 `json:"stopped"`
}

type persistCase struct {
	Spec  *ASpec        `json:"spec"`
	State *AState       `json:"state"`
	Msgs  []interface{} `json:"msgs"`
	Go    interface{}   `json:"go"`
}

// canonicalType: nil, bool, float64, string, []interface{}, map[string]interface{} all the way down
func canonicalType(x interface{}) (bool, string) {
	switch v := x.(type) {
	case nil, bool:
		return true, ""
	case float64:
		if math.IsNaN(v) || math.IsInf(v, 0) {
			return false, "float64 that JSON cannot write"
		}
		return true, ""
	case string:
		// a string that is not valid UTF-8 comes back from JSON as a different string
		if !utf8.ValidString(v) {
			return false, "string that is not valid UTF-8"
		}
		return true, ""
	case []interface{}:
		for _, y := range v {
			if ok, why := canonicalType(y); !ok {
				return false, why
			}
		}
		return true, ""
	case map[string]interface{}:
		for k, y := range v {
			if !utf8.ValidString(k) {
				return false, "key that is not valid UTF-8"
			}
			if ok, why := canonicalType(y); !ok {
				return false, why
			}
		}
		return true, ""
	default:
		return false, fmt.Sprintf("%T", x)
	}
}

func roundtripState(st *core.State) (*core.State, error) {
	js, err := json.Marshal(st)
	if err != nil {
		return nil, err
	}
	var back core.State
	if err := json.Unmarshal(js, &back); err != nil {
		return nil, err
	}
	return &back, nil
}

// runHistory processes msgs one at a time; rt(i) says whether to round-trip the state before message i.
func runHistory(spec *core.Spec, st *core.State, msgs []interface{}, rt func(i int) bool, loop bool) (steps []persistStep, final *core.State, outcome string, badType string) {
	outcome = "ok"
	cur := st
	done := make(chan bool, 1)
	go func() {
		defer func() {
			if p := recover(); p != nil {
				outcome = fmt.Sprintf("panic: %v", p)
			}
			done <- true
		}()
		for i, m := range msgs {
			if rt(i) {
				back, err := roundtripState(cur)
				if err != nil {
					outcome = "unserialisable state: " + err.Error()
					return
				}
				cur = back
			}
			ctx := context.Background()
			var cancel context.CancelFunc = func() {}
			if loop {
				ctx, cancel = context.WithTimeout(ctx, 25*time.Millisecond)
			}
			w, err := spec.Walk(ctx, cur, []interface{}{deepCopy(m, nil)}, &core.Control{Limit: 10}, nil)
			cancel()
			if err != nil || w == nil {
				outcome = "walk error"
				return
			}
			if to := w.To(); to != nil {
				cur = to
			}
			ps := persistStep{Node: cur.NodeName, Stopped: w.StoppedBecause.String()}
			if cur.Bs != nil {
				ps.Bs = normBindings(cur.Bs)
				if ok, why := canonicalType(map[string]interface{}(cur.Bs)); !ok && badType == "" {
					badType = why
				}
			}
			w.DoEmitted(func(x interface{}) error {
				ps.Emitted = append(ps.Emitted, x)
				// a crew hands an emitted message to other machines as it is: what they bind from it becomes state
				if ok, why := canonicalType(x); !ok && badType == "" {
					badType = "emitted message: " + why
				}
				return nil
			})
			steps = append(steps, ps)
		}
	}()
	select {
	case <-done:
	case <-time.After(20 * time.Second):
		return nil, nil, "hang", ""
	}
	return steps, cur, outcome, badType
}

// normBindings: a JSON view of the bindings with engine-produced texts normalised (as the step component does)
func normBindings(bs match.Bindings) map[string]interface{} {
	js, err := json.Marshal(map[string]interface{}(bs))
	if err != nil {
		return map[string]interface{}{"!unmarshalable": err.Error()}
	}
	var m map[string]interface{}
	json.Unmarshal(js, &m)
	return normText(m).(map[string]interface{})
}

func persistComponent(g *G, n int, opts map[string]string) *Out {
	g.mode = "c09"
	o := newOut("Corr.PersistCorr", "pcase")
	var replay []*persistCase
	if path := opts["replay"]; path != "" {
		var w struct {
			Cases []*persistCase `json:"cases"`
		}
		loadJSON(path, &w)
		replay = w.Cases
		n = len(replay)
	}
	for i := 0; i < n; i++ {
		var as *ASpec
		var st *AState
		var msgs []interface{}
		if replay != nil {
			as, st, msgs = replay[i].Spec, replay[i].State, replay[i].Msgs
		} else {
			as = g.aspec(opts)
			as.noLoops()
			st = g.astate(as)
			node := st.Node
			for k := 1 + g.intn(5); k > 0; k-- {
				msgs = append(msgs, g.messageFor(as, node))
				names := sortedKeys(nodesAsMap(as))
				node = names[g.intn(len(names))]
			}
		}
		spec, err := as.build()
		if err != nil {
			o.count("compile-error")
			continue
		}
		loop := as.hasLoop()
		a, finalA, outA, badType := runHistory(spec, st.core(), msgs, func(int) bool { return false }, loop)
		agree := true
		var firstDiff interface{}
		cmp := func(b []persistStep, outB string, where string) {
			if outB != outA || canon(b) != canon(a) {
				if agree {
					firstDiff = map[string]interface{}{"roundtrip_at": where, "a": a, "b": b, "outcome_a": outA, "outcome_b": outB}
				}
				agree = false
			}
		}
		for k := 0; k < len(msgs); k++ {
			kk := k
			b, _, outB, _ := runHistory(spec, st.core(), msgs, func(i int) bool { return i == kk }, loop)
			cmp(b, outB, fmt.Sprint(kk))
		}
		ball, _, outAll, _ := runHistory(spec, st.core(), msgs, func(int) bool { return true }, loop)
		cmp(ball, outAll, "all")
		fin := "None"
		if finalA != nil && outA == "ok" {
			fs := &AState{Node: finalA.NodeName}
			if finalA.Bs != nil {
				fs.Bs = normBindings(finalA.Bs)
			}
			if _, ok := coqOptBindings(fs.Bs); ok {
				fin = "(Some " + fs.coq() + ")"
			}
		}
		ms := make([]string, 0, len(msgs))
		for _, m := range msgs {
			ms = append(ms, mustCoqJSON(m))
		}
		term := fmt.Sprintf("(mk_pcase %s %s %s %s %s %s %s)", as.coq(), st.coq(), coqList(ms), fin,
			coqBool(agree), coqBool(badType == ""), coqBool(outA == "ok"))
		o.count("outcome:" + outA)
		if !agree {
			o.count("roundtrip-observable")
		}
		if badType != "" {
			o.count("non-canonical-type:" + badType)
		}
		moved := 0
		usesAction := false
		for _, s := range a {
			if s.Node != st.Node {
				moved++
			}
			if len(s.Emitted) > 0 {
				usesAction = true
			}
		}
		for _, nd := range as.Nodes {
			if nd.Action != nil {
				usesAction = true
			}
		}
		sample := &persistCase{Spec: as, State: st, Msgs: msgs,
			Go: map[string]interface{}{"outcome": outA, "steps": a, "agree": agree, "non_canonical_type": badType, "first_difference": firstDiff}}
		o.add(term, canon(as)+canon(st)+canon(msgs), moved > 0 && usesAction, sample)
	}
	return o
}
