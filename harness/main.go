package main

// vharness: runs the real sheens code on generated inputs and writes the
// observed behaviour as Gallina terms (one `cases` list per shard) plus a
// JSON statistics file.  Sub-command per model component.

import (
	"encoding/json"
	"flag"
	"fmt"
	"os"
	"path/filepath"
	"sort"
	"strings"
)

// Out collects what a component produced.
type Out struct {
	Require   string   // Coq module to import, e.g. "Corr.MatchCorr"
	CaseType  string   // Gallina type of a case
	Cases     []string // Gallina terms
	Samples   []interface{}
	Evals     int
	Hist      map[string]int
	distinct  map[string]bool // distinct non-trivial case keys
	distinctA map[string]bool // distinct case keys
	Notes     []string
	JSONL     []string // every case as one JSON line, same order as Cases
}

func newOut(require, caseType string) *Out {
	return &Out{Require: require, CaseType: caseType, Hist: map[string]int{},
		distinct: map[string]bool{}, distinctA: map[string]bool{}}
}

func (o *Out) count(k string) { o.Hist[k]++ }

func (o *Out) add(term string, key string, nontrivial bool, sample interface{}) {
	o.Cases = append(o.Cases, term)
	if js, err := json.Marshal(sample); err == nil {
		o.JSONL = append(o.JSONL, string(js))
	} else {
		o.JSONL = append(o.JSONL, "null")
	}
	o.Evals++
	o.distinctA[key] = true
	if nontrivial {
		o.distinct[key] = true
	}
	if sample != nil && len(o.Samples) < 6 {
		o.Samples = append(o.Samples, sample)
	}
}

type statsFile struct {
	Component          string         `json:"component"`
	Seed               int64          `json:"seed"`
	Evaluations        int            `json:"evaluations"`
	Distinct           int            `json:"distinct"`
	DistinctNontrivial int            `json:"distinct_nontrivial"`
	Hist               map[string]int `json:"hist"`
	Samples            []interface{}  `json:"samples"`
	Shards             []string       `json:"shards"`
	Notes              []string       `json:"notes"`
}

func (o *Out) write(dir, component string, seed int64, shardSize int) error {
	if err := os.MkdirAll(dir, 0755); err != nil {
		return err
	}
	if shardSize <= 0 {
		shardSize = 1000
	}
	var shards []string
	for i, n := 0, 0; i < len(o.Cases) || n == 0; n++ {
		j := i + shardSize
		if j > len(o.Cases) {
			j = len(o.Cases)
		}
		name := fmt.Sprintf("cases_%s_%d", component, n)
		var sb strings.Builder
		sb.WriteString("From Sheens Require Import " + o.Require + ".\n")
		sb.WriteString("Local Open Scope string_scope.\nLocal Open Scope Z_scope.\nLocal Open Scope list_scope.\n")
		sb.WriteString(internDefs())
		sb.WriteString("Definition cases : list " + o.CaseType + " := [\n")
		for k := i; k < j; k++ {
			sb.WriteString(" ")
			sb.WriteString(o.Cases[k])
			if k+1 < j {
				sb.WriteString(";")
			}
			sb.WriteString("\n")
		}
		sb.WriteString("].\n")
		if err := os.WriteFile(filepath.Join(dir, name+".v"), []byte(sb.String()), 0644); err != nil {
			return err
		}
		shards = append(shards, name)
		i = j
		if i >= len(o.Cases) {
			break
		}
	}
	if err := os.WriteFile(filepath.Join(dir, "cases_"+component+".jsonl"),
		[]byte(strings.Join(o.JSONL, "\n")+"\n"), 0644); err != nil {
		return err
	}
	st := statsFile{Component: component, Seed: seed, Evaluations: o.Evals,
		Distinct: len(o.distinctA), DistinctNontrivial: len(o.distinct),
		Hist: o.Hist, Samples: o.Samples, Shards: shards, Notes: o.Notes}
	js, err := json.MarshalIndent(st, "", " ")
	if err != nil {
		return err
	}
	return os.WriteFile(filepath.Join(dir, "stats_"+component+".json"), js, 0644)
}

type component func(g *G, n int, opts map[string]string) *Out

var components = map[string]component{}

func main() {
	if len(os.Args) < 2 {
		names := []string{}
		for k := range components {
			names = append(names, k)
		}
		sort.Strings(names)
		fmt.Fprintln(os.Stderr, "usage: vharness <component> [flags]; components:", strings.Join(names, " "))
		os.Exit(2)
	}
	name := os.Args[1]
	fs := flag.NewFlagSet(name, flag.ExitOnError)
	seed := fs.Int64("seed", 1, "PRNG seed")
	n := fs.Int("n", 300, "number of generated cases")
	out := fs.String("out", ".", "output directory")
	shard := fs.Int("shard", 1000, "cases per shard file")
	optstr := fs.String("opt", "", "component options k=v,k=v")
	fs.Parse(os.Args[2:])
	c, have := components[name]
	if !have {
		fmt.Fprintln(os.Stderr, "unknown component", name)
		os.Exit(2)
	}
	opts := map[string]string{}
	for _, kv := range strings.Split(*optstr, ",") {
		if kv == "" {
			continue
		}
		parts := strings.SplitN(kv, "=", 2)
		if len(parts) == 2 {
			opts[parts[0]] = parts[1]
		} else {
			opts[parts[0]] = "1"
		}
	}
	o := c(newG(*seed), *n, opts)
	if err := o.write(*out, name, *seed, *shard); err != nil {
		fmt.Fprintln(os.Stderr, "write:", err)
		os.Exit(3)
	}
	fmt.Printf("component=%s cases=%d distinct_nontrivial=%d\n", name, o.Evals, len(o.distinct))
}
