package main

// Components "step" and "walk": Spec.Step and Spec.Walk of the real engine
// on generated compiled specifications, states and messages, under recover
// and a watchdog, with deep snapshots and map-identity probes.
// Serve C04-C08 and C18.

import (
	"context"
	"encoding/json"
	"errors"
	"fmt"
	"reflect"
	"regexp"
	"strings"
	"time"

	"github.com/Comcast/sheens/core"
	"github.com/Comcast/sheens/match"
)

func init() {
	components["step"] = stepComponent
	components["walk"] = walkComponent
}

type stateObs struct {
	Node  string                 `json:"node"`
	Bs    map[string]interface{} `json:"bs"`
	NilBs bool                   `json:"nil_bs,omitempty"`
	Plain bool                   `json:"-"`
}

type strideObs struct {
	From     *stateObs     `json:"from"`
	To       *stateObs     `json:"to"`
	Consumed interface{}   `json:"consumed"`
	Emitted  []interface{} `json:"emitted"`
}

func obsState(s *core.State) *stateObs {
	if s == nil {
		return nil
	}
	o := &stateObs{Node: s.NodeName, Plain: true}
	if s.Bs == nil {
		o.NilBs = true
		return o
	}
	o.Bs = normText(map[string]interface{}(s.Bs)).(map[string]interface{})
	return o
}

func (s *stateObs) coq() (string, bool) {
	if s == nil {
		return "None", true
	}
	var m map[string]interface{}
	if !s.NilBs {
		m = s.Bs
		if m == nil {
			m = map[string]interface{}{}
		}
	}
	bs, ok := coqOptBindings(m)
	return fmt.Sprintf("(mk_state %s %s)", coqString(s.Node), bs), ok
}

func obsStride(sd *core.Stride) *strideObs {
	if sd == nil {
		return nil
	}
	o := &strideObs{From: obsState(sd.From), To: obsState(sd.To), Consumed: sd.Consumed}
	if sd.Events != nil {
		for _, e := range sd.Emitted {
			o.Emitted = append(o.Emitted, e)
		}
	}
	return o
}

func (o *strideObs) coq() (string, bool) {
	from, ok1 := o.From.coq()
	to := "None"
	ok2 := true
	if o.To != nil {
		var s string
		s, ok2 = o.To.coq()
		to = "(Some " + s + ")"
	}
	consumed := "None"
	ok3 := true
	if o.Consumed != nil {
		var s string
		s, ok3 = coqJSON(o.Consumed)
		consumed = "(Some " + s + ")"
	}
	ems := make([]string, 0, len(o.Emitted))
	ok4 := true
	for _, e := range o.Emitted {
		s, ok := coqJSON(e)
		ok4 = ok4 && ok
		ems = append(ems, s)
	}
	return fmt.Sprintf("(mk_stride %s %s %s %s)", from, to, consumed, coqList(ems)), ok1 && ok2 && ok3 && ok4
}

func errClass(err error) string {
	if err == nil {
		return "GNone"
	}
	switch err.(type) {
	case *core.SpecNotCompiled:
		return "GNotCompiled"
	case *core.UnknownNode:
		return "GUnknownNode"
	case *core.UncompiledAction:
		return "GUncompiled"
	case *core.BadBranching:
		return "GBadBranching"
	}
	if err == core.TooManyBindingss {
		return "GTooMany"
	}
	return "GOther"
}

// snapshot of everything a call is given
func snapshot(spec *core.Spec, st *core.State, msgs []interface{}, ctl *core.Control, props core.StepProps) string {
	s := "nil"
	if st != nil {
		if st.Bs == nil {
			s = st.NodeName + "/nilbs"
		} else {
			s = st.NodeName + "/" + canon(map[string]interface{}(st.Bs))
		}
	}
	s += "|" + canon(msgs)
	for _, name := range sortedNodeNames(spec) {
		n := spec.Nodes[name]
		s += "|" + name
		if n == nil {
			continue
		}
		s += fmt.Sprintf(":%v:%v", n.Action != nil, n.ActionSource != nil)
		if n.Branches != nil {
			s += ":" + n.Branches.Type
			for _, b := range n.Branches.Branches {
				s += ";" + canon(b.Pattern) + ">" + b.Target + fmt.Sprintf("%v", b.Guard != nil)
			}
		}
	}
	s += fmt.Sprintf("|%v|%v|%s", spec.ActionErrorBranches, spec.ActionErrorNode, spec.ErrorNode)
	if ctl != nil {
		s += fmt.Sprintf("|limit=%d,bps=%d", ctl.Limit, len(ctl.Breakpoints))
	} else {
		s += "|nilctl"
	}
	s += "|" + canon(map[string]interface{}(props))
	return s
}

func sortedNodeNames(spec *core.Spec) []string {
	m := map[string]interface{}{}
	for k := range spec.Nodes {
		m[k] = nil
	}
	return sortedKeys(m)
}

func bsPtr(b match.Bindings) uintptr {
	if b == nil {
		return 0
	}
	return reflect.ValueOf(b).Pointer()
}

type stepRun struct {
	Outcome string     // ok, panic, hang
	Stride  *strideObs // nil when Step returned no stride
	Err     string
	Intact  bool
	Shared  bool
	raw     *core.Stride
	rawText string // the diagnostics as they are (addresses masked): two identical calls give identical texts
}

var addrRe = regexp.MustCompile(`0x[0-9a-fA-F]+`)

// rawTexts: every string of the states of a stride as it is (the comparison with the model sees one token per diagnostic)
func rawTexts(sd *core.Stride) string {
	if sd == nil {
		return ""
	}
	var sb strings.Builder
	for _, st := range []*core.State{sd.From, sd.To} {
		if st == nil || st.Bs == nil {
			sb.WriteString("|-")
			continue
		}
		js, err := json.Marshal(map[string]interface{}(st.Bs))
		if err != nil {
			sb.WriteString("|!")
			continue
		}
		sb.WriteString("|" + addrRe.ReplaceAllString(string(js), "0x"))
	}
	return sb.String()
}

// reaches: somewhere in a result (any field, exported or not, any depth outside the bindings' own values) sits the
// caller's *State or the caller's bindings map
func reaches(x interface{}, st *core.State) bool {
	if st == nil {
		return false
	}
	stPtr := reflect.ValueOf(st).Pointer()
	var bsPtrIn uintptr
	if st.Bs != nil {
		bsPtrIn = reflect.ValueOf(st.Bs).Pointer()
	}
	seen := map[uintptr]bool{}
	var walk func(v reflect.Value, depth int) bool
	walk = func(v reflect.Value, depth int) bool {
		if depth > 12 || !v.IsValid() {
			return false
		}
		switch v.Kind() {
		case reflect.Ptr:
			if v.IsNil() {
				return false
			}
			if v.Pointer() == stPtr {
				return true
			}
			if seen[v.Pointer()] {
				return false
			}
			seen[v.Pointer()] = true
			return walk(v.Elem(), depth+1)
		case reflect.Interface:
			if v.IsNil() {
				return false
			}
			return walk(v.Elem(), depth+1)
		case reflect.Struct:
			for i := 0; i < v.NumField(); i++ {
				if walk(v.Field(i), depth+1) {
					return true
				}
			}
		case reflect.Slice, reflect.Array:
			if v.Kind() == reflect.Slice && v.IsNil() {
				return false
			}
			for i := 0; i < v.Len() && i < 4000; i++ {
				if walk(v.Index(i), depth+1) {
					return true
				}
			}
		case reflect.Map:
			if v.IsNil() {
				return false
			}
			if bsPtrIn != 0 && v.Pointer() == bsPtrIn {
				return true
			}
			// the values inside a bindings map are data: what they share is another question (top-level copies)
		}
		return false
	}
	return walk(reflect.ValueOf(x), 0)
}

var ctxForCount int

// ctxOver: the next Steps/Walks run under a context that is over already.  Only for specifications without interpreted
// code (a native action does not look at the context, and neither Step nor Walk gives up on its own: the host decides)
var ctxOver bool

func (s *ASpec) allNative() bool {
	for _, nd := range s.Nodes {
		if nd.Action != nil && !nd.Action.Native {
			return false
		}
		for _, b := range nd.Branches {
			if b.Guard != nil && !b.Guard.Native {
				return false
			}
		}
		if nd.Uncompiled {
			return false
		}
	}
	return true
}

// ctxFor: the context of one Step/Walk.  An endless script is stopped after 60 ms, in turn by a deadline, by a
// cancellation of a context that has no deadline, and by a cancellation long before a far deadline.
func ctxFor(loop bool) (context.Context, context.CancelFunc) {
	if ctxOver {
		ctx, cancel := context.WithCancel(context.Background())
		cancel()
		return ctx, func() {}
	}
	if loop {
		ctxForCount++
		switch ctxForCount % 3 {
		case 1:
			ctx, cancel := context.WithCancel(context.Background())
			t := time.AfterFunc(60*time.Millisecond, cancel)
			return ctx, func() { t.Stop(); cancel() }
		case 2:
			ctx, cancel := context.WithTimeout(context.Background(), 30*time.Second)
			t := time.AfterFunc(60*time.Millisecond, cancel)
			return ctx, func() { t.Stop(); cancel() }
		}
		return context.WithTimeout(context.Background(), 60*time.Millisecond)
	}
	return context.WithTimeout(context.Background(), 20*time.Second)
}

func runStep(spec *core.Spec, st *core.State, pending interface{}, ctl *core.Control, props core.StepProps, loop bool) *stepRun {
	r := &stepRun{Intact: true}
	var msgs []interface{}
	if pending != nil {
		msgs = []interface{}{pending}
	}
	before := snapshot(spec, st, msgs, ctl, props)
	done := make(chan bool, 1)
	go func() {
		defer func() {
			if p := recover(); p != nil {
				r.Outcome = "panic"
				r.Err = fmt.Sprintf("%v", p)
			}
			done <- true
		}()
		ctx, cancel := ctxFor(loop)
		defer cancel()
		sd, err := spec.Step(ctx, st, pending, ctl, props)
		r.Outcome = "ok"
		r.raw = sd
		r.Stride = obsStride(sd)
		r.Err = errClass(err)
	}()
	select {
	case <-done:
	case <-time.After(10 * time.Second):
		return &stepRun{Outcome: "hang"}
	}
	if snapshot(spec, st, msgs, ctl, props) != before {
		r.Intact = false
	}
	if r.raw != nil {
		r.rawText = rawTexts(r.raw)
		if reaches(r.raw, st) {
			r.Shared = true
		}
		in := bsPtr(st.Bs)
		for _, s := range []*core.State{r.raw.From, r.raw.To} {
			if s != nil && s.Bs != nil && in != 0 && bsPtr(s.Bs) == in {
				r.Shared = true
			}
		}
		if r.raw.From != nil && r.raw.To != nil && r.raw.From.Bs != nil && bsPtr(r.raw.From.Bs) == bsPtr(r.raw.To.Bs) {
			r.Shared = true
		}
	}
	return r
}

func (r *stepRun) key() string {
	if r.Outcome != "ok" {
		return r.Outcome
	}
	s := r.Err + "|"
	if r.Stride != nil {
		s += canon(r.Stride)
	} else {
		s += "nostride"
	}
	return s + r.rawText
}

func (r *stepRun) coq() (string, bool) {
	switch r.Outcome {
	case "panic":
		return "GStepPanic", true
	case "hang":
		return "GStepHang", true
	}
	sd := "None"
	ok := true
	if r.Stride != nil {
		var s string
		s, ok = r.Stride.coq()
		sd = "(Some " + s + ")"
	}
	return fmt.Sprintf("(GStep %s %s)", sd, r.Err), ok
}

type stepCase struct {
	Spec    *ASpec      `json:"spec"`
	State   *AState     `json:"state"`
	Pending interface{} `json:"pending"`
	NilCtl  bool        `json:"nil_control"`
	Go      interface{} `json:"go"`
}

func (g *G) genProps() core.StepProps {
	if g.chance(0.4) {
		return nil
	}
	if g.chance(0.2) {
		return core.StepProps{}
	}
	return core.StepProps{"mid": "m1", "cfg": map[string]interface{}{"k": "v"}}
}

func stepComponent(g *G, n int, opts map[string]string) *Out {
	g.mode = opts["mode"]
	o := newOut("Corr.StepCorr", "scase")
	var replay []*stepCase
	if path := opts["replay"]; path != "" {
		var w struct {
			Cases []*stepCase `json:"cases"`
		}
		loadJSON(path, &w)
		replay = w.Cases
		n = len(replay)
	}
	for i := 0; i < n; i++ {
		var as *ASpec
		var st *AState
		var pending interface{}
		nilCtl := g.chance(0.3)
		if replay != nil {
			as, st, pending, nilCtl = replay[i].Spec, replay[i].State, replay[i].Pending, replay[i].NilCtl
		} else {
			as = g.aspec(opts)
			st = g.astate(as)
			if g.chance(0.75) {
				pending = g.messageFor(as, st.Node, st)
			}
		}
		addStepCase(o, g, as, st, pending, nilCtl, opts["mode"])
	}
	return o
}

// addStepCase runs one (spec, state, pending) through Spec.Step twice and records the case.
func addStepCase(o *Out, g *G, as *ASpec, st *AState, pending interface{}, nilCtl bool, mode string) {
	spec, err := as.build()
	if err != nil {
		o.count("compile-error")
		return
	}
	var ctl *core.Control
	if !nilCtl {
		ctl = &core.Control{Limit: 10}
	}
	props := g.genProps()
	// a deadline only where it concerns exactly one execution: the current node's endless action
	loop := false
	if cur := as.Nodes[st.Node]; cur != nil && cur.Action.hasLoop() {
		loop = true
	}
	if mode == "c06" && g.chance(0.12) {
		// the documented switch for permanent bindings turned off (hosts may): what the engine is given stays intact
		// all the same; only the snapshot / identity observations of this case are used (mode c06 compares nothing else)
		core.Exp_PermanentBindings = false
		defer func() { core.Exp_PermanentBindings = true }()
		o.count("permanent-bindings-off")
	}
	wrapGuards(spec)
	if g.chance(0.4) {
		// steps of other machines over this very Spec object come first
		for k := 1 + g.intn(3); k > 0; k-- {
			ost := g.astate(as)
			var opend interface{}
			if g.chance(0.6) {
				opend = g.messageFor(as, ost.Node, ost)
			}
			runStep(spec, ost.core(), opend, ctl, nil, false)
		}
		o.count("spec-used-by-other-machines-before")
	}
	resetGuardLog()
	r1 := runStep(spec, st.core(), deepCopy(pending, nil), ctl, props, loop)
	glog := takeGuardLog()
	r2 := runStep(spec, st.core(), deepCopy(pending, g), ctl, props, loop)
	takeGuardLog()
	gor, ok := r1.coq()
	if !ok {
		gor = "GStepUnrep"
	}
	// the guard-call log of the first run ("None": nothing usable was recorded, e.g. the step hung)
	glogTerm := "None"
	if r1.Outcome == "ok" {
		if s, ok := coqGuardLog(glog, st.Node); ok {
			glogTerm = "(Some " + s + ")"
		}
	}
	if len(glog) >= 2 {
		o.count("guard-calls:2+")
	} else if len(glog) == 1 {
		o.count("guard-calls:1")
	}
	pend := "None"
	if pending != nil {
		pend = "(Some " + mustCoqJSON(pending) + ")"
	}
	term := fmt.Sprintf("(mk_scase %s %s %s %s %s %s %s %s)", as.coq(), st.coq(), pend, gor,
		coqBool(r1.Intact && r2.Intact), coqBool(r1.Shared || r2.Shared), coqBool(r1.key() == r2.key()), glogTerm)
	o.count("outcome:" + r1.Outcome)
	o.count("err:" + r1.Err)
	nd := as.Nodes[st.Node]
	if nd != nil && nd.Action != nil {
		o.count("action:" + nd.Action.P.Term)
	}
	moved := r1.Stride != nil && r1.Stride.To != nil
	if moved {
		o.count("moved")
	}
	sample := &stepCase{Spec: as, State: st, Pending: pending, NilCtl: nilCtl,
		Go: map[string]interface{}{"outcome": r1.Outcome, "err": r1.Err, "stride": r1.Stride,
			"intact": r1.Intact && r2.Intact, "shared": r1.Shared || r2.Shared, "repeat_equal": r1.key() == r2.key(),
			"guard_calls": glog}}
	nontrivial := moved || r1.Err != "GNone"
	hasPerm := false
	for k := range st.Bs {
		if strings.HasSuffix(k, "!") {
			hasPerm = true
		}
	}
	failed := nd != nil && nd.Action != nil && (nd.Action.P.Term == "throw" || nd.Action.P.Term == "nonobject" ||
		nd.Action.P.Term == "emitbad" || nd.Action.P.Term == "retbad" || nd.Action.P.Term == "loop")
	emits := false
	if nd != nil && nd.Action != nil {
		for _, op := range nd.Action.P.Ops {
			if op.Kind == "emit" || op.Kind == "emitb" {
				emits = true
			}
		}
	}
	switch mode {
	case "c18":
		nontrivial = hasPerm && moved && nd != nil && (nd.Action != nil || anyGuard(nd))
	case "c08":
		nontrivial = emits
	case "c07":
		nontrivial = failed || r1.Err != "GNone" || st.Bs == nil
	case "c06":
		nontrivial = failed || r1.Err != "GNone" || (moved && nd != nil && nd.Action != nil)
	}
	if failed && emits {
		o.count("emit-then-fail")
	}
	if hasPerm {
		o.count("has-permanent")
	}
	o.add(term, canon(as)+canon(st)+canon(pending), nontrivial, sample)
}

// ---- walk ------------------------------------------------------------------

type walkObs struct {
	Strides   []*strideObs  `json:"strides"`
	Remaining []interface{} `json:"remaining"`
	Stopped   string        `json:"stopped"`
	// what Walked's own accessors say (hosts use these, not the strides): To(), DoEmitted
	GoTo      *stateObs     `json:"to_accessor"`
	GoEmitted []interface{} `json:"emitted_accessor"`
	// the accessors agree with the strides (To = the last state reached; From = where the first stride began;
	// DoEmitted = the strides' emissions in order, and it stops at the callback's first error)
	Accessors bool `json:"accessors_agree"`
}

type walkRun struct {
	Outcome string
	W       *walkObs
	Intact  bool
	Shared  bool
	Err     string
	rawText string
}

type bpSpec struct {
	Kind string `json:"kind"` // none, node, haskey
	Arg  string `json:"arg,omitempty"`
}

func (b *bpSpec) coq() string {
	switch b.Kind {
	case "node":
		return "(BpNode " + coqString(b.Arg) + ")"
	case "haskey":
		return "(BpHasKey " + coqString(b.Arg) + ")"
	}
	return "BpNone"
}

func (b *bpSpec) breakpoints() map[string]core.Breakpoint {
	switch b.Kind {
	case "node":
		return map[string]core.Breakpoint{"bp": func(ctx context.Context, st *core.State) bool { return st.NodeName == b.Arg }}
	case "haskey":
		return map[string]core.Breakpoint{"bp": func(ctx context.Context, st *core.State) bool { _, have := st.Bs[b.Arg]; return have }}
	}
	return nil
}

func runWalk(spec *core.Spec, st *core.State, msgs []interface{}, ctl *core.Control, props core.StepProps, loop bool) *walkRun {
	r := &walkRun{Intact: true}
	before := snapshot(spec, st, msgs, ctl, props)
	done := make(chan bool, 1)
	var raw *core.Walked
	go func() {
		defer func() {
			if p := recover(); p != nil {
				r.Outcome = "panic"
				r.Err = fmt.Sprintf("%v", p)
			}
			done <- true
		}()
		ctx, cancel := ctxFor(loop)
		defer cancel()
		if loop {
			// a fresh deadline per walk is enough: every looping action is cut at 25ms
			ctx, cancel = context.WithTimeout(context.Background(), 25*time.Millisecond)
			defer cancel()
		}
		w, err := spec.Walk(ctx, st, msgs, ctl, props)
		r.Outcome = "ok"
		if err != nil {
			r.Err = err.Error()
		}
		raw = w
	}()
	select {
	case <-done:
	case <-time.After(20 * time.Second):
		return &walkRun{Outcome: "hang"}
	}
	if snapshot(spec, st, msgs, ctl, props) != before {
		r.Intact = false
	}
	if raw != nil {
		wo := &walkObs{Stopped: raw.StoppedBecause.String()}
		if reaches(raw, st) {
			r.Shared = true
		}
		for _, sd := range raw.Strides {
			r.rawText += rawTexts(sd)
		}
		in := bsPtr(st.Bs)
		for _, sd := range raw.Strides {
			wo.Strides = append(wo.Strides, obsStride(sd))
			for _, s := range []*core.State{sd.From, sd.To} {
				if s != nil && s.Bs != nil && in != 0 && bsPtr(s.Bs) == in {
					r.Shared = true
				}
			}
		}
		for _, m := range raw.Remaining {
			wo.Remaining = append(wo.Remaining, m)
		}
		func() {
			defer func() {
				if p := recover(); p != nil {
					wo.Accessors = false
				}
			}()
			wo.Accessors = true
			wo.GoTo = obsState(raw.To())
			raw.DoEmitted(func(x interface{}) error {
				wo.GoEmitted = append(wo.GoEmitted, x)
				return nil
			})
			var lastTo *stateObs
			for _, sd := range wo.Strides {
				if sd.To != nil {
					lastTo = sd.To
				}
			}
			if canon(lastTo) != canon(wo.GoTo) || canon(append([]interface{}{}, wo.emitted()...)) != canon(append([]interface{}{}, wo.GoEmitted...)) {
				wo.Accessors = false
			}
			if from := raw.From(); len(wo.Strides) > 0 && canon(obsState(from)) != canon(wo.Strides[0].From) || len(wo.Strides) == 0 && from != nil {
				wo.Accessors = false
			}
			// DoEmitted stops at the first error of the callback
			if n := len(wo.GoEmitted); n >= 2 {
				calls := 0
				stop := errors.New("stop")
				err := raw.DoEmitted(func(x interface{}) error {
					calls++
					if calls == n-1 {
						return stop
					}
					return nil
				})
				if calls != n-1 || err != stop {
					wo.Accessors = false
				}
			}
		}()
		r.W = wo
	}
	return r
}

func (r *walkRun) key() string {
	if r.Outcome != "ok" {
		return r.Outcome
	}
	return canon(r.W) + r.rawText
}

func (r *walkRun) coq() (string, bool) {
	switch r.Outcome {
	case "panic":
		return "GWalkPanic", true
	case "hang":
		return "GWalkHang", true
	}
	if r.W == nil {
		return "GWalkPanic", true
	}
	ok := true
	sds := make([]string, 0, len(r.W.Strides))
	for _, sd := range r.W.Strides {
		s, k := sd.coq()
		ok = ok && k
		sds = append(sds, s)
	}
	rem := make([]string, 0, len(r.W.Remaining))
	for _, m := range r.W.Remaining {
		s, k := coqJSON(m)
		ok = ok && k
		rem = append(rem, s)
	}
	return fmt.Sprintf("(GWalk (mk_walked %s %s %s) %s)", coqList(sds), coqList(rem), r.W.Stopped, coqBool(r.Err != "")), ok
}

// final state and emitted messages of a walk (for the split comparison)
func (w *walkObs) final(start *AState) string {
	node, bs := start.Node, canon(start.Bs)
	if start.Bs == nil {
		bs = "{}"
	}
	// as a host computes it: Walked.To(), or the state it had when the walk reached none
	if w.GoTo != nil {
		node = w.GoTo.Node
		bs = canon(w.GoTo.Bs)
		if w.GoTo.Bs == nil {
			bs = "{}"
		}
	}
	return node + "/" + bs
}

func (w *walkObs) emitted() []interface{} {
	var acc []interface{}
	for _, sd := range w.Strides {
		acc = append(acc, sd.Emitted...)
	}
	return acc
}

func (w *walkObs) finalState(start *AState) *AState {
	st := &AState{Node: start.Node, Bs: start.Bs}
	for _, sd := range w.Strides {
		if sd.To != nil {
			st = &AState{Node: sd.To.Node, Bs: sd.To.Bs}
			if sd.To.NilBs {
				st.Bs = nil
			} else if st.Bs == nil {
				st.Bs = map[string]interface{}{}
			}
		}
	}
	return st
}

type walkCase struct {
	Spec  *ASpec        `json:"spec"`
	State *AState       `json:"state"`
	Msgs  []interface{} `json:"messages"`
	Limit int           `json:"limit"` // -1 = nil control; <= -2: that negative limit
	Bp    *bpSpec       `json:"breakpoint"`
	Go    interface{}   `json:"go"`
}

func walkComponent(g *G, n int, opts map[string]string) *Out {
	g.mode = opts["mode"]
	o := newOut("Corr.StepCorr", "wcase")
	var replay []*walkCase
	if path := opts["replay"]; path != "" {
		var w struct {
			Cases []*walkCase `json:"cases"`
		}
		loadJSON(path, &w)
		replay = w.Cases
		n = len(replay)
	} else if opts["nocorpus"] == "" {
		// the volume walks come first, as if replayed
		replay = walkVolume()
		n += len(replay)
	}
	volume := len(replay)
	if opts["replay"] != "" {
		volume = 0
	}
	for i := 0; i < n; i++ {
		if volume > 0 && i == volume {
			replay = nil
		}
		var as *ASpec
		var st *AState
		var msgs []interface{}
		limit := g.intn(13)
		if g.chance(0.2) {
			limit = -1
		} else if g.chance(0.04) {
			// a negative limit (not the nil control): no step may be taken (D52: crashed Walk)
			limit = -2 - g.intn(6)
		}
		bp := &bpSpec{Kind: "none"}
		if replay != nil {
			c := replay[i]
			as, st, msgs, limit, bp = c.Spec, c.State, c.Msgs, c.Limit, c.Bp
			if bp == nil {
				bp = &bpSpec{Kind: "none"}
			}
		} else {
			as = g.aspec(opts)
			as.noLoops()
			st = g.astate(as)
			node := st.Node
			for k := g.intn(5); k > 0; k-- {
				msgs = append(msgs, g.messageFor(as, node))
				names := sortedKeys(nodesAsMap(as))
				node = names[g.intn(len(names))]
			}
			switch k := g.intn(10); {
			case k < 1:
				bp = &bpSpec{Kind: "node", Arg: g.pick(nodeNames)}
			case k < 2:
				bp = &bpSpec{Kind: "haskey", Arg: g.pick(bindKeys)}
			}
		}
		spec, err := as.build()
		if err != nil {
			o.count("compile-error")
			continue
		}
		var ctl *core.Control
		if limit >= 0 || limit <= -2 {
			ctl = &core.Control{Limit: limit, Breakpoints: bp.breakpoints()}
		} else {
			bp = &bpSpec{Kind: "none"}
		}
		props := g.genProps()
		loop := as.hasLoop()
		if g.mode == "c06" && g.chance(0.12) {
			core.Exp_PermanentBindings = false
			o.count("permanent-bindings-off")
		}
		bpChance := 0.3
		if g.mode == "c05" {
			bpChance = 0.55
		}
		if replay == nil && ctl != nil && g.chance(bpChance) {
			// adaptive breakpoint: stop at a node this very walk reaches after its
			// first stride (so that messages have been consumed when it fires)
			dry := runWalk(spec, st.core(), deepCopy(msgs, nil).([]interface{}), &core.Control{Limit: limit}, props, loop)
			if dry.W != nil {
				var cands []string
				for i, sd := range dry.W.Strides {
					if (i >= 1 || sd.Consumed != nil) && sd.To != nil && sd.To.Node != st.Node {
						cands = append(cands, sd.To.Node)
					}
				}
				if len(cands) > 0 {
					bp = &bpSpec{Kind: "node", Arg: g.pick(cands)}
					ctl = &core.Control{Limit: limit, Breakpoints: bp.breakpoints()}
					o.count("adaptive-breakpoint")
				}
			}
		}
		if replay == nil && g.chance(0.5) {
			// other machines have been walked over this very Spec object before (a compiled specification is shared by
			// all machines that use it): what they did must not show in this walk
			for k := 1 + g.intn(3); k > 0; k-- {
				ost := g.astate(as)
				var omsgs []interface{}
				onode := ost.Node
				for j := g.intn(3); j > 0; j-- {
					omsgs = append(omsgs, g.messageFor(as, onode, ost))
					names := sortedKeys(nodesAsMap(as))
					onode = names[g.intn(len(names))]
				}
				runWalk(spec, ost.core(), omsgs, &core.Control{Limit: 1 + g.intn(8)}, nil, loop)
			}
			o.count("spec-used-by-other-machines-before")
		}
		if replay == nil && as.allNative() && g.chance(0.4) {
			ctxOver = true
			o.count("context-over-before-the-walk")
		}
		r1 := runWalk(spec, st.core(), deepCopy(msgs, nil).([]interface{}), ctl, props, loop)
		r2 := runWalk(spec, st.core(), deepCopy(msgs, g).([]interface{}), ctl, props, loop)
		// split comparison (C05): every split point, when no walk is cut short
		splitAgree, splitTried := true, 0
		if r1.Outcome == "ok" && r1.W != nil && r1.W.Stopped == "Done" && len(msgs) >= 1 && bp.Kind == "none" {
			for cut := 0; cut <= len(msgs); cut++ {
				if len(msgs) > 24 && cut > 2 && cut < len(msgs)-2 && cut != len(msgs)/2 {
					continue // a long batch: the cuts at both ends and in the middle
				}
				ra := runWalk(spec, st.core(), deepCopy(msgs[:cut], nil).([]interface{}), ctl, props, loop)
				if ra.Outcome != "ok" || ra.W == nil || ra.W.Stopped != "Done" {
					continue
				}
				mid := ra.W.finalState(st)
				rb := runWalk(spec, mid.core(), deepCopy(msgs[cut:], nil).([]interface{}), ctl, props, loop)
				if rb.Outcome != "ok" || rb.W == nil || rb.W.Stopped != "Done" {
					continue
				}
				splitTried++
				if rb.W.final(mid) != r1.W.final(st) ||
					canon(append(append([]interface{}{}, ra.W.emitted()...), rb.W.emitted()...)) != canon(append([]interface{}{}, r1.W.emitted()...)) {
					splitAgree = false
				}
			}
		}
		core.Exp_PermanentBindings = true
		ctxOver = false
		gor, ok := r1.coq()
		if !ok {
			gor = "GWalkUnrep"
		}
		ms := make([]string, 0, len(msgs))
		for _, m := range msgs {
			ms = append(ms, mustCoqJSON(m))
		}
		lim := "None"
		if limit >= 0 {
			lim = fmt.Sprintf("(Some %d%%nat)", limit)
		} else if limit <= -2 {
			lim = "(Some 0%nat)" // `for i := 0; i < c.Limit; i++` with a negative limit: as with 0
		}
		accessors := r1.W == nil || r1.W.Accessors
		term := fmt.Sprintf("(mk_wcase %s %s %s %s %s %s %s %s %s %s %s)", as.coq(), st.coq(), coqList(ms), lim, bp.coq(), gor,
			coqBool(r1.Intact && r2.Intact), coqBool(r1.Shared || r2.Shared), coqBool(r1.key() == r2.key()), coqBool(splitAgree),
			coqBool(accessors))
		o.count("outcome:" + r1.Outcome)
		nstrides := 0
		if r1.W != nil {
			o.count("stopped:" + r1.W.Stopped)
			nstrides = len(r1.W.Strides)
			switch {
			case nstrides == 0:
				o.count("strides:0")
			case nstrides < 3:
				o.count("strides:1-2")
			default:
				o.count("strides:3+")
			}
		}
		if r1.W != nil && !r1.W.Accessors {
			splitAgree = false // Walked's accessors contradict its strides: the final state / emissions a host sees are wrong
			o.count("accessors-disagree")
		}
		if splitTried > 0 {
			o.count("split-compared")
		}
		sample := &walkCase{Spec: as, State: st, Msgs: msgs, Limit: limit, Bp: bp,
			Go: map[string]interface{}{"outcome": r1.Outcome, "walked": r1.W, "intact": r1.Intact && r2.Intact,
				"shared": r1.Shared || r2.Shared, "repeat_equal": r1.key() == r2.key(), "split_agree": splitAgree, "splits": splitTried}}
		nontrivial := nstrides >= 2
		emitted, failedAny := false, false
		if r1.W != nil {
			for _, sd := range r1.W.Strides {
				if len(sd.Emitted) > 0 {
					emitted = true
				}
				if sd.To != nil {
					if _, have := sd.To.Bs["error"]; have {
						failedAny = true
					}
				}
			}
		}
		switch opts["mode"] {
		case "c08":
			nontrivial = emitted
		case "c07", "c06":
			nontrivial = failedAny
		case "c18":
			nontrivial = false
			for k := range st.Bs {
				if strings.HasSuffix(k, "!") && nstrides >= 2 {
					nontrivial = true
				}
			}
		}
		if r1.W != nil && r1.W.Stopped == "BreakpointReached" && len(r1.W.Strides) > 0 {
			o.count("breakpoint-after-strides")
		}
		o.add(term, canon(as)+canon(st)+canon(msgs)+fmt.Sprint(limit)+canon(bp), nontrivial, sample)
	}
	return o
}

// walkVolume: walks longer than a buffer of strides or traces might be (a thousand and more steps in one Walk, a branch
// whose pattern matches in hundreds of ways and whose guard declines every time)
func walkVolume() []*walkCase {
	echo := func(native bool) *ASpec {
		return &ASpec{Nodes: map[string]*ANode{
			"start": {HasBranches: true, Type: "message", Branches: []*ABranch{{Pattern: map[string]interface{}{"n": "?n"}, HasPattern: true, Target: "a"}}},
			"a": {Action: &Act{Native: native, P: &Prog{Ops: []Op{{Kind: "emitb", K: "?n"}, {Kind: "copy", K: "?n", K2: "last"}, {Kind: "del", K: "?n"}}, Term: "bindings"}},
				HasBranches: true, Type: "bindings", Branches: []*ABranch{{Target: "start"}}},
		}}
	}
	batch := func(n int) []interface{} {
		ms := make([]interface{}, n)
		for i := range ms {
			ms[i] = map[string]interface{}{"n": float64(i)}
		}
		return ms
	}
	likes := make([]interface{}, 300)
	for i := range likes {
		likes[i] = fmt.Sprintf("thing%d", i)
	}
	decline := func() *Act { return &Act{Native: true, P: &Prog{Term: "null"}} }
	pat := func() interface{} { return map[string]interface{}{"likes": []interface{}{"?x"}} }
	choosy := &ASpec{Nodes: map[string]*ANode{
		"start": {HasBranches: true, Type: "message", Branches: []*ABranch{
			{Pattern: pat(), HasPattern: true, Guard: decline(), Target: "a"},
			{Pattern: pat(), HasPattern: true, Guard: decline(), Target: "b"},
			{Pattern: map[string]interface{}{"likes": "?all"}, HasPattern: true, Target: "c"}}},
		"a": {}, "b": {}, "c": {},
	}}
	// one action hands over more messages than a bound on emissions might allow, and then completes
	many := make([]Op, 4100)
	for i := range many {
		many[i] = Op{Kind: "emit", J: map[string]interface{}{"k": float64(i % 7)}}
	}
	flood := &ASpec{ErrBranches: true, Nodes: map[string]*ANode{
		"start": {Action: &Act{Native: true, P: &Prog{Ops: many, Term: "bindings"}}, HasBranches: true, Type: "bindings",
			Branches: []*ABranch{{Pattern: map[string]interface{}{"actionError": "?e"}, HasPattern: true, Target: "b"}, {Target: "a"}}},
		"a": {}, "b": {},
	}}
	none := &bpSpec{Kind: "none"}
	st := func() *AState { return &AState{Node: "start", Bs: map[string]interface{}{}} }
	return []*walkCase{
		{Spec: echo(true), State: st(), Msgs: batch(700), Limit: 3000, Bp: none},
		{Spec: echo(false), State: st(), Msgs: batch(600), Limit: 1100, Bp: none}, // the limit strikes after 550 messages
		{Spec: echo(true), State: st(), Msgs: batch(40), Limit: -1, Bp: none},
		{Spec: choosy, State: st(), Msgs: []interface{}{map[string]interface{}{"likes": likes}}, Limit: 10, Bp: none},
		{Spec: flood, State: st(), Msgs: nil, Limit: 10, Bp: none},
	}
}

func anyGuard(nd *ANode) bool {
	for _, b := range nd.Branches {
		if b.Guard != nil {
			return true
		}
	}
	return false
}

func nodesAsMap(as *ASpec) map[string]interface{} {
	m := map[string]interface{}{}
	for k := range as.Nodes {
		m[k] = nil
	}
	return m
}

// ---- exhaustive small scope of one step (C04) ----------------------------------------------

func init() { components["stepenum"] = stepEnumComponent }

// stepEnumComponent enumerates every configuration of the *current node* - action, branching type, up to two
// branches (pattern, guard, target) - over a small vocabulary, crossed with the error settings, three states and
// three pending messages.  One step depends on nothing else of a specification (other nodes only serve as
// targets), so this is the exhaustive family of one-step behaviours over that vocabulary.
func stepEnumComponent(g *G, n int, opts map[string]string) *Out {
	g.mode = opts["mode"]
	o := newOut("Corr.StepCorr", "scase")
	js := func(s string) interface{} {
		var x interface{}
		must(json.Unmarshal([]byte(s), &x))
		return x
	}
	patterns := []interface{}{nil, js(`{"n":"?v"}`), js(`{"a":1}`)}
	guards := []*Act{nil,
		{P: &Prog{Term: "bindings"}},
		{P: &Prog{Term: "null"}},
		{P: &Prog{Term: "ifeq", K: "?v", J: 1.0}}}
	actions := []*Act{nil,
		{P: &Prog{Ops: []Op{{Kind: "set", K: "n", J: 1.0}, {Kind: "emit", J: js(`{"e":1,"to":"nobody"}`)}}, Term: "bindings"}},
		{P: &Prog{Ops: []Op{{Kind: "emit", J: js(`{"e":2,"to":"nobody"}`)}}, Term: "throw"}},
		{P: &Prog{Term: "null"}}}
	targets := []string{"a", "@t"}
	var branches []*ABranch
	for _, p := range patterns {
		for _, gd := range guards {
			for _, t := range targets {
				branches = append(branches, &ABranch{Pattern: p, HasPattern: p != nil, Guard: gd, Target: t})
			}
		}
	}
	var lists [][]*ABranch
	lists = append(lists, nil)
	for _, b1 := range branches {
		lists = append(lists, []*ABranch{b1})
	}
	for _, b1 := range branches {
		for _, b2 := range branches {
			lists = append(lists, []*ABranch{b1, b2})
		}
	}
	type errs struct {
		br   bool
		node string
	}
	errSettings := []errs{{false, ""}, {true, ""}, {false, "a"}}
	states := []map[string]interface{}{{}, {"n": 1.0, "t": "b"}, nil}
	pendings := []interface{}{nil, js(`{"n":1}`), js(`{"a":1,"n":2}`)}
	total := len(actions) * 2 * len(lists) * len(errSettings) * len(states) * len(pendings)
	stride := 1
	if n > 0 && total > n {
		stride = (total + n - 1) / n
	}
	o.Notes = append(o.Notes, fmt.Sprintf("small scope of one step: %d actions x 2 branching types x %d branch lists (<= 2 of %d branches) x %d error settings x %d states x %d pending = %d cases; stride %d (1 = exhaustive)",
		len(actions), len(lists), len(branches), len(errSettings), len(states), len(pendings), total, stride))
	k := 0
	for _, act := range actions {
		for _, typ := range []string{"message", "bindings"} {
			for _, bl := range lists {
				for _, es := range errSettings {
					for _, bs := range states {
						for _, pend := range pendings {
							k++
							if (k-1)%stride != 0 {
								continue
							}
							as := &ASpec{Nodes: map[string]*ANode{
								"start": {Action: act, HasBranches: true, Type: typ, Branches: bl},
								"a":     {}, "b": {}},
								ErrBranches: es.br, ErrNode: es.node}
							st := &AState{Node: "start"}
							if bs != nil {
								st.Bs = deepCopy(bs, nil).(map[string]interface{})
							}
							addStepCase(o, g, as, st, deepCopy(pend, nil), false, opts["mode"])
						}
					}
				}
			}
		}
	}
	if stride == 1 {
		o.count("exhaustive")
	}
	return o
}
