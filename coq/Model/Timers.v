(** Transition systems for the two timer implementations (C17).

    One state type, one step function per implementation and per version:

    - [cstep Mcrew]: cmd/mcrew/timers.go after the D16 repair.
        Add  (timers.go Add): under the lock: id present -> Exists; else
             insert the entry and start the goroutine.
        Rem  (timers.go Rem): under the lock: absent -> NotFound; else delete
             the entry and close its ctl channel.
        goroutine (the func literal in Add):
             select { timer.C (enabled when clock >= due) -> [CTimerC] ;
                      te.ctl  (enabled when closed)        -> [CCtl] }
             claim(te): under the lock, the entry is deleted iff the map still
                      holds THIS entry under the id -> [CClaim], else the
                      goroutine returns -> [CSkip]
             emit(...) is called -> [VReport] (the handler starts: pc Emitting)
             emit returns -> [CRet].
        The requester labels are enabled in every state, in particular while a
        goroutine is Emitting: that is a request made by the handler of the
        firing message.
    - [cstep Sio]: sio/timers.go, sio/crew.go after the D17 repair.
        Add/add: under the lock: a pending entry under the id is cancelled
             (deleted, Ctl closed) and replaced; the entry is inserted, the
             goroutine started.
        Cancel/cancel: as Rem.
        goroutine (TimerEntry.run):
             select { t.C -> [CTimerC] ; te.Ctl -> [CCtl] }
             Emitter: a closure is sent to the crew loop (pc Due: blocked on
             the send).
        crew loop, on receiving the closure (Crew.init, ProcessMsg): claim(te)
             succeeds: entry deleted, timers state published, message
             processed -> [VReport]; fails -> the message is dropped -> [CSkip].
        All requests are made by the crew loop as well, so there is no
        separate "inside the handler": the handler's requests are the loop's
        next steps.
        [VBoot]: a new process: no goroutine of the old one exists any more,
        the map is rebuilt from the persisted timers state (Timers.withMap) and
        one goroutine per entry is started (Timers.Start).
    - [cstep_pre]: the two implementations before the repairs (used only for
      the refutation witnesses in Proofs/TimersHistory.v and by the
      correspondence when the tree under test is unrepaired).

    The context-cancelled and Shutdown alternatives of the selects are not
    modelled. *)
From Coq Require Import ZArith List Bool Arith Lia.
From Sheens Require Export Spec.TimerSpec.
Import ListNotations.
Local Open Scope Z_scope.

Inductive pc : Type :=
| Waiting      (* in the select *)
| Due          (* took timer.C; about to claim (sio: blocked sending to the crew loop) *)
| Claimed      (* mcrew: removed its entry; about to call emit *)
| Emitting     (* emit has been called and has not returned (pre-fix sio: message sent) *)
| Cleaning     (* pre-fix only: emit returned; about to delete the entry by id *)
| Gone.

Definition pc_eqb (a b : pc) : bool :=
  match a, b with
  | Waiting, Waiting | Due, Due | Claimed, Claimed | Emitting, Emitting
  | Cleaning, Cleaning | Gone, Gone => true
  | _, _ => false
  end.

(** a goroutine: the entry it was started for, where it is, whether its
    control channel has been closed *)
Record gor : Type := mkGor { gtm : tm; gpc : pc; gclosed : bool }.

Definition gg (r : gor) : nat := tg (gtm r).

Record cstate : Type := mkC {
  cmap : list tm;                 (* the timers map: id -> entry *)
  cgors : list gor;
  cclock : Z;
  cknown : list tm;               (* ghost: accepted requests *)
  cfired : list (nat * Z);        (* ghost: messages handed to the handler, with the time *)
  ccancelled : list nat;          (* ghost: timers a Rem/Cancel/replace removed from the map *)
  csaved : list tm                (* sio: the timers state as last published by the crew loop *)
}.

Definition cinit : cstate := mkC [] [] 0 [] [] [] [].

Definition find_gor (g : nat) (l : list gor) : option gor :=
  find (fun r => Nat.eqb (gg r) g) l.

Definition upd_gor (g : nat) (f : gor -> gor) (l : list gor) : list gor :=
  map (fun r => if Nat.eqb (gg r) g then f r else r) l.

Definition set_pc (x : pc) (r : gor) : gor := mkGor (gtm r) x (gclosed r).
Definition close_ctl (r : gor) : gor := mkGor (gtm r) (gpc r) true.

(** "is the entry registered under my id still mine?" (pointer comparison
    in Go; generations here) *)
Definition mine (r : gor) (m : list tm) : bool :=
  match find_id (tid (gtm r)) m with
  | Some e => Nat.eqb (tg e) (gg r)
  | None => false
  end.

Inductive clabel : Type :=
| CVis (v : vis)
| CTimerC (g : nat)
| CCtl (g : nat)
| CClaim (g : nat)
| CSkip (g : nat)
| CRet (g : nat)
| CClean (g : nat).     (* pre-fix only *)

Definition with_gor (s : cstate) (g : nat) (k : gor -> option cstate) : option cstate :=
  match find_gor g (cgors s) with Some r => k r | None => None end.

Definition set_gors (s : cstate) (l : list gor) : cstate :=
  mkC (cmap s) l (cclock s) (cknown s) (cfired s) (ccancelled s) (csaved s).

(** the part of a request that is the same before and after the repairs *)
Definition c_tick (s : cstate) (t : Z) : cstate :=
  mkC (cmap s) (cgors s) (Z.max (cclock s) t) (cknown s) (cfired s) (ccancelled s) (csaved s).

Definition c_insert (s : cstate) (e : tm) (keep : list tm) (gs : list gor) (canc : list nat) : cstate :=
  mkC (keep ++ [e]) (gs ++ [mkGor e Waiting false]) (cclock s) (cknown s ++ [e]) (cfired s) canc
      (keep ++ [e]).

Definition c_rem (s : cstate) (i : nat) (ok : bool) : option cstate :=
  match find_id i (cmap s) with
  | Some old =>
      if ok then
        Some (mkC (rm_id i (cmap s)) (upd_gor (tg old) close_ctl (cgors s)) (cclock s) (cknown s)
                  (cfired s) (tg old :: ccancelled s) (rm_id i (cmap s)))
      else None
  | None => if ok then None else Some s
  end.

Definition c_snap (s : cstate) (ids : list nat) : option cstate :=
  if ids_eqb ids (map tid (cmap s)) then Some s else None.

Definition c_timerc (s : cstate) (g : nat) : option cstate :=
  with_gor s g (fun r =>
    match gpc r with
    | Waiting => if tdue (gtm r) <=? cclock s
                 then Some (set_gors s (upd_gor g (set_pc Due) (cgors s))) else None
    | _ => None
    end).

Definition c_ctl (s : cstate) (g : nat) : option cstate :=
  with_gor s g (fun r =>
    match gpc r with
    | Waiting => if gclosed r then Some (set_gors s (upd_gor g (set_pc Gone) (cgors s))) else None
    | _ => None
    end).

Definition c_boot (s : cstate) : cstate :=
  mkC (csaved s)
      (map (fun r => if existsb (tm_eqb (gtm r)) (csaved s)
                     then mkGor (gtm r) Waiting false else set_pc Gone r) (cgors s))
      (cclock s) (cknown s) (cfired s) (ccancelled s) (csaved s).

(** * After the repairs *)
Definition cstep (p : impl) (s : cstate) (l : clabel) : option cstate :=
  match l with
  | CVis (VTick t) => Some (c_tick s t)
  | CVis (VAdd g i d ok) =>
      if memn g (map tg (cknown s)) then None else
      let e := mkTm g i (cclock s + d) in
      match find_id i (cmap s) with
      | Some old =>
          match p with
          | Mcrew => if ok then None else Some s
          | Sio =>
              if ok then
                Some (c_insert s e (rm_id i (cmap s)) (upd_gor (tg old) close_ctl (cgors s))
                               (tg old :: ccancelled s))
              else None
          end
      | None => if ok then Some (c_insert s e (cmap s) (cgors s) (ccancelled s)) else None
      end
  | CVis (VRem i ok) => c_rem s i ok
  | CVis (VSnap ids) => c_snap s ids
  | CVis VBoot => match p with Sio => Some (c_boot s) | Mcrew => None end
  | CTimerC g => c_timerc s g
  | CCtl g => c_ctl s g
  | CClaim g =>
      match p with
      | Mcrew =>
          with_gor s g (fun r =>
            match gpc r with
            | Due =>
                if mine r (cmap s) then
                  Some (mkC (rm_id (tid (gtm r)) (cmap s)) (upd_gor g (set_pc Claimed) (cgors s))
                            (cclock s) (cknown s) (cfired s) (ccancelled s) (csaved s))
                else None
            | _ => None
            end)
      | Sio => None
      end
  | CSkip g =>
      with_gor s g (fun r =>
        match gpc r with
        | Due => if mine r (cmap s) then None
                 else Some (set_gors s (upd_gor g (set_pc Gone) (cgors s)))
        | _ => None
        end)
  | CVis (VReport g) =>
      with_gor s g (fun r =>
        match p, gpc r with
        | Mcrew, Claimed =>
            Some (mkC (cmap s) (upd_gor g (set_pc Emitting) (cgors s)) (cclock s) (cknown s)
                      ((g, cclock s) :: cfired s) (ccancelled s) (csaved s))
        | Sio, Due =>
            if mine r (cmap s) then
              let m := rm_id (tid (gtm r)) (cmap s) in
              Some (mkC m (upd_gor g (set_pc Gone) (cgors s)) (cclock s) (cknown s)
                        ((g, cclock s) :: cfired s) (ccancelled s) m)
            else None
        | _, _ => None
        end)
  | CRet g =>
      match p with
      | Mcrew =>
          with_gor s g (fun r =>
            match gpc r with
            | Emitting => Some (set_gors s (upd_gor g (set_pc Gone) (cgors s)))
            | _ => None
            end)
      | Sio => None
      end
  | CClean _ => None
  end.

Fixpoint cexec (p : impl) (s : cstate) (tr : list clabel) : option cstate :=
  match tr with
  | [] => Some s
  | l :: r => match cstep p s l with Some s' => cexec p s' r | None => None end
  end.

(** what a step of an implementation is at the level of the abstract service *)
Definition abs_label (p : impl) (l : clabel) : list alabel :=
  match l with
  | CVis (VReport g) => match p with Sio => [AFire g; AVis (VReport g)] | Mcrew => [AVis (VReport g)] end
  | CVis v => [AVis v]
  | CClaim g => [AFire g]
  | _ => []
  end.

(** the internal labels that may be enabled in a state *)
Definition taus (s : cstate) : list clabel :=
  flat_map (fun r => let g := gg r in
              match gpc r with
              | Waiting => [CTimerC g; CCtl g]
              | Due => [CClaim g; CSkip g]
              | Emitting => [CRet g]
              | Cleaning => [CClean g]
              | _ => []
              end) (cgors s).

(** * Before the repairs (D16, D17)

    mcrew: select -> timer.C: emit first ([VReport] from Due), then, after emit
    returned ([CRet]), lock and delete BY ID ([CClean]).
    sio: add on a pending id cancels it, drops the new timer and reports
    success; run: the message is sent to the crew loop ([VReport] from Due,
    the loop processes it), then the goroutine deletes BY ID ([CClean]); the
    published timers state holds the live map, so what is persisted is the map
    as it is when the state is written. *)
Definition cstep_pre (p : impl) (s : cstate) (l : clabel) : option cstate :=
  match l with
  | CVis (VTick t) => Some (c_tick s t)
  | CVis (VAdd g i d ok) =>
      if memn g (map tg (cknown s)) then None else
      let e := mkTm g i (cclock s + d) in
      match find_id i (cmap s) with
      | Some old =>
          match p with
          | Mcrew => if ok then None else Some s
          | Sio =>
              if ok then
                Some (mkC (rm_id i (cmap s)) (upd_gor (tg old) close_ctl (cgors s)) (cclock s)
                          (cknown s ++ [e]) (cfired s) (tg old :: ccancelled s) (rm_id i (cmap s)))
              else None
          end
      | None => if ok then Some (c_insert s e (cmap s) (cgors s) (ccancelled s)) else None
      end
  | CVis (VRem i ok) => c_rem s i ok
  | CVis (VSnap ids) => c_snap s ids
  | CVis VBoot => match p with Sio => Some (c_boot s) | Mcrew => None end
  | CTimerC g => c_timerc s g
  | CCtl g => c_ctl s g
  | CVis (VReport g) =>
      with_gor s g (fun r =>
        match gpc r with
        | Due =>
            Some (mkC (cmap s) (upd_gor g (set_pc Emitting) (cgors s)) (cclock s) (cknown s)
                      ((g, cclock s) :: cfired s) (ccancelled s)
                      (match p with Sio => cmap s | Mcrew => csaved s end))
        | _ => None
        end)
  | CRet g =>
      with_gor s g (fun r =>
        match gpc r with
        | Emitting => Some (set_gors s (upd_gor g (set_pc Cleaning) (cgors s)))
        | _ => None
        end)
  | CClean g =>
      with_gor s g (fun r =>
        match gpc r with
        | Cleaning =>
            let m := rm_id (tid (gtm r)) (cmap s) in
            Some (mkC m (upd_gor g (set_pc Gone) (cgors s)) (cclock s)
                      (cknown s) (cfired s) (ccancelled s)
                      (match p with Sio => m | Mcrew => csaved s end))
        | _ => None
        end)
  | CClaim _ => None
  | CSkip _ => None
  end.

Fixpoint cexec_pre (p : impl) (s : cstate) (tr : list clabel) : option cstate :=
  match tr with
  | [] => Some s
  | l :: r => match cstep_pre p s l with Some s' => cexec_pre p s' r | None => None end
  end.

(** * The property statements on a model state *)
Definition claimed_gens (s : cstate) : list nat :=
  map gg (filter (fun r => pc_eqb (gpc r) Claimed) (cgors s)).

Definition c_at_most_once (s : cstate) : Prop := st_at_most_once (cfired s).
Definition c_never_early (s : cstate) : Prop := st_never_early (cknown s) (cfired s).
Definition c_not_after_cancel (s : cstate) : Prop :=
  st_not_after_cancel (claimed_gens s) (cfired s) (ccancelled s).
Definition c_map_is_pending (s : cstate) : Prop :=
  st_pending_exact (cmap s) (claimed_gens s) (cknown s) (cfired s) (ccancelled s).
