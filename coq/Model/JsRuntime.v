(** Model of interpreters/ecmascript Interpreter.Exec as far as *isolation*
    is concerned (C10): what one execution of a script can leave behind for
    the host and for other executions.

    The interpreter state a script can touch is explicit:

      - [rt_globals]  properties of the global object,
      - [rt_protos]   properties added to built-in prototypes,
      - [rt_env]      the members of the environment object [_]
                      (ctx, props, bindings, out, and whatever a script adds),
      - the script's *views* of the caller's bindings and props (members
        "bindings" and "props" of [_]), together with an explicit record of
        which parts of a view are the very same Go object as a part of the
        caller's data ([alias]): an assignment through an aliased view is
        also an assignment to the caller's data.

    [exec] is parametrised by a [policy]: where the runtime state comes from
    ([pol_acquire]) and what is kept of it afterwards ([pol_release]), and
    how bindings and props are handed to the script (deep copy, one-level
    copy, no copy).  [faithful] is the code as it stands (ecmascript.go:
    goja.New() and a new env map per execution, deepCopy(bs), props.Copy());
    the other policies are the optimisations / slips the property worries
    about and exist to be refuted.

    Scripts are lists of operations of a small language that the harness
    renders as ECMAScript (harness/jsrt_iso.go); all assigned values are
    JSON literals (so a script creates no new aliases). *)
From Sheens Require Export Model.Bindings.

(** * Paths into JSON values *)

Definition idx_of (s : string) : option nat :=
  match s with
  | String c EmptyString =>
      let n := nat_of_ascii c in
      if Nat.leb 48 n && Nat.leb n 57 then Some (n - 48) else None
  | _ => None
  end.

Fixpoint list_set {A : Type} (n : nat) (x : A) (l : list A) : option (list A) :=
  match l, n with
  | [], _ => None
  | _ :: r, O => Some (x :: r)
  | y :: r, S m => match list_set m x r with Some r' => Some (y :: r') | None => None end
  end.

Fixpoint kv_has (k : string) (kvs : list (string * json)) : bool :=
  match kvs with
  | [] => false
  | (k', _) :: r => String.eqb k k' || kv_has k r
  end.

(** replace the value of the first entry with key [k] *)
Fixpoint kv_replace (k : string) (v : json) (kvs : list (string * json)) : list (string * json) :=
  match kvs with
  | [] => []
  | (k', v') :: r => if String.eqb k k' then (k', v) :: r else (k', v') :: kv_replace k v r
  end.

(** o[k] = v on a map: an existing key keeps its place, a new key is
    inserted in key order (the harness prints maps key-sorted) *)
Definition kv_put (k : string) (v : json) (kvs : list (string * json)) : list (string * json) :=
  if kv_has k kvs then kv_replace k v kvs else bset k v kvs.

Definition is_container (j : json) : bool :=
  match j with JObj _ | JArr _ => true | _ => false end.

(** the value at a path (property names; a one-digit name indexes an array) *)
Fixpoint jget (path : list string) (j : json) : option json :=
  match path with
  | [] => Some j
  | k :: rest =>
      match j with
      | JObj kvs => match assoc k kvs with Some c => jget rest c | None => None end
      | JArr l =>
          match idx_of k with
          | Some i => match nth_error l i with Some c => jget rest c | None => None end
          | None => None
          end
      | _ => None
      end
  end.

(** an update of the container at the end of a path: [f container lastkey];
    None = the script raises (a missing or non-object intermediate) *)
Fixpoint jupd (f : json -> string -> option json) (path : list string) (j : json) : option json :=
  match path with
  | [] => None
  | k :: rest =>
      match rest with
      | [] => f j k
      | _ :: _ =>
          match j with
          | JObj kvs =>
              match assoc k kvs with
              | Some c =>
                  match jupd f rest c with
                  | Some c' => Some (JObj (kv_replace k c' kvs))
                  | None => None
                  end
              | None => None
              end
          | JArr l =>
              match idx_of k with
              | Some i =>
                  match nth_error l i with
                  | Some c =>
                      match jupd f rest c with
                      | Some c' => option_map JArr (list_set i c' l)
                      | None => None
                      end
                  | None => None
                  end
              | None => None
              end
          | _ => None
          end
      end
  end.

(** container[k] = v : any key of a map, an existing index of an array *)
Definition put_at (v : json) (c : json) (k : string) : option json :=
  match c with
  | JObj kvs => Some (JObj (kv_put k v kvs))
  | JArr l => match idx_of k with Some i => option_map JArr (list_set i v l) | None => None end
  | _ => None
  end.

(** delete container[k] : maps only *)
Definition del_at (c : json) (k : string) : option json :=
  match c with
  | JObj kvs => Some (JObj (bremove k kvs))
  | _ => None
  end.

(** * The script language *)

Inductive envval : Type :=
| EHostFun                 (* a Go function (out) *)
| EHostObj                 (* a Go object (ctx) *)
| EVal (j : json).

Inductive proto : Type := PObject | PArray | PString.
Definition proto_eqb (a b : proto) : bool :=
  match a, b with
  | PObject, PObject | PArray, PArray | PString, PString => true
  | _, _ => false
  end.

Inductive jop : Type :=
| OAssign (path : list string) (v : json)      (* _.p1.p2...pn = v   (n = 1 replaces a member of _) *)
| ODelete (path : list string)                 (* delete _.p1...pn *)
| OSetGlobal (g : string) (v : json)           (* a property of the global object *)
| OPatchProto (p : proto) (name : string) (v : json)   (* Object.prototype[name] = v, ... *)
| OEmit (v : json)                             (* _.out(v) *)
| ORead (path : list string) (k : string)      (* R[k] = _.p1...pn, or null *)
| OReadGlobal (g : string) (k : string)        (* R[k] = global g, or null *)
| OReadProto (p : proto) (name : string) (k : string)  (* R[k] = ({})[name] / [][name] / ""[name], or null *)
| OReadEnv (m : string) (k : string).          (* R[k] = typeof _[m] *)

Inductive jterm : Type :=
| TReads                   (* return R *)
| TBindings                (* return _.bindings *)
| TThrowJ.                 (* throw *)

Record jscript : Type := mk_script { scr_ops : list jop; scr_term : jterm }.

(** what Exec returned: an error, or an Execution (bindings, possibly nil, and
    emitted messages) *)
Inductive jres : Type :=
| RFail
| ROk (bs : option bindings) (emitted : list json).

(** * Runtime state *)

Definition env := list (string * envval).

Fixpoint eget (m : string) (e : env) : option envval :=
  match e with
  | [] => None
  | (m', v) :: r => if String.eqb m m' then Some v else eget m r
  end.
Fixpoint eremove (m : string) (e : env) : env :=
  match e with
  | [] => []
  | (m', v) :: r => if String.eqb m m' then eremove m r else (m', v) :: eremove m r
  end.
Definition eset (m : string) (v : envval) (e : env) : env := (m, v) :: eremove m e.

Record rt : Type := mk_rt {
  rt_globals : list (string * json);
  rt_protos : list (proto * string * json);
  rt_env : env
}.
Definition fresh_rt : rt := mk_rt [] [] [].

Fixpoint proto_get (p : proto) (name : string) (l : list (proto * string * json)) : option json :=
  match l with
  | [] => None
  | (p', n', v) :: r => if proto_eqb p p' && String.eqb name n' then Some v else proto_get p name r
  end.

(** a property read on an instance: its own prototype first, then
    Object.prototype (Array.prototype and String.prototype inherit from it) *)
Definition proto_read (p : proto) (name : string) (l : list (proto * string * json)) : json :=
  match proto_get p name l with
  | Some v => v
  | None =>
      match p with
      | PObject => JNull
      | _ => match proto_get PObject name l with Some v => v | None => JNull end
      end
  end.

(** the caller's data (nil maps are [None]) *)
Record caller : Type := mk_caller { c_bs : option bindings; c_props : option bindings }.

Inductive root : Type := RBs | RProps.
(** the view at [al_view] (a path from [_]) is the same Go object as the
    caller's [al_root] at [al_path] *)
Record alias : Type := mk_alias { al_view : list string; al_root : root; al_path : list string }.

Fixpoint strip_prefix (p q : list string) : option (list string) :=
  match p with
  | [] => Some q
  | a :: p' =>
      match q with
      | [] => None
      | b :: q' => if String.eqb a b then strip_prefix p' q' else None
      end
  end.
Definition is_prefix (p q : list string) : bool :=
  match strip_prefix p q with Some _ => true | None => false end.

Definition caller_upd (f : json -> string -> option json) (r : root) (path : list string) (c : caller) : caller :=
  match r with
  | RBs =>
      match c_bs c with
      | Some b => match jupd f path (JObj b) with
                  | Some (JObj b') => mk_caller (Some b') (c_props c)
                  | _ => c
                  end
      | None => c
      end
  | RProps =>
      match c_props c with
      | Some b => match jupd f path (JObj b) with
                  | Some (JObj b') => mk_caller (c_bs c) (Some b')
                  | _ => c
                  end
      | None => c
      end
  end.

(** an update at view path [p] reaches the caller through every alias whose
    view is a strict prefix of [p] *)
Fixpoint write_through (f : json -> string -> option json) (p : list string)
         (als : list alias) (c : caller) : caller :=
  match als with
  | [] => c
  | a :: r =>
      let c' :=
        match strip_prefix (al_view a) p with
        | Some (x :: rest) => caller_upd f (al_root a) (al_path a ++ x :: rest) c
        | _ => c
        end in
      write_through f p r c'
  end.

(** replacing the value at [p] (or above an aliased view) ends the aliasing *)
Definition drop_aliases (p : list string) (als : list alias) : list alias :=
  filter (fun a => negb (is_prefix p (al_view a))) als.

Record xstate : Type := mk_x {
  x_globals : list (string * json);
  x_protos : list (proto * string * json);
  x_env : env;
  x_alias : list alias;
  x_caller : caller;
  x_reads : bindings;
  x_out : list json
}.

Definition env_assign (p : list string) (v : json) (e : env) : option env :=
  match p with
  | [] => None
  | [m] => Some (eset m (EVal v) e)
  | m :: rest =>
      match eget m e with
      | Some (EVal j) => match jupd (put_at v) rest j with
                         | Some j' => Some (eset m (EVal j') e)
                         | None => None
                         end
      | _ => None
      end
  end.

Definition env_delete (p : list string) (e : env) : option env :=
  match p with
  | [] => None
  | [m] => Some (eremove m e)
  | m :: rest =>
      match eget m e with
      | Some (EVal j) => match jupd del_at rest j with
                         | Some j' => Some (eset m (EVal j') e)
                         | None => None
                         end
      | _ => None
      end
  end.

Definition host_text : json := JStr "<host>".

Definition env_read (p : list string) (e : env) : json :=
  match p with
  | [] => JNull
  | m :: rest =>
      match eget m e with
      | Some (EVal j) => match jget rest j with Some v => v | None => JNull end
      | Some _ => match rest with [] => host_text | _ => JNull end
      | None => JNull
      end
  end.

Definition typeof_json (j : json) : string :=
  match j with
  | JNull => "object"
  | JBool _ => "boolean"
  | JNum _ => "number"
  | JStr _ => "string"
  | JArr _ | JObj _ => "object"
  end.
Definition typeof_env (v : option envval) : string :=
  match v with
  | None => "undefined"
  | Some EHostFun => "function"
  | Some EHostObj => "object"
  | Some (EVal j) => typeof_json j
  end.

Definition set_read (k : string) (v : json) (x : xstate) : xstate :=
  mk_x (x_globals x) (x_protos x) (x_env x) (x_alias x) (x_caller x) (kv_put k v (x_reads x)) (x_out x).

(** one operation; None = the script raises *)
Definition do_op (op : jop) (x : xstate) : option xstate :=
  match op with
  | OAssign p v =>
      match env_assign p v (x_env x) with
      | Some e' => Some (mk_x (x_globals x) (x_protos x) e' (drop_aliases p (x_alias x))
                              (write_through (put_at v) p (x_alias x) (x_caller x))
                              (x_reads x) (x_out x))
      | None => None
      end
  | ODelete p =>
      match env_delete p (x_env x) with
      | Some e' => Some (mk_x (x_globals x) (x_protos x) e' (drop_aliases p (x_alias x))
                              (write_through del_at p (x_alias x) (x_caller x))
                              (x_reads x) (x_out x))
      | None => None
      end
  | OSetGlobal g v =>
      Some (mk_x (kv_put g v (x_globals x)) (x_protos x) (x_env x) (x_alias x) (x_caller x) (x_reads x) (x_out x))
  | OPatchProto p name v =>
      Some (mk_x (x_globals x) ((p, name, v) :: x_protos x) (x_env x) (x_alias x) (x_caller x) (x_reads x) (x_out x))
  | OEmit v =>
      match eget "out" (x_env x) with
      | Some EHostFun => Some (mk_x (x_globals x) (x_protos x) (x_env x) (x_alias x) (x_caller x) (x_reads x) (x_out x ++ [v]))
      | _ => None
      end
  | ORead p k => Some (set_read k (env_read p (x_env x)) x)
  | OReadGlobal g k => Some (set_read k (match assoc g (x_globals x) with Some v => v | None => JNull end) x)
  | OReadProto p name k => Some (set_read k (proto_read p name (x_protos x)) x)
  | OReadEnv m k => Some (set_read k (JStr (typeof_env (eget m (x_env x)))) x)
  end.

(** the operations in order; the flag says that one of them raised (the
    state is the one reached before it: earlier effects stay) *)
Fixpoint jrun_ops (ops : list jop) (x : xstate) : xstate * bool :=
  match ops with
  | [] => (x, false)
  | op :: r =>
      match do_op op x with
      | Some x' => jrun_ops r x'
      | None => (x, true)
      end
  end.

(** the value the wrapped function returns, exported and checked by Exec *)
Definition finish (t : jterm) (x : xstate) : jres :=
  match t with
  | TReads => ROk (Some (x_reads x)) (x_out x)
  | TThrowJ => RFail
  | TBindings =>
      match eget "bindings" (x_env x) with
      | None => ROk None (x_out x)                    (* undefined exports as nil *)
      | Some (EVal (JObj kvs)) => ROk (Some kvs) (x_out x)
      | Some (EVal JNull) => ROk None (x_out x)
      | Some _ => RFail                               (* "isn't Bindings" *)
      end
  end.

(** * Policies and Exec *)

Inductive copy_mode : Type := Deep | Shallow | NoCopy.

Definition aliases_of (m : copy_mode) (member : string) (r : root) (v : option bindings) : list alias :=
  match m, v with
  | Deep, _ => []
  | _, None => []
  | Shallow, Some kvs =>
      map (fun kv : string * json => mk_alias [member; fst kv] r [fst kv])
          (filter (fun kv : string * json => is_container (snd kv)) kvs)
  | NoCopy, Some _ => [mk_alias [member] r []]
  end.

(** what persists between executions *)
Definition world := option rt.

Record policy : Type := mk_policy {
  pol_acquire : world -> rt;
  pol_release : rt -> world -> world;
  pol_bs : copy_mode;
  pol_props : copy_mode
}.

Definition opt_kvs (b : option bindings) : bindings := match b with Some x => x | None => [] end.

(** the state in which the script starts: the environment object and what of
    it is the caller's own data (ecmascript.go:153-179) *)
Definition exec_start (p : policy) (r : rt) (c : caller) : xstate :=
  let e0 := eset "ctx" EHostObj (rt_env r) in
  let e1 := eset "props" (EVal (JObj (opt_kvs (c_props c)))) e0 in       (* nil props: an empty map *)
  let e2 := match c_bs c with
            | Some b => eset "bindings" (EVal (JObj b)) e1
            | None => e1                                                   (* nil bindings: no member *)
            end in
  let e3 := eset "out" EHostFun e2 in
  let als := aliases_of (pol_bs p) "bindings" RBs (c_bs c)
             ++ aliases_of (pol_props p) "props" RProps (c_props c) in
  mk_x (rt_globals r) (rt_protos r) e3 als c [] [].

Definition rt_of (x : xstate) : rt := mk_rt (x_globals x) (x_protos x) (x_env x).

(** Interpreter.Exec (ecmascript.go:138-383) *)
Definition exec (p : policy) (w : world) (s : jscript) (c : caller) : world * (jres * caller) :=
  let '(x, failed) := jrun_ops (scr_ops s) (exec_start p (pol_acquire p w) c) in
  let res := if failed then RFail else finish (scr_term s) x in
  (pol_release p (rt_of x) w, (res, x_caller x)).

(** the code as it stands: a new runtime and a new env map per execution,
    bindings deep-copied, props copied one level deep *)
Definition faithful : policy := mk_policy (fun _ => fresh_rt) (fun _ w => w) Deep Shallow.

(** variants that exist to be refuted (or, for [deep_props], to say what a
    repair of D22 would establish) *)
Definition reuse (w : world) : rt := match w with Some r => r | None => fresh_rt end.
Definition pooled_runtime : policy :=
  mk_policy reuse (fun r _ => Some (mk_rt (rt_globals r) (rt_protos r) [])) Deep Shallow.
Definition shared_env : policy :=
  mk_policy reuse (fun r _ => Some (mk_rt [] [] (rt_env r))) Deep Shallow.
Definition no_copy_bs : policy := mk_policy (fun _ => fresh_rt) (fun _ w => w) NoCopy Shallow.
Definition shallow_bs : policy := mk_policy (fun _ => fresh_rt) (fun _ w => w) Shallow Shallow.
Definition no_copy_props : policy := mk_policy (fun _ => fresh_rt) (fun _ w => w) Deep NoCopy.
Definition deep_props : policy := mk_policy (fun _ => fresh_rt) (fun _ w => w) Deep Deep.

(** * Histories and sequences *)

(** earlier executions, each with its own caller data *)
Definition history := list (jscript * caller).

Fixpoint run_history (p : policy) (w : world) (h : history) : world :=
  match h with
  | [] => w
  | (s, c) :: r => run_history p (fst (exec p w s c)) r
  end.

Definition exec_after (p : policy) (w : world) (h : history) (s : jscript) (c : caller) : jres * caller :=
  snd (exec p (run_history p w h) s c).

(** a sequence of executions over the *same* caller objects (as the actions
    and guards of one walk share one props map): the caller's data is
    threaded *)
Fixpoint run_seq (p : policy) (w : world) (c : caller) (ss : list jscript)
  : list (jres * caller) * (world * caller) :=
  match ss with
  | [] => ([], (w, c))
  | s :: r =>
      let '(w', (res, c')) := exec p w s c in
      let '(obs, fin) := run_seq p w' c' r in
      ((res, c') :: obs, fin)
  end.

(** the side condition under which props are safe today (D22): no assignment
    or deletion strictly below a member of props *)
Definition nested_props_path (p : list string) : bool :=
  match p with
  | m :: _ :: _ :: _ => String.eqb m "props"
  | _ => false
  end.
Definition op_nested_props_write (op : jop) : bool :=
  match op with
  | OAssign p _ => nested_props_path p
  | ODelete p => nested_props_path p
  | _ => false
  end.
Definition nested_props_write (s : jscript) : bool := existsb op_nested_props_write (scr_ops s).

(** * Executions as threads (for the interleaving semantics of Model/ConcJs.v)

    One execution cut into atomic steps: start (take the runtime state from
    the world), one step per operation, return (give the runtime state back).
    The shared state is the world; everything else is the thread's own. *)
Inductive ethr : Type :=
| ENew (s : jscript) (c : caller)
| ERun (ops : list jop) (t : jterm) (x : xstate)
| EDone (r : jres * caller).

Definition exec_step (p : policy) (w : world) (t : ethr) : world * ethr :=
  match t with
  | ENew s c => (w, ERun (scr_ops s) (scr_term s) (exec_start p (pol_acquire p w) c))
  | ERun [] tm x => (pol_release p (rt_of x) w, EDone (finish tm x, x_caller x))
  | ERun (op :: r) tm x =>
      match do_op op x with
      | Some x' => (w, ERun r tm x')
      | None => (pol_release p (rt_of x) w, EDone (RFail, x_caller x))
      end
  | EDone r => (w, EDone r)
  end.

