(** Ownership-tracked model of core.Spec.Step / Spec.Walk (C06).

    A Gallina function cannot modify its arguments, so "the engine never
    modifies what it is given" is vacuous of [step] itself.  This file
    re-states the bindings flow of Step and Walk with every top-level
    bindings map carrying a provenance tag - [Caller] for the map inside the
    state the caller passed in, [Fresh] for maps allocated during the call
    (Bindings.Copy, NewBindings, match results, interpreter results) - and
    with a log of every in-place write the Go code performs on such a map
    (Extend, Extendm, the restore loop of FuncAction.Exec) and of every
    in-place write a wrapped action function may perform on the map it is
    handed.  Where the Go code copies, the model copies; where it hands a map
    on, the tag is kept.  FuncAction.Exec hands the action function a shallow
    copy of the bindings ([func_execT]); the wiring it had before the repair -
    the action function working on the very map Exec was given - is kept as
    [func_execT_old] / [stepT_old] and refuted in Proofs/OwnProofs.v.

    Theorems (Proofs/OwnProofs.v): erasing the tags gives exactly [step] /
    [walk_stride]; no logged write - the action function's own included -
    changes the contents of a [Caller] map; every state in a returned stride
    holds a [Fresh] map; both for every behaviour of actions and guards.  The
    assignment of
    tags follows my reading of core/step.go and core/actions.go; the
    map-identity and snapshot probes of the correspondence run test it. *)
From Sheens Require Export Model.Step.

Inductive own : Type := Caller | Fresh.

Record tbs : Type := mk_tbs { t_own : own; t_val : option bindings }.

(** one in-place write: whose map, and whether it changed the map's contents *)
Definition wlog := list (own * bool).

Definition t_copy (t : tbs) : tbs := mk_tbs Fresh (Some (copy_bs (t_val t))).   (* Bindings.Copy *)

Definition t_extend (t : tbs) (k : string) (v : json) : tbs * wlog :=
  let old := copy_bs (t_val t) in
  let new := bset k v old in
  (mk_tbs (t_own t) (Some new), [(t_own t, negb (bindings_eqb old new))]).

Record tstate : Type := mk_tstate { ts_node : string; ts_bs : tbs }.
Definition erase_state (s : tstate) : state := mk_state (ts_node s) (t_val (ts_bs s)).
Definition t_copy_state (s : tstate) : tstate := mk_tstate (ts_node s) (t_copy (ts_bs s)).

Record tstride : Type := mk_tstride {
  tsd_from : tstate;
  tsd_to : option tstate;
  tsd_consumed : option json;
  tsd_emitted : list json
}.
Definition erase_stride (sd : tstride) : stride :=
  mk_stride (erase_state (tsd_from sd)) (option_map erase_state (tsd_to sd))
            (tsd_consumed sd) (tsd_emitted sd).

Section Own.
  Variable action : Type.
  Variable run : action -> option bindings -> exec_raw.
  (** the wrapped function handed back the very map it was given (a native
      action may; the ECMAScript interpreter never does: it deep-copies) *)
  Variable same : action -> option bindings -> bool.
  (** the wrapped function wrote into the map it was given, in place, and
      changed its contents (a native action may delete or overwrite
      bindings; the ECMAScript interpreter never does: it deep-copies).  No
      relation between [mutates], [same] and [run] is assumed. *)
  Variable mutates : action -> option bindings -> bool.

  (** the restore loop of FuncAction.Exec writes each permanent binding into
      the returned map, in place *)
  Fixpoint t_restore (perm : bindings) (t : tbs) : tbs * wlog :=
    match perm with
    | [] => (t, [])
    | (k, v) :: r =>
        let '(t1, l1) := t_extend t k v in
        let '(t2, l2) := t_restore r t1 in
        (t2, l1 ++ l2)
    end.

  (** the in-place writes of the wrapped function itself, on the map [g] it
      is handed: logged against the owner of that map.  A nil map has no
      storage (assigning into it panics, deleting from it does nothing): no
      write. *)
  Definition action_writes (a : action) (g : tbs) : wlog :=
    match t_val g with
    | Some _ => if mutates a (t_val g) then [(t_own g, true)] else []
    | None => []
    end.

  (** the part of FuncAction.Exec after [given] is chosen: a.F(ctx, given,
      props), then the restore loop on exe.Bs.  [perm] was gathered before.
      The returned map is the one handed to the function when the function
      handed it back ([same]), a map allocated during the call otherwise. *)
  Definition func_exec_on (a : action) (perm : bindings) (given : tbs)
    : (option tbs * list json) * bool * wlog :=
    let r := run a (t_val given) in
    let lw := action_writes a given in
    match xr_exe r with
    | None => ((None, []), xr_err r, lw)
    | Some (None, em) => ((None, em), xr_err r, lw)
    | Some (Some b, em) =>
        let ret := mk_tbs (if same a (t_val given) then t_own given else Fresh) (Some b) in
        let '(t', l) := t_restore perm ret in
        ((Some t', em), xr_err r, lw ++ l)
    end.

  (** FuncAction.Exec on a tracked map: (returned map or nil, emitted, error, writes).
      [permanent] is gathered from the original [bs]; then
        given := bs; if bs != nil { given = bs.Copy() }
      a nil [bs] stays nil: there is no map, so nothing to own - the tag of a
      nil value is [Fresh] (no storage of the caller's is reachable through it) *)
  Definition func_execT (a : action) (t : tbs) : (option tbs * list json) * bool * wlog :=
    let perm := permanent_of (t_val t) in
    let given := match t_val t with
                 | Some _ => t_copy t
                 | None => mk_tbs Fresh None
                 end in
    func_exec_on a perm given.

  (** FuncAction.Exec before the repair: exe, err := a.F(ctx, bs, props) -
      the action function works on the very map Exec was given *)
  Definition func_execT_old (a : action) (t : tbs) : (option tbs * list json) * bool * wlog :=
    func_exec_on a (permanent_of (t_val t)) t.

  (** Everything below is Step / Walk around FuncAction.Exec; [fexec] is the
      wiring of Exec ([func_execT], or [func_execT_old] for the refutation). *)
  Section Wiring.
  Variable fexec : action -> tbs -> (option tbs * list json) * bool * wlog.

  Inductive ttry : Type := TTNone | TTTo (s : tstate) | TTErr (e : step_err).

  Fixpoint guard_loopT (g : action) (cands : list tbs) : option (option tbs) * wlog :=
    match cands with
    | [] => (Some None, [])
    | c :: r =>
        let '((ob, _), err, l) := fexec g c in
        if err then (None, l)
        else match ob with
             | Some b => (Some (Some b), l)
             | None => let '(res, l') := guard_loopT g r in (res, l ++ l')
             end
    end.

  (** Branch.try: match results are freshly allocated maps; without a
      pattern the branch works on the very map it was given *)
  Definition try_branchT (b : branch action) (t : tbs) (against : json) : ttry * wlog :=
    let cands : res (list tbs) :=
      match br_pattern b with
      | Some p =>
          match Match p against (copy_bs (t_val t)) with
          | Ok r => Ok (map (fun x => mk_tbs Fresh (Some x)) r)
          | Err => Err
          | Fuel => Fuel
          end
      | None => Ok [t]
      end in
    match cands with
    | Err => (TTErr EMatch, [])
    | Fuel => (TTErr EFuel, [])
    | Ok cs =>
        let '(chosen, l) :=
          match br_guard b with
          | None =>
              match cs with
              | [] => (Some None, [])
              | [c] => (match t_val c with Some _ => Some (Some c) | None => Some None end, [])
              | _ => (None, [])
              end
          | Some g => guard_loopT g cs
          end in
        match chosen with
        | None => (TTErr (match br_guard b with None => ETooMany | Some _ => EGuard end), l)
        | Some None => (TTNone, l)
        | Some (Some t') => (TTTo (mk_tstate (target action b (copy_bs (t_val t'))) t'), l)
        end
    end.

  Fixpoint first_branchT (brs : list (branch action)) (t : tbs) (against : json) : ttry * wlog :=
    match brs with
    | [] => (TTNone, [])
    | b :: r =>
        match try_branchT b t against with
        | (TTNone, l) => let '(res, l') := first_branchT r t against in (res, l ++ l')
        | other => other
        end
    end.

  Definition considerT (bg : option (branching action)) (t : tbs) (pending : option json)
    : ttry * bool * wlog :=
    match bg with
    | None => (TTNone, false, [])
    | Some b =>
        if String.eqb (bg_type b) "message" then
          match pending with
          | None => (TTNone, true, [])
          | Some m => let '(r, l) := first_branchT (bg_branches b) t m in (r, true, l)
          end
        else
          let '(r, l) := first_branchT (bg_branches b) t (JObj (copy_bs (t_val t))) in (r, false, l)
    end.

  (** st.Bs.Copy().Extendm("error", ..., "lastNode", ..., "lastBindings", ...) *)
  Definition error_tbs (base : tbs) (text : json) (from : state) : tbs * wlog :=
    let c := t_copy base in
    let '(t1, l1) := t_extend c step_error_key text in
    let '(t2, l2) := t_extend t1 step_last_node_key (JStr (st_node from)) in
    let '(t3, l3) := t_extend t2 step_last_bindings_key (JObj (copy_bs (st_bs from))) in
    (t3, l1 ++ l2 ++ l3).

  Record tstep_out : Type := mk_tstep_out {
    tso_stride : option tstride;
    tso_err : option step_err;
    tso_log : wlog
  }.

  Definition continueT (n : node action) (st : tstate) (pending : option json)
             (have : bool) (t : tbs) (emitted : list json) (l0 : wlog) : tstep_out :=
    let from := t_copy_state st in
    let '(tr, consumer, l) := considerT (nd_branching n) t pending in
    let consumed := if consumer then pending else None in
    match tr with
    | TTTo st' =>
        mk_tstep_out (Some (mk_tstride from (Some (t_copy_state st')) consumed emitted)) None (l0 ++ l)
    | _ =>
        let err := match tr with TTErr e => Some e | _ => None end in
        if have then
          let '(eb, l') := error_tbs t no_branch_text (erase_state st) in
          mk_tstep_out (Some (mk_tstride from (Some (mk_tstate error_node_literal eb)) consumed emitted))
                       err (l0 ++ l ++ l')
        else mk_tstep_out (Some (mk_tstride from None consumed emitted)) err (l0 ++ l)
    end.

  (** Spec.Step; [st] holds the caller's map *)
  Definition step_via (s : spec action) (st : tstate) (pending : option json) : tstep_out :=
    if negb (sp_compiled s) then mk_tstep_out None (Some ENotCompiled) [] else
    match find_node (ts_node st) (sp_nodes s) with
    | None => mk_tstep_out None (Some EUnknownNode) []
    | Some n =>
        let have := match nd_action n with Some _ => true | None => false end in
        if negb have && nd_uncompiled n then mk_tstep_out None (Some EUncompiledAction) [] else
        if have && match nd_branching n with
                   | Some b => String.eqb (bg_type b) "message"
                   | None => false
                   end
        then mk_tstep_out None (Some EBadBranching) [] else
        match nd_action n with
        | None => continueT n st pending have (ts_bs st) [] []
        | Some a =>
            let '((ob, emitted), err, l) := fexec a (ts_bs st) in
            (* nil bindings from an action become NewBindings() *)
            let ebs := match ob with Some t => t | None => mk_tbs Fresh (Some []) end in
            if negb err then continueT n st pending have ebs emitted l
            else
              (* bs = bs.Copy(); bs.Extend("actionError"); bs.Extend("error") *)
              let c := t_copy (ts_bs st) in
              let '(t1, l1) := t_extend c step_action_error_key err_text in
              let '(t2, l2) := t_extend t1 step_error_key err_text in
              if negb (sp_err_branches s) then
                if String.eqb (sp_err_node s) "" then mk_tstep_out None (Some EAction) (l ++ l1 ++ l2)
                else mk_tstep_out
                       (Some (mk_tstride (t_copy_state st)
                                         (Some (mk_tstate (sp_err_node s) (t_copy t2))) None emitted))
                       None (l ++ l1 ++ l2)
              else continueT n st pending have t2 emitted (l ++ l1 ++ l2)
        end
    end.

  (** the stride Walk records for one iteration *)
  Definition walk_stride_via (s : spec action) (st : tstate) (pendings : list json) : tstride * wlog :=
    let o := step_via s st (peek pendings) in
    let stride0 :=
      match tso_stride o with
      | Some sd => sd
      | None => mk_tstride (t_copy_state st) None None []
      end in
    match tso_err o with
    | Some _ =>
        if String.eqb (ts_node st) error_node_literal then (stride0, tso_log o)
        else
          let '(eb, l) := error_tbs (ts_bs st) err_text (erase_state st) in
          (mk_tstride (tsd_from stride0) (Some (mk_tstate error_node_literal eb))
                      (tsd_consumed stride0) (tsd_emitted stride0), tso_log o ++ l)
    | None => (stride0, tso_log o)
    end.
  End Wiring.

  (** Spec.Step and the body of Spec.Walk as they are *)
  Definition stepT := step_via func_execT.
  Definition walk_strideT := walk_stride_via func_execT.
  (** ... and with FuncAction.Exec as it was before the repair *)
  Definition stepT_old := step_via func_execT_old.
  Definition walk_strideT_old := walk_stride_via func_execT_old.
End Own.
