(** C12: walks as threads over a shared specification, and
    core.UpdatableSpec (core/specter.go:44-65) as an atomic register.

    - [walk_step1] is one iteration of Spec.Walk's loop ([walk_loop] of
      Model/Step.v cut into atomic steps); it *reads* the specification it
      is given and returns only the walker's own state.
    - A walker thread over a fixed specification is [(bp, wst)]; the shared
      state of the interleaving semantics (Model/ConcJs.v) is the
      specification, which [spec_step] hands back unchanged.
    - Against an UpdatableSpec a processing call is [load ; walk]: hosts call
      Specter.Spec() once (sio/crew.go:473, cmd/mcrew/service.go, crew/machine.go)
      and walk the *core.Spec they got.  The register's history is kept
      (newest first) so that "a version that was current during the call"
      can be stated.  Writers store new versions (SetSpec).
    - [reload_step] is the non-atomic alternative (the current version is
      looked up again at every iteration); it exists to be refuted. *)
From Sheens Require Export Model.Step Model.ConcJs.

Section SmallStep.
  Variable action : Type.
  Variable run : action -> option bindings -> exec_raw.

  Record wst : Type := mk_wst {
    ws_limit : nat;
    ws_st : state;
    ws_pend : list json;
    ws_acc : list stride;
    ws_amb : bool;
    ws_res : option (walked * bool)
  }.

  Definition wst_init (limit : nat) (st : state) (pend : list json) : wst :=
    mk_wst limit st pend [] false None.

  Definition wst_done (w : wst) (r : walked * bool) : wst :=
    mk_wst (ws_limit w) (ws_st w) (ws_pend w) (ws_acc w) (ws_amb w) (Some r).

  (** one iteration of the loop of Spec.Walk *)
  Definition walk_step1 (s : spec action) (bp : state -> bool) (w : wst) : wst :=
    match ws_res w with
    | Some _ => w
    | None =>
        match ws_limit w with
        | O => wst_done w (mk_walked (rev (ws_acc w)) (ws_pend w) Limited, ws_amb w)
        | S n =>
            if bp (ws_st w) then wst_done w (mk_walked (rev (ws_acc w)) (ws_pend w) BreakpointReached, ws_amb w)
            else
              let '(sd, a) := walk_stride action run s (ws_st w) (ws_pend w) in
              let amb' := ws_amb w || a in
              let acc' := sd :: ws_acc w in
              let pend' := match sd_consumed sd with
                           | Some _ => tl (ws_pend w)
                           | None => ws_pend w
                           end in
              match sd_to sd with
              | None =>
                  match pend' with
                  | [] => wst_done w (mk_walked (rev acc') [] Done, amb')
                  | _ =>
                      match sd_consumed sd with
                      | None => wst_done w (mk_walked (rev acc') [] Done, amb')
                      | Some _ => mk_wst n (ws_st w) pend' acc' amb' None
                      end
                  end
              | Some t => mk_wst n (copy_state t) pend' acc' amb' None
              end
        end
    end.

  (** ** walkers over one fixed specification *)

  Definition walker := ((state -> bool) * wst)%type.

  Definition spec_step (s : spec action) (t : walker) : spec action * walker :=
    (s, (fst t, walk_step1 s (fst t) (snd t))).

  (** ** walkers against an updatable specification *)

  Inductive thr : Type :=
  | Walker (loaded : option (spec action)) (bp : state -> bool) (w : wst)
  | Writer (todo : list (spec action)).

  (** the register: current version and the older ones, newest first *)
  Definition reg := (spec action * list (spec action))%type.
  Definition reg_versions (r : reg) : list (spec action) := fst r :: snd r.

  Definition reg_step (r : reg) (t : thr) : reg * thr :=
    match t with
    | Walker None bp w => (r, Walker (Some (fst r)) bp w)                      (* Specter.Spec(): atomic load *)
    | Walker (Some v) bp w => (r, Walker (Some v) bp (walk_step1 v bp w))
    | Writer [] => (r, Writer [])
    | Writer (v :: rest) => ((v, fst r :: snd r), Writer rest)                  (* SetSpec: atomic store *)
    end.

  (** the non-atomic alternative: every iteration uses whatever is current *)
  Definition reload_step (r : reg) (t : thr) : reg * thr :=
    match t with
    | Walker _ bp w => (r, Walker (Some (fst r)) bp (walk_step1 (fst r) bp w))
    | Writer [] => (r, Writer [])
    | Writer (v :: rest) => ((v, fst r :: snd r), Writer rest)
    end.

  Definition thr_result (t : thr) : option (walked * bool) :=
    match t with
    | Walker _ _ w => ws_res w
    | Writer _ => None
    end.

  Definition stored_by (t : thr) : list (spec action) :=
    match t with
    | Writer todo => todo
    | Walker _ _ _ => []
    end.
End SmallStep.

