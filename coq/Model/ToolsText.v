(** Text level of tools.Dot / tools.Mermaid (C20): how a node name becomes
    the identifier / label text that is written into the rendering.

    Model/Tools.v describes the renderings as lists of statements
    ([DNode name _], [DEdge a b], [MNode num name boxed], [MEdge i j]); this
    file describes the characters written for the [name] and [num] fields
    of those statements.

    Strings are Coq [string]s, i.e. sequences of bytes ([ascii] = 8 bits).
    Go strings are byte sequences, too, and every function modelled here
    works byte by byte: [strings.NewReplacer] with only one-byte "old"
    strings and a "new" string longer than one byte builds a
    [byteStringReplacer] (strings/replace.go), which walks over the bytes of
    the argument and copies each byte or its replacement.  Nothing decodes
    UTF-8: a non-ASCII character is the sequence of its bytes, all >= 128,
    none of which is one of the replaced bytes (backslash 92, quote 34,
    hash 35), so it is copied unchanged; the same holds for bytes that are
    not valid UTF-8 and for control characters.

    Go source modelled (tools/dot.go, tools/mermaid.go); DQ stands for the
    double quote character (a Coq comment cannot hold an odd number of them):

      func dotID(name string) string {
        return `DQ` + strings.NewReplacer(`\`, `\\`, `DQ`, `\DQ`).Replace(name) + `DQ` }

      func mermaidText(s string) string {
        return strings.NewReplacer(`#`, `#35;`, `DQ`, `#quot;`).Replace(s) }

      num++ ; nid := fmt.Sprintf(`n%d`, num)                    (Mermaid node ids)
      fmt.Fprintf(w, `  %s(DQ%sDQ)\n`, nid, mermaidText(name))   (node without a native action)
      fmt.Fprintf(w, `  %s[DQ%sDQ]\n`, nid, mermaidText(name))   (native action / placeholder)
      func dotHTML(s string) string {
        return strings.NewReplacer(`&`, `&amp;`, `<`, `&lt;`, `>`, `&gt;`).Replace(s) }

      label := dotHTML(name)
      if n.Doc != `` { ... label += `<BR/><FONT POINT-SIZE='8'>` + dotHTML(doc) + `</FONT>` }
      fmt.Fprintf(w, `  %s [shape=..., label=<%s> ]\n`, dotID(name), ..., label)
      fmt.Fprintf(w, `  %s [shape=DQplaintextDQ, ..., label=<%s> ]\n`, dotID(name), dotHTML(name))   (placeholder)
      fmt.Fprintf(w, `  %s -> %s [ color=... ]\n`, dotID(name), dotID(b.Target), ...) *)
From Coq Require Import String Ascii List Bool Arith DecimalString.
From Sheens Require Export Gen.Names.
Import ListNotations.
Local Open Scope string_scope.

Definition bslash : ascii := "092"%char.    (* \ *)
Definition dquote : ascii := "034"%char.    (* double quote *)
Definition hash : ascii := "035"%char.      (* # *)
Definition langle : ascii := "060"%char.    (* < *)
Definition rangle : ascii := "062"%char.    (* > *)

(** * strings.NewReplacer(old1, new1, old2, new2, ...) with one-byte olds

    [byteStringReplacer]: a table indexed by byte; the pairs are entered
    from the last to the first, so the first pair for a byte wins.
    [Replace] copies the bytes of the argument from left to right, writing
    the replacement instead of a byte that has one.  Replacements are not
    scanned again. *)
Fixpoint lookup_byte (pairs : list (ascii * string)) (c : ascii) : option string :=
  match pairs with
  | [] => None
  | (o, n) :: r => if Ascii.eqb c o then Some n else lookup_byte r c
  end.

Fixpoint byte_replace (pairs : list (ascii * string)) (s : string) : string :=
  match s with
  | EmptyString => EmptyString
  | String c r =>
      match lookup_byte pairs c with
      | Some n => n ++ byte_replace pairs r
      | None => String c (byte_replace pairs r)
      end
  end.

(** The three tables of pairs are not written here: they are the arguments
    of the strings.NewReplacer calls in dotID, dotHTML and mermaidText as
    harness/cmd/genconsts reads them from the source of the tree under test
    on every run (Gen/Names.v: old byte, new string, in source order; an old
    string that is not one byte is reported, the replacer would not be the
    byte-wise one).  The equations the proofs use ([dot_escape_cons],
    [dot_html_cons], [mermaid_text_cons] in Proofs/ToolsTextProofs.v) state
    the tables with the characters written out; they hold by computation on
    the generated tables and fail when a pair in the source changes. *)

(** * Graphviz: dotID *)
(** one backslash -> two; quote -> backslash quote *)
Definition dot_pairs : list (ascii * string) := dot_id_escapes.

Definition dot_escape (s : string) : string := byte_replace dot_pairs s.

Definition dot_id (name : string) : string :=
  String dquote (dot_escape name ++ String dquote EmptyString).

(** the statement heads as written by Dot (the attribute list follows) *)
Definition dot_node_head (name : string) : string := "  " ++ dot_id name ++ " [".
Definition dot_edge_head (a b : string) : string :=
  "  " ++ dot_id a ++ " -> " ++ dot_id b ++ " [".

(** the HTML-like label [label=<...>] of a node statement: the name goes
    through dotHTML (repair of D55; before it the name was written as it is,
    [dot_label_raw]); a doc string, escaped in the same way, may follow inside
    fixed markup (the doc is cut at its first sentence when it is longer than
    40 bytes - the cut is not modelled, [doc] is the text that is written) *)
Definition amp : ascii := "038"%char.       (* & *)

Definition html_pairs : list (ascii * string) := dot_html_escapes.

Definition dot_html (s : string) : string := byte_replace html_pairs s.

Definition dot_label_name (name : string) : string := dot_html name.

Definition dot_label_raw (name : string) : string := name.     (* tools/dot.go before the repair *)

Definition dot_node_label (name doc : string) : string :=
  dot_label_name name ++
  match doc with
  | EmptyString => EmptyString
  | _ => "<BR/><FONT POINT-SIZE='8'>" ++ dot_html doc ++ "</FONT>"
  end.

(** * Mermaid: mermaidText, node ids *)
Definition mermaid_pairs : list (ascii * string) := mermaid_text_escapes.

Definition mermaid_text (s : string) : string := byte_replace mermaid_pairs s.

(** the label as it stands between the brackets of a node statement *)
Definition mermaid_label (name : string) : string :=
  String dquote (mermaid_text name ++ String dquote EmptyString).

(** ids are positional: the k-th name that is declared (k = 1, 2, ...; the
    [num] of [MNode num name boxed] in Model/Tools.v) gets the letter n and
    k in decimal ([%d]: no sign, no leading zeros, the digit 0 for 0) *)
Definition mermaid_nid (num : nat) : string :=
  String "n"%char (NilEmpty.string_of_uint (Nat.to_uint num)).

Definition mermaid_node_stmt (num : nat) (name : string) (boxed : bool) : string :=
  "  " ++ mermaid_nid num ++
  (if boxed then "[" else "(") ++ mermaid_label name ++ (if boxed then "]" else ")").
