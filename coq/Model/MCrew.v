(** Model of the mcrew service (cmd/mcrew/service.go, storage.go; the routing
    and fan-out part also of cmd/mdb/mdb.go), as repaired by the D15 fix
    (AddMachine / RemMachine write under the crew lock and change memory only
    after the write succeeded).

      Route        -> [route]
      Process      -> [do_process]   one atomic step: c.Lock() from recipient
                                     selection to the write-back
      AddMachine   -> [do_add]       one atomic step (after D15)
      RemMachine   -> [do_rem]       one atomic step (after D15)
      GetCrewOp.Do -> [RGet]         one atomic step (Crew.Copy under RLock)
      Storage.WriteState -> [write_states] / [mset] / [mdel] on [sto]: every
                      record of the batch is serialised first, then one bolt
                      transaction writes them: all or nothing, whatever the
                      size of the batch; fails iff the store is down or some
                      record of the batch cannot be serialised ([RAdd … bad];
                      for Process: an end state that holds a NaN,
                      [all_serialisable])

    The shared state is the in-memory crew [mem], the persistent records
    [sto] and whether the store is up.  [RFault u] is the environment taking
    the store down / up between two atomic steps.

    The behaviour of a machine (GetSpec + Spec.Walk) is abstract in the
    section ([spec_ok], [wk]); theorems hold for every machine behaviour.
    For execution it is instantiated with Model/Step.v's [walk] on three
    hand-written specifications (the same specifications exist as YAML text
    in harness/overlay/common).  The pre-D15 two-step AddMachine / RemMachine
    are kept as [add_prefix] / [rem_prefix] for the refutation lemmas. *)
From Sheens Require Export Model.Step Model.Conc.
From Sheens Require Export Gen.Names.

(** a machine: specification source name and state *)
Record mrec : Type := mk_mrec { r_spec : string; r_node : string; r_bs : bindings }.

(** id -> machine, kept sorted by id (like [bindings]) so that equal
    contents are equal terms *)
Definition mmap := list (string * mrec).

Fixpoint mget (k : string) (m : mmap) : option mrec :=
  match m with
  | [] => None
  | (k', v) :: r => if String.eqb k k' then Some v else mget k r
  end.

Fixpoint mset (k : string) (v : mrec) (m : mmap) : mmap :=
  match m with
  | [] => [(k, v)]
  | (k', v') :: r =>
      match String.compare k k' with
      | Eq => (k, v) :: r
      | Lt => (k, v) :: m
      | Gt => (k', v') :: mset k v r
      end
  end.

Fixpoint mdel (k : string) (m : mmap) : mmap :=
  match m with
  | [] => []
  | (k', v) :: r => if String.eqb k k' then mdel k r else (k', v) :: mdel k r
  end.

Definition mhas (k : string) (m : mmap) : bool :=
  match mget k m with Some _ => true | None => false end.

Record svc : Type := mk_svc { mem : mmap; sto : mmap; up : bool }.

Definition svc0 : svc := mk_svc [] [] true.

(** ---- routing -------------------------------------------------------- *)

Inductive dest : Type :=
| DAll                      (* every machine of the crew *)
| DOne (mid : string)       (* the machine with that id, if any *)
| DService (name : string). (* a service of the container, no machine *)

(** the reserved names of Service.Route and of mdb's Host.Route (which has
    none), and the key both look at: not written here but read from the
    source of the tree under test by harness/cmd/genconsts (Gen/Names.v:
    the case labels of the switch in Route, in source order, and the literal
    index of the one map access).  Properties/C14_mcrew.v states that they
    are the documented ones and that the two hosts look at the same key. *)
Definition mcrew_services : list string := mcrew_route_services.
Definition mdb_services : list string := mdb_route_services.

Definition route (services : list string) (msg : json) : dest :=
  match msg with
  | JObj kvs =>
      match assoc mcrew_route_key kvs with
      | Some (JStr s) => if existsb (String.eqb s) services then DService s else DOne s
      | _ => DAll             (* "Not a machine id, so ignore it?" *)
      end
  | _ => DAll
  end.

Definition recipients (d : dest) (m : mmap) : list string :=
  match d with
  | DAll => map fst m
  | DOne mid => if mhas mid m then [mid] else []
  | DService _ => []
  end.

(** ---- requests and responses ------------------------------------------ *)

(** what Process reports for one walked machine: Walked.From(), Walked.To()
    and the emitted messages of all strides *)
Record wobs : Type := mk_wobs {
  wo_from : string * bindings;
  wo_to : option (string * bindings);
  wo_emitted : list json
}.

Inductive req : Type :=
| RAdd (spec id node : string) (bs : bindings) (bad : bool)  (* bad: bindings that cannot be serialised *)
| RRem (id : string)
| RProcess (msg : json)
| RGet
| RFault (u : bool).

Inductive resp : Type :=
| POk
| PExists
| PErr                                        (* the write failed *)
| PSpecErr                                    (* Process: GetSpec failed, (nil, err) *)
| PProcessed (err : bool) (ws : list (string * wobs))
| PCrew (m : mmap)
| PFault
| PPanic.                                     (* the call panicked: never produced by the model *)

Definition changes (ws : list (string * wobs)) : list (string * (string * bindings)) :=
  flat_map (fun mw : string * wobs =>
              match wo_to (snd mw) with Some t => [(fst mw, t)] | None => [] end) ws.

(** Values that encoding/json refuses.  The model's [json] has no such value
    (a [JNum] is a finite float64); the one that the correspondence runs feed
    to the service - a float64 NaN inside a message, which a machine of
    specification "nan" binds and so carries into its end state - is
    represented by the marker string below (the harness prints a NaN as this
    marker and never submits the marker as a genuine string).  Bindings are
    serialisable when no value inside them is the marker. *)
Definition nan_text : string := "<NaN>".
Definition nan_marker : json := JStr nan_text.

Fixpoint json_serialisable (j : json) : bool :=
  match j with
  | JStr s => negb (String.eqb s nan_text)
  | JArr l => forallb json_serialisable l
  | JObj kvs => forallb (fun kv : string * json => json_serialisable (snd kv)) kvs
  | _ => true
  end.

Definition bs_serialisable (bs : bindings) : bool :=
  forallb (fun kv : string * json => json_serialisable (snd kv)) bs.

(** json.Marshal succeeds for every record of the batch *)
Definition all_serialisable (ch : list (string * (string * bindings))) : bool :=
  forallb (fun c : string * (string * bindings) => bs_serialisable (snd (snd c))) ch.

(** Storage.WriteState for the batch of end states; Process takes each
    record's SpecSource from the in-memory machine *)
Definition write_states (m : mmap) (ch : list (string * (string * bindings))) (st : mmap) : mmap :=
  fold_left (fun acc (c : string * (string * bindings)) =>
               mset (fst c)
                    (mk_mrec (match mget (fst c) m with Some r => r_spec r | None => "" end)
                             (fst (snd c)) (snd (snd c)))
                    acc) ch st.

(** the write-back into memory: c.Machines[mid].State = state *)
Definition set_states (ch : list (string * (string * bindings))) (m : mmap) : mmap :=
  fold_left (fun acc (c : string * (string * bindings)) =>
               match mget (fst c) acc with
               | Some r => mset (fst c) (mk_mrec (r_spec r) (fst (snd c)) (snd (snd c))) acc
               | None => acc
               end) ch m.

Definition start_if_empty (node : string) : string :=
  if String.eqb node "" then "start" else node.

Section Service.
  (** GetSpec succeeds for this specification name *)
  Variable spec_ok : string -> bool.
  (** Spec.Walk of machine [mid] (specification name, record) on one message:
      Walked.To() and the emitted messages *)
  Variable wk : string -> string -> mrec -> json -> option (string * bindings) * list json.
  Variable services : list string.

  Definition walks (m : mmap) (mids : list string) (msg : json) : list (string * wobs) :=
    flat_map (fun mid =>
                match mget mid m with
                | Some r =>
                    let '(to, em) := wk (r_spec r) mid r msg in
                    [(mid, mk_wobs (r_node r, r_bs r) to em)]
                | None => []
                end) mids.

  Definition specs_ok (m : mmap) (mids : list string) : bool :=
    forallb (fun mid => match mget mid m with Some r => spec_ok (r_spec r) | None => true end) mids.

  (** Process once the recipients are chosen: GetSpec for each, walk each,
      write the batch, write back.  The write of the batch fails as a whole
      - nothing stored, memory untouched - when the store is down or when one
      end state of the batch cannot be serialised. *)
  Definition do_process_to (mids : list string) (msg : json) (s : svc) : svc * resp :=
    if specs_ok (mem s) mids then
      let ws := walks (mem s) mids msg in
      let ch := changes ws in
      match ch with
      | [] => (s, PProcessed false ws)              (* WriteState of an empty batch: nil *)
      | _ :: _ =>
          if up s && all_serialisable ch
          then (mk_svc (set_states ch (mem s)) (write_states (mem s) ch (sto s)) (up s),
                PProcessed false ws)
          else (s, PProcessed true ws)              (* warning logged, memory untouched *)
      end
    else (s, PSpecErr).

  Definition do_process (msg : json) (s : svc) : svc * resp :=
    do_process_to (recipients (route services msg) (mem s)) msg s.

  Definition do_add (spec id node : string) (bs : bindings) (bad : bool) (s : svc) : svc * resp :=
    let r := mk_mrec spec (start_if_empty node) bs in
    if mhas id (mem s) then (s, PExists)
    else if up s && negb bad
         then (mk_svc (mset id r (mem s)) (mset id r (sto s)) (up s), POk)
         else (s, PErr).

  Definition do_rem (id : string) (s : svc) : svc * resp :=
    if up s then (mk_svc (mdel id (mem s)) (mdel id (sto s)) (up s), POk)
    else (s, PErr).

  (** one request = one atomic step *)
  Definition svc_step (q : req) (s : svc) : svc * resp :=
    match q with
    | RAdd spec id node bs bad => do_add spec id node bs bad s
    | RRem id => do_rem id s
    | RProcess msg => do_process msg s
    | RGet => (s, PCrew (mem s))
    | RFault u => (mk_svc (mem s) (sto s) u, PFault)
    end.

  (** the response keeps the request it answers (for histories) *)
  Definition svc_sem (q : req) (s : svc) : svc * (req * resp) :=
    let '(s', r) := svc_step q s in (s', (q, r)).

  (** ---- the code before the D15 repair: memory is changed under the lock,
      the write follows in a second, separate step ---- *)
  Definition add_prefix (spec id node : string) (bs : bindings) (bad : bool) : prog svc resp :=
    let r := mk_mrec spec (start_if_empty node) bs in
    Atomic (fun s => if mhas id (mem s) then s else mk_svc (mset id r (mem s)) (sto s) (up s))
           (fun s => if mhas id (mem s) then Ret PExists
                     else Atomic (fun s2 => if up s2 && negb bad
                                            then mk_svc (mem s2) (mset id r (sto s2)) (up s2) else s2)
                                 (fun s2 => Ret (if up s2 && negb bad then POk else PErr))).

  Definition rem_prefix (id : string) : prog svc resp :=
    Atomic (fun s => mk_svc (mdel id (mem s)) (sto s) (up s))
           (fun _ => Atomic (fun s2 => if up s2 then mk_svc (mem s2) (mdel id (sto s2)) (up s2) else s2)
                            (fun s2 => Ret (if up s2 then POk else PErr))).

  Definition prog_prefix (q : req) : prog svc resp :=
    match q with
    | RAdd spec id node bs bad => add_prefix spec id node bs bad
    | RRem id => rem_prefix id
    | _ => single svc_step q
    end.

  (** ---- C14: a submitted message and everything it causes ----
      Process re-submits every emitted message with [go s.Process]: a bag of
      pending Process calls taken in an order the scheduler chooses
      ([choose]: index into the pending list, modulo its length).  The ghost
      log records, per processed message, the machines it was presented to. *)
  Record fed : Type := mk_fed {
    fd_svc : svc;
    fd_pending : list json;
    fd_log : list (json * list string);   (* processed message, machines walked *)
    fd_reported : list json                (* every emitted message (s.Emitted) *)
  }.

  Fixpoint take_nth {A : Type} (i : nat) (l : list A) : option (A * list A) :=
    match l, i with
    | [], _ => None
    | x :: r, O => Some (x, r)
    | x :: r, Datatypes.S j =>
        match take_nth j r with Some (y, r') => Some (y, x :: r') | None => None end
    end.

  Definition emitted_of (r : resp) : list json :=
    match r with
    | PProcessed _ ws => flat_map (fun mw : string * wobs => wo_emitted (snd mw)) ws
    | _ => []
    end.
  Definition walked_of (r : resp) : list string :=
    match r with PProcessed _ ws => map fst ws | _ => [] end.

  Definition feed_one (i : nat) (f : fed) : fed :=
    match take_nth (Nat.modulo i (Nat.max 1 (List.length (fd_pending f)))) (fd_pending f) with
    | None => f
    | Some (msg, rest) =>
        let '(s', r) := do_process msg (fd_svc f) in
        mk_fed s' (rest ++ emitted_of r) (fd_log f ++ [(msg, walked_of r)])
               (fd_reported f ++ emitted_of r)
    end.

  Fixpoint feed (choose : list nat) (f : fed) : fed :=
    match choose with
    | [] => f
    | i :: r => feed r (feed_one i f)
    end.

  Definition submit (msg : json) (s : svc) : fed := mk_fed s [msg] [] [].
End Service.

(** ======================================================================
    Concrete machines: three hand-written specifications whose one action
    appends the id of the received message to the binding "log" and emits
    every element of the message's "fwd" list, and one ("nan") without an
    action that keeps what it bound from the message - "poison" included. *)

Inductive mact : Type := MRecord.

Definition run_mact (a : mact) (bs : option bindings) : exec_raw :=
  match bs with
  | None => mk_raw None true
  | Some b =>
      let id := match lookup "?id" b with Some v => v | None => JNull end in
      let fwd := match lookup "?fwd" b with Some (JArr l) => l | _ => [] end in
      let log := match lookup "log" b with Some (JArr l) => l | _ => [] end in
      mk_raw (Some (Some (bset "log" (JArr (log ++ [id])) (bremove "?fwd" (bremove "?id" b))), fwd))
             false
  end.

Definition pat_id : json := JObj [("fwd", JStr "?fwd"); ("id", JStr "?id")].
Definition pat_wake : json := JObj [("fwd", JStr "?fwd"); ("wake", JStr "?id")].

Definition msg_node (p : json) (target : string) : node mact :=
  mk_node None false (Some (mk_branching "message" [mk_branch (Some p) None target])).
Definition act_node (target : string) : node mact :=
  mk_node (Some MRecord) false (Some (mk_branching "bindings" [mk_branch None None target])).
Definition plain_node : node mact := mk_node None false None.

(** rec: start -(message with id, fwd)-> note [record] -> start *)
Definition spec_rec : spec mact :=
  mk_spec [("error", plain_node); ("note", act_node "start"); ("start", msg_node pat_id "note")]
          false "" true.
(** flip: like rec but alternating between the nodes start and alt *)
Definition spec_flip : spec mact :=
  mk_spec [("alt", msg_node pat_id "note2"); ("error", plain_node);
           ("note1", act_node "alt"); ("note2", act_node "start");
           ("start", msg_node pat_id "note1")]
          false "" true.
(** deaf: reacts only to messages that carry "wake" *)
Definition spec_deaf : spec mact :=
  mk_spec [("error", plain_node); ("note", act_node "start"); ("start", msg_node pat_wake "note")]
          false "" true.

(** nan: start -(message with id, fwd, poison)-> start, no action: the end
    state holds the message's "poison" as it came (a NaN stays a NaN: nothing
    on this path canonicalises the bindings), so it cannot be written when
    that is a NaN; messages without "poison" do not move the machine *)
Definition pat_nan : json :=
  JObj [("fwd", JStr "?fwd"); ("id", JStr "?id"); ("poison", JStr "?p")].
Definition spec_nan : spec mact :=
  mk_spec [("error", plain_node); ("start", msg_node pat_nan "start")] false "" true.

Definition mspec_of (name : string) : option (spec mact) :=
  if String.eqb name "rec" then Some spec_rec
  else if String.eqb name "flip" then Some spec_flip
  else if String.eqb name "bigflip" then Some spec_flip   (* the same nodes in a file of 1.3 MB *)
  else if String.eqb name "deaf" then Some spec_deaf
  else if String.eqb name "nan" then Some spec_nan
  else None.                      (* no such file, or a file that does not compile *)

Definition spec_ok_m (name : string) : bool :=
  match mspec_of name with Some _ => true | None => false end.

Definition walked_to (sds : list stride) : option state :=
  fold_left (fun acc sd => match sd_to sd with Some t => Some t | None => acc end) sds None.

Definition wk_m (name mid : string) (r : mrec) (msg : json) : option (string * bindings) * list json :=
  match mspec_of name with
  | None => (None, [])
  | Some sp =>
      let msgs := match msg with JNull => [] | _ => [msg] end in
      let w := fst (walk mact run_mact sp (fun _ => false) (Z.to_nat default_limit)
                         (mk_state (r_node r) (Some (r_bs r))) msgs) in
      (match walked_to (w_strides w) with
       | Some t => Some (st_node t, copy_bs (st_bs t))
       | None => None
       end,
       flat_map sd_emitted (w_strides w))
  end.

Definition svc_step_m : req -> svc -> svc * resp := svc_step spec_ok_m wk_m mcrew_services.
Definition svc_step_mdb : req -> svc -> svc * resp := svc_step spec_ok_m wk_m mdb_services.
Definition feed_m := feed spec_ok_m wk_m mcrew_services.
Definition feed_mdb := feed spec_ok_m wk_m mdb_services.
