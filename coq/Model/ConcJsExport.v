(** The timeout protocol of Interpreter.Exec with a second phase of interpreted
    code (C11, after the repairs D50/D51 and D53).

    ecmascript.go:342-361 (the repaired code):

        v, err := RunProgram(o, p)                         -- the MAIN script
        if err == nil {
            x, err = export(v)                             -- POST phase: a getter of the
        } else if err is not *goja.InterruptedError {         returned object is interpreted code
            err = plainError(err)                          -- POST phase: toString of the thrown
        }                                                     value is interpreted code
        cancel()                                           -- Finish
        if err is *goja.InterruptedError -> Interrupted

    export and plainError (ecmascript.go:409-436) run v.Export() / err.Error()
    under a deferred recover: an interruption surfaces as the
    *goja.InterruptedError (mapped to Interrupted like one of the main script),
    any other panic (a throwing getter / toString) as an ordinary error.

    Before the repairs (commits 2e15ed3, f2f7ccc) the result was exported by a
    bare v.Export() AFTER cancel(), and the text of a thrown value was computed
    by err.Error() in the caller (Step/Walk), after Exec had returned: after
    cancel() and under no trap.

    This file extends the transition system of Model/ConcJs.v, part 2 (same
    labels, same watcher, same [variant] for the four protocol elements):

      - the script has three phases: [XMain] (RunProgram), [XPost] (export /
        plainError) and [XStopped];
      - a [post_spec] says what the post phase does: no interpreted code at
        all ([PostNone]: plain data, a thrown primitive - goja then never
        tests the flag again), or [PostRun lft throws]: endless ([None]) or
        [Some j] = j+1 units of interpreted code the last of which returns or
        throws (as for [Running (Some k)] in ConcJs);
      - two more switches, [post_before_cancel] and [post_trapped];
        [repaired_variant] (both true) is the code, [old_order] (both false)
        the code before the repairs;
      - the outcome [XCrashed] stands for a panic that leaves Exec (or the
        caller that computes the text): it arises only from a throw or an
        interruption in the post phase when that phase is not trapped.  A
        panic before cancel() skips cancel() (there is no defer cancel()).

    With [post_before_cancel = false] the [Finish] step of the Exec goroutine
    is taken twice: first cancel() (enabled when the main script has ended and
    a post phase is pending; the post phase's units are enabled only after
    it), then the return.

    The stale-flag behaviour of goja is kept as it is in ConcJs: Interrupt
    sets vm.interrupted and nothing clears it while the runtime is idle
    (goja vm.go:633-641, runtime.go leaveAbrupt clears it only when a
    top-level call is left because of an interrupt, after which Exec runs no
    more interpreted code), so the watcher's Interrupt after cancel() is seen
    by whatever interpreted code runs after cancel(). *)
From Sheens Require Import Model.ConcJs.
From Coq Require Import List Bool Arith.
Import ListNotations.

Inductive xoutcome : Type :=
| XInterrupted      (* the error is ecmascript.Interrupted *)
| XFinished         (* the main script returned, the result was exported *)
| XThrew            (* the main script threw, the text was computed: an error result *)
| XPostFailed       (* the getter / toString threw: an error result *)
| XCrashed.         (* a panic left Exec *)

Definition xoutcome_eqb (a b : xoutcome) : bool :=
  match a, b with
  | XInterrupted, XInterrupted | XFinished, XFinished | XThrew, XThrew
  | XPostFailed, XPostFailed | XCrashed, XCrashed => true
  | _, _ => false
  end.

Inductive post_spec : Type :=
| PostNone
| PostRun (lft : option nat) (throws : bool).

Inductive xphase : Type :=
| XMain (lft : option nat) (throws : bool) (post : post_spec)
| XPost (lft : option nat) (throws : bool) (main_threw : bool)
| XStopped (o : xoutcome).

Record xstate : Type := mk_x {
  x_ctx_done : bool;       (* the caller's context *)
  x_ictx_done : bool;      (* the derived context *)
  x_flag : bool;           (* the runtime's interrupt flag *)
  x_script : xphase;
  x_watcher : wstate;
  x_cancelled : bool;      (* Exec has called cancel() *)
  x_returned : option xoutcome
}.

Record xvariant : Type := mk_xvariant {
  xv_base : variant;            (* the four elements of ConcJs *)
  post_before_cancel : bool;    (* export / plainError run before cancel() *)
  post_trapped : bool           (* ... and under a deferred recover *)
}.
Definition repaired_variant : xvariant := mk_xvariant faithful_variant true true.
Definition old_order : xvariant := mk_xvariant faithful_variant false false.
Definition old_order_trapped : xvariant := mk_xvariant faithful_variant false true.
Definition untrapped : xvariant := mk_xvariant faithful_variant true false.

(** what the script itself yields *)
Definition script_result (main_threw : bool) : xoutcome := if main_threw then XThrew else XFinished.

(** RunProgram returns (normally or with a thrown value) *)
Definition end_main (throws : bool) (post : post_spec) : xphase :=
  match post with
  | PostNone => XStopped (script_result throws)
  | PostRun lft pt => XPost lft pt throws
  end.

(** goja finds the flag set during the post phase *)
Definition post_interrupted (v : xvariant) : xoutcome :=
  if post_trapped v then XInterrupted else XCrashed.

(** the last unit of the post phase *)
Definition end_post (v : xvariant) (throws main_threw : bool) : xoutcome :=
  if throws then (if post_trapped v then XPostFailed else XCrashed) else script_result main_threw.

Definition with_script (s : xstate) (ph : xphase) : xstate :=
  mk_x (x_ctx_done s) (x_ictx_done s) (x_flag s) ph (x_watcher s) (x_cancelled s) (x_returned s).

(** the returning step calls cancel() unless a panic is on its way out before
    cancel() was reached *)
Definition calls_cancel (o : xoutcome) : bool :=
  match o with XCrashed => false | _ => true end.

Definition xinit (v : xvariant) (expired : bool) (main : option nat) (throws : bool) (post : post_spec) : xstate :=
  mk_x expired expired false (XMain main throws post)
       (if v_watcher (xv_base v) then Waiting else Absent) false None.

(** one atomic step; None = not enabled *)
Definition xstep (v : xvariant) (l : label) (s : xstate) : option xstate :=
  match l with
  | Expire =>
      if x_ctx_done s then None
      else Some (mk_x true true (x_flag s) (x_script s) (x_watcher s) (x_cancelled s) (x_returned s))
  | Watch =>
      match x_watcher s with
      | Waiting =>
          if (if v_watch_ictx (xv_base v) then x_ictx_done s else x_ctx_done s)
          then Some (mk_x (x_ctx_done s) (x_ictx_done s) (v_interrupt (xv_base v) || x_flag s) (x_script s)
                          Exited (x_cancelled s) (x_returned s))
          else None
      | _ => None
      end
  | Tick =>
      match x_script s with
      | XMain lft thr post =>
          if x_flag s then Some (with_script s (XStopped XInterrupted))
          else
            match lft with
            | None => Some s
            | Some O => Some (with_script s (end_main thr post))
            | Some (S n) => Some (with_script s (XMain (Some n) thr post))
            end
      | XPost lft thr mt =>
          if post_before_cancel v || x_cancelled s then
            if x_flag s then Some (with_script s (XStopped (post_interrupted v)))
            else
              match lft with
              | None => Some s
              | Some O => Some (with_script s (XStopped (end_post v thr mt)))
              | Some (S n) => Some (with_script s (XPost (Some n) thr mt))
              end
          else None
      | XStopped _ => None
      end
  | Finish =>
      match x_script s with
      | XMain _ _ _ => None
      | XPost _ _ _ =>
          if post_before_cancel v || x_cancelled s then None
          else Some (mk_x (x_ctx_done s) (v_cancel (xv_base v) || x_ictx_done s) (x_flag s) (x_script s)
                          (x_watcher s) true (x_returned s))
      | XStopped o =>
          match x_returned s with
          | None =>
              Some (mk_x (x_ctx_done s) (calls_cancel o && v_cancel (xv_base v) || x_ictx_done s) (x_flag s)
                         (x_script s) (x_watcher s) (calls_cancel o || x_cancelled s) (Some o))
          | Some _ => None
          end
      end
  end.

Inductive xreach (v : xvariant) (s0 : xstate) : xstate -> Prop :=
| xreach_init : xreach v s0 s0
| xreach_step : forall s l s', xreach v s0 s -> xstep v l s = Some s' -> xreach v s0 s'.

(** a schedule: a label whose step is not enabled is skipped *)
Fixpoint xrun (v : xvariant) (ls : list label) (s : xstate) : xstate :=
  match ls with
  | [] => s
  | l :: r => xrun v r (match xstep v l s with Some s' => s' | None => s end)
  end.

(** number of units of interpreted code (of either phase) executed along a schedule *)
Fixpoint xticks_taken (v : xvariant) (ls : list label) (s : xstate) : nat :=
  match ls with
  | [] => O
  | l :: r =>
      match xstep v l s with
      | Some s' => (match l with Tick => 1 | _ => 0 end) + xticks_taken v r s'
      | None => xticks_taken v r s
      end
  end.

Definition xwatcher_blocked (v : xvariant) (s : xstate) : bool :=
  match x_watcher s with
  | Waiting => match xstep v Watch s with Some _ => false | None => true end
  | _ => false
  end.

(** a script that never ends by itself: in the main script or in the post phase *)
Definition endless_prog (main : option nat) (post : post_spec) : Prop :=
  main = None \/ exists t, post = PostRun None t.

(** * The projection to the system of ConcJs *)

Definition proj_outcome (o : xoutcome) : outcome :=
  match o with XInterrupted => Interrupted | _ => Finished end.
Definition proj_phase (ph : xphase) : sstate :=
  match ph with
  | XMain lft _ _ => Running lft
  | XPost lft _ _ => Running lft
  | XStopped o => Stopped (proj_outcome o)
  end.
Definition proj (s : xstate) : tstate :=
  mk_t (x_ctx_done s) (x_ictx_done s) (x_flag s) (proj_phase (x_script s)) (x_watcher s)
       (option_map proj_outcome (x_returned s)).
