(** Spec.Compile over the JSON text model *with string escapes*
    (Model/JsonTextEsc.v): the pattern texts a document carries under
    [patternSyntax: json] may contain any string - quotes, backslashes,
    control characters, [<], [>], [&] - written the way encoding/json writes
    them and read the way encoding/json reads them.

    Model/Compile.v calls [parse] (and [textify] calls [print]) of the model
    without escapes directly.  The definitions below are the same functions
    with the text model as a parameter:

      default_pattern_parser   [default_pattern_parser_with ps]
      parse_pattern            [parse_pattern_with ps]
      Spec.ParsePatterns       [parse_patterns_with ps]
      Spec.Compile             [compile_with ps]
      textify / with_text      [textify_with pr] / [with_text_with pr]

    Everything that does not touch a pattern text is shared with
    Model/Compile.v: the traversal [tr_nodes], Canonicalize, [with_syntax],
    [set_nodes], [map_patterns], and the whole of Compile after
    ParsePatterns ([compile_after], which is the body of [compile] word for
    word).  At [ps := parse], [pr := print] the definitions *are* those of
    Model/Compile.v ([compile_with_parse], ... in
    Proofs/CompileEscProofs.v, by [reflexivity]); the escape-aware variants
    are the instances at [parse_esc], [print_esc]. *)
From Sheens Require Export Model.Compile Model.JsonTextEsc.

(** * The parser side *)
Section TextParser.
  (** json.Unmarshal of a pattern text into an [interface{}] *)
  Variable ps : string -> option json.

  Definition default_pattern_parser_with (syntax : string) (p : json) : option json :=
    if String.eqb syntax "none" || String.eqb syntax "" then Some p
    else if String.eqb syntax "json" then
           match p with
           | JStr s => ps s
           | _ => Some p
           end
         else None.

  Definition parse_pattern_with (syntax : string) (p : json) : cres json :=
    match default_pattern_parser_with syntax p with
    | Some x => inr (canonicalize x)
    | None => inl CPattern
    end.

  Definition parse_patterns_with (a : adoc) : cres adoc :=
    cbind (tr_nodes (parse_pattern_with (ad_syntax a)) (ad_nodes a)) (fun ns =>
    inr (with_syntax (if String.eqb (ad_syntax a) "" then "" else "none") (set_nodes a ns))).
End TextParser.

(** * Spec.Compile after ParsePatterns: the body of [compile] *)
Definition compile_after (I : interps) (force : bool) (r : cres adoc) : cres adoc :=
  cbind r (fun a1 =>
  cbind (compile_opt I force (ad_boot_src a1) (ad_boot a1)) (fun boot =>
  cbind (compile_opt I force (ad_toob_src a1) (ad_toob a1)) (fun toob =>
  let en := if String.eqb (ad_error_node a1) "" then default_error_node else ad_error_node a1 in
  let ns := if has_node en (ad_nodes a1) || ad_no_auto_error a1 then ad_nodes a1
            else insert_node en (Some empty_node) (ad_nodes a1) in
  cbind (mapM (compile_node I force) ns) (fun ns' =>
  inr (mk_adoc ns' (ad_syntax a1) en (ad_no_auto_error a1) (ad_err_branches a1)
               (ad_action_err_node a1) boot (ad_boot_src a1) toob (ad_toob_src a1) true))))).

Definition compile_with (ps : string -> option json) (I : interps) (force : bool) (a : adoc)
  : cres adoc :=
  compile_after I force (parse_patterns_with ps a).

(** * The printer side *)
Section TextPrinter.
  (** json.Marshal of a pattern *)
  Variable pr : json -> string.
  Definition textify_with (sel : json -> bool) (p : json) : json :=
    if sel p then JStr (pr p) else p.
  Definition with_text_with (sel : json -> bool) (a : adoc) : adoc :=
    with_syntax "json" (map_patterns (textify_with sel) a).
End TextPrinter.

(** * The escape-aware instances *)
Definition default_pattern_parser_esc : string -> json -> option json :=
  default_pattern_parser_with parse_esc.
Definition parse_pattern_esc : string -> json -> cres json := parse_pattern_with parse_esc.
Definition parse_patterns_esc : adoc -> cres adoc := parse_patterns_with parse_esc.
Definition compile_esc : interps -> bool -> adoc -> cres adoc := compile_with parse_esc.
Definition textify_esc : (json -> bool) -> json -> json := textify_with print_esc.
Definition with_text_esc : (json -> bool) -> adoc -> adoc := with_text_with print_esc.
