(** Go representations of JSON data (C09).

    A machine state held in memory is a tree of Go values.  The same JSON
    datum can be held in several Go representations that the matcher tells
    apart: a whole number may be a [float64] or an [int64] (what goja's
    Export yields for integral results; inside an array the matcher only
    treats [float64] as a scalar), and an object may be a
    [map[string]interface{}] or the named type [match.Bindings] (which the
    matcher's type switch does not treat as a map).  [gval] keeps those
    tags; [json] (Model/Json.v) is the datum.

    Writing a state out as JSON and reading it back ([roundtrip]) yields the
    canonical representation: [float64] and plain maps everywhere.  So
    persisting is unobservable exactly when states only ever hold canonical
    values - [roundtrip_canonical] - and the engine guarantees that by
    canonicalising what enters a state: the bindings an ECMAScript action
    returns ([js_result_canonical], the D7 repair) and the bindings saved at
    the error node ([D8]: a plain map).  The harness checks the invariant
    itself on the implementation (every value of every reachable state has a
    canonical Go type) and compares a run that round-trips the state at a
    boundary with one that does not. *)
From Sheens Require Export Model.Json.

Inductive nrepr : Type := F64 | I64.
Inductive mtag : Type := PlainMap | TypedBindings.

Inductive gval : Type :=
| GNull
| GBool (b : bool)
| GNum (r : nrepr) (z : Z)
| GStr (s : string)
| GArr (l : list gval)
| GObj (t : mtag) (kvs : list (string * gval)).

(** the datum a Go value stands for *)
Fixpoint canon (g : gval) : json :=
  match g with
  | GNull => JNull
  | GBool b => JBool b
  | GNum _ z => JNum z
  | GStr s => JStr s
  | GArr l => JArr (map canon l)
  | GObj _ kvs => JObj (map (fun kv => (fst kv, canon (snd kv))) kvs)
  end.

(** what encoding/json's Unmarshal builds for a datum *)
Fixpoint embed (j : json) : gval :=
  match j with
  | JNull => GNull
  | JBool b => GBool b
  | JNum z => GNum F64 z
  | JStr s => GStr s
  | JArr l => GArr (map embed l)
  | JObj kvs => GObj PlainMap (map (fun kv => (fst kv, embed (snd kv))) kvs)
  end.

Fixpoint is_canon (g : gval) : bool :=
  match g with
  | GNum I64 _ => false
  | GArr l => forallb is_canon l
  | GObj PlainMap kvs => forallb (fun kv => is_canon (snd kv)) kvs
  | GObj TypedBindings _ => false
  | _ => true
  end.

(** Marshal, then Unmarshal *)
Definition roundtrip (g : gval) : gval := embed (canon g).

(** core.Canonicalize is a JSON round trip *)
Definition canonicalize (g : gval) : gval := roundtrip g.

(** goja's Export: an integral number comes out as int64 (numbers are in
    quarters: integral = divisible by 4) *)
Fixpoint export_goja (j : json) : gval :=
  match j with
  | JNull => GNull
  | JBool b => GBool b
  | JNum z => GNum (if Z.eqb (Z.modulo z 4) 0 then I64 else F64) z
  | JStr s => GStr s
  | JArr l => GArr (map export_goja l)
  | JObj kvs => GObj PlainMap (map (fun kv => (fst kv, export_goja (snd kv))) kvs)
  end.

(** what the interpreter stores as the new bindings for a script result [j]
    (interpreters/ecmascript, after the D7 repair) *)
Definition js_result (j : json) : gval := canonicalize (export_goja j).
(** ... and before it *)
Definition js_result_before_D7 (j : json) : gval := export_goja j.

(** the value saved under "lastBindings" at the error node for bindings [b]
    (core/step.go, after the D8 repair: a plain map) *)
Definition last_bindings (b : list (string * json)) : gval := embed (JObj b).
Definition last_bindings_before_D8 (b : list (string * json)) : gval :=
  GObj TypedBindings (map (fun kv => (fst kv, embed (snd kv))) b).
