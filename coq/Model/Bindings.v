(** Bindings: association lists kept sorted by key and duplicate free by
    construction ([bset] is a sorted insert-or-replace), so that equal
    contents are equal terms. *)
From Sheens Require Export Model.Json.

Definition bindings := list (string * json).

Fixpoint lookup (k : string) (bs : bindings) : option json :=
  match bs with
  | [] => None
  | (k', v) :: r => if String.eqb k k' then Some v else lookup k r
  end.

Fixpoint bset (k : string) (v : json) (bs : bindings) : bindings :=
  match bs with
  | [] => [(k, v)]
  | (k', v') :: r =>
      match String.compare k k' with
      | Eq => (k, v) :: r
      | Lt => (k, v) :: bs
      | Gt => (k', v') :: bset k v r
      end
  end.

Fixpoint bremove (k : string) (bs : bindings) : bindings :=
  match bs with
  | [] => []
  | (k', v) :: r => if String.eqb k k' then bremove k r else (k', v) :: bremove k r
  end.

Definition of_list (kvs : list (string * json)) : bindings :=
  fold_left (fun acc kv => bset (fst kv) (snd kv) acc) kvs [].

Fixpoint sorted_keys (bs : bindings) : bool :=
  match bs with
  | [] => true
  | (k, _) :: r =>
      match r with
      | [] => true
      | (k', _) :: _ => String.ltb k k' && sorted_keys r
      end
  end.

Definition bindings_eqb (a b : bindings) : bool := json_eqb (JObj a) (JObj b).

Definition var_free_bs (bs : bindings) : bool :=
  forallb (fun kv => var_free (snd kv)) bs.

Definition wf_bs (bs : bindings) : bool :=
  forallb (fun kv => wf_json (snd kv)) bs.
