(** Model of the single-loop crew host [sio.Crew] (sio/crew.go,
    sio/captainspec.go), of the reference consumer of its reports
    (sio/stdio.go, the goroutine folding [Result.Changed]) and of the boot
    path (sio/siostd/main.go).

    Go function                        model
    ---------------------------------  ------------------------------------
    Crew.allMachines   crew.go:411     [all_machines]
    Crew.toMachines    crew.go:428     [to_machines]
    Crew.RunMachines   crew.go:458     [run_machines] ([run_list], [present])
    Crew.RunMachine    crew.go:489     [present] (ordinary machine branch)
    Crew.ProcessMsg    crew.go:251     [process] (the loop), [process_msg]
    Crew.GetChanged    crew.go:320     [get_changed] ([report_of], [suppress])
    Crew.change        crew.go:146     [touch]
    Crew.SetMachine    crew.go:171     [set_machine]
    ResolveSpecSource  crew.go:574     [resolves], [resolved]
    Crew.DeleteMachine crew.go:243     [delete_machine]
    AsCrewOp, DoOp     captainspec.go  [as_crew_op], [do_op]
    captain "do" node  captainspec.go  [present] (captain branch; [wedged])
    Stdio.IO (fold)    stdio.go:196    [fold_one], [stdio_fold]
    main (boot loop)   siostd/main.go  [boot]

    (line numbers: tree with the repairs D11, D13, D14, D41, D42 applied.)

    Machines are abstract: a specification source is a value of a type [S],
    and the reaction of a machine to one message is a function
    [react : S -> mid -> mstate -> json -> option mstate * list json]
    (the state [Spec.Walk] ends in, if it moved, and the messages it
    emitted).  Go's unspecified map iteration order is the oracle [ord].
    The timers machine is modelled only as far as routing goes (whether a
    timer request reached it); timers firing is not modelled.  [process]
    runs on fuel: [ProcessMsg] has no limit in Go. *)
From Sheens Require Export Model.Bindings.
From Sheens Require Export Gen.Names.

Definition mid := string.

(** These are variables in Go ([sio.TimersMachine], [sio.CaptainMachine]).
    The model takes the values they are declared with in the source of the
    tree under test (Gen/Names.v, written by harness/cmd/genconsts on every
    run); every correspondence case carries the values the harness read from
    the package at run time and [Corr/SioCorr.v] compares them with these;
    Proofs/SioIdsTie.v states that they are the documented ids. *)
Definition timers_id : mid := sio_timers_machine.
Definition captain_id : mid := sio_captain_machine.
Definition is_service (m : mid) : bool := String.eqb m timers_id || String.eqb m captain_id.

Record mstate : Type := mk_ms { ms_node : string; ms_bs : bindings }.
Definition default_state : mstate := mk_ms "start" [].
(** [DefaultState] (crew.go:569): an empty node name means "start"; nil
    bindings are empty bindings (not distinguished in the model). *)
Definition defaulted (s : mstate) : mstate :=
  if String.eqb (ms_node s) "" then mk_ms "start" (ms_bs s) else s.

Inductive outcome (A : Type) : Type :=
| Done (a : A)
| OutOfFuel
| Unmodelled.     (* an input the model does not cover (operation on a service machine, malformed operation) *)
Arguments Done {A} a.
Arguments OutOfFuel {A}.
Arguments Unmodelled {A}.

Definition obind {A B : Type} (o : outcome A) (f : A -> outcome B) : outcome B :=
  match o with Done a => f a | OutOfFuel => OutOfFuel | Unmodelled => Unmodelled end.

(** association lists keyed by machine id; [aset] keeps a sorted list sorted *)
Fixpoint aget {A : Type} (k : string) (m : list (string * A)) : option A :=
  match m with
  | [] => None
  | (k', v) :: r => if String.eqb k k' then Some v else aget k r
  end.
Fixpoint aset {A : Type} (k : string) (v : A) (m : list (string * A)) : list (string * A) :=
  match m with
  | [] => [(k, v)]
  | (k', v') :: r =>
      match String.compare k k' with
      | Eq => (k, v) :: r
      | Lt => (k, v) :: m
      | Gt => (k', v') :: aset k v r
      end
  end.
Fixpoint adel {A : Type} (k : string) (m : list (string * A)) : list (string * A) :=
  match m with
  | [] => []
  | (k', v) :: r => if String.eqb k k' then adel k r else (k', v) :: adel k r
  end.

Definition or_else {A : Type} (a b : option A) : option A :=
  match a with Some _ => a | None => b end.
Definition is_some {A : Type} (a : option A) : bool :=
  match a with Some _ => true | None => false end.

Fixpoint smem (s : string) (l : list string) : bool :=
  match l with [] => false | x :: r => String.eqb s x || smem s r end.
(** first occurrences only (the repair of D11) *)
Fixpoint dedup (l : list string) : list string :=
  match l with
  | [] => []
  | x :: r => x :: filter (fun y => negb (String.eqb x y)) (dedup r)
  end.
Fixpoint strings_of (l : list json) : list string :=
  match l with
  | [] => []
  | JStr s :: r => s :: strings_of r
  | _ :: r => strings_of r
  end.

Section Crew.
Variable S : Type.                                   (* specification sources *)
Variable react : S -> mid -> mstate -> json -> option mstate * list json.
Variable decode_src : json -> option S.              (* the "spec" member of a machine in a crew operation *)
Variable resolves : S -> bool.                       (* [ResolveSpecSource] finds a specification for the source (a source
                                                        with neither "inline" nor "url" resolves to nothing, without error) *)
Variable src_eqb : S -> S -> bool.                   (* equality of the JSON texts of two sources *)
Variable ord : forall A : Type, list (mid * A) -> list (mid * A).   (* Go map iteration order *)

Record mach : Type := mk_mach { m_src : option S; m_state : mstate }.

(** [sio.Changed]; used both for the change cache and for the reports.
    [c_deleted] with a state = deleted and created again (repair of D14). *)
Record chg : Type := mk_chg { c_deleted : bool; c_state : option mstate; c_src : option S }.
Definition no_chg : chg := mk_chg false None None.

Record crew : Type := mk_crew {
  machines : list (mid * mach);     (* ordinary machines (everything but captain and timers) *)
  wedged : bool;                    (* the captain holds a message that was no operation: inert from then on
                                         (before the repair of D56; no step sets it any more) *)
  cache : list (mid * chg);         (* Crew.changed *)
  previous : list (mid * chg);      (* Crew.previous: the last report per machine *)
  tm_dirty : bool                   (* a change of the timers machine is pending *)
}.
Definition init_crew : crew := mk_crew [] false [] [] false.

Definition with_machines (c : crew) ms := mk_crew ms (wedged c) (cache c) (previous c) (tm_dirty c).
Definition with_cache (c : crew) ch := mk_crew (machines c) (wedged c) ch (previous c) (tm_dirty c).

(** [Crew.change]: the cache entry of a machine, created when missing *)
Definition cache_get (c : crew) (m : mid) : chg :=
  match aget m (cache c) with Some ch => ch | None => no_chg end.

(** what [ResolveSpecSource] makes of a given source: the source itself
    (a JSON copy of it) together with its specification, or nothing at all
    ([nil, nil, nil]: neither "inline" nor "url") *)
Definition resolved (src : option S) : option S :=
  match src with
  | Some s => if resolves s then Some s else None
  | None => None
  end.

(** [Crew.SetMachine] for an ordinary id (after D13: the state of an
    existing machine is replaced; after D42: a creation is a change).
    A given source REPLACES the machine's source by what it resolves to: a
    source that resolves to nothing leaves the machine without source and
    specification (inert: [present] shows it no message), while the cached
    change - and with it the report and the consumer's store - carries the
    source as given. *)
Definition set_machine (c : crew) (m : mid) (src : option S) (st : option mstate) : crew :=
  let st' := option_map defaulted st in
  let old := aget m (machines c) in
  let mc := match old with
            | Some mc => mk_mach (match src with Some _ => resolved src | None => m_src mc end)
                                 (match st' with Some s => s | None => m_state mc end)
            | None => mk_mach (resolved src) (match st' with Some s => s | None => default_state end)
            end in
  let c1 := with_machines c (aset m mc (machines c)) in
  if negb (is_some old) || is_some src || is_some st then
    let ch := cache_get c m in
    with_cache c1 (aset m (mk_chg (c_deleted ch) (or_else st' (c_state ch)) (or_else src (c_src ch))) (cache c))
  else c1.

(** [Crew.DeleteMachine] (after D14: earlier pending changes are dropped) *)
Definition delete_machine (c : crew) (m : mid) : crew :=
  with_cache (with_machines c (adel m (machines c))) (aset m (mk_chg true None None) (cache c)).

(** [RunMachine]'s bookkeeping: the machine's state and the cached change *)
Definition record_state (c : crew) (m : mid) (mc : mach) (st : mstate) : crew :=
  let ch := cache_get c m in
  with_cache (with_machines c (aset m (mk_mach (m_src mc) st) (machines c)))
             (aset m (mk_chg (c_deleted ch) (Some st) (c_src ch)) (cache c)).

(** crew operations (sio/captainspec.go) *)
Record mupd : Type := mk_mupd { u_src : option S; u_state : option mstate }.
Record crew_op : Type := mk_op { op_update : list (mid * mupd); op_delete : list mid }.
Inductive op_parse : Type := NotOp | BadOp | IsOp (op : crew_op).

Definition parse_state (j : json) : option (option mstate) :=
  match j with
  | JNull => Some None
  | JObj kvs =>
      let node := match assoc "node" kvs with Some (JStr n) => Some n | None => Some "" | _ => None end in
      let bs := match assoc "bs" kvs with Some (JObj b) => Some b | None | Some JNull => Some [] | _ => None end in
      match node, bs with
      | Some n, Some b => Some (Some (mk_ms n b))
      | _, _ => None
      end
  | _ => None
  end.
Definition parse_src (j : json) : option (option S) :=
  match j with
  | JNull => Some None
  | _ => match decode_src j with Some s => Some (Some s) | None => None end
  end.
Definition parse_mupd (j : json) : option mupd :=
  match j with
  | JObj kvs =>
      let src := match assoc "spec" kvs with Some x => parse_src x | None => Some None end in
      let st := match assoc "state" kvs with Some x => parse_state x | None => Some None end in
      match src, st with
      | Some s, Some t => Some (mk_mupd s t)
      | _, _ => None
      end
  | _ => None
  end.
Fixpoint parse_updates (kvs : list (string * json)) : option (list (mid * mupd)) :=
  match kvs with
  | [] => Some []
  | (k, v) :: r =>
      match parse_mupd v, parse_updates r with
      | Some u, Some us => Some ((k, u) :: us)
      | _, _ => None
      end
  end.
Fixpoint parse_ids (l : list json) : option (list mid) :=
  match l with
  | [] => Some []
  | JStr s :: r => match parse_ids r with Some ids => Some (s :: ids) | None => None end
  | _ => None
  end.
(** [AsCrewOp]: [None] = member absent or null *)
Definition as_crew_op (msg : json) : op_parse :=
  match msg with
  | JObj kvs =>
      let upd := match assoc "update" kvs with
                 | None | Some JNull => Some None
                 | Some (JObj us) => match parse_updates us with Some u => Some (Some u) | None => None end
                 | _ => None
                 end in
      let del := match assoc "delete" kvs with
                 | None | Some JNull => Some None
                 | Some (JArr ds) => match parse_ids ds with Some d => Some (Some d) | None => None end
                 | _ => None
                 end in
      match upd, del with
      | Some None, Some None => NotOp
      | Some u, Some d => IsOp (mk_op (match u with Some u => u | None => [] end)
                                      (match d with Some d => d | None => [] end))
      | _, _ => BadOp
      end
  | _ => NotOp
  end.

(** operations on the service machines are not modelled *)
Definition op_ordinary (op : crew_op) : bool :=
  forallb (fun u => negb (is_service (fst u))) (op_update op)
  && forallb (fun d => negb (is_service d)) (op_delete op).

(** an update that names a service machine and carries no state changes nothing that a crew's user observes:
    [SetMachine] keeps the service machine's own specification (sio/crew.go: the source is not resolved for these
    ids, the timers keep their map, the captain gets a fresh copy of the same specification) *)
Definition svc_noop (u : mid * mupd) : bool := is_service (fst u) && negb (is_some (u_state (snd u))).
Definition strip_op (op : crew_op) : crew_op :=
  mk_op (filter (fun u => negb (svc_noop u)) (op_update op)) (op_delete op).

(** [DoOp]: updates (a Go map: distinct ids, order immaterial), then deletes *)
Definition do_op (c : crew) (op : crew_op) : crew :=
  let c1 := fold_left (fun c u => set_machine c (fst u) (u_src (snd u)) (u_state (snd u))) (op_update op) c in
  fold_left delete_machine (op_delete op) c1.

(** the timers machine's two message patterns (sio/timersspec.go) *)
Definition tm_shape (msg : json) : bool :=
  match msg with
  | JObj kvs =>
      match assoc "makeTimer" kvs with
      | Some (JObj t) => is_some (assoc "in" t) && is_some (assoc "msg" t) && is_some (assoc "id" t)
      | _ => false
      end || is_some (assoc "cancelTimer" kvs)
  | _ => false
  end.

(** [allMachines]: everything but the timers machine and the captain, in
    the order of the map iteration *)
Definition all_machines (c : crew) : list mid := map fst (ord mach (machines c)).

(** [toMachines] (after D41: a member that is no string names nobody) *)
Definition to_machines (c : crew) (msg : json) : list mid :=
  match msg with
  | JObj kvs =>
      match assoc "to" kvs with
      | Some (JStr s) => if String.eqb s "*" then all_machines c else [s]
      | Some (JArr l) => strings_of l
      | _ => all_machines c
      end
  | _ => all_machines c
  end.

(** one recipient's turn in [RunMachines]: the crew afterwards, whether the
    message was presented, and the batch of an ordinary machine's walk *)
Definition present (c : crew) (msg : json) (m : mid) : outcome (crew * bool * option (list json)) :=
  if String.eqb m captain_id then
    if wedged c then Done (c, true, None)
    else match as_crew_op msg with
         | NotOp => Done (c, true, None)      (* since the repair of D56 a message that is no operation leaves no trace *)
         | BadOp => Unmodelled
         | IsOp op => if op_ordinary (strip_op op) then Done (do_op c (strip_op op), true, None) else Unmodelled
         end
  else if String.eqb m timers_id then
    Done (if tm_shape msg then mk_crew (machines c) (wedged c) (cache c) (previous c) true else c, true, None)
  else
    match aget m (machines c) with
    | None => Done (c, false, None)
    | Some mc =>
        match m_src mc with
        | None => Done (c, false, None)                 (* "no Spectre": an error before any walk *)
        | Some s =>
            let '(st, ems) := react s m (m_state mc) msg in
            Done (match st with Some st1 => record_state c m mc st1 | None => c end, true, Some ems)
        end
    end.

Fixpoint run_list (c : crew) (msg : json) (mids : list mid)
  : outcome (crew * list mid * list (mid * list json)) :=
  match mids with
  | [] => Done (c, [], [])
  | m :: rest =>
      obind (present c msg m) (fun '(c1, got, batch) =>
      obind (run_list c1 msg rest) (fun '(c2, rs, bs) =>
      Done (c2, (if got then m :: rs else rs),
            match batch with Some b => (m, b) :: bs | None => bs end)))
  end.

(** what happened to one message taken from the queue *)
Record round : Type := mk_round {
  rd_msg : json;
  rd_before : crew;                       (* the crew when the message was taken *)
  rd_recips : list mid;                   (* the machines it was presented to, in order *)
  rd_batches : list (mid * list json)     (* the walked machines' emissions, in report order *)
}.

(** [RunMachines] *)
Definition run_machines (c : crew) (msg : json) : outcome (crew * round) :=
  obind (run_list c msg (dedup (to_machines c msg))) (fun '(c1, rs, bs) =>
  Done (c1, mk_round msg c rs (ord (list json) bs))).

Definition batch_msgs (rd : round) : list json := flat_map snd (rd_batches rd).

(** the loop of [ProcessMsg]: a FIFO queue of pending messages *)
Fixpoint process (fuel : nat) (c : crew) (queue : list json) (tr : list round) {struct fuel}
  : outcome (crew * list round) :=
  match queue with
  | [] => Done (c, rev tr)
  | msg :: rest =>
      match fuel with
      | O => OutOfFuel
      | Datatypes.S f =>
          obind (run_machines c msg) (fun '(c1, rd) =>
          process f c1 (rest ++ batch_msgs rd) (rd :: tr))
      end
  end.

Definition nonempty {A : Type} (l : list A) : bool := match l with [] => false | _ => true end.

(** [Result.Emitted]: the non-empty batches, in order *)
Definition emitted_of (tr : list round) : list (list json) :=
  filter nonempty (flat_map (fun rd => map snd (rd_batches rd)) tr).

Definition chg_eqb (a b : chg) : bool :=
  Bool.eqb (c_deleted a) (c_deleted b)
  && match c_state a, c_state b with
     | Some x, Some y => String.eqb (ms_node x) (ms_node y) && bindings_eqb (ms_bs x) (ms_bs y)
     | None, None => true
     | _, _ => false
     end
  && match c_src a, c_src b with
     | Some x, Some y => src_eqb x y
     | None, None => true
     | _, _ => false
     end.

(** first loop of [GetChanged]: the report for one cached change *)
Definition report_of (c : crew) (m : mid) (ch : chg) : chg :=
  if c_deleted ch then
    match aget m (machines c) with
    | None => mk_chg true None None
    | Some mc => mk_chg true (Some (m_state mc)) (c_src ch)
    end
  else mk_chg false (c_state ch) (c_src ch).

(** second loop: suppression against the previous report *)
Fixpoint suppress (prev : list (mid * chg)) (reports : list (mid * chg))
  : list (mid * chg) * list (mid * chg) :=
  match reports with
  | [] => (prev, [])
  | (m, r) :: rest =>
      if c_deleted r then
        let '(p, out) := suppress (adel m prev) rest in (p, (m, r) :: out)
      else
        match aget m prev with
        | Some old =>
            if chg_eqb r old then suppress prev rest
            else let '(p, out) := suppress (aset m r prev) rest in (p, (m, r) :: out)
        | None => let '(p, out) := suppress (aset m r prev) rest in (p, (m, r) :: out)
        end
  end.

Record result : Type := mk_result {
  res_emitted : list (list json);
  res_changed : list (mid * chg);       (* ordinary machines *)
  res_timers : bool;                    (* a timer request reached the timers machine *)
  res_trace : list round                (* ghost: the delivery log *)
}.

(** [GetChanged] (the captain's entry is skipped: it is never cached here).
    [Crew.changed] is a Go map: the loop visits every key once, in the order
    of the map iteration. *)
Definition get_changed (c : crew) : crew * list (mid * chg) * bool :=
  let reports := map (fun m => (m, report_of c m (cache_get c m))) (dedup (map fst (ord chg (cache c)))) in
  let '(prev, out) := suppress (previous c) reports in
  (mk_crew (machines c) (wedged c) [] prev false, out, tm_dirty c).

(** [ProcessMsg] *)
Definition process_msg (fuel : nat) (c : crew) (msg : json) : outcome (crew * result) :=
  obind (process fuel c [msg] []) (fun '(c1, tr) =>
  let '(c2, ch, tm) := get_changed c1 in
  Done (c2, mk_result (emitted_of tr) ch tm tr)).

(** the reference consumer: [Stdio]'s state map (after D14: a report that
    is deleted and carries a state replaces the machine) *)
Record entry : Type := mk_entry { e_state : option mstate; e_src : option S }.
Definition fold_one (store : list (mid * entry)) (mr : mid * chg) : list (mid * entry) :=
  let '(m, r) := mr in
  let store1 := if c_deleted r then adel m store else store in
  if negb (c_deleted r) || is_some (c_state r) then
    let e := match aget m store1 with Some e => e | None => mk_entry None None end in
    aset m (mk_entry (or_else (c_state r) (e_state e)) (or_else (c_src r) (e_src e))) store1
  else store1.
Definition stdio_fold (store : list (mid * entry)) (reports : list (mid * chg)) : list (mid * entry) :=
  fold_left fold_one reports store.

(** the boot loop of siostd: every stored machine is handed to [SetMachine]
    (the stored machines are a Go map: every key once) *)
Definition boot_from (c : crew) (store : list (mid * entry)) : crew :=
  fold_left (fun c m => match aget m store with
                        | Some e => set_machine c m (e_src e) (e_state e)
                        | None => c
                        end) (dedup (map fst (ord entry store))) c.
Definition boot (store : list (mid * entry)) : crew := boot_from init_crew store.

(** histories: messages and direct calls of the crew's API *)
Inductive hop : Type :=
| OpMsg (msg : json)
| OpSet (m : mid) (src : option S) (st : option mstate)
| OpDel (m : mid).

Definition hop_ordinary (h : hop) : bool :=
  match h with
  | OpMsg _ => true
  | OpSet m _ _ | OpDel m => negb (is_service m)
  end.

(** one step of a history on the pair (crew, store of the consumer) *)
Definition hstep (fuel : nat) (cs : crew * list (mid * entry)) (h : hop)
  : outcome (crew * list (mid * entry) * option result) :=
  let '(c, store) := cs in
  match h with
  | OpMsg msg =>
      obind (process_msg fuel c msg) (fun '(c1, r) =>
      Done (c1, stdio_fold store (res_changed r), Some r))
  | OpSet m src st => if is_service m then Unmodelled else Done (set_machine c m src st, store, None)
  | OpDel m => if is_service m then Unmodelled else Done (delete_machine c m, store, None)
  end.

Fixpoint run_history (fuel : nat) (cs : crew * list (mid * entry)) (h : list hop)
  : outcome (crew * list (mid * entry)) :=
  match h with
  | [] => Done cs
  | x :: r => obind (hstep fuel cs x) (fun '(c1, s1, _) => run_history fuel (c1, s1) r)
  end.

End Crew.

Arguments mk_mach {S}.
Arguments mk_chg {S}.
Arguments mk_entry {S}.
Arguments mk_crew {S}.
Arguments mk_mupd {S}.
Arguments mk_op {S}.
Arguments mk_round {S}.
Arguments mk_result {S}.
Arguments OpMsg {S}.
Arguments OpSet {S}.
Arguments OpDel {S}.
Arguments NotOp {S}.
Arguments BadOp {S}.
Arguments IsOp {S}.
