(** The JSON form of a machine state, {"node":...,"bs":{...}} (core.State's
    MarshalJSON via its struct tags), on the text fragment of
    Model/JsonText.v: what a host writes to its store and reads back (C09). *)
From Sheens Require Export Model.JsonText Model.Step.

Definition state_json (st : state) : json :=
  JObj [("node", JStr (st_node st));
        ("bs", match st_bs st with Some b => JObj b | None => JNull end)].

Definition encode_state (st : state) : string := print (state_json st).

Definition state_of_json (j : json) : option state :=
  match j with
  | JObj kvs =>
      match assoc "node" kvs, assoc "bs" kvs with
      | Some (JStr n), Some (JObj b) => Some (mk_state n (Some b))
      | Some (JStr n), Some JNull => Some (mk_state n None)
      | Some (JStr n), None => Some (mk_state n None)
      | _, _ => None
      end
  | _ => None
  end.

Definition decode_state (s : string) : option state :=
  match parse s with
  | Some j => state_of_json j
  | None => None
  end.

(** states whose strings need no escapes (the fragment the harness generates) *)
Definition plain_state (st : state) : bool :=
  plain_string (st_node st) &&
  match st_bs st with Some b => plain_json (JObj b) | None => true end.
