(** A small interleaving semantics, and the transition system of an
    ECMAScript execution under a cancellable context (C11).

    Part 1 (generic): a configuration is a shared state and a list of thread
    states; a schedule is a list of thread indexes; each turn performs one
    atomic step of the chosen thread.  C10 (executions of compiled programs),
    C12 (walks over one spec; walks against an updatable spec) instantiate it.

    Part 2: Interpreter.Exec's timeout protocol (ecmascript.go:330-349):

        ictx, cancel := context.WithCancel(ctx)
        go func() { <-ictx.Done(); o.Interrupt(msg) }()      -- the watcher
        v, err := RunProgram(o, p)                           -- the script
        cancel()                                             -- finish
        if err is *goja.InterruptedError -> Interrupted

    as a transition system with four atomic steps (labels):
      [Expire]  the caller's context ends (deadline or cancellation), which
                also ends the derived context;
      [Watch]   the watcher goroutine, enabled once the derived context has
                ended: sets the runtime's interrupt flag and exits;
      [Tick]    one unit of interpreted code: goja tests the flag before
                every instruction; a set flag stops the script;
      [Finish]  RunProgram has returned: cancel() and the result mapping.
    A [variant] switches off one element of the protocol at a time (no
    cancel(), watcher waits for the caller's context only, no watcher, a
    watcher that does not interrupt); [faithful_variant] is the code. *)
From Coq Require Import List Bool Arith.
Import ListNotations.

(** * Part 1: interleavings *)

Section Conc.
  Variables Sh L : Type.
  Variable step : Sh -> L -> Sh * L.

  Fixpoint set_nth (i : nat) (x : L) (l : list L) : list L :=
    match l, i with
    | [], _ => []
    | _ :: r, O => x :: r
    | y :: r, S j => y :: set_nth j x r
    end.

  Fixpoint interleave (sched : list nat) (sh : Sh) (cfg : list L) : Sh * list L :=
    match sched with
    | [] => (sh, cfg)
    | i :: r =>
        match nth_error cfg i with
        | Some l => let '(sh', l') := step sh l in interleave r sh' (set_nth i l' cfg)
        | None => interleave r sh cfg
        end
    end.

  (** how many turns thread [i] gets *)
  Fixpoint turns (i : nat) (sched : list nat) : nat :=
    match sched with
    | [] => O
    | j :: r => if Nat.eqb i j then S (turns i r) else turns i r
    end.

  Fixpoint iterate (n : nat) (f : L -> L) (x : L) : L :=
    match n with
    | O => x
    | S m => iterate m f (f x)
    end.
End Conc.

Arguments set_nth {L}.
Arguments interleave {Sh L}.
Arguments iterate {L}.

(** * Part 2: the timeout protocol *)

Inductive outcome : Type := Interrupted | Finished.
Definition outcome_eqb (a b : outcome) : bool :=
  match a, b with
  | Interrupted, Interrupted | Finished, Finished => true
  | _, _ => false
  end.

(** [Running None]: a script that never ends by itself (for(;;){}, unbounded
    recursion); [Running (Some k)]: k more units of interpreted code *)
Inductive sstate : Type :=
| Running (lft : option nat)
| Stopped (o : outcome).

Inductive wstate : Type := Waiting | Exited | Absent.

Record tstate : Type := mk_t {
  ctx_done : bool;       (* the caller's context *)
  ictx_done : bool;      (* the derived context *)
  flag : bool;           (* the runtime's interrupt flag *)
  script : sstate;
  watcher : wstate;
  returned : option outcome
}.

Inductive label : Type := Expire | Watch | Tick | Finish.

Record variant : Type := mk_variant {
  v_cancel : bool;       (* Exec calls cancel() after RunProgram *)
  v_watch_ictx : bool;   (* the watcher waits for the derived context (else: the caller's) *)
  v_watcher : bool;      (* a watcher goroutine is started *)
  v_interrupt : bool     (* the watcher calls Interrupt *)
}.
Definition faithful_variant : variant := mk_variant true true true true.

Definition init (v : variant) (expired : bool) (k : option nat) : tstate :=
  mk_t expired expired false (Running k) (if v_watcher v then Waiting else Absent) None.

(** one atomic step; None = not enabled *)
Definition tstep (v : variant) (l : label) (s : tstate) : option tstate :=
  match l with
  | Expire =>
      if ctx_done s then None
      else Some (mk_t true true (flag s) (script s) (watcher s) (returned s))
  | Watch =>
      match watcher s with
      | Waiting =>
          if (if v_watch_ictx v then ictx_done s else ctx_done s)
          then Some (mk_t (ctx_done s) (ictx_done s) (v_interrupt v || flag s) (script s) Exited (returned s))
          else None
      | _ => None
      end
  | Tick =>
      match script s with
      | Running lft =>
          if flag s then Some (mk_t (ctx_done s) (ictx_done s) (flag s) (Stopped Interrupted) (watcher s) (returned s))
          else
            match lft with
            | None => Some s
            | Some O => Some (mk_t (ctx_done s) (ictx_done s) (flag s) (Stopped Finished) (watcher s) (returned s))
            | Some (S n) => Some (mk_t (ctx_done s) (ictx_done s) (flag s) (Running (Some n)) (watcher s) (returned s))
            end
      | Stopped _ => None
      end
  | Finish =>
      match script s, returned s with
      | Stopped o, None =>
          Some (mk_t (ctx_done s) (v_cancel v || ictx_done s) (flag s) (script s) (watcher s) (Some o))
      | _, _ => None
      end
  end.

Inductive reach (v : variant) (s0 : tstate) : tstate -> Prop :=
| reach_init : reach v s0 s0
| reach_step : forall s l s', reach v s0 s -> tstep v l s = Some s' -> reach v s0 s'.

(** a schedule: a label whose step is not enabled is skipped *)
Fixpoint run_labels (v : variant) (ls : list label) (s : tstate) : tstate :=
  match ls with
  | [] => s
  | l :: r => run_labels v r (match tstep v l s with Some s' => s' | None => s end)
  end.

(** number of units of interpreted code executed along a schedule *)
Fixpoint ticks_taken (v : variant) (ls : list label) (s : tstate) : nat :=
  match ls with
  | [] => O
  | l :: r =>
      match tstep v l s with
      | Some s' => (match l with Tick => 1 | _ => 0 end) + ticks_taken v r s'
      | None => ticks_taken v r s
      end
  end.

(** the watcher goroutine can neither run nor has it ended: it waits for
    something only the environment can provide *)
Definition watcher_blocked (v : variant) (s : tstate) : bool :=
  match watcher s with
  | Waiting => match tstep v Watch s with Some _ => false | None => true end
  | _ => false
  end.

(** ** the results an execution can return (bounded exhaustive exploration;
    used by the correspondence to compare the implementation's outcome) *)

Definition sstate_eqb (a b : sstate) : bool :=
  match a, b with
  | Running None, Running None => true
  | Running (Some x), Running (Some y) => Nat.eqb x y
  | Stopped x, Stopped y => outcome_eqb x y
  | _, _ => false
  end.
Definition tstate_same_script (a b : tstate) : bool :=
  sstate_eqb (script a) (script b) && Bool.eqb (flag a) (flag b).

Definition add_outcome (o : outcome) (l : list outcome) : list outcome :=
  if existsb (outcome_eqb o) l then l else o :: l.
Definition union_outcomes (a b : list outcome) : list outcome := fold_right add_outcome b a.

Fixpoint explore (v : variant) (fuel : nat) (s : tstate) : list outcome :=
  match returned s with
  | Some o => [o]
  | None =>
      match fuel with
      | O => []
      | S n =>
          let via (l : label) : list outcome :=
            match tstep v l s with
            | Some s' =>
                match l with
                | Tick => if tstate_same_script s s' then [] else explore v n s'   (* skip the self-loop *)
                | _ => explore v n s'
                end
            | None => []
            end in
          union_outcomes (via Expire) (union_outcomes (via Watch) (union_outcomes (via Tick) (via Finish)))
      end
  end.

(** outcomes when the context may end at any time (or never) *)
Definition outcomes (v : variant) (expired : bool) (k : option nat) : list outcome :=
  explore v (match k with Some n => n + 8 | None => 8 end) (init v expired k).

(** outcomes when the context never ends: Expire is not taken *)
Fixpoint explore_noexp (v : variant) (fuel : nat) (s : tstate) : list outcome :=
  match returned s with
  | Some o => [o]
  | None =>
      match fuel with
      | O => []
      | S n =>
          let via (l : label) : list outcome :=
            match tstep v l s with
            | Some s' =>
                match l with
                | Tick => if tstate_same_script s s' then [] else explore_noexp v n s'
                | _ => explore_noexp v n s'
                end
            | None => []
            end in
          union_outcomes (via Watch) (union_outcomes (via Tick) (via Finish))
      end
  end.
Definition outcomes_no_deadline (v : variant) (k : option nat) : list outcome :=
  explore_noexp v (match k with Some n => n + 8 | None => 8 end) (init v false k).
