(** A small generic interleaving semantics (used by the mcrew service model,
    C16 / C14).

    A *request* is a resumption [prog]: either finished with a response
    ([Ret r]) or one *atomic step* on the shared state followed by the rest
    of the request ([Atomic f k]: the state becomes [f s], the request
    continues as [k s], both computed from the state [s] the step found).
    An atomic step stands for a maximal region of the Go code executed under
    one lock.  A *thread* (a client) is the list of requests it issues one
    after the other; a *pool* is a list of threads.  A *schedule* is a list
    of thread indexes: each entry lets that thread take one atomic step.
    When the continuation of a step is [Ret r] the response [r] is recorded
    with that step (event [(thread, r)]).

    Nothing here is specific to mcrew. *)
From Coq Require Export List Arith Bool.
Export ListNotations.

Section Conc.
  Variables (S R : Type).

  Inductive prog : Type :=
  | Ret (r : R)
  | Atomic (f : S -> S) (k : S -> prog).

  Definition thread := list prog.
  Definition pool := list thread.
  Definition event := (nat * R)%type.

  (** one atomic step of a thread *)
  Definition step_thread (s : S) (t : thread) : S * thread * option R :=
    match t with
    | [] => (s, [], None)
    | Ret r :: rest => (s, rest, Some r)
    | Atomic f k :: rest =>
        match k s with
        | Ret r => (f s, rest, Some r)
        | p => (f s, p :: rest, None)
        end
    end.

  Fixpoint set_nth {A : Type} (i : nat) (x : A) (l : list A) : list A :=
    match l, i with
    | [], _ => []
    | _ :: r, O => x :: r
    | y :: r, Datatypes.S j => y :: set_nth j x r
    end.

  Definition ev_of (i : nat) (r : option R) : list event :=
    match r with Some x => [(i, x)] | None => [] end.

  (** the scheduler lets thread [i] take a step (no such thread: nothing) *)
  Definition pick (i : nat) (s : S) (p : pool) : S * pool * list event :=
    match nth_error p i with
    | None => (s, p, [])
    | Some t =>
        let '(s', t', r) := step_thread s t in (s', set_nth i t' p, ev_of i r)
    end.

  Fixpoint run (sched : list nat) (s : S) (p : pool) : S * pool * list event :=
    match sched with
    | [] => (s, p, [])
    | i :: rest =>
        let '(s1, p1, e1) := pick i s p in
        let '(s2, p2, e2) := run rest s1 p1 in
        (s2, p2, e1 ++ e2)
    end.

  Definition run_state (sched : list nat) (s : S) (p : pool) : S := fst (fst (run sched s p)).
  Definition run_pool (sched : list nat) (s : S) (p : pool) : pool := snd (fst (run sched s p)).
  Definition run_events (sched : list nat) (s : S) (p : pool) : list event := snd (run sched s p).

  (** the states reachable from [s0] when the threads of [p0] are interleaved
      in any way (every prefix of every schedule) *)
  Definition reachable (s0 : S) (p0 : pool) (s : S) : Prop :=
    exists sched, run_state sched s0 p0 = s.

  (** every atomic step of the request, whatever it has become, keeps [Inv] *)
  Fixpoint preserves (Inv : S -> Prop) (p : prog) : Prop :=
    match p with
    | Ret _ => True
    | Atomic f k => forall s, Inv s -> Inv (f s) /\ preserves Inv (k s)
    end.

  (** Requests that are one atomic step: a request language [Q] with a
      sequential semantics [sem]. *)
  Section Single.
    Variable Q : Type.
    Variable sem : Q -> S -> S * R.

    Definition single (q : Q) : prog :=
      Atomic (fun s => fst (sem q s)) (fun s => Ret (snd (sem q s))).

    Definition qpool := list (list Q).
    Definition progs_of (p : qpool) : pool := map (map single) p.

    (** the requests in the order in which the schedule takes them, and what
        is left of every thread *)
    Fixpoint order (sched : list nat) (p : qpool) : list (nat * Q) * qpool :=
      match sched with
      | [] => ([], p)
      | i :: rest =>
          match nth_error p i with
          | Some (q :: t) =>
              let '(l, p') := order rest (set_nth i t p) in ((i, q) :: l, p')
          | _ => order rest p
          end
      end.

    (** sequential execution of a list of (client, request) *)
    Fixpoint seq_run (l : list (nat * Q)) (s : S) : S * list event :=
      match l with
      | [] => (s, [])
      | (i, q) :: r =>
          let '(s1, x) := sem q s in
          let '(s2, e) := seq_run r s1 in
          (s2, (i, x) :: e)
      end.

    (** the requests of client [i] within a list of (client, request) *)
    Definition of_client (i : nat) (l : list (nat * Q)) : list Q :=
      map snd (filter (fun e => Nat.eqb (fst e) i) l).
  End Single.
End Conc.

Arguments Ret {S R}.
Arguments Atomic {S R}.
Arguments step_thread {S R}.
Arguments pick {S R}.
Arguments run {S R}.
Arguments run_state {S R}.
Arguments run_pool {S R}.
Arguments run_events {S R}.
Arguments reachable {S R}.
Arguments preserves {S R}.
Arguments single {S R Q}.
Arguments progs_of {S R Q}.
Arguments order {Q}.
Arguments seq_run {S R Q}.
Arguments of_client {Q}.
