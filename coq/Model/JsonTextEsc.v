(** The JSON text fragment *with string escapes*: a second text model next
    to Model/JsonText.v, which it extends conservatively
    (Proofs/JsonTextEscProofs.v).

    [print_esc] models [encoding/json.Marshal] (default settings: HTML
    escaping on) and [parse_esc] models [encoding/json.Unmarshal] into an
    [interface{}].  Numbers, white space and the structure of objects and
    arrays are those of Model/JsonText.v ([print_num], [parse_unsigned],
    [skip_ws], [sep_elems] are imported; [print_l], [parse_val] and their
    helpers call the string code directly, so they are copied here under the
    names [print_l_esc], [parse_val_esc], ... with the string code replaced).

    Strings are byte strings (Go strings).  What is modelled *exactly* is the
    treatment of the bytes 0..127:

    - the encoder (encoding/json/encode.go appendString, go1.22 and later)
      writes the double quote and the backslash with a backslash before them, the bytes 8, 12, 10, 13, 9 as [\b],
      [\f], [\n], [\r], [\t], every other byte below 0x20 as [\u00XX] with
      lower-case hexadecimal digits, and [<], [>], [&] as [\u003c], [\u003e],
      [\u0026]; every other byte below 128, DEL (0x7f) included, is written
      as it is.  (Before go1.22 the encoder wrote [\u0008] and [\u000c] for
      the bytes 8 and 12: the correspondence run would report it.)
    - the decoder (decode.go unquote) accepts inside a string literal the
      escapes backslash + double quote, [\\] [\/] [\b] [\f] [\n] [\r] [\t] and [\uXXXX] (hexadecimal
      digits of either case), and every raw byte from 0x20 on except the double quote and the
      backslash; a raw byte below 0x20, any other character after [\], or fewer
      than four hexadecimal digits after [\u] are errors.

    Outside the fragment: [parse_esc] answers [None] on [\uXXXX] with XXXX >=
    0x80 (Go decodes it to UTF-8, with special rules for surrogates), although
    Go accepts such texts; and bytes from 128 on are copied by both
    functions, which is what Go does for well-formed UTF-8 other than U+2028
    and U+2029 (the encoder writes those two as [\u2028], [\u2029] and writes
    [\ufffd] for bytes that are not UTF-8; the decoder replaces bytes that
    are not UTF-8 by U+FFFD).  The theorems about Go therefore speak of
    strings all of whose bytes are below 128 ([ascii_json]). *)
From Sheens Require Export Model.JsonText.
Local Open Scope char_scope.

(** * The encoder's escapes *)
Definition hex_char (n : nat) : ascii :=
  match n with
  | 0 => "0" | 1 => "1" | 2 => "2" | 3 => "3" | 4 => "4" | 5 => "5" | 6 => "6" | 7 => "7"
  | 8 => "8" | 9 => "9" | 10 => "a" | 11 => "b" | 12 => "c" | 13 => "d" | 14 => "e" | _ => "f"
  end.

(** [\u00XX] *)
Definition u00 (c : ascii) : list ascii :=
  let n := nat_of_ascii c in
  ["\"; "u"; "0"; "0"; hex_char (Nat.div n 16); hex_char (Nat.modulo n 16)].

Definition print_char_esc (c : ascii) : list ascii :=
  match c with
  | """" => ["\"; """"]
  | "\" => ["\"; "\"]
  | "008" => ["\"; "b"]
  | "012" => ["\"; "f"]
  | "010" => ["\"; "n"]
  | "013" => ["\"; "r"]
  | "009" => ["\"; "t"]
  | "<" | ">" | "&" => u00 c
  | _ => if Nat.ltb (nat_of_ascii c) 32 then u00 c else [c]
  end.

Fixpoint esc_chars (s : string) : list ascii :=
  match s with
  | EmptyString => []
  | String c r => print_char_esc c ++ esc_chars r
  end.

Definition print_str_esc (s : string) : list ascii := """" :: esc_chars s ++ [""""].

(** * The decoder's escapes *)
Definition hex_val (c : ascii) : option nat :=
  match c with
  | "0" => Some 0 | "1" => Some 1 | "2" => Some 2 | "3" => Some 3 | "4" => Some 4
  | "5" => Some 5 | "6" => Some 6 | "7" => Some 7 | "8" => Some 8 | "9" => Some 9
  | "a" | "A" => Some 10 | "b" | "B" => Some 11 | "c" | "C" => Some 12
  | "d" | "D" => Some 13 | "e" | "E" => Some 14 | "f" | "F" => Some 15
  | _ => None
  end.

Definition hex4 (h1 h2 h3 h4 : ascii) : option nat :=
  match hex_val h1, hex_val h2, hex_val h3, hex_val h4 with
  | Some a, Some b, Some c, Some d => Some (((a * 16 + b) * 16 + c) * 16 + d)
  | _, _, _, _ => None
  end.

(** the character after a backslash, [u] apart *)
Definition simple_escape (e : ascii) : option ascii :=
  match e with
  | """" => Some """"
  | "\" => Some "\"
  | "/" => Some "/"
  | "b" => Some "008"
  | "f" => Some "012"
  | "n" => Some "010"
  | "r" => Some "013"
  | "t" => Some "009"
  | _ => None
  end.

Definition cons_char (c : ascii) (o : option (string * list ascii)) : option (string * list ascii) :=
  match o with
  | Some (s, rest) => Some (String c s, rest)
  | None => None
  end.

(** the characters up to the closing quote, escapes decoded *)
Fixpoint scan_str_esc (cs : list ascii) : option (string * list ascii) :=
  match cs with
  | [] => None
  | c :: r =>
      if Ascii.eqb c """" then Some (EmptyString, r)
      else if Ascii.eqb c "\" then
             match r with
             | [] => None
             | e :: r1 =>
                 match simple_escape e with
                 | Some d => cons_char d (scan_str_esc r1)
                 | None =>
                     if Ascii.eqb e "u" then
                       match r1 with
                       | h1 :: h2 :: h3 :: h4 :: r2 =>
                           match hex4 h1 h2 h3 h4 with
                           | Some n =>
                               if Nat.ltb n 128 then cons_char (ascii_of_nat n) (scan_str_esc r2)
                               else None                (* outside the fragment *)
                           | None => None
                           end
                       | _ => None
                       end
                     else None
                 end
             end
           else if plain_char c then cons_char c (scan_str_esc r)
                else None                               (* a raw control character *)
  end.

(** a string literal: the opening quote, then [scan_str_esc] (this is what
    [parse_val_esc] below does when a value starts with a quote) *)
Definition parse_string_esc (cs : list ascii) : option (string * list ascii) :=
  match cs with
  | c :: r => if Ascii.eqb c """" then scan_str_esc r else None
  | [] => None
  end.

(** * The printer *)
Section SeparatedEsc.
  Variable pr : json -> list ascii.
  Fixpoint sep_members_esc (r : list (string * json)) : list ascii :=
    match r with
    | [] => ["}"]
    | kv :: r' => "," :: print_str_esc (fst kv) ++ ":" :: pr (snd kv) ++ sep_members_esc r'
    end.
End SeparatedEsc.

Fixpoint print_l_esc (j : json) : list ascii :=
  match j with
  | JNull => chars "null"
  | JBool true => chars "true"
  | JBool false => chars "false"
  | JNum z => print_num z
  | JStr s => print_str_esc s
  | JArr l =>
      "[" :: match l with
             | [] => ["]"]
             | x :: r => print_l_esc x ++ sep_elems print_l_esc r
             end
  | JObj kvs =>
      "{" :: match kvs with
             | [] => ["}"]
             | (k, v) :: r => print_str_esc k ++ ":" :: print_l_esc v ++ sep_members_esc print_l_esc r
             end
  end.

Definition print_esc (j : json) : string := string_of_list_ascii (print_l_esc j).

(** * The parser (the recursion and the fuel of [parse_val]: [fuel] bounds
    the number of values) *)
Fixpoint parse_val_esc (fuel : nat) (cs : list ascii) {struct fuel} : option (json * list ascii) :=
  match fuel with
  | O => None
  | S f =>
      match skip_ws cs with
      | "{" :: r =>
          match skip_ws r with
          | c :: r' => if Ascii.eqb c "}" then Some (JObj [], r') else parse_members_esc f (c :: r') []
          | [] => None
          end
      | "[" :: r =>
          match skip_ws r with
          | c :: r' => if Ascii.eqb c "]" then Some (JArr [], r') else parse_elems_esc f (c :: r') []
          | [] => None
          end
      | """" :: r =>
          match scan_str_esc r with
          | Some (s, r') => Some (JStr s, r')
          | None => None
          end
      | "t" :: "r" :: "u" :: "e" :: r => Some (JBool true, r)
      | "f" :: "a" :: "l" :: "s" :: "e" :: r => Some (JBool false, r)
      | "n" :: "u" :: "l" :: "l" :: r => Some (JNull, r)
      | "-" :: r =>
          match parse_unsigned r with
          | Some (n, r') => Some (JNum (- Z.of_N n), r')
          | None => None
          end
      | c :: r =>
          match parse_unsigned (c :: r) with
          | Some (n, r') => Some (JNum (Z.of_N n), r')
          | None => None
          end
      | [] => None
      end
  end
with parse_elems_esc (fuel : nat) (cs : list ascii) (acc : list json) {struct fuel}
  : option (json * list ascii) :=
  match fuel with
  | O => None
  | S f =>
      match parse_val_esc f cs with
      | Some (v, r) =>
          match skip_ws r with
          | "," :: r' => parse_elems_esc f r' (v :: acc)
          | "]" :: r' => Some (JArr (List.rev (v :: acc)), r')
          | _ => None
          end
      | None => None
      end
  end
with parse_members_esc (fuel : nat) (cs : list ascii) (acc : list (string * json)) {struct fuel}
  : option (json * list ascii) :=
  match fuel with
  | O => None
  | S f =>
      match skip_ws cs with
      | """" :: r =>
          match scan_str_esc r with
          | Some (k, r1) =>
              match skip_ws r1 with
              | ":" :: r2 =>
                  match parse_val_esc f r2 with
                  | Some (v, r3) =>
                      match skip_ws r3 with
                      | "," :: r4 => parse_members_esc f r4 ((k, v) :: acc)
                      | "}" :: r4 => Some (JObj (List.rev ((k, v) :: acc)), r4)
                      | _ => None
                      end
                  | None => None
                  end
              | _ => None
              end
          | None => None
          end
      | _ => None
      end
  end.

(** one value, then nothing but white space *)
Definition parse_chars_esc (cs : list ascii) : option json :=
  match parse_val_esc (S (List.length cs)) cs with
  | Some (j, r) => match skip_ws r with [] => Some j | _ => None end
  | None => None
  end.

Definition parse_esc (s : string) : option json := parse_chars_esc (list_ascii_of_string s).

(** * The fragment on which the model is exact: every byte of every string
    (keys included) is below 128 *)
Definition ascii_char (c : ascii) : bool := Nat.ltb (nat_of_ascii c) 128.

Fixpoint ascii_string (s : string) : bool :=
  match s with
  | EmptyString => true
  | String c r => ascii_char c && ascii_string r
  end.

Fixpoint ascii_json (j : json) : bool :=
  match j with
  | JStr s => ascii_string s
  | JArr l => forallb ascii_json l
  | JObj kvs => forallb (fun kv => ascii_string (fst kv) && ascii_json (snd kv)) kvs
  | _ => true
  end.

(** * The strings the encoder writes without any escape: plain characters
    (Model/JsonText.v) other than [<], [>], [&] *)
Definition noesc_char (c : ascii) : bool :=
  plain_char c && negb (Ascii.eqb c "<" || Ascii.eqb c ">" || Ascii.eqb c "&").

Fixpoint noesc_string (s : string) : bool :=
  match s with
  | EmptyString => true
  | String c r => noesc_char c && noesc_string r
  end.

Fixpoint noesc_json (j : json) : bool :=
  match j with
  | JStr s => noesc_string s
  | JArr l => forallb noesc_json l
  | JObj kvs => forallb (fun kv => noesc_string (fst kv) && noesc_json (snd kv)) kvs
  | _ => true
  end.
