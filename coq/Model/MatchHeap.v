(** Heap-level model of match/match.go (C03: "the given bindings are never
    modified, and each returned set is an independent map").

    [Model/Match.v] works on immutable values, so the aliasing half of C03 is
    vacuous of it.  The Go code works on mutable maps: [Matcher.Match] copies
    the caller's map once, the recursive [match] WRITES into the map it holds
    and returns that very map, and the helpers decide where further copies
    are taken.  This file re-states the matcher, function by function, on a
    heap of bindings maps:

      - a map is an address (a [nat]); the heap is the list of map contents,
        the address being the position, so a fresh address is [hsize];
      - [hcopy]   = Bindings.Copy       (allocates; the only allocation);
      - [hwrite]  = [bs[k] = v]         (in place);
      - [hreturn] records that Matcher.Match returned a list of maps.

    Every function takes the ADDRESS(es) of the map(s) it works on and gives
    back addresses; it copies exactly where the Go code copies and hands the
    same address on exactly where the Go code hands the same map on.  The
    state also carries the log of copies, writes and returns (newest first),
    about which Proofs/MatchHeapProofs.v states the no-late-write property.

    Fuel, [res], the order oracle [ord] and all pure helpers ([index_facts],
    [remove_idx], [get_var], [sort_kvs], ...) are those of Model/Match.v.
    The maps [fxs]/[fxa] built from the message array are values here, as in
    Model/Match.v: they hold message parts, never bindings, and the Go code
    copies them ([copyMap]) before every [delete].

    Correspondence with match.go (line numbers of /repo/match/match.go):
      [hMatch]        Match (404-406): [bindings.Copy()], then [match]
      [hmatch]        match (410-607)
         write #1     [bs[vv] = fact] (501), then [return []Bindings{bs}]
         tail call    [m.match(binding, fact, bindings)] (498): same map
      [hinequal]      inequal (646-732)
         write #2     [bs[vv] = a] (730), then [[]Bindings{bs}]
      [hmwb]          matchWithBindingss (329-342): [m.Match] per map
      [hcopys]        copyBindingss (624-631)
      [hmapcat]       mapcatMatch, constant keys (267-286): no copy of its own
      [hpropvar_loop] mapcatMatch, property variable (231-260):
                      [ext := copyBindingss(bss)] per message key
      [htry_each], [harraycat]  arraycatMatch (296-315):
                      [copyBindingss(bss)] per (bss, structured fact)
      [harr_loop], [hmatch_arr] the array case of match (526-602);
                      [bsss := [][]Bindings{{bindings}}] holds the very map
                      [match] was given; [previous] (589, 595) hands the
                      earlier lists on unchanged; [combine] (609-622) only
                      concatenates. *)
From Sheens Require Export Model.Match.

Definition addr := nat.
Definition heap := list bindings.

Inductive event : Type :=
| EvCopy (src dst : addr)           (* Bindings.Copy: [dst] freshly allocated *)
| EvWrite (a : addr) (k : string)   (* bs[k] = v on the map at [a] *)
| EvReturn (l : list addr).         (* Matcher.Match returned these maps *)

(** the log is kept newest first *)
Record st : Type := mk_st { st_heap : heap; st_log : list event }.

Definition hsize (s : st) : nat := List.length (st_heap s).
Definition hread (s : st) (a : addr) : bindings := nth a (st_heap s) [].

Fixpoint upd (a : addr) (b : bindings) (h : heap) {struct h} : heap :=
  match h with
  | [] => []
  | x :: r => match a with O => b :: r | S a' => x :: upd a' b r end
  end.

(** Bindings.Copy *)
Definition hcopy (a : addr) (s : st) : addr * st :=
  (hsize s, mk_st (st_heap s ++ [hread s a]) (EvCopy a (hsize s) :: st_log s)).

(** bs[k] = v *)
Definition hwrite (a : addr) (k : string) (v : json) (s : st) : st :=
  mk_st (upd a (bset k v (hread s a)) (st_heap s)) (EvWrite a k :: st_log s).

Definition hreturn (r : list addr) (s : st) : st :=
  mk_st (st_heap s) (EvReturn r :: st_log s).

(** copyBindingss *)
Fixpoint hcopys (l : list addr) (s : st) : list addr * st :=
  match l with
  | [] => ([], s)
  | a :: r =>
      let '(d, s1) := hcopy a s in
      let '(ds, s2) := hcopys r s1 in
      (d :: ds, s2)
  end.

(** the recursive [match]: pattern, message, address of the map it may write *)
Definition hrec_t := json -> json -> addr -> st -> res (list addr) * st.

(** Matcher.Match: copy, then match on the copy *)
Definition hMatch (rec : hrec_t) (p f : json) (a : addr) (s : st) : res (list addr) * st :=
  let '(a', s1) := hcopy a s in
  let '(r, s2) := rec p f a' s1 in
  match r with
  | Ok l => (Ok l, hreturn l s2)
  | Err => (Err, s2)
  | Fuel => (Fuel, s2)
  end.

(** inequal *)
Inductive hineq_res : Type :=
| HNotUsing
| HUsing (r : list addr).

Definition hinequal (f : json) (a : addr) (v : string) (s : st) : hineq_res * st :=
  if negb inequalities then (HNotUsing, s) else
  match lookup v (hread s a) with
  | Some (JNum b) =>
      match f with
      | JNum x =>
          match ineq_parse v with
          | Some (op, vv) =>
              if sat op x b then
                match lookup vv (hread s a) with
                | Some (JNum c) => if Z.eqb c x then (HUsing [a], s) else (HUsing [], s)
                | Some _ => (HNotUsing, s)
                | None => (HUsing [a], hwrite a vv (JNum x) s)
                end
              else (HUsing [], s)
          | None => (HNotUsing, s)
          end
      | _ => (HNotUsing, s)
      end
  | _ => (HNotUsing, s)
  end.

Definition hpair_t : Type := (list addr * list (nat * json))%type.

Section WithOrder.
Variable ord : order_oracle.

(** matchWithBindingss *)
Fixpoint hmwb (rec : hrec_t) (bss : list addr) (p f : json) (s : st) : res (list addr) * st :=
  match bss with
  | [] => (Ok [], s)
  | a :: r =>
      let '(r1, s1) := hMatch rec p f a s in
      match r1 with
      | Ok x =>
          let '(r2, s2) := hmwb rec r p f s1 in
          match r2 with
          | Ok y => (Ok (x ++ y), s2)
          | Err => (Err, s2)
          | Fuel => (Fuel, s2)
          end
      | Err => (Err, s1)
      | Fuel => (Fuel, s1)
      end
  end.

(** mapcatMatch, constant keys *)
Fixpoint hmapcat (rec : hrec_t) (bss : list addr) (kvs fkvs : list (string * json)) (s : st)
  : res (list addr) * st :=
  match kvs with
  | [] => (Ok bss, s)
  | (k, v) :: r =>
      match assoc k fkvs with
      | None => if is_optional_json v then hmapcat rec bss r fkvs s else (Ok [], s)
      | Some fv =>
          let '(r1, s1) := hmwb rec bss v fv s in
          match r1 with
          | Ok [] => (Ok [], s1)
          | Ok acc => hmapcat rec acc r fkvs s1
          | Err => (Err, s1)
          | Fuel => (Fuel, s1)
          end
      end
  end.

(** mapcatMatch, the single property variable *)
Fixpoint hpropvar_loop (rec : hrec_t) (bss : list addr) (k : string) (v : json)
         (fkvs : list (string * json)) (s : st) : res (list addr) * st :=
  match fkvs with
  | [] => (Ok [], s)
  | (fk, fv) :: r =>
      let '(ext, s1) := hcopys bss s in
      let '(r1, s2) := hmwb rec ext (JStr k) (JStr fk) s1 in
      match r1 with
      | Ok [] => hpropvar_loop rec bss k v r s2
      | Ok ext1 =>
          let '(r2, s3) := hmwb rec ext1 v fv s2 in
          match r2 with
          | Ok ext2 =>
              let '(r3, s4) := hpropvar_loop rec bss k v r s3 in
              match r3 with
              | Ok g => (Ok (ext2 ++ g), s4)
              | Err => (Err, s4)
              | Fuel => (Fuel, s4)
              end
          | Err => (Err, s3)
          | Fuel => (Fuel, s3)
          end
      | Err => (Err, s2)
      | Fuel => (Fuel, s2)
      end
  end.

Definition hpropvar (rec : hrec_t) (bss : list addr) (k : string) (v : json)
           (fkvs : list (string * json)) (s : st) : res (list addr) * st :=
  hpropvar_loop rec bss k v (ord _ fkvs) s.

Definition hmatch_obj (rec : hrec_t) (a : addr) (kvs fkvs : list (string * json)) (s : st)
  : res (list addr) * st :=
  match kvs with
  | [] => (Ok [a], s)
  | [(k, v)] =>
      if is_var k then
        if allow_property_variables then hpropvar rec [a] k v fkvs s else (Err, s)
      else hmapcat rec [a] kvs fkvs s
  | _ =>
      if check_bad_property_variables && has_var_key kvs then (Err, s)
      else if has_var_key kvs then (Err, s)
      else hmapcat rec [a] (sort_kvs kvs) fkvs s
  end.

(** inner loop of arraycatMatch for one (bss, mm) pair *)
Fixpoint htry_each (rec : hrec_t) (bss : list addr) (x : json)
         (mm_all mm : list (nat * json)) (s : st) : res (list hpair_t) * st :=
  match mm with
  | [] => (Ok [], s)
  | (j, fact) :: r =>
      let '(cp, s1) := hcopys bss s in
      let '(r1, s2) := hmwb rec cp x fact s1 in
      match r1 with
      | Ok acc =>
          let '(r2, s3) := htry_each rec bss x mm_all r s2 in
          match r2 with
          | Ok rest =>
              (Ok (match acc with
                   | [] => rest
                   | _ => (acc, remove_idx j mm_all) :: rest
                   end), s3)
          | Err => (Err, s3)
          | Fuel => (Fuel, s3)
          end
      | Err => (Err, s2)
      | Fuel => (Fuel, s2)
      end
  end.

Fixpoint harraycat (rec : hrec_t) (pairs : list hpair_t) (x : json) (s : st)
  : res (list hpair_t) * st :=
  match pairs with
  | [] => (Ok [], s)
  | (bss, mm) :: r =>
      let '(r1, s1) := htry_each rec bss x mm (ord _ mm) s in
      match r1 with
      | Ok a =>
          let '(r2, s2) := harraycat rec r x s1 in
          match r2 with
          | Ok b => (Ok (a ++ b), s2)
          | Err => (Err, s2)
          | Fuel => (Fuel, s2)
          end
      | Err => (Err, s1)
      | Fuel => (Fuel, s1)
      end
  end.

Fixpoint harr_loop (rec : hrec_t) (fxa_empty : bool) (xs fxs : list json)
         (pairs : list hpair_t) (s : st) : res (option (list json * list hpair_t)) * st :=
  match xs with
  | [] => (Ok (Some (fxs, pairs)), s)
  | x :: r =>
      if is_scalar x then
        if jmem x fxs then harr_loop rec fxa_empty r (jremove x fxs) pairs s
        else (Ok None, s)
      else if fxa_empty then (Ok None, s)
      else
        let '(r1, s1) := harraycat rec pairs x s in
        match r1 with
        | Ok [] => (Ok None, s1)
        | Ok np => harr_loop rec fxa_empty r fxs np s1
        | Err => (Err, s1)
        | Fuel => (Fuel, s1)
        end
  end.

(** combine *)
Definition hcombine (pairs : list hpair_t) : list addr := List.concat (map fst pairs).

Definition hmatch_arr (rec : hrec_t) (a : addr) (xs : list json) (f : json) (s : st)
  : res (list addr) * st :=
  match get_var xs None with
  | None => (Err, s)
  | Some (v, cs) =>
      match f with
      | JArr fa =>
          let '(fxs, fxa) := index_facts 0 fa in
          let '(r1, s1) := harr_loop rec (match fxa with [] => true | _ => false end)
                                     cs fxs [([a], fxa)] s in
          match r1 with
          | Ok None => (Ok [], s1)
          | Ok (Some (fxs', pairs)) =>
              let merged :=
                map (fun pr : hpair_t =>
                       (fst pr, snd pr ++ number_from (List.length fa) fxs')) pairs in
              match v with
              | None => (Ok (hcombine merged), s1)
              | Some vname =>
                  let '(r2, s2) := harraycat rec merged (JStr vname) s1 in
                  match r2 with
                  | Ok [] =>
                      if is_optional vname then (Ok (hcombine merged), s2) else (Ok [], s2)
                  | Ok np => (Ok (hcombine np), s2)
                  | Err => (Err, s2)
                  | Fuel => (Fuel, s2)
                  end
              end
          | Err => (Err, s1)
          | Fuel => (Fuel, s1)
          end
      | _ => (Ok [], s)
      end
  end.

(** the bound-variable case: [m.match(binding, fact, bindings)] is a call of
    [match], not of [Match]: the same map is handed on *)
Definition hbound_match (rec : hrec_t) (b f : json) (a : addr) (s : st) : res (list addr) * st :=
  match b with
  | JStr t =>
      if is_var t then
        match f with
        | JStr u => if String.eqb t u then (Ok [a], s) else (Ok [], s)
        | _ => (Ok [], s)
        end
      else rec b f a s
  | _ => rec b f a s
  end.

Fixpoint hmatch (fuel : nat) (p f : json) (a : addr) (s : st) {struct fuel}
  : res (list addr) * st :=
  match fuel with
  | O => (Fuel, s)
  | S n =>
      match p with
      | JNull => match f with JNull => (Ok [a], s) | _ => (Ok [], s) end
      | JBool x =>
          match f with
          | JBool y => if Bool.eqb x y then (Ok [a], s) else (Ok [], s)
          | _ => (Ok [], s)
          end
      | JNum x =>
          match f with
          | JNum y => if Z.eqb x y then (Ok [a], s) else (Ok [], s)
          | _ => (Ok [], s)
          end
      | JStr v =>
          if is_var v then
            if is_anon v then (Ok [a], s)
            else
              let '(iq, s1) := hinequal f a v s in
              match iq with
              | HUsing r => (Ok r, s1)
              | HNotUsing =>
                  match lookup v (hread s1 a) with
                  | Some b => hbound_match (hmatch n) b f a s1
                  | None => (Ok [a], hwrite a v f s1)
                  end
              end
          else
            match f with
            | JStr t => if String.eqb v t then (Ok [a], s) else (Ok [], s)
            | _ => (Ok [], s)
            end
      | JObj kvs =>
          match f with
          | JObj fkvs => hmatch_obj (hmatch n) a kvs fkvs s
          | _ => (Ok [], s)
          end
      | JArr xs => hmatch_arr (hmatch n) a xs f s
      end
  end.

(** the API entry point on an arbitrary heap: the caller's map is at [c] *)
Definition hMatch_at (fuel : nat) (p f : json) (c : addr) (s : st) : res (list addr) * st :=
  hMatch (hmatch fuel) p f c s.

End WithOrder.

(** the caller's bindings live at address 0 of an otherwise empty heap *)
Definition caller_addr : addr := 0.
Definition init_st (bs : bindings) : st := mk_st [bs] [].

Definition HMatch (p f : json) (bs : bindings) : res (list addr) * st :=
  hMatch_at ord_id default_fuel p f caller_addr (init_st bs).

(** the addresses a run returned (none on an error or on exhausted fuel) *)
Definition res_addrs (r : res (list addr)) : list addr :=
  match r with Ok l => l | _ => [] end.

(** reading a result back *)
Definition read_all (s : st) (l : list addr) : list bindings := map (hread s) l.
Definition read_res (o : res (list addr) * st) : res (list bindings) :=
  match fst o with
  | Ok l => Ok (read_all (snd o) l)
  | Err => Err
  | Fuel => Fuel
  end.

(** the log in chronological order *)
Definition chron (s : st) : list event := rev (st_log s).
