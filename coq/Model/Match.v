(** Model of match/match.go (Matcher.Match with DefaultMatcher's switches),
    function by function.  Recursion is on explicit fuel because a bound
    value is re-matched *as a pattern* ([match_] on [lookup v bs]), which is
    not structural.  [Fuel] is a distinct outcome and never a normal result.

    Go map iteration: after the repair of D10 the pattern's keys are visited
    in sorted order ([sort_kvs]); the other ranges (fact keys in the
    property-variable case, the indexed structured facts, the scalar set)
    go through the order oracle [ord] (any function returning a permutation
    of its argument): theorems quantify over it, execution instantiates it
    with the identity.  (The labels given to left-over scalar facts when they
    are merged back are never observed and are assigned in list order.) *)
From Sheens Require Export Model.Bindings.
From Coq Require Export Permutation.

Inductive res (A : Type) : Type :=
| Ok (a : A)
| Err
| Fuel.
Arguments Ok {A} a.
Arguments Err {A}.
Arguments Fuel {A}.

Definition rec_t := json -> json -> bindings -> res (list bindings).

(** * Inequalities (match.go, inequal) *)

Fixpoint drop (n : nat) (s : string) : string :=
  match n, s with
  | O, _ => s
  | S n', String _ r => drop n' r
  | S _, EmptyString => EmptyString
  end.

(** first operator of the table that is a prefix of [rest] *)
Fixpoint find_op (ops : list string) (rest : string) : option (string * string) :=
  match ops with
  | [] => None
  | op :: r =>
      if String.prefix op rest
      then Some (op, var_sigil ++ drop (String.length op) rest)%string
      else find_op r rest
  end.

Definition ineq_parse (v : string) : option (string * string) :=
  match v with
  | EmptyString => None
  | String c rest =>
      if negb (String.prefix var_sigil v) then None
      else if Nat.leb (String.length v) 2 then None
      else find_op ineq_ops rest
  end.

Definition sat (op : string) (a b : Z) : bool :=
  if String.eqb op "<" then Z.ltb a b
  else if String.eqb op "<=" then Z.leb a b
  else if String.eqb op ">" then Z.ltb b a
  else if String.eqb op ">=" then Z.leb b a
  else if String.eqb op "!=" then negb (Z.eqb a b)
  else false.

Inductive ineq_res : Type :=
| NotUsing
| Using (r : list bindings).

Definition inequal (f : json) (bs : bindings) (v : string) : ineq_res :=
  if negb inequalities then NotUsing else
  match lookup v bs with
  | Some (JNum b) =>
      match f with
      | JNum a =>
          match ineq_parse v with
          | Some (op, vv) =>
              if sat op a b then
                match lookup vv bs with
                | Some (JNum c) => if Z.eqb c a then Using [bs] else Using []
                | Some _ => NotUsing
                | None => Using [bset vv (JNum a) bs]
                end
              else Using []
          | None => NotUsing
          end
      | _ => NotUsing
      end
  | _ => NotUsing
  end.

(** * Helpers with open recursion ([rec] is [match_ n]) *)

Definition order_oracle := forall A : Type, list A -> list A.
Definition ord_id : order_oracle := fun _ l => l.
(** what theorems assume of an oracle: it only reorders *)
Definition perm_oracle (ord : order_oracle) : Prop :=
  forall (A : Type) (l : list A), Permutation (ord A l) l.

Section WithOrder.
Variable ord : order_oracle.

(** matchWithBindingss *)
Fixpoint mwb (rec : rec_t) (bss : list bindings) (p f : json) : res (list bindings) :=
  match bss with
  | [] => Ok []
  | bs :: r =>
      match rec p f bs with
      | Ok a =>
          match mwb rec r p f with
          | Ok b => Ok (a ++ b)
          | Err => Err
          | Fuel => Fuel
          end
      | Err => Err
      | Fuel => Fuel
      end
  end.

(** pattern keys in sorted order (insertion sort on the key) *)
Fixpoint insert_kv (kv : string * json) (l : list (string * json)) : list (string * json) :=
  match l with
  | [] => [kv]
  | kv' :: r => if String.leb (fst kv) (fst kv') then kv :: l else kv' :: insert_kv kv r
  end.
Definition sort_kvs (l : list (string * json)) : list (string * json) :=
  fold_right insert_kv [] l.

(** mapcatMatch, constant keys *)
Fixpoint mapcat (rec : rec_t) (bss : list bindings) (kvs fkvs : list (string * json))
  : res (list bindings) :=
  match kvs with
  | [] => Ok bss
  | (k, v) :: r =>
      match assoc k fkvs with
      | None => if is_optional_json v then mapcat rec bss r fkvs else Ok []
      | Some fv =>
          match mwb rec bss v fv with
          | Ok [] => Ok []
          | Ok acc => mapcat rec acc r fkvs
          | Err => Err
          | Fuel => Fuel
          end
      end
  end.

(** mapcatMatch, the single property variable: gather over every fact key *)
Fixpoint propvar_loop (rec : rec_t) (bss : list bindings) (k : string) (v : json)
         (fkvs : list (string * json)) : res (list bindings) :=
  match fkvs with
  | [] => Ok []
  | (fk, fv) :: r =>
      match mwb rec bss (JStr k) (JStr fk) with
      | Ok [] => propvar_loop rec bss k v r
      | Ok ext =>
          match mwb rec ext v fv with
          | Ok ext2 =>
              match propvar_loop rec bss k v r with
              | Ok g => Ok (ext2 ++ g)
              | Err => Err
              | Fuel => Fuel
              end
          | Err => Err
          | Fuel => Fuel
          end
      | Err => Err
      | Fuel => Fuel
      end
  end.

Definition propvar (rec : rec_t) (bss : list bindings) (k : string) (v : json)
           (fkvs : list (string * json)) : res (list bindings) :=
  propvar_loop rec bss k v (ord _ fkvs).

Definition has_var_key (kvs : list (string * json)) : bool :=
  existsb (fun kv => is_var (fst kv)) kvs.

Definition match_obj (rec : rec_t) (bs : bindings) (kvs fkvs : list (string * json))
  : res (list bindings) :=
  match kvs with
  | [] => Ok [bs]
  | [(k, v)] =>
      if is_var k then
        if allow_property_variables then propvar rec [bs] k v fkvs else Err
      else mapcat rec [bs] kvs fkvs
  | _ =>
      if check_bad_property_variables && has_var_key kvs then Err
      else if has_var_key kvs then Err
      else mapcat rec [bs] (sort_kvs kvs) fkvs
  end.

(** getVariable: the first variable and the non-variables; None = error *)
Fixpoint get_var (xs : list json) (v : option string) : option (option string * list json) :=
  match xs with
  | [] => Some (v, [])
  | x :: r =>
      match x with
      | JStr s =>
          if is_var s then
            match v with
            | None => get_var r (Some s)
            | Some _ => None
            end
          else
            match get_var r v with
            | Some (v', acc) => Some (v', x :: acc)
            | None => None
            end
      | _ =>
          match get_var r v with
          | Some (v', acc) => Some (v', x :: acc)
          | None => None
          end
      end
  end.

Definition jmem (x : json) (l : list json) : bool := existsb (json_eqb x) l.
Fixpoint jremove (x : json) (l : list json) : list json :=
  match l with
  | [] => []
  | y :: r => if json_eqb x y then jremove x r else y :: jremove x r
  end.

(** fxs: the set of scalar facts; fxa: structured facts by index *)
Fixpoint index_facts (i : nat) (fa : list json) : list json * list (nat * json) :=
  match fa with
  | [] => ([], [])
  | y :: r =>
      let '(fxs, fxa) := index_facts (S i) r in
      if is_scalar y
      then ((if jmem y fxs then fxs else y :: fxs), fxa)
      else (fxs, (i, y) :: fxa)
  end.

Definition remove_idx (j : nat) (mm : list (nat * json)) : list (nat * json) :=
  filter (fun e => negb (Nat.eqb (fst e) j)) mm.

Definition pair_t : Type := (list bindings * list (nat * json))%type.

(** inner loop of arraycatMatch for one (bss, mm) pair *)
Fixpoint try_each (rec : rec_t) (bss : list bindings) (x : json)
         (mm_all mm : list (nat * json)) : res (list pair_t) :=
  match mm with
  | [] => Ok []
  | (j, fact) :: r =>
      match mwb rec bss x fact with
      | Ok acc =>
          match try_each rec bss x mm_all r with
          | Ok rest =>
              Ok (match acc with
                  | [] => rest
                  | _ => (acc, remove_idx j mm_all) :: rest
                  end)
          | Err => Err
          | Fuel => Fuel
          end
      | Err => Err
      | Fuel => Fuel
      end
  end.

Fixpoint arraycat (rec : rec_t) (pairs : list pair_t) (x : json) : res (list pair_t) :=
  match pairs with
  | [] => Ok []
  | (bss, mm) :: r =>
      match try_each rec bss x mm (ord _ mm) with
      | Ok a =>
          match arraycat rec r x with
          | Ok b => Ok (a ++ b)
          | Err => Err
          | Fuel => Fuel
          end
      | Err => Err
      | Fuel => Fuel
      end
  end.

(** the loop over the non-variable pattern elements; [Ok None] = no match *)
Fixpoint arr_loop (rec : rec_t) (fxa_empty : bool) (xs fxs : list json)
         (pairs : list pair_t) : res (option (list json * list pair_t)) :=
  match xs with
  | [] => Ok (Some (fxs, pairs))
  | x :: r =>
      if is_scalar x then
        if jmem x fxs then arr_loop rec fxa_empty r (jremove x fxs) pairs
        else Ok None
      else if fxa_empty then Ok None
      else
        match arraycat rec pairs x with
        | Ok [] => Ok None
        | Ok np => arr_loop rec fxa_empty r fxs np
        | Err => Err
        | Fuel => Fuel
        end
  end.

Fixpoint number_from (i : nat) (l : list json) : list (nat * json) :=
  match l with
  | [] => []
  | x :: r => (i, x) :: number_from (S i) r
  end.

Definition combine_pairs (pairs : list pair_t) : list bindings :=
  List.concat (map fst pairs).

Definition match_arr (rec : rec_t) (bs : bindings) (xs : list json) (f : json)
  : res (list bindings) :=
  match get_var xs None with
  | None => Err
  | Some (v, cs) =>
      match f with
      | JArr fa =>
          let '(fxs, fxa) := index_facts 0 fa in
          match arr_loop rec (match fxa with [] => true | _ => false end)
                         cs fxs [([bs], fxa)] with
          | Ok None => Ok []
          | Ok (Some (fxs', pairs)) =>
              let merged :=
                map (fun pr : pair_t =>
                       (fst pr, snd pr ++ number_from (List.length fa) fxs')) pairs in
              match v with
              | None => Ok (combine_pairs merged)
              | Some vname =>
                  match arraycat rec merged (JStr vname) with
                  | Ok [] =>
                      if is_optional vname then Ok (combine_pairs merged) else Ok []
                  | Ok np => Ok (combine_pairs np)
                  | Err => Err
                  | Fuel => Fuel
                  end
              end
          | Err => Err
          | Fuel => Fuel
          end
      | _ => Ok []
      end
  end.

(** a variable that is already bound: its value is matched as a pattern
    against the message part - except that a bound value which is itself a
    variable name is data (it was taken from a message) and is compared
    literally *)
Definition bound_match (rec : rec_t) (b f : json) (bs : bindings) : res (list bindings) :=
  match b with
  | JStr t =>
      if is_var t then
        match f with
        | JStr u => if String.eqb t u then Ok [bs] else Ok []
        | _ => Ok []
        end
      else rec b f bs
  | _ => rec b f bs
  end.

(** * match (the recursive matcher) *)
Fixpoint match_ (fuel : nat) (p f : json) (bs : bindings) {struct fuel}
  : res (list bindings) :=
  match fuel with
  | O => Fuel
  | S n =>
      match p with
      | JNull => match f with JNull => Ok [bs] | _ => Ok [] end
      | JBool x => match f with JBool y => if Bool.eqb x y then Ok [bs] else Ok [] | _ => Ok [] end
      | JNum x => match f with JNum y => if Z.eqb x y then Ok [bs] else Ok [] | _ => Ok [] end
      | JStr s =>
          if is_var s then
            if is_anon s then Ok [bs]
            else
              match inequal f bs s with
              | Using r => Ok r
              | NotUsing =>
                  match lookup s bs with
                  | Some b => bound_match (match_ n) b f bs
                  | None => Ok [bset s f bs]
                  end
              end
          else
            match f with
            | JStr t => if String.eqb s t then Ok [bs] else Ok []
            | _ => Ok []
            end
      | JObj kvs =>
          match f with
          | JObj fkvs => match_obj (match_ n) bs kvs fkvs
          | _ => Ok []
          end
      | JArr xs => match_arr (match_ n) bs xs f
      end
  end.

End WithOrder.

(** Matcher.Match: the API entry point (the defensive copy of the given
    bindings is the identity on an immutable value; a nil map is empty). *)
Definition default_fuel : nat := 200.
Definition Match (p f : json) (bs : bindings) : res (list bindings) :=
  match_ ord_id default_fuel p f bs.
