(** Model of core/step.go and core/actions.go (as repaired by the fix commits
    D1-D4, D8): FuncAction.Exec, Spec.Step, Branches.consider, Branch.try,
    Branch.target, Spec.Walk.  One definition per Go function.

    Actions and guards are abstract: a type [action] and a function [run]
    giving what the wrapped Go function F returns (an Execution or nil, an
    error or nil).  Theorems hold for every [run]; execution instantiates it
    with the action language of Model/Action.v.  Step properties are constant
    context and folded into [run].  Traces are not modelled.

    nil-ness of bindings is modelled ([option bindings]) because the guard
    protocol and several crash paths live there.  Error *texts* are
    normalised to [err_text] except the one literal the engine itself
    writes. *)
From Sheens Require Export Model.Match.
From Sheens Require Export Gen.Names.

(** what F returned *)
Record exec_raw : Type := mk_raw {
  xr_exe : option (option bindings * list json);  (* Execution: Bs (may be nil), emitted *)
  xr_err : bool                                    (* a non-nil error *)
}.

Record state : Type := mk_state { st_node : string; st_bs : option bindings }.

Record stride : Type := mk_stride {
  sd_from : state;
  sd_to : option state;
  sd_consumed : option json;
  sd_emitted : list json
}.

Inductive step_err : Type :=
| ENotCompiled | EUnknownNode | EUncompiledAction | EBadBranching
| ETooMany | EAction | EGuard | EMatch | EFuel.

Inductive stop_reason : Type := Done | Limited | InternalError | BreakpointReached.

Record walked : Type := mk_walked {
  w_strides : list stride;
  w_remaining : list json;
  w_stopped : stop_reason
}.

Definition err_text : json := JStr "<err>".
Definition no_branch_text : json := JStr "Action node followed no branch".
(** The node name and the binding names Spec.Step and Spec.Walk write when a
    stride ends in an error are not written here: they are read from the
    source of the tree under test (Gen/Names.v, written by
    harness/cmd/genconsts on every run: the literals given to Extend /
    Extendm and to State{NodeName: ...} in the two functions, which must
    agree between the two).  Spec/StepRule.v states the rule with the
    documented names; Proofs/StepFacts.v ([error_names_documented]) and the
    proofs of Proofs/StepRuleProofs.v tie the two. *)
Definition error_node_literal : string := step_error_node.

(** Bindings.Copy: a nil map copies to an empty one *)
Definition copy_bs (b : option bindings) : bindings :=
  match b with Some x => x | None => [] end.
Definition copy_state (s : state) : state := mk_state (st_node s) (Some (copy_bs (st_bs s))).

Definition has_suffix (suf s : string) : bool :=
  Nat.leb (String.length suf) (String.length s) &&
  String.eqb (substring (String.length s - String.length suf) (String.length suf) s) suf.
Definition is_permanent (k : string) : bool := has_suffix perm_sigil k.

Definition permanent_of (bs : option bindings) : bindings :=
  if exp_permanent_bindings
  then filter (fun kv : string * json => is_permanent (fst kv)) (copy_bs bs)
  else [].
Definition restore (perm b : bindings) : bindings :=
  fold_left (fun acc (kv : string * json) => bset (fst kv) (snd kv) acc) perm b.

Definition is_target_var (s : string) : bool := String.prefix target_sigil s && negb (String.eqb s "").

Section Engine.
  Variable action : Type.
  Variable run : action -> option bindings -> exec_raw.

  Record branch : Type := mk_branch {
    br_pattern : option json;
    br_guard : option action;
    br_target : string
  }.
  Record branching : Type := mk_branching { bg_type : string; bg_branches : list branch }.
  Record node : Type := mk_node {
    nd_action : option action;
    nd_uncompiled : bool;          (* an ActionSource without a compiled Action *)
    nd_branching : option branching
  }.
  Record spec : Type := mk_spec {
    sp_nodes : list (string * node);
    sp_err_branches : bool;        (* ActionErrorBranches *)
    sp_err_node : string;          (* ActionErrorNode *)
    sp_compiled : bool
  }.

  Fixpoint find_node (name : string) (ns : list (string * node)) : option node :=
    match ns with
    | [] => None
    | (k, n) :: r => if String.eqb name k then Some n else find_node name r
    end.

  (** FuncAction.Exec: gather permanent bindings, call F, write them back
      into a non-nil result; a nil Execution becomes an empty one *)
  Definition func_exec (a : action) (bs : option bindings)
    : (option bindings * list json) * bool :=
    let r := run a bs in
    let perm := permanent_of bs in
    match xr_exe r with
    | None => ((None, []), xr_err r)
    | Some (ob, em) => ((option_map (restore perm) ob, em), xr_err r)
    end.

  (** Branch.target *)
  Definition target (b : branch) (bs : bindings) : string :=
    if (match bs with [] => false | _ => true end) && is_target_var (br_target b) then
      match lookup (drop 1 (br_target b)) bs with
      | Some (JStr s) => s
      | _ => br_target b
      end
    else br_target b.

  Inductive try_res : Type :=
  | TNone
  | TTo (s : state)
  | TErr (e : step_err).

  (** the guard loop of Branch.try: candidates in order until one is accepted *)
  Fixpoint guard_loop (g : action) (cands : list (option bindings))
    : option (option bindings) (* None = guard error; Some None = all rejected *) :=
    match cands with
    | [] => Some None
    | c :: r =>
        let '((ob, _), err) := func_exec g c in
        if err then None
        else match ob with
             | Some b => Some (Some b)
             | None => guard_loop g r
             end
    end.

  (** what a guard says about one candidate, taken alone *)
  Inductive guard_says : Type := GAccept (b : bindings) | GReject | GFail.
  Definition guard_on (g : action) (c : option bindings) : guard_says :=
    let '((ob, _), err) := func_exec g c in
    if err then GFail else match ob with Some b => GAccept b | None => GReject end.
  Definition guard_says_eqb (x y : guard_says) : bool :=
    match x, y with
    | GAccept a, GAccept b => bindings_eqb a b
    | GReject, GReject | GFail, GFail => true
    | _, _ => false
    end.
  (** the outcome of the guard loop does not depend on the order of the
      candidates: all candidates the guard does not reject say the same *)
  Definition guard_order_free (g : action) (cs : list (option bindings)) : bool :=
    match filter (fun r => negb (guard_says_eqb r GReject)) (map (guard_on g) cs) with
    | [] => true
    | r :: rest => forallb (guard_says_eqb r) rest
    end.

  (** Branch.try.  The second component says that a guard saw several
      candidates AND its verdict depends on the order in which it sees them
      (the choice among several acceptable candidates is documented as
      arbitrary; everything else is determined). *)
  Definition try_branch (b : branch) (bs : option bindings) (against : json)
    : try_res * bool :=
    let cands : res (list (option bindings)) :=
      match br_pattern b with
      | Some p =>
          match Match p against (copy_bs bs) with
          | Ok r => Ok (map Some r)
          | Err => Err
          | Fuel => Fuel
          end
      | None => Ok [bs]
      end in
    match cands with
    | Err => (TErr EMatch, false)
    | Fuel => (TErr EFuel, false)
    | Ok cs =>
        let ambiguous :=
          match br_guard b, cs with
          | Some g, _ :: _ :: _ => negb (guard_order_free g cs)
          | _, _ => false
          end in
        let chosen : option (option bindings) :=
          match br_guard b with
          | None =>
              match cs with
              | [] => Some None
              | [c] => Some c
              | _ => None
              end
          | Some g => guard_loop g cs
          end in
        match chosen with
        | None => (TErr (match br_guard b with None => ETooMany | Some _ => EGuard end), ambiguous)
        | Some None => (TNone, ambiguous)
        | Some (Some bs') => (TTo (mk_state (target b bs') (Some bs')), ambiguous)
        end
    end.

  Fixpoint first_branch (brs : list branch) (bs : option bindings) (against : json)
    : try_res * bool :=
    match brs with
    | [] => (TNone, false)
    | b :: r =>
        match try_branch b bs against with
        | (TNone, amb) => let '(t, amb') := first_branch r bs against in (t, amb || amb')
        | other => other
        end
    end.

  (** Branches.consider: (result, consumer flag, ambiguous) *)
  Definition consider (bg : option branching) (bs : option bindings) (pending : option json)
    : try_res * bool * bool :=
    match bg with
    | None => (TNone, false, false)
    | Some b =>
        let consumer := String.eqb (bg_type b) "message" in
        if consumer then
          match pending with
          | None => (TNone, true, false)
          | Some m => let '(t, amb) := first_branch (bg_branches b) bs m in (t, true, amb)
          end
        else
          let '(t, amb) := first_branch (bg_branches b) bs (JObj (copy_bs bs)) in (t, false, amb)
    end.

  Definition error_bindings (base : bindings) (text : json) (from : state) : bindings :=
    bset step_last_bindings_key (JObj (copy_bs (st_bs from)))
      (bset step_last_node_key (JStr (st_node from)) (bset step_error_key text base)).

  Record step_out : Type := mk_step_out {
    so_stride : option stride;
    so_err : option step_err;
    so_ambiguous : bool
  }.

  (** Spec.Step *)
  Definition step (s : spec) (st : state) (pending : option json) : step_out :=
    if negb (sp_compiled s) then mk_step_out None (Some ENotCompiled) false else
    match find_node (st_node st) (sp_nodes s) with
    | None => mk_step_out None (Some EUnknownNode) false
    | Some n =>
        let have := match nd_action n with Some _ => true | None => false end in
        if negb have && nd_uncompiled n then mk_step_out None (Some EUncompiledAction) false else
        if have && match nd_branching n with
                   | Some b => String.eqb (bg_type b) "message"
                   | None => false
                   end
        then mk_step_out None (Some EBadBranching) false else
        let from := copy_state st in
        (* the branches are considered with [bs]; [emitted] is what the action added *)
        let continue (bs : option bindings) (emitted : list json) : step_out :=
          let '(tr, consumer, amb) := consider (nd_branching n) bs pending in
          let consumed := if consumer then pending else None in
          match tr with
          | TTo st' =>
              mk_step_out (Some (mk_stride from (Some (copy_state st')) consumed emitted)) None amb
          | _ =>
              let err := match tr with TErr e => Some e | _ => None end in
              let to :=
                if have then
                  Some (mk_state error_node_literal
                                 (Some (error_bindings (copy_bs bs) no_branch_text st)))
                else None in
              mk_step_out (Some (mk_stride from to consumed emitted)) err amb
          end in
        match nd_action n with
        | None => continue (st_bs st) []
        | Some a =>
            let '((ob, emitted), err) := func_exec a (st_bs st) in
            let ebs := copy_bs ob in          (* nil bindings from an action become empty *)
            if negb err then continue (Some ebs) emitted
            else
              let bs := bset step_error_key err_text (bset step_action_error_key err_text (copy_bs (st_bs st))) in
              if negb (sp_err_branches s) then
                if String.eqb (sp_err_node s) "" then mk_step_out None (Some EAction) false
                else mk_step_out
                       (Some (mk_stride from (Some (mk_state (sp_err_node s) (Some bs))) None emitted))
                       None false
              else continue (Some bs) emitted
        end
    end.

  (** Spec.Walk.  [bp] is the disjunction of the control's breakpoints. *)
  Section Walk.
    Variable s : spec.
    Variable bp : state -> bool.

    Definition peek (pendings : list json) : option json :=
      match pendings with
      | [] => None
      | JNull :: _ => None          (* a null message is no message *)
      | m :: _ => Some m
      end.

    (** one iteration after the breakpoint test: the stride that is recorded *)
    Definition walk_stride (st : state) (pendings : list json) : stride * bool :=
      let o := step s st (peek pendings) in
      let stride0 :=
        match so_stride o with
        | Some sd => sd
        | None => mk_stride (copy_state st) None None []
        end in
      match so_err o with
      | Some _ =>
          if String.eqb (st_node st) error_node_literal then (stride0, so_ambiguous o)
          else
            (mk_stride (sd_from stride0)
                       (Some (mk_state error_node_literal
                                       (Some (error_bindings (copy_bs (st_bs st)) err_text st))))
                       (sd_consumed stride0) (sd_emitted stride0), so_ambiguous o)
      | None => (stride0, so_ambiguous o)
      end.

    Fixpoint walk_loop (limit : nat) (st : state) (pendings : list json)
             (acc : list stride) (amb : bool) : walked * bool :=
      match limit with
      | O => (mk_walked (rev acc) pendings Limited, amb)
      | S n =>
          if bp st then (mk_walked (rev acc) pendings BreakpointReached, amb)
          else
            let '(sd, a) := walk_stride st pendings in
            let amb' := amb || a in
            let acc' := sd :: acc in
            let pendings' :=
              match sd_consumed sd with
              | Some _ => tl pendings
              | None => pendings
              end in
            match sd_to sd with
            | None =>
                match pendings' with
                | [] => (mk_walked (rev acc') [] Done, amb')
                | _ =>
                    match sd_consumed sd with
                    | None => (mk_walked (rev acc') [] Done, amb')
                    | Some _ => walk_loop n st pendings' acc' amb'
                    end
                end
            | Some t => walk_loop n (copy_state t) pendings' acc' amb'
            end
      end.

    Definition walk (limit : nat) (st : state) (pendings : list json) : walked * bool :=
      walk_loop limit st pendings [] false.
  End Walk.
End Engine.

Arguments mk_branch {action}.
Arguments mk_branching {action}.
Arguments mk_node {action}.
Arguments mk_spec {action}.
Arguments br_pattern {action}.
Arguments br_guard {action}.
Arguments br_target {action}.
Arguments bg_type {action}.
Arguments bg_branches {action}.
Arguments nd_action {action}.
Arguments nd_uncompiled {action}.
Arguments nd_branching {action}.
Arguments sp_nodes {action}.
Arguments sp_err_branches {action}.
Arguments sp_err_node {action}.
Arguments sp_compiled {action}.
Arguments find_node {action}.
