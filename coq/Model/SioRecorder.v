(** The recorder machines of the sio correspondence: the concrete
    specification sources and reaction function with which [Model/SioCrew.v]
    is run.  harness/sio.go renders every [rcfg] as a real sheens
    specification (nodes start/rec1/flip/rec2, one ECMAScript action) whose
    behaviour is [rreact]:

    - the message is matched by the pattern "?m" (any message);
    - the action appends the digest [[tag, from]] of the message to the
      binding [log], sets [by] to the specification's label and emits the
      members of the message's [then] list (in order, reversed, or not at
      all), stamping every emitted object with [from] = the machine's id;
    - the machine alternates between the nodes "start" and "flip";
    - mode idle: the action changes nothing and the machine returns to the
      node it was at (a walk that ends in the state it started from);
    - mode deaf: the pattern matches no generated message (no walk).

    [RNamed] is no recorder: it stands for a specification source that
    carries only a name, [{"name": label}] - neither "inline" nor "url" -
    which [ResolveSpecSource] resolves to nothing ([rresolves] = false): a
    machine given such a source has no specification. *)
From Sheens Require Export Model.SioCrew.

Inductive rmode : Type := RFwd | RRev | RMute | RIdle | RDeaf | RNamed.
Record rcfg : Type := mk_rcfg { rc_label : string; rc_mode : rmode }.

Definition rmode_eqb (a b : rmode) : bool :=
  match a, b with
  | RFwd, RFwd | RRev, RRev | RMute, RMute | RIdle, RIdle | RDeaf, RDeaf | RNamed, RNamed => true
  | _, _ => false
  end.
Definition rcfg_eqb (a b : rcfg) : bool :=
  String.eqb (rc_label a) (rc_label b) && rmode_eqb (rc_mode a) (rc_mode b).

Definition tag_of (msg : json) : json :=
  match msg with
  | JObj kvs => match assoc "tag" kvs with Some t => t | None => JNull end
  | _ => msg
  end.
Definition from_of (msg : json) : json :=
  match msg with
  | JObj kvs => match assoc "from" kvs with Some t => t | None => JNull end
  | _ => JNull
  end.
Definition digest (msg : json) : json := JArr [tag_of msg; from_of msg].

Definition then_of (msg : json) : list json :=
  match msg with
  | JObj kvs => match assoc "then" kvs with Some (JArr l) => l | _ => [] end
  | _ => []
  end.
Definition stamp (m : mid) (e : json) : json :=
  match e with
  | JObj kvs => JObj (bset "from" (JStr m) kvs)
  | _ => e
  end.

(** what a recorder with this configuration emits when it sees [msg] *)
Definition rec_emissions (cfg : rcfg) (m : mid) (msg : json) : list json :=
  match rc_mode cfg with
  | RFwd => map (stamp m) (then_of msg)
  | RRev => map (stamp m) (rev (then_of msg))
  | _ => []
  end.

Definition log_of (bs : bindings) : list json :=
  match lookup "log" bs with Some (JArr l) => l | _ => [] end.

Definition flip_node (n : string) : option string :=
  if String.eqb n "start" then Some "flip"
  else if String.eqb n "flip" then Some "start" else None.

Definition rreact (cfg : rcfg) (m : mid) (st : mstate) (msg : json) : option mstate * list json :=
  match flip_node (ms_node st) with
  | None => (None, [])                              (* not exercised: a node the specification lacks *)
  | Some n' =>
      match rc_mode cfg with
      | RDeaf | RNamed => (None, [])               (* [RNamed]: never reached, no machine has such a source *)
      | RIdle => (Some (mk_ms (ms_node st) (bremove "?m" (ms_bs st))), [])
      | _ =>
          let bs := bremove "?m" (ms_bs st) in
          let bs1 := bset "log" (JArr (log_of bs ++ [digest msg])) bs in
          (Some (mk_ms n' (bset "by" (JStr (rc_label cfg)) bs1)), rec_emissions cfg m msg)
      end
  end.

Definition parse_mode (s : string) : option rmode :=
  if String.eqb s "fwd" then Some RFwd
  else if String.eqb s "rev" then Some RRev
  else if String.eqb s "mute" then Some RMute
  else if String.eqb s "idle" then Some RIdle
  else if String.eqb s "deaf" then Some RDeaf
  else None.

(** the sources [ResolveSpecSource] finds a specification for *)
Definition rresolves (cfg : rcfg) : bool :=
  match rc_mode cfg with RNamed => false | _ => true end.

(** the "spec" member of a machine in a crew operation, in the form the
    harness hands to the model: the inline specification reduced to its
    name (label) and doc (mode); a source with neither "inline" nor "url"
    and a name is the name-only source *)
Definition rdecode (j : json) : option rcfg :=
  match j with
  | JObj kvs =>
      match assoc "inline" kvs with
      | Some (JObj sp) =>
          match assoc "name" sp, assoc "doc" sp with
          | Some (JStr l), Some (JStr d) =>
              match parse_mode d with Some md => Some (mk_rcfg l md) | None => None end
          | _, _ => None
          end
      | None =>
          match assoc "url" kvs, assoc "name" kvs with
          | None, Some (JStr l) => Some (mk_rcfg l RNamed)
          | _, _ => None
          end
      | _ => None
      end
  | _ => None
  end.

(** the order oracle used for execution: the identity (lists are kept
    sorted by id); comparisons with Go are made on canonical forms *)
Definition ord_id (A : Type) (l : list (mid * A)) : list (mid * A) := l.

Definition rcrew := crew rcfg.
Definition r_process_msg := process_msg rcfg rreact rdecode rresolves rcfg_eqb ord_id.
Definition r_hstep := hstep rcfg rreact rdecode rresolves rcfg_eqb ord_id.
Definition r_run_history := run_history rcfg rreact rdecode rresolves rcfg_eqb ord_id.
Definition r_boot := boot rcfg rresolves ord_id.
Definition r_set_machine := set_machine rcfg rresolves.
Definition r_delete_machine := delete_machine rcfg.
