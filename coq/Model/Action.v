(** The small deterministic action language used to exercise the engine, and
    its two semantics: as an ECMAScript source run by
    interpreters/ecmascript (Interpreter.Exec: deep copy of the bindings,
    emissions buffered in the Execution and dropped with it on failure, the
    returned value exported and canonicalised) and as a native Go closure.
    The harness renders the same programs as ECMAScript text and as Go
    closures; this file says what they must do. *)
From Sheens Require Export Model.Step.

Inductive aop : Type :=
| AEmit (j : json)                 (* _.out(j) *)
| AEmitBinding (k : string)        (* _.out({"got": bindings[k] or null}) *)
| ASet (k : string) (j : json)     (* bindings[k] = j *)
| ACopy (dst src : string)         (* if src in bindings: bindings[dst] = bindings[src] *)
| ADel (k : string)                (* delete bindings[k] *)
| ADelAll                          (* delete every binding *)
| APoke (k : string)               (* mutate the value of bindings[k] in place, below the top level *)
| ACountGlobal (k : string).       (* Math.vc = (Math.vc || 0) + 1; bindings[k] = Math.vc  -- a fresh runtime: always 1 *)

Inductive aterm : Type :=
| TRetBindings                     (* return _.bindings *)
| TRetFresh (kvs : bindings)       (* return an object literal *)
| TRetNull                         (* return null *)
| TRetNonObject                    (* return 42 *)
| TThrow                           (* throw "boom" *)
| TLoop                            (* for(;;){} : stopped by the deadline *)
| TEmitBad                         (* _.out(function(){}) : unserialisable *)
| TRetBad                          (* return {x: function(){}} / {x: 0/0} : not JSON data *)
| TRetIfEq (k : string) (j : json). (* return (bindings[k] === j) ? _.bindings : null  (j scalar) *)

Record prog : Type := mk_prog { pg_ops : list aop; pg_term : aterm }.

(** how a native closure reports failure: with or without a partial Execution *)
Inductive act : Type :=
| Js (p : prog)
| Native (p : prog) (exe_on_error : bool).

(** in-place mutation below the top level: an object gains "poked": 1 (also
    the first element of an array when it is an object); the first element
    of any other non-empty array is replaced by 1 *)
Definition poke (v : json) : json :=
  match v with
  | JObj kvs => JObj (bset "poked" (JNum 4) kvs)
  | JArr (JObj kvs :: r) => JArr (JObj (bset "poked" (JNum 4) kvs) :: r)
  | JArr (_ :: r) => JArr (JNum 4 :: r)
  | _ => v
  end.

(** run the mutate/emit operations on a private copy; None = the script
    touched absent (nil) bindings and raised *)
Fixpoint run_ops (ops : list aop) (b : option bindings) (em : list json)
  : option bindings * list json * bool (* failed *) :=
  match ops with
  | [] => (b, em, false)
  | op :: r =>
      match op with
      | AEmit j => run_ops r b (em ++ [j])
      | _ =>
          match b with
          | None => (b, em, true)
          | Some bs =>
              match op with
              | AEmit j => run_ops r b (em ++ [j])
              | AEmitBinding k =>
                  run_ops r b (em ++ [JObj [("got", match lookup k bs with Some v => v | None => JNull end)]])
              | ASet k j => run_ops r (Some (bset k j bs)) em
              | ACopy dst src =>
                  match lookup src bs with
                  | Some v => run_ops r (Some (bset dst v bs)) em
                  | None => run_ops r b em
                  end
              | ADel k => run_ops r (Some (bremove k bs)) em
              | ADelAll => run_ops r (Some []) em
              | APoke k =>
                  match lookup k bs with
                  | Some v => run_ops r (Some (bset k (poke v) bs)) em
                  | None => run_ops r b em
                  end
              | ACountGlobal k => run_ops r (Some (bset k (JNum 4) bs)) em
              end
          end
      end
  end.

(** Interpreter.Exec for a rendered program *)
Definition run_js (p : prog) (bs : option bindings) : exec_raw :=
  let '(b, em, failed) := run_ops (pg_ops p) bs [] in
  if failed then mk_raw None true
  else
    match pg_term p with
    | TRetBindings => mk_raw (Some (b, em)) false       (* undefined exports as nil *)
    | TRetFresh kvs => mk_raw (Some (Some kvs, em)) false
    | TRetNull => mk_raw (Some (None, em)) false
    | TRetNonObject => mk_raw None true
    | TThrow => mk_raw None true
    | TLoop => mk_raw None true
    | TEmitBad => mk_raw None true
    | TRetBad => mk_raw None true
    | TRetIfEq k j =>
        match b with
        | None => mk_raw None true
        | Some bs =>
            match lookup k bs with
            | Some v => if json_eqb v j then mk_raw (Some (b, em)) false else mk_raw (Some (None, em)) false
            | None => mk_raw (Some (None, em)) false
            end
        end
    end.

(** the native rendering: same effects; on failure either (nil, err) or the
    partial Execution with the error *)
Definition run_native (p : prog) (exe_on_error : bool) (bs : option bindings) : exec_raw :=
  let '(b, em, failed) := run_ops (pg_ops p) bs [] in
  let fail := if exe_on_error then mk_raw (Some (b, em)) true else mk_raw None true in
  if failed then fail
  else
    match pg_term p with
    | TRetBindings => mk_raw (Some (b, em)) false
    | TRetFresh kvs => mk_raw (Some (Some kvs, em)) false
    | TRetNull => mk_raw (Some (None, em)) false
    | TRetNonObject => fail
    | TThrow => fail
    | TLoop => fail
    | TEmitBad => fail
    | TRetBad => fail
    | TRetIfEq k j =>
        match b with
        | None => fail
        | Some bs =>
            match lookup k bs with
            | Some v => if json_eqb v j then mk_raw (Some (b, em)) false else mk_raw (Some (None, em)) false
            | None => mk_raw (Some (None, em)) false
            end
        end
    end.

Definition run_act (a : act) (bs : option bindings) : exec_raw :=
  match a with
  | Js p => run_js p bs
  | Native p e => run_native p e bs
  end.

Definition aspec := spec act.
Definition astep := step act run_act.
Definition awalk := walk act run_act.
