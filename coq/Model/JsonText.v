(** The JSON *text* fragment used for branch patterns written under
    [patternSyntax: json]: objects, arrays, strings without escapes,
    integers and quarter fractions, true / false / null.

    [print] models [encoding/json.Marshal] and [parse] models
    [encoding/json.Unmarshal] into an [interface{}] on that fragment
    (Unmarshal additionally forgets the order of the members of an object:
    see [canonicalize] in Model/Compile.v).  Both are under correspondence:
    the harness feeds the texts Go produced to [parse] and compares what
    Go's decoder returned, and compares [print] with Go's encoder.

    Outside the fragment (escapes, exponents, fractions that are not
    quarters, control characters) [parse] answers [None]; the harness never
    generates such texts.  A number [JNum z] stands for z/4. *)
From Sheens Require Export Model.Json.
From Coq Require Import Decimal DecimalN NArith.
Local Open Scope char_scope.

(** * Characters *)
Definition chars (s : string) : list ascii := list_ascii_of_string s.

Definition is_ws (c : ascii) : bool :=
  match c with
  | " " | "009" | "010" | "013" => true
  | _ => false
  end.

Fixpoint skip_ws (cs : list ascii) : list ascii :=
  match cs with
  | c :: r => if is_ws c then skip_ws r else cs
  | [] => []
  end.

(** a character that may stand unescaped inside a string literal *)
Definition plain_char (c : ascii) : bool :=
  match c with
  | """" | "\" => false
  | _ => Nat.leb 32 (nat_of_ascii c)
  end.

(** * Numbers *)
Definition digit_con (c : ascii) : option (uint -> uint) :=
  match c with
  | "0" => Some D0 | "1" => Some D1 | "2" => Some D2 | "3" => Some D3 | "4" => Some D4
  | "5" => Some D5 | "6" => Some D6 | "7" => Some D7 | "8" => Some D8 | "9" => Some D9
  | _ => None
  end.

Fixpoint chars_of_uint (u : uint) : list ascii :=
  match u with
  | Nil => []
  | D0 u => "0" :: chars_of_uint u | D1 u => "1" :: chars_of_uint u
  | D2 u => "2" :: chars_of_uint u | D3 u => "3" :: chars_of_uint u
  | D4 u => "4" :: chars_of_uint u | D5 u => "5" :: chars_of_uint u
  | D6 u => "6" :: chars_of_uint u | D7 u => "7" :: chars_of_uint u
  | D8 u => "8" :: chars_of_uint u | D9 u => "9" :: chars_of_uint u
  end.

(** the longest prefix of digits *)
Fixpoint scan_digits (cs : list ascii) : uint * list ascii :=
  match cs with
  | c :: r =>
      match digit_con c with
      | Some d => let '(u, rest) := scan_digits r in (d u, rest)
      | None => (Nil, cs)
      end
  | [] => (Nil, [])
  end.

Definition frac_chars (r : N) : list ascii :=
  match r with
  | 0%N => []
  | 1%N => chars ".25"
  | 2%N => chars ".5"
  | _ => chars ".75"
  end.

(** |z|/4 in decimal *)
Definition print_unsigned (n : N) : list ascii :=
  chars_of_uint (N.to_uint (n / 4)) ++ frac_chars (n mod 4).

Definition print_num (z : Z) : list ascii :=
  (if Z.ltb z 0 then ["-"] else []) ++ print_unsigned (Z.abs_N z).

(** digits without a leading zero, optionally followed by a fraction that is a
    multiple of one quarter *)
Definition parse_unsigned (cs : list ascii) : option (N * list ascii) :=
  let '(u, r) := scan_digits cs in
  if negb (uint_beq u (unorm u)) then None      (* no digit, or a leading zero *)
  else
    let q := N.of_uint u in
    match r with
    | c :: r1 =>
        if Ascii.eqb c "." then
          let '(f, r2) := scan_digits r1 in
          match fst (nztail f) with          (* trailing zeros do not count: 2.50 is 2.5 *)
          | D2 (D5 Nil) => Some (4 * q + 1, r2)%N
          | D5 Nil => Some (4 * q + 2, r2)%N
          | D7 (D5 Nil) => Some (4 * q + 3, r2)%N
          | Nil => match f with Nil => None | _ => Some (4 * q, r2)%N end   (* 2.0 *)
          | _ => None
          end
        else Some (4 * q, r)%N
    | [] => Some (4 * q, [])%N
    end.

(** * Strings (no escapes) *)
Definition print_str (s : string) : list ascii := """" :: chars s ++ [""""].

(** the characters up to the closing quote *)
Fixpoint scan_str (cs : list ascii) : option (string * list ascii) :=
  match cs with
  | [] => None
  | c :: r =>
      if Ascii.eqb c """" then Some (EmptyString, r)
      else if plain_char c then
             match scan_str r with
             | Some (s, rest) => Some (String c s, rest)
             | None => None
             end
           else None
  end.

(** * The printer *)
Section Separated.
  Variable pr : json -> list ascii.
  Fixpoint sep_elems (r : list json) : list ascii :=
    match r with
    | [] => ["]"]
    | y :: r' => "," :: pr y ++ sep_elems r'
    end.
  Fixpoint sep_members (r : list (string * json)) : list ascii :=
    match r with
    | [] => ["}"]
    | kv :: r' => "," :: print_str (fst kv) ++ ":" :: pr (snd kv) ++ sep_members r'
    end.
End Separated.

Fixpoint print_l (j : json) : list ascii :=
  match j with
  | JNull => chars "null"
  | JBool true => chars "true"
  | JBool false => chars "false"
  | JNum z => print_num z
  | JStr s => print_str s
  | JArr l =>
      "[" :: match l with
             | [] => ["]"]
             | x :: r => print_l x ++ sep_elems print_l r
             end
  | JObj kvs =>
      "{" :: match kvs with
             | [] => ["}"]
             | (k, v) :: r => print_str k ++ ":" :: print_l v ++ sep_members print_l r
             end
  end.

Definition print (j : json) : string := string_of_list_ascii (print_l j).

(** * The parser (recursive descent; [fuel] bounds the number of values) *)
Fixpoint parse_val (fuel : nat) (cs : list ascii) {struct fuel} : option (json * list ascii) :=
  match fuel with
  | O => None
  | S f =>
      match skip_ws cs with
      | "{" :: r =>
          match skip_ws r with
          | c :: r' => if Ascii.eqb c "}" then Some (JObj [], r') else parse_members f (c :: r') []
          | [] => None
          end
      | "[" :: r =>
          match skip_ws r with
          | c :: r' => if Ascii.eqb c "]" then Some (JArr [], r') else parse_elems f (c :: r') []
          | [] => None
          end
      | """" :: r =>
          match scan_str r with
          | Some (s, r') => Some (JStr s, r')
          | None => None
          end
      | "t" :: "r" :: "u" :: "e" :: r => Some (JBool true, r)
      | "f" :: "a" :: "l" :: "s" :: "e" :: r => Some (JBool false, r)
      | "n" :: "u" :: "l" :: "l" :: r => Some (JNull, r)
      | "-" :: r =>
          match parse_unsigned r with
          | Some (n, r') => Some (JNum (- Z.of_N n), r')
          | None => None
          end
      | c :: r =>
          match parse_unsigned (c :: r) with
          | Some (n, r') => Some (JNum (Z.of_N n), r')
          | None => None
          end
      | [] => None
      end
  end
with parse_elems (fuel : nat) (cs : list ascii) (acc : list json) {struct fuel}
  : option (json * list ascii) :=
  match fuel with
  | O => None
  | S f =>
      match parse_val f cs with
      | Some (v, r) =>
          match skip_ws r with
          | "," :: r' => parse_elems f r' (v :: acc)
          | "]" :: r' => Some (JArr (List.rev (v :: acc)), r')
          | _ => None
          end
      | None => None
      end
  end
with parse_members (fuel : nat) (cs : list ascii) (acc : list (string * json)) {struct fuel}
  : option (json * list ascii) :=
  match fuel with
  | O => None
  | S f =>
      match skip_ws cs with
      | """" :: r =>
          match scan_str r with
          | Some (k, r1) =>
              match skip_ws r1 with
              | ":" :: r2 =>
                  match parse_val f r2 with
                  | Some (v, r3) =>
                      match skip_ws r3 with
                      | "," :: r4 => parse_members f r4 ((k, v) :: acc)
                      | "}" :: r4 => Some (JObj (List.rev ((k, v) :: acc)), r4)
                      | _ => None
                      end
                  | None => None
                  end
              | _ => None
              end
          | None => None
          end
      | _ => None
      end
  end.

(** one value, then nothing but white space *)
Definition parse_chars (cs : list ascii) : option json :=
  match parse_val (S (List.length cs)) cs with
  | Some (j, r) => match skip_ws r with [] => Some j | _ => None end
  | None => None
  end.

Definition parse (s : string) : option json := parse_chars (list_ascii_of_string s).

(** * The fragment: every string (keys included) is made of plain characters *)
Fixpoint plain_string (s : string) : bool :=
  match s with
  | EmptyString => true
  | String c r => plain_char c && plain_string r
  end.

Fixpoint plain_json (j : json) : bool :=
  match j with
  | JStr s => plain_string s
  | JArr l => forallb plain_json l
  | JObj kvs => forallb (fun kv => plain_string (fst kv) && plain_json (snd kv)) kvs
  | _ => true
  end.
