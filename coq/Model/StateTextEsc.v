(** The JSON form of a machine state on the text model *with string escapes*
    (Model/JsonTextEsc.v): node names, binding names and bound strings may
    contain quotes, backslashes, control characters, [<], [>], [&].

    The value level is shared with Model/StateText.v ([state_json],
    [state_of_json]); only the printer and the parser are swapped. *)
From Sheens Require Export Model.StateText Model.JsonTextEsc.

Definition encode_state_esc (st : state) : string := print_esc (state_json st).

Definition decode_state_esc (s : string) : option state :=
  match parse_esc s with
  | Some j => state_of_json j
  | None => None
  end.

(** states all of whose strings (node name, binding names, bound values) are
    made of bytes below 128: the states on which the text model is exactly
    what encoding/json does *)
Definition ascii_state (st : state) : bool :=
  ascii_string (st_node st) &&
  match st_bs st with Some b => ascii_json (JObj b) | None => true end.

(** states that need no escape at all *)
Definition noesc_state (st : state) : bool :=
  noesc_string (st_node st) &&
  match st_bs st with Some b => noesc_json (JObj b) | None => true end.
